//@ inject crate=core src=quic/s2n-quic-core/src/buffer/reassembler/slot.rs
// Contract harnesses for `Slot` (properties C16 and C01: the modular Reassembler harnesses in
// c16_reassembler.rs assume exactly the `slot_*` predicates asserted here).
//
// View of a slot: (start, filled bytes, end_allocated)  ==  SlotV { start, len, end_alloc } + "byte stored for
// stream offset w" (symbolic witness w; content cannot be phrased in the i128 sub-language).
// One-step pattern: arbitrary well-formed slot over a CAP-byte `BytesMut` (the constructor takes any buffer, the
// real 4096..65536-byte allocations are not needed to exercise the code), start offset / fill level / contents /
// request offset / request bytes all symbolic => level=bounded, bound = buffer and request size.
// The crate's own `Slot::invariants()` and every `unsafe { assume!(..) }` guard panic in the dev profile and are
// therefore additional obligations of every harness (reported under <harness>/safety).
use super::*;
use crate::buffer::reader::Storage as _;
use crate::buffer::reassembler::request::Request;
#[allow(dead_code, unused_variables)]
mod spec {
    include!("../../spec/reassembly.rs");
}
use spec::*;

const MAXV: u64 = crate::varint::MAX_VARINT_VALUE;
/// capacity of the slot buffers built by the harnesses
const CAP: usize = 8;
/// maximum request payload
const DLEN: usize = 4;

/// Arbitrary well-formed slot: any start offset, any fill level 0..=CAP, any contents.
/// (Representation invariant = `Slot::invariants()`: capacity == end - start, len == end() - start.)
fn any_slot() -> Slot {
    any_slot_filled(kani::any())
}

/// same with the fill level given by the caller (concrete fill levels keep the `BytesMut` shape concrete)
fn any_slot_filled(k0: usize) -> Slot {
    let start: u64 = kani::any();
    kani::assume(start <= MAXV);
    let mut slot = Slot::new(start, start + CAP as u64, BytesMut::with_capacity(CAP));
    let bytes: [u8; CAP] = kani::any();
    // filled bytes are stream bytes (offset <= 2^62-1: `Request::new` rejects anything else)
    kani::assume(k0 <= CAP && start + k0 as u64 <= MAXV);
    slot.data.extend_from_slice(&bytes[..k0]);
    slot.invariants();
    slot
}

fn view(s: &Slot) -> SlotV {
    SlotV { start: s.start as i128, len: s.data.len() as i128, end_alloc: s.end as i128 }
}

/// the byte the slot stores for stream offset `w`, if any
fn byte_at(s: &Slot, w: u64) -> Option<u8> {
    if s.start <= w && w - s.start < s.data.len() as u64 {
        Some(s.data[(w - s.start) as usize])
    } else {
        None
    }
}

/// physical representation invariant (what `Slot::invariants()` asserts) + the integer view invariant
fn well_formed(s: &Slot) -> bool {
    s.invariants();
    slot_inv(view(s)) && s.data.capacity() as u64 == s.end - s.start
}

// ---- try_write_reader (write_reader_append / write_reader_split) ---------------------------------------------------

//@ harness props=C16,C01 tier=thorough level=bounded bound="slot buffer 8 bytes with 0 bytes filled, request <= 4 bytes; all offsets and bytes symbolic" timeout=2400 mem=12
//@ fn Slot::try_write_reader
//@ fn Slot::write_reader_append
//@ fn Slot::write_reader_split
#[kani::proof]
#[kani::unwind(3)]
fn vq_c16_slot_try_write_reader_fill0() {
    try_write_step(0, ANY);
}

/// position of the request relative to the filled part of the slot: one harness per class for the partially filled
/// slots (all classes in one harness did not finish in 20 minutes), `ANY` for the empty and the full slot
const ANY: u8 = 0;
const OVERLAP: u8 = 1; // request starts inside the filled bytes (duplicate prefix is trimmed)
const APPEND: u8 = 2; // request starts exactly at the end of the filled bytes
const GAP: u8 = 3; // request starts behind a gap (split) or beyond the allocation

/// one `try_write_reader` call on a slot with `k0` of its 8 bytes filled (shape concrete, everything else symbolic)
fn try_write_step(k0: usize, class: u8) {
    let mut slot = any_slot_filled(k0);
    let old = view(&slot);
    // witness stream offset: inside or just behind the allocation (slot_inv keeps every byte of the slot and of the
    // split-off slot inside [start, end_alloc); offsets further away are never part of either view)
    let dw: u8 = kani::any();
    kani::assume(dw as usize <= CAP + 1);
    let w: u64 = slot.start + dw as u64;
    let old_w = byte_at(&slot, w);

    let data: [u8; DLEN] = kani::any();
    let len: usize = kani::any();
    let fin: bool = kani::any();
    // request offset: `near` = at most 2 bytes behind the allocation (every branch of the function), or anywhere
    // further up to 2^62-1 (`far`: the request does not touch this slot)
    let far: bool = kani::any();
    let d: u8 = kani::any();
    let far_off: u64 = kani::any();
    kani::assume(d as usize <= CAP + 2);
    let off: u64 = if far { far_off } else { slot.start + d as u64 };
    // requires: start <= reader offset (debug_assert of the function; call sites: the slot search in
    // Reassembler::write_reader_impl, allocate_slot's alignment, the yield test in write_reader_with_alloc);
    // off + len <= 2^62-1 is the invariant of `Request::new`
    kani::assume(len <= DLEN && off >= slot.start && off <= MAXV - len as u64);
    kani::assume(!far || off > slot.start + (CAP + 2) as u64);
    let end = slot.start + k0 as u64;
    kani::assume(match class {
        // (payload <= 2 bytes in this class: with 4 bytes neither cadical nor kissat finished within 25 minutes)
        OVERLAP => off < end && len <= 2,
        APPEND => off == end,
        GAP => off > end,
        _ => true,
    });
    let mut req = Request::new(VarInt::new(off).unwrap(), &data[..len], fin).unwrap();
    let r = ReqV { off: off as i128, len: len as i128 };
    assert!(slot_write_pre(old, r), "C16/slot.try_write_reader/builder_establishes_pre");
    let final_before = req.final_offset();
    let flag_old: bool = kani::any();
    let mut flag = flag_old;

    let res = slot.try_write_reader(&mut req, &mut flag);

    let filled = match res {
        Ok(f) => f,
        Err(_) => unreachable!(),
    };
    let new = view(&slot);
    let rnew = ReqV { off: req.current_offset().as_u64() as i128, len: req.buffered_len() as i128 };
    let t = slot_write_trimmed(old, r);
    let n = slot_write_count(old, r);

    // geometry: exactly the spec predicates
    assert!(filled.is_some() == slot_write_splits(old, r), "C16/slot.try_write_reader/splits_iff_gap_before_data");
    assert!(slot_write_self(old, r, new), "C16/slot.try_write_reader/self_view");
    assert!(slot_write_reader(old, r, rnew), "C16/slot.try_write_reader/reader_advanced_by_stored_bytes");
    assert!(slot_write_flag(old, r, flag_old, flag), "C16/slot.try_write_reader/filled_flag_iff_reached_end_of_allocation");
    assert!(well_formed(&slot), "C16/slot.try_write_reader/inv_preserved");
    assert!(req.final_offset() == final_before, "C16/slot.try_write_reader/reader_fin_unchanged");
    let mut new_w = byte_at(&slot, w);
    // the split-off slot (obligations hold trivially when the call does not split)
    let (f_view, f_inv, f_adjacent) = match filled.as_ref() {
        Some(f) => {
            if new_w.is_none() {
                new_w = byte_at(f, w);
            }
            (
                slot_write_filled(old, r, view(f)),
                well_formed(f),
                // the two halves stay adjacent in memory: what `unsplit` later relies on
                unsafe { slot.data.as_ptr().add(slot.data.capacity()) } == f.data.as_ptr(),
            )
        }
        None => (true, true, true),
    };
    assert!(f_view, "C16/slot.try_write_reader/filled_view");
    assert!(f_inv, "C16/slot.try_write_reader/filled_inv");
    assert!(f_adjacent, "C16/slot.try_write_reader/halves_adjacent_in_memory");
    // content: stored bytes never change, the new bytes are the request's, nothing else appears
    let wi = w as i128;
    let expect = if old_w.is_some() {
        old_w
    } else if n > 0 && t.off <= wi && wi < t.off + n {
        Some(data[(w - off) as usize])
    } else {
        None
    };
    assert!(new_w == expect, "C16/slot.try_write_reader/content_is_old_plus_request_bytes");
    // the reader still holds exactly the bytes that were not stored
    let rest = match req.read_chunk(usize::MAX) {
        Ok(c) => c,
        Err(_) => unreachable!(),
    };
    assert!(rest.len() as i128 == rnew.len, "C16/slot.try_write_reader/reader_rest_len");
    let j: usize = kani::any();
    assert!(j >= rest.len() || rest[j] == data[(rnew.off - r.off) as usize + j], "C16/slot.try_write_reader/reader_rest_bytes");

    // reachability of every branch; a scenario that cannot occur at this (concrete) fill level / request class counts
    // as covered
    let partial = k0 < CAP;
    let some = k0 > 0;
    let cls = |c: u8| class == ANY || class == c;
    let gap_possible = k0 + 2 <= CAP && cls(GAP);
    kani::cover!(!(partial && cls(APPEND)) || (filled.is_none() && n > 0 && t.off == r.off), "reach:append");
    kani::cover!(!(partial && some && cls(OVERLAP)) || (filled.is_none() && n > 0 && t.off > r.off), "reach:append_after_trimming_overlap");
    kani::cover!(!gap_possible || (filled.is_some() && n == len as i128), "reach:split_whole_request");
    kani::cover!(!gap_possible || (filled.is_some() && rnew.len > 0), "reach:split_truncated_at_end_of_allocation");
    kani::cover!(
        !(partial && CAP - k0 < DLEN && cls(APPEND)) || (filled.is_none() && n > 0 && rnew.len > 0),
        "reach:append_truncated_at_end_of_allocation"
    );
    kani::cover!(partial || (slot_is_full(old) && rnew.len > 0), "reach:already_full");
    kani::cover!(!(partial && cls(GAP)) || (n == 0 && t.len > 0), "reach:request_beyond_allocation");
    kani::cover!(!(some && cls(OVERLAP)) || (n == 0 && t.len == 0 && len > 0), "reach:request_entirely_duplicate");
    kani::cover!(len == 0, "reach:empty_request");
    kani::cover!(!(partial && (cls(GAP) || (cls(APPEND) && CAP - k0 <= DLEN))) || (flag && !flag_old), "reach:flag_raised");
    kani::cover!(!(partial && some) || (old_w.is_some() && n > 0), "reach:witness_in_old_bytes");
    kani::cover!(!partial || (old_w.is_none() && new_w.is_some()), "reach:witness_in_new_bytes");
    kani::cover!(class == GAP || slot_end(old) == MAXV as i128, "reach:filled_up_to_max_offset");
    kani::cover!(!partial || old.end_alloc > MAXV as i128, "reach:allocation_reaches_beyond_max_offset");
    kani::cover!(!cls(GAP) || (far && n == 0 && rnew.len == len as i128), "reach:far_request_untouched");
}

//@ harness props=C16,C01 tier=thorough level=bounded bound="slot buffer 8 bytes with 3 bytes filled, request <= 2 bytes starting inside the filled bytes; all offsets and bytes symbolic" timeout=1500 mem=12
//@ fn Slot::try_write_reader
//@ fn Slot::write_reader_append
//@ fn Slot::write_reader_split
#[kani::proof]
#[kani::unwind(3)]
fn vq_c16_slot_try_write_reader_fill3_overlap() {
    try_write_step(3, OVERLAP);
}

//@ harness props=C16,C01 tier=thorough level=bounded bound="slot buffer 8 bytes with 3 bytes filled, request <= 4 bytes starting at the end of the filled bytes; all offsets and bytes symbolic" timeout=1500 mem=12
//@ fn Slot::try_write_reader
//@ fn Slot::write_reader_append
//@ fn Slot::write_reader_split
#[kani::proof]
#[kani::unwind(3)]
fn vq_c16_slot_try_write_reader_fill3_append() {
    try_write_step(3, APPEND);
}

//@ harness props=C16,C01 tier=thorough level=bounded bound="slot buffer 8 bytes with 3 bytes filled, request <= 4 bytes starting behind a gap or beyond the allocation; all offsets and bytes symbolic" timeout=1500 mem=12
//@ fn Slot::try_write_reader
//@ fn Slot::write_reader_append
//@ fn Slot::write_reader_split
#[kani::proof]
#[kani::unwind(3)]
fn vq_c16_slot_try_write_reader_fill3_gap() {
    try_write_step(3, GAP);
}

//@ harness props=C16,C01 tier=thorough level=bounded bound="slot buffer 8 bytes with 6 bytes filled, request <= 2 bytes starting inside the filled bytes; all offsets and bytes symbolic" timeout=1500 mem=12
//@ fn Slot::try_write_reader
//@ fn Slot::write_reader_append
//@ fn Slot::write_reader_split
#[kani::proof]
#[kani::unwind(3)]
fn vq_c16_slot_try_write_reader_fill6_overlap() {
    try_write_step(6, OVERLAP);
}

//@ harness props=C16,C01 tier=thorough level=bounded bound="slot buffer 8 bytes with 6 bytes filled, request <= 4 bytes starting at the end of the filled bytes; all offsets and bytes symbolic" timeout=1500 mem=12
//@ fn Slot::try_write_reader
//@ fn Slot::write_reader_append
//@ fn Slot::write_reader_split
#[kani::proof]
#[kani::unwind(3)]
fn vq_c16_slot_try_write_reader_fill6_append() {
    try_write_step(6, APPEND);
}

//@ harness props=C16,C01 tier=thorough level=bounded bound="slot buffer 8 bytes with 6 bytes filled, request <= 4 bytes starting behind a gap or beyond the allocation; all offsets and bytes symbolic" timeout=1500 mem=12
//@ fn Slot::try_write_reader
//@ fn Slot::write_reader_append
//@ fn Slot::write_reader_split
#[kani::proof]
#[kani::unwind(3)]
fn vq_c16_slot_try_write_reader_fill6_gap() {
    try_write_step(6, GAP);
}

//@ harness props=C16,C01 tier=thorough level=bounded bound="full slot (8 of 8 bytes), request <= 4 bytes; all offsets and bytes symbolic" timeout=1500 mem=12
//@ fn Slot::try_write_reader
#[kani::proof]
#[kani::unwind(3)]
fn vq_c16_slot_try_write_reader_full() {
    try_write_step(8, ANY);
}

// ---- unsplit -------------------------------------------------------------------------------------------------------

//@ harness props=C16,C01 tier=quick level=bounded bound="two adjacent slots carved from one 8-byte buffer at split point 3, second one filled to the end; offsets, bytes symbolic" timeout=600 mem=12
//@ fn Slot::unsplit
#[kani::proof]
#[kani::unwind(3)]
fn vq_c16_slot_unsplit_full() {
    unsplit_step(3, 5);
}

/// builder: a full slot `a` = [start, start+m) and its right neighbour `b` = [start+m, start+CAP) with kb >= 1 bytes
/// filled, carved from one allocation exactly the way write_reader_split does (BytesMut::split_off).
/// The shape (m, kb) is concrete per harness (symbolic sizes make BytesMut::unsplit's copy fallback explode: 15 GB).
fn unsplit_step(m: usize, kb: usize) {
    let start: u64 = kani::any();
    kani::assume(start <= MAXV && start + (m + kb) as u64 <= MAXV);
    let bytes: [u8; CAP] = kani::any();
    let mut whole = BytesMut::with_capacity(CAP);
    whole.extend_from_slice(&bytes[..m + kb]);
    let tail = whole.split_off(m);
    let mut a = Slot { start, end: start + m as u64, data: whole };
    let b = Slot { start: start + m as u64, end: start + CAP as u64, data: tail };
    assert!(well_formed(&a) && well_formed(&b), "C16/slot.unsplit/builder_well_formed");
    let (va, vb) = (view(&a), view(&b));
    assert!(slot_unsplit_pre(va, vb), "C16/slot.unsplit/builder_establishes_pre");
    let w: u64 = kani::any();
    let old_w = match byte_at(&a, w) {
        Some(x) => Some(x),
        None => byte_at(&b, w),
    };

    a.unsplit(b);

    assert!(slot_unsplit_post(va, vb, view(&a)), "C16/slot.unsplit/view_is_concatenation");
    assert!(well_formed(&a), "C16/slot.unsplit/inv_preserved");
    assert!(byte_at(&a, w) == old_w, "C16/slot.unsplit/content_is_concatenation");
    kani::cover!(old_w.is_some() && w >= start + m as u64, "reach:witness_in_second_half");
    kani::cover!(old_w.is_some() && w < start + m as u64, "reach:witness_in_first_half");
    kani::cover!(m + kb == CAP || start + CAP as u64 > MAXV, "reach:allocation_reaches_beyond_max_offset");
}

//@ harness props=C16,C01 tier=quick level=bounded bound="two adjacent slots carved from one 8-byte buffer at split point 5, second one partially filled (2 of 3); offsets, bytes symbolic" timeout=600 mem=12
//@ fn Slot::unsplit
#[kani::proof]
#[kani::unwind(3)]
fn vq_c16_slot_unsplit_partial() {
    unsplit_step(5, 2);
}

// ---- skip / skip_until -----------------------------------------------------------------------------------------------

//@ harness props=C16,C01 tier=quick level=bounded bound="slot buffer 8 bytes; offsets, fill level, target symbolic" timeout=600 mem=12
//@ fn Slot::skip_until
//@ fn Slot::skip
#[kani::proof]
#[kani::unwind(3)]
fn vq_c16_slot_skip_until() {
    let mut slot = any_slot();
    let old = view(&slot);
    let w: u64 = kani::any();
    let old_w = byte_at(&slot, w);
    let t: u64 = kani::any();
    // requires: t <= end_allocated (call site Reassembler::skip: slots with end_allocated < t are dropped before the
    // call, reassembler.rs:481-486) and t is a VarInt
    kani::assume(t <= slot.end && t <= MAXV);
    assert!(slot_skip_until_pre(old, t as i128), "C16/slot.skip_until/builder_establishes_pre");

    let res = slot.skip_until(VarInt::new(t).unwrap());

    assert!(res.is_ok(), "C16/slot.skip_until/infallible");
    let new = view(&slot);
    assert!(slot_skip_until_post(old, t as i128, new), "C16/slot.skip_until/view");
    assert!(well_formed(&slot), "C16/slot.skip_until/inv_preserved");
    let expect = if w >= t { old_w } else { None };
    assert!(byte_at(&slot, w) == expect, "C16/slot.skip_until/content_is_suffix");
    assert!(slot.should_drop() == (t as i128 == old.end_alloc), "C16/slot.skip_until/should_drop_iff_skipped_everything");
    kani::cover!(t as i128 <= old.start, "reach:target_below_start_noop");
    kani::cover!(t as i128 > old.start && (t as i128) < slot_end(old), "reach:skip_inside_filled");
    kani::cover!(t as i128 > slot_end(old) && (t as i128) < old.end_alloc, "reach:skip_into_unfilled");
    kani::cover!(t as i128 == old.end_alloc && old.len > 0, "reach:skip_everything");
    kani::cover!(old_w.is_some() && w >= t, "reach:witness_survives");
    kani::cover!(old_w.is_some() && w < t, "reach:witness_skipped");
}

// ---- consume / read_chunk ------------------------------------------------------------------------------------------

//@ harness props=C16,C01 tier=quick level=bounded bound="slot buffer 8 bytes; offsets, fill level, watermark symbolic" timeout=600 mem=12
//@ fn Slot::consume
//@ fn Slot::read_chunk
#[kani::proof]
#[kani::unwind(3)]
fn vq_c16_slot_consume_read_chunk() {
    let mut slot = any_slot();
    let old = view(&slot);
    let w: u64 = kani::any();
    let old_w = byte_at(&slot, w);
    let use_consume: bool = kani::any();
    let watermark: usize = kani::any();

    let (chunk, owned): (BytesMut, bool) = if use_consume {
        (slot.consume(), true)
    } else {
        match slot.read_chunk(watermark) {
            Ok(reader::storage::Chunk::BytesMut(c)) => (c, true),
            _ => (BytesMut::new(), false),
        }
    };
    // (Reassembler::read_chunk relies on it: `let Chunk::BytesMut(chunk) = .. else { assume!(false) }`)
    assert!(owned, "C16/slot.read_chunk/returns_owned_bytes");

    let new = view(&slot);
    let n = chunk.len() as i128;
    if use_consume {
        assert!(slot_consume_post(old, new, n), "C16/slot.consume/view");
        assert!(slot.should_drop(), "C16/slot.consume/slot_is_dropped_afterwards");
        assert!(new.len == 0 && slot.data.capacity() == 0, "C16/slot.consume/nothing_left");
    } else {
        assert!(slot_read_chunk_post(old, watermark as i128, new, n), "C16/slot.read_chunk/view");
        assert!(well_formed(&slot), "C16/slot.read_chunk/inv_preserved");
    }
    // the chunk is exactly the first n filled bytes, the slot keeps exactly the rest
    let wi = w as i128;
    let in_chunk = old.start <= wi && wi < old.start + n;
    if in_chunk {
        assert!(Some(chunk[(w - old.start as u64) as usize]) == old_w, "C16/slot.pop/chunk_is_prefix_of_filled_bytes");
    }
    let expect_rest = if in_chunk { None } else { old_w };
    assert!(byte_at(&slot, w) == expect_rest, "C16/slot.pop/rest_stays_in_slot");
    kani::cover!(use_consume && n > 0, "reach:consume_nonempty");
    kani::cover!(!use_consume && n > 0 && n < old.len, "reach:read_chunk_limited_by_watermark");
    kani::cover!(!use_consume && n == old.len && n > 0 && slot_is_full(old), "reach:read_chunk_whole_full_slot");
    kani::cover!(!use_consume && n == old.len && n > 0 && !slot_is_full(old), "reach:read_chunk_whole_partial_slot");
    kani::cover!(!use_consume && n == 0, "reach:read_chunk_nothing");
    kani::cover!(in_chunk, "reach:witness_in_chunk");
    kani::cover!(old_w.is_some() && !in_chunk, "reach:witness_stays");
}

// ---- observers --------------------------------------------------------------------------------------------------------

//@ harness props=C16,C01 tier=quick level=bounded bound="slot buffer 8 bytes; offsets, fill level symbolic" timeout=600 mem=12
//@ fn Slot::new
//@ fn Slot::is_occupied
//@ fn Slot::is_full
//@ fn Slot::is_empty
//@ fn Slot::should_drop
//@ fn Slot::start
//@ fn Slot::end
//@ fn Slot::end_allocated
//@ fn Slot::as_slice
//@ fn Slot::buffered_len
#[kani::proof]
#[kani::unwind(3)]
fn vq_c16_slot_observers() {
    let mut slot = any_slot();
    let v = view(&slot);
    let prev: u64 = kani::any();
    assert!(slot.start() as i128 == v.start, "C16/slot.start/view");
    assert!(slot.end() as i128 == slot_end(v), "C16/slot.end/start_plus_filled");
    assert!(slot.end_allocated() as i128 == v.end_alloc, "C16/slot.end_allocated/view");
    assert!(slot.is_full() == slot_is_full(v), "C16/slot.is_full/iff_filled_to_end_of_allocation");
    assert!(slot.is_empty() == (v.len == 0), "C16/slot.is_empty/iff_no_bytes");
    assert!(slot.is_occupied(prev) == slot_is_occupied(v, prev as i128), "C16/slot.is_occupied/iff_nonempty_and_contiguous");
    assert!(slot.should_drop() == slot_should_drop(v), "C16/slot.should_drop/iff_nothing_allocated_left");
    assert!(slot.buffered_len() as i128 == v.len, "C16/slot.buffered_len/view");
    assert!(slot.buffer_is_empty() == (v.len == 0), "C16/slot.buffer_is_empty/view");
    assert!(slot.as_slice().len() as i128 == v.len, "C16/slot.as_slice/len");
    let w: u64 = kani::any();
    if let Some(b) = byte_at(&slot, w) {
        assert!(slot.as_slice()[(w - slot.start) as usize] == b, "C16/slot.as_slice/bytes");
    }
    assert!(slot.current_offset().as_u64() as i128 == v.start, "C16/slot.current_offset/view");
    // Slot::new: a fresh slot over any empty buffer of the right capacity has the view (start, [], end)
    let s2: u64 = kani::any();
    kani::assume(s2 <= MAXV);
    let fresh = Slot::new(s2, s2 + CAP as u64, BytesMut::with_capacity(CAP));
    let vf = view(&fresh);
    assert!(vf.start == s2 as i128 && vf.len == 0 && vf.end_alloc == s2 as i128 + CAP as i128, "C16/slot.new/view");
    assert!(well_formed(&fresh), "C16/slot.new/inv");
    // make `slot` mutable use explicit (no mutation happened): the observers are pure
    assert!(view(&slot).start == v.start && view(&slot).len == v.len, "C16/slot.observers/pure");
    let _ = &mut slot;
    kani::cover!(slot_is_full(v), "reach:full");
    kani::cover!(v.len == 0, "reach:empty");
    kani::cover!(slot_is_occupied(v, prev as i128), "reach:occupied");
    kani::cover!(v.len > 0 && prev as i128 != v.start, "reach:gap_before_slot");
}
