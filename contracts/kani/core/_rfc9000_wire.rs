// Independent transcription of the RFC 9000 wire layout (sections 16, 17.1, 19; RFC 9221 section 4)
// as plain Rust over byte arrays.  Shared by the C05 harness modules through `include!`.
//
// Rules for this file (AUTHORING.md "Spec predicate files", byte-level variant):
//   * nothing from s2n-codec and nothing from the crate under verification is used here: no VarInt,
//     no EncoderBuffer/DecoderBuffer, no tag macro, no constant of the crate;
//   * every constant (frame types, field order, limits) is copied from the RFC text quoted above it;
//   * loop-free: repetition is written with `unroll!` (expanded at compile time), so the oracle
//     needs no unwinding bound of its own and cannot hide behind one.
//
// Writer side  (`Wire<N>`): value  -> the unique shortest-form RFC encoding        (enc / dec oracles)
// Reader side  (`Rd<N>`)  : bytes  -> value or `None` (= the RFC says "not a frame") (reference parser)

// (include with `#[macro_use] #[allow(dead_code, unused_macros)] mod wire { include!("_rfc9000_wire.rs"); }`)

/// compile-time unrolling: `unroll!(8, i, { body using i })` expands body for i = 0..8
macro_rules! unroll {
    (@ $i:ident, $body:block; $($k:literal)*) => { $( { let $i: usize = $k; $body } )* };
    (2, $i:ident, $body:block) => { unroll!(@ $i, $body; 0 1) };
    (3, $i:ident, $body:block) => { unroll!(@ $i, $body; 0 1 2) };
    (4, $i:ident, $body:block) => { unroll!(@ $i, $body; 0 1 2 3) };
    (5, $i:ident, $body:block) => { unroll!(@ $i, $body; 0 1 2 3 4) };
    (8, $i:ident, $body:block) => { unroll!(@ $i, $body; 0 1 2 3 4 5 6 7) };
    (16, $i:ident, $body:block) => { unroll!(@ $i, $body; 0 1 2 3 4 5 6 7 8 9 10 11 12 13 14 15) };
    (20, $i:ident, $body:block) => { unroll!(@ $i, $body; 0 1 2 3 4 5 6 7 8 9 10 11 12 13 14 15 16 17 18 19) };
    (24, $i:ident, $body:block) => { unroll!(@ $i, $body; 0 1 2 3 4 5 6 7 8 9 10 11 12 13 14 15 16 17 18 19 20 21 22 23) };
    (32, $i:ident, $body:block) => { unroll!(@ $i, $body; 0 1 2 3 4 5 6 7 8 9 10 11 12 13 14 15 16 17 18 19 20 21 22 23 24 25 26 27 28 29 30 31) };
    (64, $i:ident, $body:block) => { unroll!(@ $i, $body; 0 1 2 3 4 5 6 7 8 9 10 11 12 13 14 15 16 17 18 19 20 21 22 23 24 25 26 27 28 29 30 31
        32 33 34 35 36 37 38 39 40 41 42 43 44 45 46 47 48 49 50 51 52 53 54 55 56 57 58 59 60 61 62 63) };
    (96, $i:ident, $body:block) => { unroll!(@ $i, $body; 0 1 2 3 4 5 6 7 8 9 10 11 12 13 14 15 16 17 18 19 20 21 22 23 24 25 26 27 28 29 30 31
        32 33 34 35 36 37 38 39 40 41 42 43 44 45 46 47 48 49 50 51 52 53 54 55 56 57 58 59 60 61 62 63
        64 65 66 67 68 69 70 71 72 73 74 75 76 77 78 79 80 81 82 83 84 85 86 87 88 89 90 91 92 93 94 95) };
}

// ------------------------------------------------------------------------------------------------
// RFC 9000 section 16, Table 4
//        | 2MSB | Length | Usable Bits | Range                 |
//        | 00   | 1      | 6           | 0-63                  |
//        | 01   | 2      | 14          | 0-16383               |
//        | 10   | 4      | 30          | 0-1073741823          |
//        | 11   | 8      | 62          | 0-4611686018427387903 |
// ------------------------------------------------------------------------------------------------
pub const RFC_VARINT_MAX: u64 = 4611686018427387903;

/// shortest encoding length of `x` (x <= RFC_VARINT_MAX)
pub fn rfc_varint_len(x: u64) -> usize {
    if x <= 63 {
        1
    } else if x <= 16383 {
        2
    } else if x <= 1073741823 {
        4
    } else {
        8
    }
}

/// largest value that fits an encoding of `len` bytes
pub fn rfc_varint_max_for_len(len: usize) -> u64 {
    if len == 1 {
        63
    } else if len == 2 {
        16383
    } else if len == 4 {
        1073741823
    } else {
        4611686018427387903
    }
}

/// "2MSB" column: base-2 logarithm of the length
pub fn rfc_varint_2msb(len: usize) -> u8 {
    if len == 1 {
        0b00
    } else if len == 2 {
        0b01
    } else if len == 4 {
        0b10
    } else {
        0b11
    }
}

/// byte `i` (0-based, network byte order) of the `len`-byte encoding of x
pub fn rfc_varint_byte(x: u64, len: usize, i: usize) -> u8 {
    let shift = 8 * (len - 1 - i);
    let b = ((x >> shift) & 0xff) as u8;
    if i == 0 {
        b | (rfc_varint_2msb(len) << 6)
    } else {
        b
    }
}

// ------------------------------------------------------------------------------------------------
// Writer
// ------------------------------------------------------------------------------------------------
#[derive(Clone, Copy)]
pub struct Wire<const N: usize> {
    pub b: [u8; N],
    pub n: usize,
}

impl<const N: usize> Wire<N> {
    /// `fill` is what the bytes behind the encoding look like (callers pass symbolic bytes so that
    /// decoders are exercised with arbitrary trailing data)
    pub fn new(fill: [u8; N]) -> Self {
        Wire { b: fill, n: 0 }
    }

    pub fn u8(&mut self, v: u8) {
        self.b[self.n] = v;
        self.n += 1;
    }

    /// big-endian 16/32 bit (RFC 9000 section 17: version, lengths of fixed width)
    pub fn u32_be(&mut self, v: u32) {
        self.u8((v >> 24) as u8);
        self.u8((v >> 16) as u8);
        self.u8((v >> 8) as u8);
        self.u8(v as u8);
    }

    /// variable-length integer in exactly `len` in {1,2,4,8} bytes (x must fit): Table 4 row by row --
    /// 2MSB 00 / 01 / 10 / 11, then the value in network byte order on the remaining 6 / 14 / 30 / 62 bits
    pub fn varint_n(&mut self, x: u64, len: usize) {
        let at = self.n;
        if len == 1 {
            self.b[at] = x as u8;
        } else if len == 2 {
            self.b[at] = 0x40 | (x >> 8) as u8;
            self.b[at + 1] = x as u8;
        } else if len == 4 {
            self.b[at] = 0x80 | (x >> 24) as u8;
            self.b[at + 1] = (x >> 16) as u8;
            self.b[at + 2] = (x >> 8) as u8;
            self.b[at + 3] = x as u8;
        } else {
            self.b[at] = 0xc0 | (x >> 56) as u8;
            self.b[at + 1] = (x >> 48) as u8;
            self.b[at + 2] = (x >> 40) as u8;
            self.b[at + 3] = (x >> 32) as u8;
            self.b[at + 4] = (x >> 24) as u8;
            self.b[at + 5] = (x >> 16) as u8;
            self.b[at + 6] = (x >> 8) as u8;
            self.b[at + 7] = x as u8;
        }
        self.n = at + len;
    }

    /// variable-length integer, shortest form
    pub fn varint(&mut self, x: u64) {
        self.varint_n(x, rfc_varint_len(x));
    }

    /// the first `len` (<= 4) bytes of `src`
    pub fn bytes4(&mut self, src: &[u8; 4], len: usize) {
        let at = self.n;
        unroll!(4, i, {
            if i < len {
                self.b[at + i] = src[i];
            }
        });
        self.n = at + len;
    }

    pub fn arr1(&mut self, src: &[u8; 1]) {
        self.u8(src[0]);
    }

    pub fn arr8(&mut self, src: &[u8; 8]) {
        let at = self.n;
        unroll!(8, i, {
            self.b[at + i] = src[i];
        });
        self.n = at + 8;
    }

    pub fn arr16(&mut self, src: &[u8; 16]) {
        let at = self.n;
        unroll!(16, i, {
            self.b[at + i] = src[i];
        });
        self.n = at + 16;
    }

    pub fn arr20(&mut self, src: &[u8; 20]) {
        let at = self.n;
        unroll!(20, i, {
            self.b[at + i] = src[i];
        });
        self.n = at + 20;
    }
}

/// a[..n] == b[..n]
pub fn prefix_eq32(a: &[u8; 32], b: &[u8; 32], n: usize) -> bool {
    let mut ok = true;
    unroll!(32, i, {
        if i < n && a[i] != b[i] {
            ok = false;
        }
    });
    ok
}

pub fn prefix_eq64(a: &[u8; 64], b: &[u8; 64], n: usize) -> bool {
    let mut ok = true;
    unroll!(64, i, {
        if i < n && a[i] != b[i] {
            ok = false;
        }
    });
    ok
}

pub fn prefix_eq96(a: &[u8; 96], b: &[u8; 96], n: usize) -> bool {
    let mut ok = true;
    unroll!(96, i, {
        if i < n && a[i] != b[i] {
            ok = false;
        }
    });
    ok
}

/// a[from..] == b[from..]  (frame condition: bytes behind the encoder's capacity are untouched)
pub fn suffix_eq32(a: &[u8; 32], b: &[u8; 32], from: usize) -> bool {
    let mut ok = true;
    unroll!(32, i, {
        if i >= from && a[i] != b[i] {
            ok = false;
        }
    });
    ok
}

pub fn suffix_eq64(a: &[u8; 64], b: &[u8; 64], from: usize) -> bool {
    let mut ok = true;
    unroll!(64, i, {
        if i >= from && a[i] != b[i] {
            ok = false;
        }
    });
    ok
}

pub fn suffix_eq96(a: &[u8; 96], b: &[u8; 96], from: usize) -> bool {
    let mut ok = true;
    unroll!(96, i, {
        if i >= from && a[i] != b[i] {
            ok = false;
        }
    });
    ok
}

// ------------------------------------------------------------------------------------------------
// Reader (reference parser primitives).  `None` = "the bytes end before the field does".
// ------------------------------------------------------------------------------------------------
#[derive(Clone, Copy)]
pub struct Rd<const N: usize> {
    pub b: [u8; N],
    /// number of valid bytes (<= N)
    pub len: usize,
    /// read position (<= len)
    pub at: usize,
}

impl<const N: usize> Rd<N> {
    pub fn new(b: [u8; N], len: usize) -> Self {
        Rd { b, len, at: 0 }
    }

    pub fn remaining(&self) -> usize {
        self.len - self.at
    }

    pub fn u8(&mut self) -> Option<u8> {
        if self.at >= self.len {
            return None;
        }
        let v = self.b[self.at];
        self.at += 1;
        Some(v)
    }

    /// RFC 9000 section 16 / Appendix A.1 ReadVarint: the two most significant bits of the first byte
    /// give the length, the value is the remaining bits in network byte order.  Any of the four lengths
    /// is a valid encoding of a small value (only frame *types* must be shortest, section 12.4).
    pub fn varint(&mut self) -> Option<u64> {
        if self.at >= self.len {
            return None;
        }
        let first = self.b[self.at];
        let prefix = first >> 6;
        let length: usize = 1usize << prefix;
        if self.len - self.at < length {
            return None;
        }
        let mut v: u64 = (first & 0x3f) as u64;
        let at = self.at;
        unroll!(8, i, {
            if i >= 1 && i < length {
                v = (v << 8) + self.b[at + i] as u64;
            }
        });
        self.at = at + length;
        Some(v)
    }

    pub fn skip(&mut self, count: usize) -> Option<usize> {
        if self.len - self.at < count {
            return None;
        }
        let start = self.at;
        self.at += count;
        Some(start)
    }
}

// ------------------------------------------------------------------------------------------------
// RFC 9000 section 19: frame types and layouts.  `(i)` = variable-length integer.
// ------------------------------------------------------------------------------------------------
pub const T_PADDING: u8 = 0x00; //              19.1   PADDING Frame { Type (i) = 0x00 }
pub const T_PING: u8 = 0x01; //                 19.2   PING Frame { Type (i) = 0x01 }
pub const T_ACK: u8 = 0x02; //                  19.3   ACK Frame { Type (i) = 0x02..0x03, ... }
pub const T_ACK_ECN: u8 = 0x03;
pub const T_RESET_STREAM: u8 = 0x04; //         19.4
pub const T_STOP_SENDING: u8 = 0x05; //         19.5
pub const T_CRYPTO: u8 = 0x06; //               19.6
pub const T_NEW_TOKEN: u8 = 0x07; //            19.7
pub const T_STREAM: u8 = 0x08; //               19.8   0x08..0x0f
pub const STREAM_OFF: u8 = 0x04; //                    "The OFF bit (0x04)"
pub const STREAM_LEN: u8 = 0x02; //                    "The LEN bit (0x02)"
pub const STREAM_FIN: u8 = 0x01; //                    "The FIN bit (0x01)"
pub const T_MAX_DATA: u8 = 0x10; //             19.9
pub const T_MAX_STREAM_DATA: u8 = 0x11; //      19.10
pub const T_MAX_STREAMS_BIDI: u8 = 0x12; //     19.11
pub const T_MAX_STREAMS_UNI: u8 = 0x13;
pub const T_DATA_BLOCKED: u8 = 0x14; //         19.12
pub const T_STREAM_DATA_BLOCKED: u8 = 0x15; //  19.13
pub const T_STREAMS_BLOCKED_BIDI: u8 = 0x16; // 19.14
pub const T_STREAMS_BLOCKED_UNI: u8 = 0x17;
pub const T_NEW_CONNECTION_ID: u8 = 0x18; //    19.15
pub const T_RETIRE_CONNECTION_ID: u8 = 0x19; // 19.16
pub const T_PATH_CHALLENGE: u8 = 0x1a; //       19.17
pub const T_PATH_RESPONSE: u8 = 0x1b; //        19.18
pub const T_CONNECTION_CLOSE: u8 = 0x1c; //     19.19  0x1c = QUIC layer (has Frame Type), 0x1d = application
pub const T_CONNECTION_CLOSE_APP: u8 = 0x1d;
pub const T_HANDSHAKE_DONE: u8 = 0x1e; //       19.20
pub const T_DATAGRAM: u8 = 0x30; //             RFC 9221 section 4: 0x30 (no Length), 0x31 (Length)
pub const T_DATAGRAM_LEN: u8 = 0x31;

/// 19.11 / 19.14: "This value cannot exceed 2^60 ... Receipt of a frame that permits opening of a
/// stream larger than this limit MUST be treated as a connection error of type FRAME_ENCODING_ERROR."
pub const RFC_MAX_STREAMS_LIMIT: u64 = 1152921504606846976;

impl<const N: usize> Wire<N> {
    /// a frame that consists of the type and up to three variable-length integer fields, in this order
    pub fn frame_ints(&mut self, ty: u8, nfields: usize, f0: u64, f1: u64, f2: u64) {
        self.u8(ty);
        if nfields >= 1 {
            self.varint(f0);
        }
        if nfields >= 2 {
            self.varint(f1);
        }
        if nfields >= 3 {
            self.varint(f2);
        }
    }

    /// 19.4  RESET_STREAM Frame { Type (i) = 0x04, Stream ID (i), Application Protocol Error Code (i), Final Size (i) }
    pub fn reset_stream(&mut self, stream_id: u64, error_code: u64, final_size: u64) {
        self.frame_ints(T_RESET_STREAM, 3, stream_id, error_code, final_size);
    }
    /// 19.5  STOP_SENDING Frame { Type (i) = 0x05, Stream ID (i), Application Protocol Error Code (i) }
    pub fn stop_sending(&mut self, stream_id: u64, error_code: u64) {
        self.frame_ints(T_STOP_SENDING, 2, stream_id, error_code, 0);
    }
    /// 19.9  MAX_DATA Frame { Type (i) = 0x10, Maximum Data (i) }
    pub fn max_data(&mut self, maximum_data: u64) {
        self.frame_ints(T_MAX_DATA, 1, maximum_data, 0, 0);
    }
    /// 19.10 MAX_STREAM_DATA Frame { Type (i) = 0x11, Stream ID (i), Maximum Stream Data (i) }
    pub fn max_stream_data(&mut self, stream_id: u64, maximum_stream_data: u64) {
        self.frame_ints(T_MAX_STREAM_DATA, 2, stream_id, maximum_stream_data, 0);
    }
    /// 19.11 MAX_STREAMS Frame { Type (i) = 0x12..0x13, Maximum Streams (i) }; 0x12 bidirectional, 0x13 unidirectional
    pub fn max_streams(&mut self, unidirectional: bool, maximum_streams: u64) {
        let ty = if unidirectional { T_MAX_STREAMS_UNI } else { T_MAX_STREAMS_BIDI };
        self.frame_ints(ty, 1, maximum_streams, 0, 0);
    }
    /// 19.12 DATA_BLOCKED Frame { Type (i) = 0x14, Maximum Data (i) }
    pub fn data_blocked(&mut self, maximum_data: u64) {
        self.frame_ints(T_DATA_BLOCKED, 1, maximum_data, 0, 0);
    }
    /// 19.13 STREAM_DATA_BLOCKED Frame { Type (i) = 0x15, Stream ID (i), Maximum Stream Data (i) }
    pub fn stream_data_blocked(&mut self, stream_id: u64, maximum_stream_data: u64) {
        self.frame_ints(T_STREAM_DATA_BLOCKED, 2, stream_id, maximum_stream_data, 0);
    }
    /// 19.14 STREAMS_BLOCKED Frame { Type (i) = 0x16..0x17, Maximum Streams (i) }; 0x16 bidirectional, 0x17 unidirectional
    pub fn streams_blocked(&mut self, unidirectional: bool, maximum_streams: u64) {
        let ty = if unidirectional { T_STREAMS_BLOCKED_UNI } else { T_STREAMS_BLOCKED_BIDI };
        self.frame_ints(ty, 1, maximum_streams, 0, 0);
    }
    /// 19.16 RETIRE_CONNECTION_ID Frame { Type (i) = 0x19, Sequence Number (i) }
    pub fn retire_connection_id(&mut self, sequence_number: u64) {
        self.frame_ints(T_RETIRE_CONNECTION_ID, 1, sequence_number, 0, 0);
    }
    /// 19.17 PATH_CHALLENGE Frame { Type (i) = 0x1a, Data (64) }
    pub fn path_challenge(&mut self, data: &[u8; 8]) {
        self.u8(T_PATH_CHALLENGE);
        self.arr8(data);
    }
    /// 19.18 PATH_RESPONSE Frame { Type (i) = 0x1b, Data (64) }
    pub fn path_response(&mut self, data: &[u8; 8]) {
        self.u8(T_PATH_RESPONSE);
        self.arr8(data);
    }

    /// 19.6  CRYPTO Frame { Type (i) = 0x06, Offset (i), Length (i), Crypto Data (..) }
    pub fn crypto(&mut self, offset: u64, data: &[u8; 4], len: usize) {
        self.u8(T_CRYPTO);
        self.varint(offset);
        self.varint(len as u64);
        self.bytes4(data, len);
    }

    /// 19.7  NEW_TOKEN Frame { Type (i) = 0x07, Token Length (i), Token (..) }
    pub fn new_token(&mut self, token: &[u8; 4], len: usize) {
        self.u8(T_NEW_TOKEN);
        self.varint(len as u64);
        self.bytes4(token, len);
    }

    /// 19.8  STREAM Frame { Type (i) = 0x08..0x0f, Stream ID (i), [Offset (i)], [Length (i)], Stream Data (..) }
    /// OFF (0x04): Offset field present, otherwise the offset is 0.  LEN (0x02): Length field present,
    /// otherwise the data extends to the end of the packet.  FIN (0x01): end of the stream.
    pub fn stream(&mut self, off_bit: bool, len_bit: bool, fin_bit: bool, stream_id: u64, offset: u64, data: &[u8; 4], len: usize) {
        let mut ty = T_STREAM;
        if off_bit {
            ty |= STREAM_OFF;
        }
        if len_bit {
            ty |= STREAM_LEN;
        }
        if fin_bit {
            ty |= STREAM_FIN;
        }
        self.u8(ty);
        self.varint(stream_id);
        if off_bit {
            self.varint(offset);
        }
        if len_bit {
            self.varint(len as u64);
        }
        self.bytes4(data, len);
    }

    /// RFC 9221 section 4  DATAGRAM Frame { Type (i) = 0x30..0x31, [Length (i)], Datagram Data (..) };
    /// the least significant bit of the type is the LEN bit
    pub fn datagram(&mut self, len_bit: bool, data: &[u8; 4], len: usize) {
        self.u8(if len_bit { T_DATAGRAM_LEN } else { T_DATAGRAM });
        if len_bit {
            self.varint(len as u64);
        }
        self.bytes4(data, len);
    }

    /// 19.19 CONNECTION_CLOSE Frame { Type (i) = 0x1c..0x1d, Error Code (i), [Frame Type (i)],
    ///       Reason Phrase Length (i), Reason Phrase (..) }; the Frame Type field is present only in 0x1c
    pub fn connection_close(&mut self, application: bool, error_code: u64, frame_type: u64, reason: &[u8; 4], len: usize) {
        self.u8(if application { T_CONNECTION_CLOSE_APP } else { T_CONNECTION_CLOSE });
        self.varint(error_code);
        if !application {
            self.varint(frame_type);
        }
        self.varint(len as u64);
        self.bytes4(reason, len);
    }

    /// 19.15 NEW_CONNECTION_ID Frame { Type (i) = 0x18, Sequence Number (i), Retire Prior To (i), Length (8),
    ///       Connection ID (8..160), Stateless Reset Token (128) } -- header part up to and including Length
    pub fn new_connection_id_head(&mut self, sequence_number: u64, retire_prior_to: u64, cid_len: u8) {
        self.u8(T_NEW_CONNECTION_ID);
        self.varint(sequence_number);
        self.varint(retire_prior_to);
        self.u8(cid_len);
    }

    /// 19.3  ACK Frame { Type (i) = 0x02..0x03, Largest Acknowledged (i), ACK Delay (i), ACK Range Count (i),
    ///       First ACK Range (i), ACK Range (..) ..., [ECN Counts (..)] }
    ///       ACK Range { Gap (i), ACK Range Length (i) }          (19.3.1)
    ///       ECN Counts { ECT0 Count (i), ECT1 Count (i), ECN-CE Count (i) }   (19.3.2), present iff type 0x03
    /// `ranges` = number of additional ranges (ACK Range Count), at most 2 here.
    pub fn ack(
        &mut self,
        ecn: bool,
        largest: u64,
        delay: u64,
        first_range: u64,
        ranges: usize,
        gap1: u64,
        len1: u64,
        gap2: u64,
        len2: u64,
        ect0: u64,
        ect1: u64,
        ce: u64,
    ) {
        self.u8(if ecn { T_ACK_ECN } else { T_ACK });
        self.varint(largest);
        self.varint(delay);
        self.varint(ranges as u64);
        self.varint(first_range);
        if ranges >= 1 {
            self.varint(gap1);
            self.varint(len1);
        }
        if ranges >= 2 {
            self.varint(gap2);
            self.varint(len2);
        }
        if ecn {
            self.varint(ect0);
            self.varint(ect1);
            self.varint(ce);
        }
    }
}

// ------------------------------------------------------------------------------------------------
// RFC 9000 section 17.1 / Appendix A.2: packet number encoding
//   "the least significant bits of the packet number are encoded in 1 to 4 bytes";
//   the two least significant bits of the first header byte hold "the length of the Packet Number
//   field ... encoded as an unsigned two-bit integer that is one less than the length ... in bytes".
// ------------------------------------------------------------------------------------------------
/// big-endian bytes of the low 8*len bits of `pn`, len in 1..=4
pub fn rfc_packet_number_bytes(pn: u64, len: usize) -> [u8; 4] {
    let mut out = [0u8; 4];
    unroll!(4, i, {
        if i < len {
            out[i] = (pn >> (8 * (len - 1 - i))) as u8;
        }
    });
    out
}

/// Packet Number Length bits (17.2, 17.3.1)
pub fn rfc_packet_number_len_bits(len: usize) -> u8 {
    (len - 1) as u8
}
