//@ inject crate=core src=quic/s2n-quic-core/src/recovery/bbr.rs
// Contract harnesses for the BBRv2 window floor (property C10: "never falls below ... four [datagrams] for BBRv2").
// ONLY the floor functions are under contract: minimum_window, initial_window, bound_cwnd_for_model and the final
// clamp of set_cwnd.  The BBR state machine (bandwidth / data-volume models, windowed filters, num_rational
// arithmetic, ProbeBW/ProbeRTT cycling, ~3 kLoC) is NOT verified; set_cwnd/bound_cwnd_for_model are exercised from
// the model state produced by BbrCongestionController::new() with symbolic cwnd / datagram size / acked bytes /
// BBR state, because the model structs keep their fields private to their own modules.
use super::*;

fn any_mds() -> u16 {
    let mds: u16 = kani::any();
    kani::assume(mds >= 1200 && mds <= 9000);
    mds
}

//@ harness props=C10 tier=quick level=full timeout=240
//@ fn BbrCongestionController::minimum_window
//@ fn BbrCongestionController::initial_window
#[kani::proof]
#[kani::unwind(3)]
fn vq_c10_bbr_minimum_window() {
    let mds = any_mds();
    let min = BbrCongestionController::minimum_window(mds);
    assert!(min as u64 == 4 * mds as u64, "C10/bbr.minimum_window/is_four_datagrams");
    let settings = ApplicationSettings {
        initial_congestion_window: if kani::any() { Some(kani::any()) } else { None },
        ..Default::default()
    };
    let iw = BbrCongestionController::initial_window(mds, &settings);
    assert!(iw >= min, "C10/bbr.initial_window/at_least_minimum_window");
    if settings.initial_congestion_window.is_none() {
        // RFC 9002 7.2: min(10 * mds, max(14720, 2 * mds)), never below the BBR minimum
        let rfc = core::cmp::min(10 * mds as u32, core::cmp::max(14720, 2 * mds as u32));
        assert!(iw == core::cmp::max(rfc, min), "C10/bbr.initial_window/is_rfc9002_initial_window_floored_at_minimum");
    }
    kani::cover!(mds == 1200, "reach:mds_min");
    kani::cover!(mds == 9000, "reach:mds_max");
    kani::cover!(iw == min && min > 14720, "reach:initial_window_raised_to_minimum");
    // outside the property's domain (datagram sizes above 16383 bytes) the u16 product 4 * mds would overflow:
    // a debug-build panic / release-build wrap of the floor.  Not reachable for mds <= 9000; recorded in the report.
    kani::cover!(true, "reach:end");
}

// NOTE: a constructor harness with a symbolic application window (`new(mds, settings)`) was tried and dropped: new()
// builds the pacer through num_rational (gcd loops over the symbolic window); no result in 900 s even for two concrete
// datagram sizes.  The floor right after construction is asserted in vq_c10_bbr_set_cwnd_floor (default settings, mds
// 1200 / 9000) and, for initial_window itself, for every mds 1200..=9000 and any application window, in
// vq_c10_bbr_minimum_window.

//@ harness props=C10 tier=quick level=bounded timeout=400 bound="datagram size 1200 or 9000; bandwidth / data-volume / round / full-pipe model state as constructed by new(); cwnd, newly acked bytes, BBR state kind (Startup, Drain, ProbeRtt) symbolic"
//@ fn BbrCongestionController::set_cwnd
//@ fn BbrCongestionController::bound_cwnd_for_model
#[kani::proof]
#[kani::unwind(70)]
fn vq_c10_bbr_set_cwnd_floor() {
    // max_inflight()/inflight_with_headroom() go through num_rational (gcd loops): not loop-free, hence concrete
    // datagram sizes and a generous unwind bound; unwinding assertions stay on
    let mds: u16 = if kani::any() { 1200 } else { 9000 };
    let mut bbr = BbrCongestionController::new(mds, Default::default());
    assert!(bbr.congestion_window() as u64 >= 4 * mds as u64, "C10/bbr.new/window_at_least_four_datagrams");
    assert!(bbr.cwnd == BbrCongestionController::initial_window(mds, &Default::default()) && bbr.bytes_in_flight() == 0, "C10/bbr.new/window_is_initial_window_nothing_in_flight");
    bbr.cwnd = kani::any();
    bbr.state = match kani::any::<u8>() % 3 {
        0 => State::Startup,
        1 => State::Drain,
        _ => State::ProbeRtt(probe_rtt::State::default()),
    };
    let newly_acked: u32 = kani::any();
    // cwnd + newly_acked is computed in u32: the caller never acknowledges more than was in flight (< 2^32 in total)
    kani::assume(bbr.cwnd as u64 + newly_acked as u64 <= u32::MAX as u64);
    let bound = bbr.bound_cwnd_for_model();
    assert!(bound as u64 >= 4 * mds as u64, "C10/bbr.bound_cwnd_for_model/at_least_four_datagrams");
    bbr.set_cwnd(newly_acked as usize);
    assert!(bbr.cwnd as u64 >= 4 * mds as u64, "C10/bbr.set_cwnd/floor_four_datagrams");
    assert!(bbr.cwnd <= bound, "C10/bbr.set_cwnd/at_most_model_bound");
    assert!(bbr.congestion_window() == bbr.cwnd, "C10/bbr.congestion_window/is_cwnd");
    assert!(bbr.max_datagram_size == mds, "C10/bbr.set_cwnd/frame_mds");
    kani::cover!(bbr.cwnd as u64 == 4 * mds as u64, "reach:clamped_to_minimum");
    kani::cover!(bbr.cwnd as u64 > 4 * mds as u64, "reach:above_minimum");
    kani::cover!(bbr.state.is_probing_rtt(), "reach:probe_rtt");
    kani::cover!(true, "reach:end");
}
