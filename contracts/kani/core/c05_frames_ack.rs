//@ inject crate=core src=quic/s2n-quic-core/src/frame/ack.rs
// C05 contract harnesses for the ACK frame (RFC 9000 19.3, types 0x02 / 0x03).  Oracle: `_rfc9000_wire.rs`.
// level=bounded: <= 3 acknowledged ranges (ACK Range Count <= 2) for enc/dec, with the integer fields of one frame
// drawn from one length class of RFC 9000 Table 4 at a time -- all <= 63 (1-byte form) or all >= 2^30 (8-byte form,
// up to 2^62-1); a frame that mixes the eleven fields over all 4^11 length combinations was tried first and does not
// finish (1500 s timeout; every field position is then a symbolic offset).  Arbitrary input <= 8 bytes (<= 2 ranges)
// for the reference-parser agreement, which does mix the lengths.
//
// The codec under contract is `Ack<A>::encode` / `Ack<AckRangesDecoder>::decode`, generic in the container `A` that
// yields the ranges.  The production container (`ack::Ranges`, an interval set on a VecDeque) is C16's subject; the
// harness supplies the ranges through a three-slot stack array implementing the same `AckRanges` trait.
use super::*;
use s2n_codec::{DecoderBufferMut, DecoderParameterizedValueMut, EncoderBuffer};
#[macro_use]
#[allow(dead_code, unused_macros)]
mod wire {
    include!("_rfc9000_wire.rs");
}
use wire::*;

const W: usize = 96;

fn v(x: u64) -> VarInt {
    VarInt::new(x).unwrap()
}

/// any value of one RFC 9000 Table 4 length class: `wide` = 8-byte form (2^30 ..= 2^62-1), else 1-byte form (0 ..= 63)
fn any_int_of(wide: bool) -> u64 {
    let x: u64 = kani::any();
    if wide {
        kani::assume(x >= 1073741824 && x <= RFC_VARINT_MAX);
    } else {
        kani::assume(x <= 63);
    }
    x
}

/// up to three ranges, largest first (the order `AckRanges::ack_ranges` promises)
#[derive(Clone, Copy)]
struct ThreeRanges {
    lo: [u64; 3],
    hi: [u64; 3],
    n: usize,
}

struct ThreeRangesIter {
    r: ThreeRanges,
    at: usize,
}

impl Iterator for ThreeRangesIter {
    type Item = RangeInclusive<VarInt>;
    fn next(&mut self) -> Option<Self::Item> {
        if self.at >= self.r.n {
            return None;
        }
        let i = self.at;
        self.at += 1;
        Some(v(self.r.lo[i])..=v(self.r.hi[i]))
    }
    fn size_hint(&self) -> (usize, Option<usize>) {
        let k = self.r.n - self.at;
        (k, Some(k))
    }
}

impl ExactSizeIterator for ThreeRangesIter {}

impl AckRanges for ThreeRanges {
    type Iter = ThreeRangesIter;
    fn ack_ranges(&self) -> Self::Iter {
        ThreeRangesIter { r: *self, at: 0 }
    }
}

/// Decodes an ACK frame from bytes[..len] the way the tag dispatch of the `frames!` macro does for the ACK arm
/// (`buffer.skip(size_of::<Tag>())?` then `buffer.decode_parameterized(tag)?`); None for Err.
/// (Why not through `FrameMut`: see c05_frames_fixed.rs `run_decoder`; the dispatch itself is contracted in c05_total.rs.)
fn decode_ack<'a>(bytes: &'a mut [u8], ty: u8) -> Option<(Ack<AckRangesDecoder<'a>>, usize)> {
    assert!(bytes.is_empty() || bytes[0] == ty);
    let buffer = DecoderBufferMut::new(bytes);
    let buffer = buffer.skip(core::mem::size_of::<Tag>()).ok()?;
    let (frame, rest) = buffer.decode_parameterized::<Ack<AckRangesDecoder>>(ty).ok()?;
    Some((frame, rest.len()))
}

/// an arbitrary set of 1..=3 disjoint, non-adjacent, descending ranges of packet numbers
/// (19.3.1: between two ranges lies a gap of at least one unacknowledged packet)
fn any_ranges() -> ThreeRanges {
    let n: usize = kani::any();
    kani::assume(n >= 1 && n <= 3);
    // packet numbers themselves range over the whole 62-bit domain; the length class constrains the *fields*
    // (largest, range lengths, gaps), see `fields_in_class`
    let lo: [u64; 3] = [kani::any(), kani::any(), kani::any()];
    let hi: [u64; 3] = [kani::any(), kani::any(), kani::any()];
    kani::assume(hi[0] <= RFC_VARINT_MAX);
    kani::assume(lo[0] <= hi[0]);
    kani::assume(n < 2 || (lo[0] >= 2 && hi[1] <= lo[0] - 2 && lo[1] <= hi[1]));
    kani::assume(n < 3 || (lo[1] >= 2 && hi[2] <= lo[1] - 2 && lo[2] <= hi[2]));
    ThreeRanges { lo, hi, n }
}

/// the oracle bytes for these ranges: 19.3.1 "Gap: ... the number of contiguous unacknowledged packets preceding the
/// packet number one lower than the smallest in the preceding ACK Range" => gap = smallest_prev - largest_next - 2;
/// "ACK Range Length: ... the number of contiguous acknowledged packets preceding the largest" => largest - smallest
fn spec_ack(r: &ThreeRanges, delay: u64, ecn: Option<[u64; 3]>, fill: [u8; W]) -> Wire<W> {
    let mut spec = Wire::<W>::new(fill);
    let gap1 = if r.n >= 2 { r.lo[0] - r.hi[1] - 2 } else { 0 };
    let len1 = if r.n >= 2 { r.hi[1] - r.lo[1] } else { 0 };
    let gap2 = if r.n >= 3 { r.lo[1] - r.hi[2] - 2 } else { 0 };
    let len2 = if r.n >= 3 { r.hi[2] - r.lo[2] } else { 0 };
    let e = ecn.unwrap_or([0, 0, 0]);
    spec.ack(ecn.is_some(), r.hi[0], delay, r.hi[0] - r.lo[0], r.n - 1, gap1, len1, gap2, len2, e[0], e[1], e[2]);
    spec
}

fn in_class(x: u64, wide: bool) -> bool {
    if wide {
        x >= 1073741824 && x <= RFC_VARINT_MAX
    } else {
        x <= 63
    }
}

/// every integer field the ranges give rise to lies in the chosen length class (ACK Range Count is 0..=2 anyway)
fn fields_in_class(r: &ThreeRanges, wide: bool) -> bool {
    let mut ok = in_class(r.hi[0], wide) && in_class(r.hi[0] - r.lo[0], wide);
    if r.n >= 2 {
        ok = ok && in_class(r.lo[0] - r.hi[1] - 2, wide) && in_class(r.hi[1] - r.lo[1], wide);
    }
    if r.n >= 3 {
        ok = ok && in_class(r.lo[1] - r.hi[2] - 2, wide) && in_class(r.hi[2] - r.lo[2], wide);
    }
    ok
}

fn any_ecn(wide: bool) -> Option<[u64; 3]> {
    if kani::any() {
        Some([any_int_of(wide), any_int_of(wide), any_int_of(wide)])
    } else {
        None
    }
}

// ---- reference parser ---------------------------------------------------------------------------------------
const REF_MAX_RANGES: usize = 2;

#[derive(Clone, Copy)]
struct AckView {
    ecn: Option<[u64; 3]>,
    delay: u64,
    /// acknowledged ranges, largest first
    n: usize,
    lo: [u64; REF_MAX_RANGES],
    hi: [u64; REF_MAX_RANGES],
}

/// Reference parser for an ACK frame in an input of at most 8 bytes.  None = FRAME_ENCODING_ERROR.
/// 19.3.1: "If any computed packet number is negative, an endpoint MUST generate a connection error of type
/// FRAME_ENCODING_ERROR."
fn rfc_parse_ack(rd: &mut Rd<32>) -> Option<AckView> {
    let ty = rd.u8()?;
    if ty != 0x02 && ty != 0x03 {
        return None;
    }
    let largest = rd.varint()?;
    let delay = rd.varint()?;
    let count = rd.varint()?;
    let first = rd.varint()?;
    if first > largest {
        return None;
    }
    let mut lo = [0u64; REF_MAX_RANGES];
    let mut hi = [0u64; REF_MAX_RANGES];
    hi[0] = largest;
    lo[0] = largest - first;
    // the five leading fields take at least 5 bytes, every further range at least 2: in 8 bytes at most one fits
    if count > (REF_MAX_RANGES - 1) as u64 {
        return None;
    }
    let mut smallest = lo[0];
    unroll!(2, k, {
        if k >= 1 && (k as u64) <= count {
            let gap = rd.varint()?;
            let len = rd.varint()?;
            // largest_k = smallest_{k-1} - gap - 2
            if smallest < 2 || smallest - 2 < gap {
                return None;
            }
            let l = smallest - gap - 2;
            if len > l {
                return None;
            }
            hi[k] = l;
            lo[k] = l - len;
            smallest = lo[k];
        }
    });
    let ecn = if ty == 0x03 { Some([rd.varint()?, rd.varint()?, rd.varint()?]) } else { None };
    Some(AckView { ecn, delay, n: count as usize + 1, lo, hi })
}

// ---- enc ----------------------------------------------------------------------------------------------------
//@ harness props=C05 tier=thorough level=bounded timeout=1500 bound="1..=3 acknowledged ranges (ACK Range Count <= 2), with/without ECN counts; the fields of one frame all <= 63 or all in 2^30..=2^62-1"
//@ fn Ack::encode
//@ fn Ack::tag
//@ fn encode_ack_range
//@ fn EcnCounts::encode
#[kani::proof]
#[kani::unwind(10)]
fn vq_c05_frame_ack_enc() {
    let wide: bool = kani::any();
    let ranges = any_ranges();
    kani::assume(fields_in_class(&ranges, wide));
    let delay = any_int_of(wide);
    let ecn = any_ecn(wide);
    let spec = spec_ack(&ranges, delay, ecn, [0u8; W]);
    let f = Ack {
        ack_delay: v(delay),
        ack_ranges: ranges,
        ecn_counts: ecn.map(|e| EcnCounts { ect_0_count: v(e[0]), ect_1_count: v(e[1]), ce_count: v(e[2]) }),
    };
    assert!(f.tag() == spec.b[0], "C05/ack.enc/type_0x03_iff_ecn_counts");
    let announced = f.encoding_size();
    assert!(announced == spec.n, "C05/ack.enc/announced_len_eq_rfc_len");
    let before: [u8; W] = kani::any();
    let mut out = before;
    let used = {
        let mut e = EncoderBuffer::new(&mut out[..]);
        e.encode(&f);
        e.len()
    };
    assert!(used == announced, "C05/ack.enc/len_eq_announced");
    assert!(prefix_eq96(&out, &spec.b, spec.n), "C05/ack.enc/bytes_eq_rfc");
    kani::cover!(ranges.n == 1 && ecn.is_none(), "reach:one_range_no_ecn");
    kani::cover!(ranges.n == 3 && ecn.is_some(), "reach:three_ranges_with_ecn");
    kani::cover!(!wide && ranges.n == 2 && ranges.lo[0] == ranges.hi[1] + 2, "reach:smallest_gap");
    kani::cover!(wide && ranges.n == 3 && ecn.is_some() && spec.n == 82, "reach:largest_frame");
    kani::cover!(!wide && ranges.n == 3 && ecn.is_some() && spec.n == 12, "reach:one_byte_fields");
    kani::cover!(true, "reach:end");
}

//@ harness props=C05 tier=thorough level=bounded timeout=1500 bound="1..=3 acknowledged ranges (ACK Range Count <= 2), with/without ECN counts; the fields of one frame all <= 63 or all in 2^30..=2^62-1"
//@ fn Ack::encode
//@ fn encode_ack_range
//@ fn EcnCounts::encode
#[kani::proof]
#[kani::unwind(10)]
fn vq_c05_frame_ack_enc_exact() {
    let wide: bool = kani::any();
    let ranges = any_ranges();
    kani::assume(fields_in_class(&ranges, wide));
    let delay = any_int_of(wide);
    let ecn = any_ecn(wide);
    let f = Ack {
        ack_delay: v(delay),
        ack_ranges: ranges,
        ecn_counts: ecn.map(|e| EcnCounts { ect_0_count: v(e[0]), ect_1_count: v(e[1]), ce_count: v(e[2]) }),
    };
    let announced = f.encoding_size();
    kani::assume(announced <= W);
    let before: [u8; W] = kani::any();
    let mut out = before;
    let used = {
        let mut e = EncoderBuffer::new(&mut out[..announced]);
        e.encode(&f);
        e.len()
    };
    assert!(used == announced, "C05/ack.enc/len_eq_announced_without_slack");
    assert!(suffix_eq96(&out, &before, announced), "C05/ack.enc/nothing_written_past_announced_len");
    kani::cover!(ranges.n == 1 && ecn.is_none(), "reach:one_range_no_ecn");
    kani::cover!(ranges.n == 3 && ecn.is_some(), "reach:three_ranges_with_ecn");
    kani::cover!(true, "reach:end");
}

// ---- dec ----------------------------------------------------------------------------------------------------
//@ harness props=C05 tier=thorough level=bounded timeout=1500 bound="1..=2 acknowledged ranges (ACK Range Count <= 1), with/without ECN counts; the fields of one frame all <= 63 or all in 2^30..=2^62-1; <= 3 trailing bytes"
//@ fn Ack::decode_parameterized_mut
//@ fn AckRangesDecoder::decode_parameterized_mut
//@ fn AckRangesIter::next
//@ fn EcnCounts::decode
#[kani::proof]
#[kani::unwind(7)]
fn vq_c05_frame_ack_dec() {
    let wide: bool = kani::any();
    let ranges = any_ranges();
    kani::assume(ranges.n <= 2); // the three-range shape did not finish within 1500 s; ACK Range Count <= 1 here
    kani::assume(fields_in_class(&ranges, wide));
    let delay = any_int_of(wide);
    let ecn = any_ecn(wide);
    let spec = spec_ack(&ranges, delay, ecn, kani::any());
    let extra: usize = kani::any();
    kani::assume(extra <= 3 && spec.n + extra <= W);
    let mut input = spec.b;
    let r = if ecn.is_some() { decode_ack(&mut input[..spec.n + extra], T_ACK_ECN) } else { decode_ack(&mut input[..spec.n + extra], T_ACK) };
    assert!(r.is_some(), "C05/ack.dec/accepts_rfc_bytes");
    if let Some((a, rest)) = r {
        assert!(rest == extra, "C05/ack.dec/remainder");
        assert!(a.ack_delay.as_u64() == delay, "C05/ack.dec/ack_delay");
        assert!(a.largest_acknowledged().as_u64() == ranges.hi[0], "C05/ack.dec/largest_acknowledged");
        let got_ecn = a.ecn_counts.map(|e| [e.ect_0_count.as_u64(), e.ect_1_count.as_u64(), e.ce_count.as_u64()]);
        assert!(got_ecn == ecn, "C05/ack.dec/ecn_counts_iff_type_0x03");
        let mut it = a.ack_ranges();
        assert!(it.len() == ranges.n, "C05/ack.dec/range_count");
        let mut ranges_ok = true;
        unroll!(3, k, {
            let got = it.next();
            if k < ranges.n {
                match got {
                    Some(g) => {
                        if g.start().as_u64() != ranges.lo[k] || g.end().as_u64() != ranges.hi[k] {
                            ranges_ok = false;
                        }
                    }
                    None => ranges_ok = false,
                }
            } else if got.is_some() {
                ranges_ok = false;
            }
        });
        assert!(ranges_ok, "C05/ack.dec/ranges_are_the_acknowledged_packet_numbers");
        assert!(it.next().is_none(), "C05/ack.dec/no_range_beyond_count");
    }
    kani::cover!(ranges.n == 1 && ecn.is_none() && extra == 0, "reach:one_range_no_ecn");
    kani::cover!(ranges.n == 2 && ecn.is_some() && extra == 3, "reach:two_ranges_with_ecn_and_trailing_bytes");
    kani::cover!(!wide && ranges.n == 2 && ranges.lo[1] == 0, "reach:down_to_packet_zero");
    kani::cover!(wide && ranges.n == 2, "reach:two_ranges_eight_byte_fields");
    kani::cover!(true, "reach:end");
}

// ---- ref ----------------------------------------------------------------------------------------------------
//@ harness props=C05 tier=thorough level=bounded timeout=1500 bound="arbitrary input of <= 8 bytes with type byte 0x02 or 0x03 (<= 2 ranges)"
//@ fn Ack::decode_parameterized_mut
//@ fn AckRangesDecoder::decode_parameterized_mut
//@ fn AckRangesIter::next
//@ fn EcnCounts::decode
#[kani::proof]
#[kani::unwind(9)]
fn vq_c05_frame_ack_ref() {
    let mut bytes: [u8; 32] = kani::any();
    let len: usize = kani::any();
    kani::assume(len >= 1 && len <= 8);
    let ecn_type: bool = kani::any();
    bytes[0] = if ecn_type { 0x03 } else { 0x02 };
    let mut rd = Rd::<32>::new(bytes, len);
    let reference = rfc_parse_ack(&mut rd);
    let mut input = bytes;
    let r = if ecn_type { decode_ack(&mut input[..len], 0x03) } else { decode_ack(&mut input[..len], 0x02) };
    assert!(r.is_some() == reference.is_some(), "C05/ack.ref/ok_iff_reference_ok");
    if let (Some((a, rest)), Some(want)) = (r, reference) {
        assert!(len - rest == rd.at, "C05/ack.ref/consumed_eq_reference");
        assert!(rest < len, "C05/ack.ref/progress");
        assert!(a.ack_delay.as_u64() == want.delay, "C05/ack.ref/ack_delay");
        let got_ecn = a.ecn_counts.map(|e| [e.ect_0_count.as_u64(), e.ect_1_count.as_u64(), e.ce_count.as_u64()]);
        assert!(got_ecn == want.ecn, "C05/ack.ref/ecn_counts");
        let mut it = a.ack_ranges();
        assert!(it.len() == want.n, "C05/ack.ref/range_count");
        let mut ranges_ok = true;
        unroll!(2, k, {
            let got = it.next();
            if k < want.n {
                match got {
                    Some(g) => {
                        if g.start().as_u64() != want.lo[k] || g.end().as_u64() != want.hi[k] {
                            ranges_ok = false;
                        }
                    }
                    None => ranges_ok = false,
                }
            } else if got.is_some() {
                ranges_ok = false;
            }
        });
        assert!(ranges_ok && it.next().is_none(), "C05/ack.ref/ranges_eq_reference");
    }
    kani::cover!(reference.is_some() && rd.at == len, "reach:exact_fit");
    kani::cover!(reference.map(|w| w.n).unwrap_or(0) == 2, "reach:two_ranges");
    kani::cover!(reference.is_some() && ecn_type, "reach:with_ecn");
    kani::cover!(reference.is_none() && len == 8, "reach:rejected");
    kani::cover!(true, "reach:end");
}
