//@ inject crate=core src=quic/s2n-quic-core/src/frame/ack.rs
// C05 contract harnesses for the ACK frame (RFC 9000 19.3, types 0x02 / 0x03).  Oracle: `_rfc9000_wire.rs`.
// level=bounded: <= 3 acknowledged ranges (ACK Range Count <= 2) for enc/dec, with the integer fields of one frame
// drawn from one length class of RFC 9000 Table 4 at a time -- all <= 63 (1-byte form) or all >= 2^30 (8-byte form,
// up to 2^62-1); a frame that mixes the eleven fields over all 4^11 length combinations was tried first and does not
// finish (1500 s timeout; every field position is then a symbolic offset).
// NOT in the registry: the decode-side harnesses (dec on oracle bytes, ref on arbitrary bytes <= 8) ran into the
// 1500 s timeout on the shared, heavily loaded machine in three successively smaller shapes; they are kept, with
// the reference parser, in probes/kani_c05_ack_dec_ref_timeout.rs.  `decode_ack` below is used by them.
//
// The codec under contract is `Ack<A>::encode` / `Ack<AckRangesDecoder>::decode`, generic in the container `A` that
// yields the ranges.  The production container (`ack::Ranges`, an interval set on a VecDeque) is C16's subject; the
// harness supplies the ranges through a three-slot stack array implementing the same `AckRanges` trait.
use super::*;
use s2n_codec::{DecoderBufferMut, DecoderParameterizedValueMut, EncoderBuffer};
#[macro_use]
#[allow(dead_code, unused_macros)]
mod wire {
    include!("_rfc9000_wire.rs");
}
use wire::*;

const W: usize = 96;

fn v(x: u64) -> VarInt {
    VarInt::new(x).unwrap()
}

/// any value of one RFC 9000 Table 4 length class: `wide` = 8-byte form (2^30 ..= 2^62-1), else 1-byte form (0 ..= 63)
fn any_int_of(wide: bool) -> u64 {
    let x: u64 = kani::any();
    if wide {
        kani::assume(x >= 1073741824 && x <= RFC_VARINT_MAX);
    } else {
        kani::assume(x <= 63);
    }
    x
}

/// up to three ranges, largest first (the order `AckRanges::ack_ranges` promises)
#[derive(Clone, Copy)]
struct ThreeRanges {
    lo: [u64; 3],
    hi: [u64; 3],
    n: usize,
}

struct ThreeRangesIter {
    r: ThreeRanges,
    at: usize,
}

impl Iterator for ThreeRangesIter {
    type Item = RangeInclusive<VarInt>;
    fn next(&mut self) -> Option<Self::Item> {
        if self.at >= self.r.n {
            return None;
        }
        let i = self.at;
        self.at += 1;
        Some(v(self.r.lo[i])..=v(self.r.hi[i]))
    }
    fn size_hint(&self) -> (usize, Option<usize>) {
        let k = self.r.n - self.at;
        (k, Some(k))
    }
}

impl ExactSizeIterator for ThreeRangesIter {}

impl AckRanges for ThreeRanges {
    type Iter = ThreeRangesIter;
    fn ack_ranges(&self) -> Self::Iter {
        ThreeRangesIter { r: *self, at: 0 }
    }
}

/// Decodes an ACK frame from bytes[..len] the way the tag dispatch of the `frames!` macro does for the ACK arm
/// (`buffer.skip(size_of::<Tag>())?` then `buffer.decode_parameterized(tag)?`); None for Err.
/// (Why not through `FrameMut`: see c05_frames_fixed.rs `run_decoder`; the dispatch itself is contracted in c05_total.rs.)
fn decode_ack<'a>(bytes: &'a mut [u8], ty: u8) -> Option<(Ack<AckRangesDecoder<'a>>, usize)> {
    assert!(bytes.is_empty() || bytes[0] == ty);
    let buffer = DecoderBufferMut::new(bytes);
    let buffer = buffer.skip(core::mem::size_of::<Tag>()).ok()?;
    let (frame, rest) = buffer.decode_parameterized::<Ack<AckRangesDecoder>>(ty).ok()?;
    Some((frame, rest.len()))
}

/// an arbitrary set of 1..=3 disjoint, non-adjacent, descending ranges of packet numbers
/// (19.3.1: between two ranges lies a gap of at least one unacknowledged packet)
fn any_ranges() -> ThreeRanges {
    let n: usize = kani::any();
    kani::assume(n >= 1 && n <= 3);
    // packet numbers themselves range over the whole 62-bit domain; the length class constrains the *fields*
    // (largest, range lengths, gaps), see `fields_in_class`
    let lo: [u64; 3] = [kani::any(), kani::any(), kani::any()];
    let hi: [u64; 3] = [kani::any(), kani::any(), kani::any()];
    kani::assume(hi[0] <= RFC_VARINT_MAX);
    kani::assume(lo[0] <= hi[0]);
    kani::assume(n < 2 || (lo[0] >= 2 && hi[1] <= lo[0] - 2 && lo[1] <= hi[1]));
    kani::assume(n < 3 || (lo[1] >= 2 && hi[2] <= lo[1] - 2 && lo[2] <= hi[2]));
    ThreeRanges { lo, hi, n }
}

/// the oracle bytes for these ranges: 19.3.1 "Gap: ... the number of contiguous unacknowledged packets preceding the
/// packet number one lower than the smallest in the preceding ACK Range" => gap = smallest_prev - largest_next - 2;
/// "ACK Range Length: ... the number of contiguous acknowledged packets preceding the largest" => largest - smallest
fn spec_ack(r: &ThreeRanges, delay: u64, ecn: Option<[u64; 3]>, fill: [u8; W]) -> Wire<W> {
    let mut spec = Wire::<W>::new(fill);
    let gap1 = if r.n >= 2 { r.lo[0] - r.hi[1] - 2 } else { 0 };
    let len1 = if r.n >= 2 { r.hi[1] - r.lo[1] } else { 0 };
    let gap2 = if r.n >= 3 { r.lo[1] - r.hi[2] - 2 } else { 0 };
    let len2 = if r.n >= 3 { r.hi[2] - r.lo[2] } else { 0 };
    let e = ecn.unwrap_or([0, 0, 0]);
    spec.ack(ecn.is_some(), r.hi[0], delay, r.hi[0] - r.lo[0], r.n - 1, gap1, len1, gap2, len2, e[0], e[1], e[2]);
    spec
}

fn in_class(x: u64, wide: bool) -> bool {
    if wide {
        x >= 1073741824 && x <= RFC_VARINT_MAX
    } else {
        x <= 63
    }
}

/// every integer field the ranges give rise to lies in the chosen length class (ACK Range Count is 0..=2 anyway)
fn fields_in_class(r: &ThreeRanges, wide: bool) -> bool {
    let mut ok = in_class(r.hi[0], wide) && in_class(r.hi[0] - r.lo[0], wide);
    if r.n >= 2 {
        ok = ok && in_class(r.lo[0] - r.hi[1] - 2, wide) && in_class(r.hi[1] - r.lo[1], wide);
    }
    if r.n >= 3 {
        ok = ok && in_class(r.lo[1] - r.hi[2] - 2, wide) && in_class(r.hi[2] - r.lo[2], wide);
    }
    ok
}

fn any_ecn(wide: bool) -> Option<[u64; 3]> {
    if kani::any() {
        Some([any_int_of(wide), any_int_of(wide), any_int_of(wide)])
    } else {
        None
    }
}

// ---- enc ----------------------------------------------------------------------------------------------------
//@ harness props=C05 tier=thorough level=bounded timeout=1500 bound="1..=3 acknowledged ranges (ACK Range Count <= 2), with/without ECN counts; the fields of one frame all <= 63 or all in 2^30..=2^62-1"
//@ fn Ack::encode
//@ fn Ack::tag
//@ fn encode_ack_range
//@ fn EcnCounts::encode
#[kani::proof]
#[kani::unwind(10)]
fn vq_c05_frame_ack_enc() {
    let wide: bool = kani::any();
    let ranges = any_ranges();
    kani::assume(fields_in_class(&ranges, wide));
    let delay = any_int_of(wide);
    let ecn = any_ecn(wide);
    let spec = spec_ack(&ranges, delay, ecn, [0u8; W]);
    let f = Ack {
        ack_delay: v(delay),
        ack_ranges: ranges,
        ecn_counts: ecn.map(|e| EcnCounts { ect_0_count: v(e[0]), ect_1_count: v(e[1]), ce_count: v(e[2]) }),
    };
    assert!(f.tag() == spec.b[0], "C05/ack.enc/type_0x03_iff_ecn_counts");
    let announced = f.encoding_size();
    assert!(announced == spec.n, "C05/ack.enc/announced_len_eq_rfc_len");
    let before: [u8; W] = kani::any();
    let mut out = before;
    let used = {
        let mut e = EncoderBuffer::new(&mut out[..]);
        e.encode(&f);
        e.len()
    };
    assert!(used == announced, "C05/ack.enc/len_eq_announced");
    assert!(prefix_eq96(&out, &spec.b, spec.n), "C05/ack.enc/bytes_eq_rfc");
    kani::cover!(ranges.n == 1 && ecn.is_none(), "reach:one_range_no_ecn");
    kani::cover!(ranges.n == 3 && ecn.is_some(), "reach:three_ranges_with_ecn");
    kani::cover!(!wide && ranges.n == 2 && ranges.lo[0] == ranges.hi[1] + 2, "reach:smallest_gap");
    kani::cover!(wide && ranges.n == 3 && ecn.is_some() && spec.n == 82, "reach:largest_frame");
    kani::cover!(!wide && ranges.n == 3 && ecn.is_some() && spec.n == 12, "reach:one_byte_fields");
    kani::cover!(true, "reach:end");
}

//@ harness props=C05 tier=thorough level=bounded timeout=1500 bound="1..=3 acknowledged ranges (ACK Range Count <= 2), with/without ECN counts; the fields of one frame all <= 63 or all in 2^30..=2^62-1"
//@ fn Ack::encode
//@ fn encode_ack_range
//@ fn EcnCounts::encode
#[kani::proof]
#[kani::unwind(10)]
fn vq_c05_frame_ack_enc_exact() {
    let wide: bool = kani::any();
    let ranges = any_ranges();
    kani::assume(fields_in_class(&ranges, wide));
    let delay = any_int_of(wide);
    let ecn = any_ecn(wide);
    let f = Ack {
        ack_delay: v(delay),
        ack_ranges: ranges,
        ecn_counts: ecn.map(|e| EcnCounts { ect_0_count: v(e[0]), ect_1_count: v(e[1]), ce_count: v(e[2]) }),
    };
    let announced = f.encoding_size();
    kani::assume(announced <= W);
    let before: [u8; W] = kani::any();
    let mut out = before;
    let used = {
        let mut e = EncoderBuffer::new(&mut out[..announced]);
        e.encode(&f);
        e.len()
    };
    assert!(used == announced, "C05/ack.enc/len_eq_announced_without_slack");
    assert!(suffix_eq96(&out, &before, announced), "C05/ack.enc/nothing_written_past_announced_len");
    kani::cover!(ranges.n == 1 && ecn.is_none(), "reach:one_range_no_ecn");
    kani::cover!(ranges.n == 3 && ecn.is_some(), "reach:three_ranges_with_ecn");
    kani::cover!(true, "reach:end");
}

