//@ inject crate=core src=quic/s2n-quic-core/src/transport/parameters/mod.rs
// Contract harnesses for the transport-parameter validators, role gating, the parameter -> limit mapping
// and the block decoder/encoder (property C14).
// Oracle: contracts/kani/core/_rfc9000_tp.rs -- a table transcribed from RFC 9000 section 18.2 / 7.4 / 4.6 and
// RFC 9221 section 3 (ordinary Rust: tables and bytes are outside the i128 predicate sub-language).
use super::*;
#[allow(dead_code, unused_variables)]
mod oracle {
    include!("_rfc9000_tp.rs");
}
use oracle::*;

const MAXV: u64 = crate::varint::MAX_VARINT_VALUE;

fn v(x: u64) -> VarInt {
    VarInt::new(x).unwrap()
}

/// any value a variable-length integer can carry (what `from_codec_value` can hand to `validate`)
fn any_varint() -> u64 {
    let x: u64 = kani::any();
    kani::assume(x <= MAXV);
    x
}

// ================================================================================================
// 1. validators: Ok <=> oracle.valid(v), over the full value domain; Ok returns the value unchanged;
//    default_value() == oracle default; ID == oracle id
// ================================================================================================

/// `$t(VarInt)` parameter: obligations named `C14/<name>.validate/...`
macro_rules! check_varint_param {
    ($t:ident, $row:expr, $x:expr, $iff:literal, $same:literal, $def:literal, $id:literal) => {{
        let r = $t(v($x)).validate();
        assert!(r.is_ok() == tp_int_valid($row, $x), $iff);
        if let Ok(p) = r {
            assert!(p.0.as_u64() == $x, $same);
        }
        assert!(<$t as TransportParameter>::default_value().0.as_u64() == tp_int_effective($row, None), $def);
        assert!(<$t as TransportParameter>::ID.as_u64() == $row.id, $id);
    }};
}

//@ harness props=C14 tier=quick level=full timeout=120
//@ fn AckDelayExponent::validate
//@ fn ActiveConnectionIdLimit::validate
//@ fn InitialMaxStreamsBidi::validate
//@ fn InitialMaxStreamsUni::validate
#[kani::proof]
#[kani::unwind(8)] // 2u64.pow(n) in the validators is a square-and-multiply loop (<= 6 iterations)
fn vq_c14_tp_validate_ranged() {
    let x = any_varint();
    check_varint_param!(ActiveConnectionIdLimit, TP_ACTIVE_CONNECTION_ID_LIMIT, x,
        "C14/active_connection_id_limit.validate/iff_spec", "C14/active_connection_id_limit.validate/ok_returns_value",
        "C14/active_connection_id_limit.default/is_rfc_default", "C14/active_connection_id_limit.id/is_rfc_id");
    check_varint_param!(InitialMaxStreamsBidi, TP_INITIAL_MAX_STREAMS_BIDI, x,
        "C14/initial_max_streams_bidi.validate/iff_spec", "C14/initial_max_streams_bidi.validate/ok_returns_value",
        "C14/initial_max_streams_bidi.default/is_rfc_default", "C14/initial_max_streams_bidi.id/is_rfc_id");
    check_varint_param!(InitialMaxStreamsUni, TP_INITIAL_MAX_STREAMS_UNI, x,
        "C14/initial_max_streams_uni.validate/iff_spec", "C14/initial_max_streams_uni.validate/ok_returns_value",
        "C14/initial_max_streams_uni.default/is_rfc_default", "C14/initial_max_streams_uni.id/is_rfc_id");
    // ack_delay_exponent is held in a u8 by the code: every u8 is covered here; integer values that do not
    // fit a u8 are > 20 and must be rejected by the decoder (block harnesses below)
    let e: u8 = kani::any();
    let r = AckDelayExponent(e).validate();
    assert!(r.is_ok() == tp_int_valid(TP_ACK_DELAY_EXPONENT, e as u64), "C14/ack_delay_exponent.validate/iff_spec");
    if let Ok(p) = r {
        assert!(p.0 == e, "C14/ack_delay_exponent.validate/ok_returns_value");
    }
    assert!(AckDelayExponent::default_value().0 as u64 == tp_int_effective(TP_ACK_DELAY_EXPONENT, None),
        "C14/ack_delay_exponent.default/is_rfc_default");
    assert!(AckDelayExponent::ID.as_u64() == TP_ACK_DELAY_EXPONENT.id, "C14/ack_delay_exponent.id/is_rfc_id");
    kani::cover!(x == 1, "reach:active_cid_limit_just_outside");
    kani::cover!(x == 2, "reach:active_cid_limit_at_bound");
    kani::cover!(x == (1 << 60), "reach:max_streams_at_bound");
    kani::cover!(x == (1 << 60) + 1, "reach:max_streams_just_outside");
    kani::cover!(x == MAXV, "reach:varint_max");
    kani::cover!(e == 20, "reach:exponent_at_bound");
    kani::cover!(e == 21, "reach:exponent_just_outside");
    kani::cover!(true, "reach:end");
}

//@ harness props=C14 tier=quick level=full timeout=120
//@ fn MaxIdleTimeout::validate
//@ fn InitialMaxData::validate
//@ fn InitialMaxStreamDataBidiLocal::validate
//@ fn InitialMaxStreamDataBidiRemote::validate
//@ fn InitialMaxStreamDataUni::validate
//@ fn MaxDatagramFrameSize::validate
#[kani::proof]
#[kani::unwind(8)] // 2u64.pow(n) in the validators is a square-and-multiply loop (<= 6 iterations)
fn vq_c14_tp_validate_unranged() {
    // the RFC states no invalid value for these: every variable-length integer must be accepted
    let x = any_varint();
    check_varint_param!(MaxIdleTimeout, TP_MAX_IDLE_TIMEOUT, x,
        "C14/max_idle_timeout.validate/iff_spec", "C14/max_idle_timeout.validate/ok_returns_value",
        "C14/max_idle_timeout.default/is_rfc_default", "C14/max_idle_timeout.id/is_rfc_id");
    check_varint_param!(InitialMaxData, TP_INITIAL_MAX_DATA, x,
        "C14/initial_max_data.validate/iff_spec", "C14/initial_max_data.validate/ok_returns_value",
        "C14/initial_max_data.default/is_rfc_default", "C14/initial_max_data.id/is_rfc_id");
    check_varint_param!(InitialMaxStreamDataBidiLocal, TP_INITIAL_MAX_STREAM_DATA_BIDI_LOCAL, x,
        "C14/initial_max_stream_data_bidi_local.validate/iff_spec", "C14/initial_max_stream_data_bidi_local.validate/ok_returns_value",
        "C14/initial_max_stream_data_bidi_local.default/is_rfc_default", "C14/initial_max_stream_data_bidi_local.id/is_rfc_id");
    check_varint_param!(InitialMaxStreamDataBidiRemote, TP_INITIAL_MAX_STREAM_DATA_BIDI_REMOTE, x,
        "C14/initial_max_stream_data_bidi_remote.validate/iff_spec", "C14/initial_max_stream_data_bidi_remote.validate/ok_returns_value",
        "C14/initial_max_stream_data_bidi_remote.default/is_rfc_default", "C14/initial_max_stream_data_bidi_remote.id/is_rfc_id");
    check_varint_param!(InitialMaxStreamDataUni, TP_INITIAL_MAX_STREAM_DATA_UNI, x,
        "C14/initial_max_stream_data_uni.validate/iff_spec", "C14/initial_max_stream_data_uni.validate/ok_returns_value",
        "C14/initial_max_stream_data_uni.default/is_rfc_default", "C14/initial_max_stream_data_uni.id/is_rfc_id");
    check_varint_param!(MaxDatagramFrameSize, TP_MAX_DATAGRAM_FRAME_SIZE, x,
        "C14/max_datagram_frame_size.validate/iff_spec", "C14/max_datagram_frame_size.validate/ok_returns_value",
        "C14/max_datagram_frame_size.default/is_rfc_default", "C14/max_datagram_frame_size.id/is_rfc_id");
    kani::cover!(x == 0, "reach:zero");
    kani::cover!(x == MAXV, "reach:varint_max");
    kani::cover!(true, "reach:end");
}

// ---- the two validators whose strict RFC obligation is expected to FAIL on the unchanged tree (DESIGN 6
// items 1, 2).  AUTHORING "Findings": the strict obligation stays, a residual obligation excludes exactly
// the known failing input class; each pair lives in its own harness.

//@ harness props=C14 tier=quick level=full timeout=120
//@ fn MaxAckDelay::validate
#[kani::proof]
#[kani::unwind(8)] // 2u64.pow(n) in the validators is a square-and-multiply loop (<= 6 iterations)
fn vq_c14_tp_validate_max_ack_delay() {
    let x = any_varint();
    let r = MaxAckDelay(v(x)).validate();
    // covers first: Kani turns an assert into check+assume, so a failing strict obligation cuts later covers
    kani::cover!(x == 16383 && r.is_ok(), "reach:just_inside_accepted");
    kani::cover!(x == 16384, "reach:at_2_pow_14");
    kani::cover!(x == 16385 && r.is_err(), "reach:just_outside_rejected");
    kani::cover!(x == MAXV, "reach:varint_max");
    kani::cover!(true, "reach:end");
    // residual (must precede the strict one for the same reason): the claim outside the known failing input
    // v == 2^14 (the code tests `<= 2^14`, DESIGN 6 item 1)
    assert!(x == 16384 || r.is_ok() == tp_int_valid(TP_MAX_ACK_DELAY, x), "C14/max_ack_delay.validate/iff_spec#outside-known");
    if let Ok(p) = r {
        assert!(p.0.as_u64() == x, "C14/max_ack_delay.validate/ok_returns_value");
    }
    assert!(MaxAckDelay::default_value().0.as_u64() == tp_int_effective(TP_MAX_ACK_DELAY, None), "C14/max_ack_delay.default/is_rfc_default");
    assert!(MaxAckDelay::ID.as_u64() == TP_MAX_ACK_DELAY.id, "C14/max_ack_delay.id/is_rfc_id");
    // strict, RFC 9000 18.2: "Values of 2^14 or greater are invalid."
    assert!(r.is_ok() == tp_int_valid(TP_MAX_ACK_DELAY, x), "C14/max_ack_delay.validate/iff_spec");
}

//@ harness props=C14 tier=quick level=full timeout=120
//@ fn MaxUdpPayloadSize::validate
#[kani::proof]
#[kani::unwind(8)] // 2u64.pow(n) in the validators is a square-and-multiply loop (<= 6 iterations)
fn vq_c14_tp_validate_max_udp_payload_size() {
    let x = any_varint();
    let r = MaxUdpPayloadSize(v(x)).validate();
    kani::cover!(x == 1199 && r.is_err(), "reach:just_outside_low_rejected");
    kani::cover!(x == 1200 && r.is_ok(), "reach:at_low_bound_accepted");
    kani::cover!(x == 65527 && r.is_ok(), "reach:at_default_accepted");
    kani::cover!(x == 65528, "reach:above_default");
    kani::cover!(x == MAXV, "reach:varint_max");
    kani::cover!(true, "reach:end");
    // residual: the claim outside the known failing input class v > 65527 (the code rejects those, DESIGN 6 item 2)
    assert!(x > 65527 || r.is_ok() == tp_int_valid(TP_MAX_UDP_PAYLOAD_SIZE, x), "C14/max_udp_payload_size.validate/iff_spec#outside-known");
    if let Ok(p) = r {
        assert!(p.0.as_u64() == x, "C14/max_udp_payload_size.validate/ok_returns_value");
    }
    assert!(MaxUdpPayloadSize::default_value().0.as_u64() == tp_int_effective(TP_MAX_UDP_PAYLOAD_SIZE, None), "C14/max_udp_payload_size.default/is_rfc_default");
    assert!(MaxUdpPayloadSize::ID.as_u64() == TP_MAX_UDP_PAYLOAD_SIZE.id, "C14/max_udp_payload_size.id/is_rfc_id");
    // strict, RFC 9000 18.2: "Values below 1200 are invalid." -- nothing else is
    assert!(r.is_ok() == tp_int_valid(TP_MAX_UDP_PAYLOAD_SIZE, x), "C14/max_udp_payload_size.validate/iff_spec");
}

// ================================================================================================
// 2. role gating (RFC 9000 18.2 last paragraph): the four server-only parameters are disabled in
//    ClientTransportParameters, enabled in ServerTransportParameters; every other parameter is enabled
// ================================================================================================

/// (id, ENABLED) of the four role-dependent type parameters of a TransportParameters instantiation
fn role_dependent<A, B, C, D>(_p: &TransportParameters<A, B, C, D>) -> [(u64, bool); 4]
where
    A: TransportParameter,
    B: TransportParameter,
    C: TransportParameter,
    D: TransportParameter,
{
    [
        (A::ID.as_u64(), A::ENABLED),
        (B::ID.as_u64(), B::ENABLED),
        (C::ID.as_u64(), C::ENABLED),
        (D::ID.as_u64(), D::ENABLED),
    ]
}

fn enabled_of(tab: &[(u64, bool); 4], id: u64) -> Option<bool> {
    if tab[0].0 == id {
        Some(tab[0].1)
    } else if tab[1].0 == id {
        Some(tab[1].1)
    } else if tab[2].0 == id {
        Some(tab[2].1)
    } else if tab[3].0 == id {
        Some(tab[3].1)
    } else {
        None
    }
}

//@ harness props=C14 tier=quick level=full timeout=120
//@ fn DisabledParameter::ENABLED
//@ fn ClientTransportParameters
//@ fn ServerTransportParameters
#[kani::proof]
#[kani::unwind(3)]
fn vq_c14_tp_role_gating_types() {
    let c = role_dependent(&ClientTransportParameters::default());
    let s = role_dependent(&ServerTransportParameters::default());
    // "A client MUST NOT include any server-only transport parameter: original_destination_connection_id,
    //  preferred_address, retry_source_connection_id, or stateless_reset_token."
    assert!(enabled_of(&c, TP_ORIGINAL_DESTINATION_CONNECTION_ID.id) == Some(false), "C14/client_parameters.gating/original_destination_connection_id_disabled");
    assert!(enabled_of(&c, TP_STATELESS_RESET_TOKEN.id) == Some(false), "C14/client_parameters.gating/stateless_reset_token_disabled");
    assert!(enabled_of(&c, TP_PREFERRED_ADDRESS.id) == Some(false), "C14/client_parameters.gating/preferred_address_disabled");
    assert!(enabled_of(&c, TP_RETRY_SOURCE_CONNECTION_ID.id) == Some(false), "C14/client_parameters.gating/retry_source_connection_id_disabled");
    assert!(enabled_of(&s, TP_ORIGINAL_DESTINATION_CONNECTION_ID.id) == Some(true), "C14/server_parameters.gating/original_destination_connection_id_enabled");
    assert!(enabled_of(&s, TP_STATELESS_RESET_TOKEN.id) == Some(true), "C14/server_parameters.gating/stateless_reset_token_enabled");
    assert!(enabled_of(&s, TP_PREFERRED_ADDRESS.id) == Some(true), "C14/server_parameters.gating/preferred_address_enabled");
    assert!(enabled_of(&s, TP_RETRY_SOURCE_CONNECTION_ID.id) == Some(true), "C14/server_parameters.gating/retry_source_connection_id_enabled");
    // the table's own server_only column says the same four and nothing else
    assert!(
        TP_ORIGINAL_DESTINATION_CONNECTION_ID.server_only && TP_STATELESS_RESET_TOKEN.server_only
            && TP_PREFERRED_ADDRESS.server_only && TP_RETRY_SOURCE_CONNECTION_ID.server_only
            && RFC_TP_SERVER_ONLY_IDS[0] == 0x00 && RFC_TP_SERVER_ONLY_IDS[1] == 0x0d
            && RFC_TP_SERVER_ONLY_IDS[2] == 0x10 && RFC_TP_SERVER_ONLY_IDS[3] == 0x02,
        "C14/oracle.table/server_only_rows_are_the_four_of_18_2"
    );
    // every parameter that both roles may send is enabled (for both instantiations: these field types do not
    // depend on the role) and carries the RFC id
    macro_rules! both_roles {
        ($t:ty, $row:expr) => {
            <$t as TransportParameter>::ENABLED && !$row.server_only && <$t as TransportParameter>::ID.as_u64() == $row.id
        };
    }
    assert!(
        both_roles!(MaxIdleTimeout, TP_MAX_IDLE_TIMEOUT)
            && both_roles!(MaxUdpPayloadSize, TP_MAX_UDP_PAYLOAD_SIZE)
            && both_roles!(InitialMaxData, TP_INITIAL_MAX_DATA)
            && both_roles!(InitialMaxStreamDataBidiLocal, TP_INITIAL_MAX_STREAM_DATA_BIDI_LOCAL)
            && both_roles!(InitialMaxStreamDataBidiRemote, TP_INITIAL_MAX_STREAM_DATA_BIDI_REMOTE)
            && both_roles!(InitialMaxStreamDataUni, TP_INITIAL_MAX_STREAM_DATA_UNI)
            && both_roles!(InitialMaxStreamsBidi, TP_INITIAL_MAX_STREAMS_BIDI)
            && both_roles!(InitialMaxStreamsUni, TP_INITIAL_MAX_STREAMS_UNI)
            && both_roles!(MaxDatagramFrameSize, TP_MAX_DATAGRAM_FRAME_SIZE)
            && both_roles!(AckDelayExponent, TP_ACK_DELAY_EXPONENT)
            && both_roles!(MaxAckDelay, TP_MAX_ACK_DELAY)
            && both_roles!(MigrationSupport, TP_DISABLE_ACTIVE_MIGRATION)
            && both_roles!(ActiveConnectionIdLimit, TP_ACTIVE_CONNECTION_ID_LIMIT)
            && both_roles!(Option<InitialSourceConnectionId>, TP_INITIAL_SOURCE_CONNECTION_ID),
        "C14/parameters.gating/common_parameters_enabled_with_rfc_ids"
    );
    // a disabled parameter is never put on the wire and decodes to nothing
    let d = DisabledParameter::<PreferredAddress>::default_value();
    assert!(d.try_into_codec_value().is_none(), "C14/client_parameters.gating/disabled_parameter_never_encoded");
    kani::cover!(true, "reach:end");
}

// ================================================================================================
// 3. the mapping used by the connection returns exactly the declared values
// ================================================================================================

/// arbitrary parameter struct: every integer field holds an arbitrary variable-length integer (the mapping
/// functions have no precondition), role-dependent fields absent
fn any_server_params() -> (ServerTransportParameters, [u64; 11], u8) {
    let mut x = [0u64; 11];
    let mut i = 0;
    while i < 11 {
        x[i] = any_varint();
        i += 1;
    }
    let e: u8 = kani::any();
    let mut p = ServerTransportParameters::default();
    p.max_idle_timeout = MaxIdleTimeout(v(x[0]));
    p.max_udp_payload_size = MaxUdpPayloadSize(v(x[1]));
    p.initial_max_data = InitialMaxData(v(x[2]));
    p.initial_max_stream_data_bidi_local = InitialMaxStreamDataBidiLocal(v(x[3]));
    p.initial_max_stream_data_bidi_remote = InitialMaxStreamDataBidiRemote(v(x[4]));
    p.initial_max_stream_data_uni = InitialMaxStreamDataUni(v(x[5]));
    p.initial_max_streams_bidi = InitialMaxStreamsBidi(v(x[6]));
    p.initial_max_streams_uni = InitialMaxStreamsUni(v(x[7]));
    p.max_datagram_frame_size = MaxDatagramFrameSize(v(x[8]));
    p.max_ack_delay = MaxAckDelay(v(x[9]));
    p.active_connection_id_limit = ActiveConnectionIdLimit(v(x[10]));
    p.ack_delay_exponent = AckDelayExponent(e);
    (p, x, e)
}

//@ harness props=C14 tier=quick level=full timeout=240
//@ fn TransportParameters::flow_control_limits
//@ fn TransportParameters::stream_limits
//@ fn TransportParameters::ack_settings
//@ fn TransportParameters::datagram_limits
//@ fn TransportParameters::zero_rtt_parameters
//@ fn MaxAckDelay::as_duration
#[kani::proof]
#[kani::unwind(18)] // the builder's 11-iteration loop; memcmp over the 16 bytes of DcSupportedVersions::versions in `==`
fn vq_c14_tp_mapping_declared_values() {
    let (p, x, e) = any_server_params();
    let before = p;
    let f = p.flow_control_limits();
    assert!(f.max_data.as_u64() == x[2], "C14/parameters.flow_control_limits/max_data_is_initial_max_data");
    assert!(f.stream_limits.max_data_bidi_local.as_u64() == x[3], "C14/parameters.flow_control_limits/bidi_local_is_declared");
    assert!(f.stream_limits.max_data_bidi_remote.as_u64() == x[4], "C14/parameters.flow_control_limits/bidi_remote_is_declared");
    assert!(f.stream_limits.max_data_uni.as_u64() == x[5], "C14/parameters.flow_control_limits/uni_is_declared");
    assert!(f.max_open_remote_bidirectional_streams.as_u64() == x[6], "C14/parameters.flow_control_limits/streams_bidi_is_declared");
    assert!(f.max_open_remote_unidirectional_streams.as_u64() == x[7], "C14/parameters.flow_control_limits/streams_uni_is_declared");
    let s = p.stream_limits();
    assert!(
        s.max_data_bidi_local.as_u64() == x[3] && s.max_data_bidi_remote.as_u64() == x[4] && s.max_data_uni.as_u64() == x[5],
        "C14/parameters.stream_limits/are_declared"
    );
    let a = p.ack_settings();
    // the settings carry the duration of the declared parameter (that this duration is exactly "x milliseconds"
    // is vq_c14_tp_millis_to_duration)
    assert!(a.max_ack_delay == p.max_ack_delay.as_duration(), "C14/parameters.ack_settings/max_ack_delay_is_declared");
    assert!(a.ack_delay_exponent == e, "C14/parameters.ack_settings/ack_delay_exponent_is_declared");
    let rec = ack::Settings::RECOMMENDED;
    assert!(
        a.ack_elicitation_interval == rec.ack_elicitation_interval && a.ack_ranges_limit == rec.ack_ranges_limit,
        "C14/parameters.ack_settings/local_only_settings_untouched"
    );
    let d = p.datagram_limits();
    // RFC 9221 3 / 5: frames larger than max_datagram_frame_size must not be sent; max_udp_payload_size caps it further
    assert!(d.max_datagram_payload == core::cmp::min(x[8], x[1]), "C14/parameters.datagram_limits/min_of_frame_size_and_udp_payload");
    let z = p.zero_rtt_parameters();
    // 7.4.1: the remembered parameters are the declared values
    assert!(
        z.active_connection_id_limit.as_u64() == x[10] && z.initial_max_data.as_u64() == x[2]
            && z.initial_max_stream_data_bidi_local.as_u64() == x[3] && z.initial_max_stream_data_bidi_remote.as_u64() == x[4]
            && z.initial_max_stream_data_uni.as_u64() == x[5] && z.initial_max_streams_bidi.as_u64() == x[6]
            && z.initial_max_streams_uni.as_u64() == x[7] && z.max_datagram_frame_size.as_u64() == x[8],
        "C14/parameters.zero_rtt_parameters/are_declared"
    );
    // frame: the accessors are pure
    assert!(p == before, "C14/parameters.mapping/parameters_unchanged");
    kani::cover!(x[9] == 16383, "reach:max_ack_delay_largest_valid");
    kani::cover!(x[8] > x[1], "reach:udp_payload_caps_datagram");
    kani::cover!(x[8] < x[1], "reach:frame_size_caps_datagram");
    kani::cover!(true, "reach:end");
}

//@ harness props=C14 tier=quick level=full timeout=240
//@ fn InitialStreamLimits::max_data
#[kani::proof]
#[kani::unwind(3)]
fn vq_c14_tp_stream_limit_selection() {
    // RFC 9000 18.2, initial_max_stream_data_{bidi_local, bidi_remote, uni}: which limit of the SENDER's
    // parameters applies to which stream, by the two least significant bits of the stream id:
    //   client parameters: bidi_local -> 0x00, bidi_remote -> 0x01, uni -> 0x03
    //   server parameters: bidi_local -> 0x01, bidi_remote -> 0x00, uni -> 0x02
    let l = any_varint();
    let r = any_varint();
    let u = any_varint();
    let lim = InitialStreamLimits { max_data_bidi_local: v(l), max_data_bidi_remote: v(r), max_data_uni: v(u) };
    let id = any_varint();
    let sid = StreamId::from_varint(v(id));
    let by_client = lim.max_data(endpoint::Type::Client, sid).as_u64();
    let by_server = lim.max_data(endpoint::Type::Server, sid).as_u64();
    let lsb = id & 0x3;
    assert!(lsb != 0x0 || by_client == l, "C14/stream_limits.max_data/client_params_bidi_local_applies_to_0x00");
    assert!(lsb != 0x1 || by_client == r, "C14/stream_limits.max_data/client_params_bidi_remote_applies_to_0x01");
    assert!(lsb != 0x3 || by_client == u, "C14/stream_limits.max_data/client_params_uni_applies_to_0x03");
    assert!(lsb != 0x1 || by_server == l, "C14/stream_limits.max_data/server_params_bidi_local_applies_to_0x01");
    assert!(lsb != 0x0 || by_server == r, "C14/stream_limits.max_data/server_params_bidi_remote_applies_to_0x00");
    assert!(lsb != 0x2 || by_server == u, "C14/stream_limits.max_data/server_params_uni_applies_to_0x02");
    kani::cover!(lsb == 0 && l != r, "reach:client_bidi");
    kani::cover!(lsb == 1 && l != r, "reach:server_bidi");
    kani::cover!(lsb == 2, "reach:client_uni");
    kani::cover!(lsb == 3, "reach:server_uni");
    kani::cover!(id == MAXV, "reach:largest_stream_id");
}

//@ harness props=C14 tier=quick level=full timeout=240
//@ fn TransportParameters::load_limits
//@ fn connection::Limits::ack_settings
//@ fn connection::Limits::initial_flow_control_limits
#[kani::proof]
#[kani::unwind(18)] // the builder's 11-iteration loop; memcmp over the 16 bytes of DcSupportedVersions::versions in `==`
fn vq_c14_tp_load_limits() {
    // what the local endpoint declares to its peer == the limits it was configured with, and what it then
    // enforces locally (Limits::ack_settings / initial_flow_control_limits) == what it declared
    let (src, x, e) = any_server_params();
    let mut lim = connection::Limits::new();
    lim.max_idle_timeout = src.max_idle_timeout;
    lim.data_window = src.initial_max_data;
    lim.bidirectional_local_data_window = src.initial_max_stream_data_bidi_local;
    lim.bidirectional_remote_data_window = src.initial_max_stream_data_bidi_remote;
    lim.unidirectional_data_window = src.initial_max_stream_data_uni;
    lim.max_open_remote_bidirectional_streams = src.initial_max_streams_bidi;
    lim.max_open_remote_unidirectional_streams = src.initial_max_streams_uni;
    lim.max_ack_delay = src.max_ack_delay;
    lim.ack_delay_exponent = src.ack_delay_exponent;
    lim.max_active_connection_ids = src.active_connection_id_limit;
    lim.max_datagram_frame_size = src.max_datagram_frame_size;
    let disabled: bool = kani::any();
    lim.migration_support = if disabled { MigrationSupport::Disabled } else { MigrationSupport::Enabled };

    let mut p = ClientTransportParameters::default();
    let before = p;
    p.load_limits(&lim);
    assert!(p.max_idle_timeout.0.as_u64() == x[0], "C14/parameters.load_limits/max_idle_timeout");
    assert!(p.initial_max_data.0.as_u64() == x[2], "C14/parameters.load_limits/initial_max_data");
    assert!(p.initial_max_stream_data_bidi_local.0.as_u64() == x[3], "C14/parameters.load_limits/initial_max_stream_data_bidi_local");
    assert!(p.initial_max_stream_data_bidi_remote.0.as_u64() == x[4], "C14/parameters.load_limits/initial_max_stream_data_bidi_remote");
    assert!(p.initial_max_stream_data_uni.0.as_u64() == x[5], "C14/parameters.load_limits/initial_max_stream_data_uni");
    assert!(p.initial_max_streams_bidi.0.as_u64() == x[6], "C14/parameters.load_limits/initial_max_streams_bidi");
    assert!(p.initial_max_streams_uni.0.as_u64() == x[7], "C14/parameters.load_limits/initial_max_streams_uni");
    assert!(p.max_datagram_frame_size.0.as_u64() == x[8], "C14/parameters.load_limits/max_datagram_frame_size");
    assert!(p.max_ack_delay.0.as_u64() == x[9], "C14/parameters.load_limits/max_ack_delay");
    assert!(p.active_connection_id_limit.0.as_u64() == x[10], "C14/parameters.load_limits/active_connection_id_limit");
    assert!(p.ack_delay_exponent.0 == e, "C14/parameters.load_limits/ack_delay_exponent");
    assert!((p.migration_support == MigrationSupport::Disabled) == disabled, "C14/parameters.load_limits/migration_support");
    // frame: everything load_limits does not own keeps its value
    assert!(
        p.max_udp_payload_size == before.max_udp_payload_size && p.initial_source_connection_id == before.initial_source_connection_id
            && p.dc_supported_versions == before.dc_supported_versions
            && p.mtu_probing_complete_support == before.mtu_probing_complete_support,
        "C14/parameters.load_limits/other_parameters_unchanged"
    );
    // the locally enforced settings equal the declared ones
    let a = lim.ack_settings();
    let pa = p.ack_settings();
    assert!(a.max_ack_delay == pa.max_ack_delay && a.ack_delay_exponent == pa.ack_delay_exponent, "C14/limits.ack_settings/equal_declared");
    let lf = lim.initial_flow_control_limits();
    assert!(lf == p.flow_control_limits(), "C14/limits.initial_flow_control_limits/equal_declared");
    kani::cover!(disabled, "reach:migration_disabled");
    kani::cover!(!disabled && x[9] == 0, "reach:zero_ack_delay");
    kani::cover!(true, "reach:end");
}

//@ harness props=C14 tier=quick level=full timeout=240
//@ fn MaxAckDelay::as_duration
//@ fn MaxIdleTimeout::as_duration
#[kani::proof]
#[kani::unwind(3)]
fn vq_c14_tp_millis_to_duration() {
    // 18.2: max_ack_delay and max_idle_timeout are "in milliseconds".  d is exactly x ms  <=>
    //   d.secs * 1000 + d.subsec_nanos / 10^6 == x  and  d.subsec_nanos is a whole number of ms below one second
    // (multiplication form: no second 64-bit divider for the solver to prove equivalent to the code's)
    let x = any_varint();
    let d = MaxAckDelay(v(x)).as_duration();
    let whole_ms = d.subsec_nanos() % 1_000_000 == 0 && d.subsec_nanos() < 1_000_000_000;
    assert!(whole_ms && (d.as_secs() as u128) * 1000 + (d.subsec_nanos() / 1_000_000) as u128 == x as u128, "C14/max_ack_delay.as_duration/is_declared_milliseconds");
    let i = MaxIdleTimeout(v(x)).as_duration();
    // "Idle timeout is disabled when both endpoints omit this transport parameter or specify a value of 0."
    assert!(i.is_none() == (x == 0), "C14/max_idle_timeout.as_duration/none_iff_zero");
    if let Some(i) = i {
        let whole_ms = i.subsec_nanos() % 1_000_000 == 0 && i.subsec_nanos() < 1_000_000_000;
        assert!(whole_ms && (i.as_secs() as u128) * 1000 + (i.subsec_nanos() / 1_000_000) as u128 == x as u128, "C14/max_idle_timeout.as_duration/is_declared_milliseconds");
    }
    kani::cover!(x == 16383, "reach:largest_valid_max_ack_delay");
    kani::cover!(x == 999, "reach:below_one_second");
    kani::cover!(x == MAXV, "reach:varint_max");
    kani::cover!(x == 0, "reach:zero");
}

//@ harness props=C14 tier=quick level=full timeout=240
//@ fn MaxIdleTimeout::load_peer
//@ fn connection::Limits::load_peer
#[kani::proof]
#[kani::unwind(3)]
fn vq_c14_tp_max_idle_timeout_effective() {
    // 18.2 / 10.1: "Idle timeout is disabled when both endpoints omit this transport parameter or specify a
    // value of 0"; "the effective value at an endpoint is computed as the minimum of the two advertised values"
    // (a value of 0 = "no timeout" does not take part in the minimum).  Stated on the durations the parameters
    // denote (their exactness is vq_c14_tp_millis_to_duration): comparing the raw millisecond values instead
    // needs monotonicity of 64-bit division, which the SAT back end does not decide in 240 s (tried).
    let mine = any_varint();
    let peer = any_varint();
    let mut lim = connection::Limits::new();
    lim.max_idle_timeout = MaxIdleTimeout(v(mine));
    let before = lim;
    let mut p = ServerTransportParameters::default();
    p.max_idle_timeout = MaxIdleTimeout(v(peer));
    let d_mine = MaxIdleTimeout(v(mine)).as_duration();
    let d_peer = p.max_idle_timeout.as_duration();
    lim.load_peer(&p);
    let eff = lim.max_idle_timeout.0.as_u64();
    let d_eff = lim.max_idle_timeout.as_duration();
    let want = match (d_mine, d_peer) {
        (None, None) => None,
        (Some(a), None) => Some(a),
        (None, Some(b)) => Some(b),
        (Some(a), Some(b)) => Some(if a <= b { a } else { b }),
    };
    assert!(d_eff == want, "C14/max_idle_timeout.load_peer/is_min_of_advertised_nonzero_values");
    assert!(eff == mine || eff == peer, "C14/max_idle_timeout.load_peer/is_one_of_the_advertised_values");
    assert!(mine != 0 || eff == peer, "C14/max_idle_timeout.load_peer/local_disabled_takes_peer");
    assert!(peer != 0 || eff == mine, "C14/max_idle_timeout.load_peer/peer_disabled_keeps_local");
    assert!(d_eff.is_none() == (mine == 0 && peer == 0), "C14/max_idle_timeout.load_peer/disabled_iff_both_zero");
    assert!(
        lim.data_window == before.data_window && lim.max_ack_delay == before.max_ack_delay
            && lim.ack_delay_exponent == before.ack_delay_exponent
            && lim.max_open_remote_bidirectional_streams == before.max_open_remote_bidirectional_streams,
        "C14/limits.load_peer/other_limits_unchanged"
    );
    kani::cover!(mine == 0 && peer > 0, "reach:only_peer");
    kani::cover!(mine > 0 && peer == 0, "reach:only_local");
    kani::cover!(mine > peer && peer > 0 && eff == peer, "reach:peer_smaller");
    kani::cover!(mine < peer && mine > 0 && eff == mine, "reach:local_smaller");
    kani::cover!(mine == 0 && peer == 0, "reach:both_disabled");
    kani::cover!(mine == MAXV && peer == MAXV, "reach:both_max");
}
