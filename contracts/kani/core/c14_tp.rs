//@ inject crate=core src=quic/s2n-quic-core/src/transport/parameters/mod.rs
// Contract harnesses for the transport-parameter validators, role gating, the parameter -> limit mapping
// and the block decoder/encoder (property C14).
// Oracle: contracts/kani/core/_rfc9000_tp.rs -- a table transcribed from RFC 9000 section 18.2 / 7.4 / 4.6 and
// RFC 9221 section 3 (ordinary Rust: tables and bytes are outside the i128 predicate sub-language).
use super::*;
#[allow(dead_code, unused_variables)]
mod oracle {
    include!("_rfc9000_tp.rs");
}
use oracle::*;

const MAXV: u64 = crate::varint::MAX_VARINT_VALUE;

fn v(x: u64) -> VarInt {
    VarInt::new(x).unwrap()
}

/// any value a variable-length integer can carry (what `from_codec_value` can hand to `validate`)
fn any_varint() -> u64 {
    let x: u64 = kani::any();
    kani::assume(x <= MAXV);
    x
}

// ================================================================================================
// 0. helpers of the block-decoder harnesses (section 5)
// ================================================================================================

/// the decoded value of the integer parameter `id` in a parameter struct
fn int_field<A, B, C, D>(p: &TransportParameters<A, B, C, D>, id: u64) -> u64 {
    match id {
        0x01 => p.max_idle_timeout.0.as_u64(),
        0x03 => p.max_udp_payload_size.0.as_u64(),
        0x04 => p.initial_max_data.0.as_u64(),
        0x05 => p.initial_max_stream_data_bidi_local.0.as_u64(),
        0x06 => p.initial_max_stream_data_bidi_remote.0.as_u64(),
        0x07 => p.initial_max_stream_data_uni.0.as_u64(),
        0x08 => p.initial_max_streams_bidi.0.as_u64(),
        0x09 => p.initial_max_streams_uni.0.as_u64(),
        0x0a => p.ack_delay_exponent.0 as u64,
        0x0b => p.max_ack_delay.0.as_u64(),
        0x0e => p.active_connection_id_limit.0.as_u64(),
        0x20 => p.max_datagram_frame_size.0.as_u64(),
        _ => unreachable!(),
    }
}

fn int_row(id: u64) -> TpRow {
    match id {
        0x01 => TP_MAX_IDLE_TIMEOUT,
        0x03 => TP_MAX_UDP_PAYLOAD_SIZE,
        0x04 => TP_INITIAL_MAX_DATA,
        0x05 => TP_INITIAL_MAX_STREAM_DATA_BIDI_LOCAL,
        0x06 => TP_INITIAL_MAX_STREAM_DATA_BIDI_REMOTE,
        0x07 => TP_INITIAL_MAX_STREAM_DATA_UNI,
        0x08 => TP_INITIAL_MAX_STREAMS_BIDI,
        0x09 => TP_INITIAL_MAX_STREAMS_UNI,
        0x0a => TP_ACK_DELAY_EXPONENT,
        0x0b => TP_MAX_ACK_DELAY,
        0x0e => TP_ACTIVE_CONNECTION_ID_LIMIT,
        0x20 => TP_MAX_DATAGRAM_FRAME_SIZE,
        _ => unreachable!(),
    }
}

const INT_IDS: [u64; 12] = [0x01, 0x03, 0x04, 0x05, 0x06, 0x07, 0x08, 0x09, 0x0a, 0x0b, 0x0e, 0x20];

/// inputs on which a *validator* is known to deviate from the RFC (the two validator findings above) or on
/// which the value codec deviates (ack_delay_exponent is decoded as ONE byte: any longer, RFC-legal
/// variable-length encoding of the same number is rejected -- vq_c14_tp_block_ack_delay_exponent_encoding);
/// excluded from the block-level obligations so that each finding is reported once, at its own obligation
fn known_deviation(id: u64, v: u64, vlen: usize) -> bool {
    (id == 0x0b && v == 16384) || (id == 0x03 && v > 65527) || (id == 0x0a && vlen != 1)
}

/// Values are encoded with a CONCRETE first byte (the varint length prefix + the top bits of the value) and
/// symbolic remaining bytes.  Reason (measured): with a symbolic first value byte the four length arms of
/// `VarInt::decode` are all explored, CBMC merges their results, the remaining-buffer length stops being a
/// constant and the block loop is entered a second time on a nondeterministic buffer -- no result in 280 s even
/// for a three-byte block.  The full value domain of every validator is covered by section 1 (level=full); the
/// block harnesses check the plumbing around them.
/// `FIRST` = first byte of the value encoding; returns (value, encoding length)
fn any_value_with_first_byte<const FIRST: u8>() -> (u64, usize) {
    let vlen: usize = match FIRST >> 6 {
        0 => 1,
        1 => 2,
        2 => 4,
        _ => 8,
    };
    let top = (FIRST & 0x3f) as u64;
    let low: u64 = kani::any();
    let bits = 8 * (vlen as u32 - 1);
    kani::assume(bits == 0 || low < (1u64 << bits));
    let x = if bits == 0 { top } else { (top << bits) | low };
    (x, vlen)
}

/// The oracle encoder wrote `0x80 | (x >> 24)`-style expressions into the first value byte: equal to FIRST by
/// construction of x, but not syntactically constant for the symbolic executor.  Check that, then store the
/// literal so that the length arm of `VarInt::decode` is decided during symbolic execution.
fn pin_first_value_byte<const FIRST: u8, const L: usize>(buf: &mut [u8; L], at: usize) {
    assert!(buf[at] == FIRST, "C14/oracle.encoder/first_value_byte_is_the_declared_constant");
    buf[at] = FIRST;
}

/// every integer parameter other than `a` and `b` holds its RFC default; the optional ones are absent
fn others_default<A, B, C, D>(p: &TransportParameters<A, B, C, D>, a: u64, b: u64) -> bool {
    let mut ok = true;
    let mut i = 0;
    while i < 12 {
        let id = INT_IDS[i];
        if id != a && id != b {
            ok = ok && int_field(p, id) == tp_int_effective(int_row(id), None);
        }
        i += 1;
    }
    ok && p.migration_support == MigrationSupport::Enabled && p.initial_source_connection_id.is_none()
}

/// one integer parameter: id, encoding length and first value byte concrete, the rest of the value symbolic
fn block_one_int<const ID: u64, const FIRST: u8>() {
    let (x, vlen) = any_value_with_first_byte::<FIRST>();
    let mut buf = [0u8; 24];
    let n = tp_put_int_param(&mut buf, 0, ID, x, vlen);
    pin_first_value_byte::<FIRST, 24>(&mut buf, n - vlen);
    let rc = ClientTransportParameters::decode_parameters(DecoderBuffer::new(&buf[..n]));
    let rs = ServerTransportParameters::decode_parameters(DecoderBuffer::new(&buf[..n]));
    let row = int_row(ID);
    kani::cover!(rc.is_ok(), "reach:accepted");
    kani::cover!(true, "reach:end");
    if !known_deviation(ID, x, vlen) {
        assert!(rc.is_ok() == tp_int_valid(row, x), "C14/decode_parameters/client_block_accepted_iff_value_valid");
        assert!(rs.is_ok() == tp_int_valid(row, x), "C14/decode_parameters/server_block_accepted_iff_value_valid");
    }
    if let Ok(p) = rc {
        assert!(int_field(&p, ID) == x, "C14/decode_parameters/declared_value_is_applied");
        assert!(others_default(&p, ID, ID), "C14/decode_parameters/absent_parameters_get_rfc_defaults");
    }
    if let Ok(p) = rs {
        assert!(int_field(&p, ID) == x && others_default(&p, ID, ID), "C14/decode_parameters/server_declared_value_applied_others_default");
        assert!(
            p.original_destination_connection_id.is_none() && p.stateless_reset_token.is_none()
                && p.preferred_address.is_none() && p.retry_source_connection_id.is_none(),
            "C14/decode_parameters/absent_server_only_parameters_are_none"
        );
    }
}

/// two DIFFERENT integer parameters: ids, encoding lengths and first value bytes concrete, the rest symbolic
fn block_two_ints<const ID1: u64, const F1: u8, const ID2: u64, const F2: u8>() {
    let (x1, l1) = any_value_with_first_byte::<F1>();
    let (x2, l2) = any_value_with_first_byte::<F2>();
    let mut buf = [0u8; 40];
    let n1 = tp_put_int_param(&mut buf, 0, ID1, x1, l1);
    pin_first_value_byte::<F1, 40>(&mut buf, n1 - l1);
    let n2 = tp_put_int_param(&mut buf, n1, ID2, x2, l2);
    pin_first_value_byte::<F2, 40>(&mut buf, n1 + n2 - l2);
    let rc = ClientTransportParameters::decode_parameters(DecoderBuffer::new(&buf[..n1 + n2]));
    kani::cover!(rc.is_ok(), "reach:accepted");
    kani::cover!(true, "reach:end");
    if !known_deviation(ID1, x1, l1) && !known_deviation(ID2, x2, l2) {
        assert!(
            rc.is_ok() == (tp_int_valid(int_row(ID1), x1) && tp_int_valid(int_row(ID2), x2)),
            "C14/decode_parameters/block_accepted_iff_every_value_valid"
        );
    }
    if let Ok(p) = rc {
        assert!(int_field(&p, ID1) == x1 && int_field(&p, ID2) == x2, "C14/decode_parameters/both_declared_values_applied");
        assert!(others_default(&p, ID1, ID2), "C14/decode_parameters/absent_parameters_get_rfc_defaults");
    }
}

/// the SAME integer parameter twice (values and encodings may differ)
fn block_duplicate<const ID: u64, const F1: u8, const F2: u8>() {
    let (x1, l1) = any_value_with_first_byte::<F1>();
    let (x2, l2) = any_value_with_first_byte::<F2>();
    let mut buf = [0u8; 40];
    let n1 = tp_put_int_param(&mut buf, 0, ID, x1, l1);
    pin_first_value_byte::<F1, 40>(&mut buf, n1 - l1);
    let n2 = tp_put_int_param(&mut buf, n1, ID, x2, l2);
    pin_first_value_byte::<F2, 40>(&mut buf, n1 + n2 - l2);
    let rc = ClientTransportParameters::decode_parameters(DecoderBuffer::new(&buf[..n1 + n2]));
    let rs = ServerTransportParameters::decode_parameters(DecoderBuffer::new(&buf[..n1 + n2]));
    kani::cover!(tp_int_valid(int_row(ID), x1) && tp_int_valid(int_row(ID), x2), "reach:both_values_valid");
    kani::cover!(x1 == tp_int_effective(int_row(ID), None), "reach:first_occurrence_encodes_the_rfc_default");
    // 7.4: "An endpoint MUST NOT send a parameter more than once in a given transport parameters extension.  An
    // endpoint SHOULD treat receipt of duplicate transport parameters as a connection error of type
    // TRANSPORT_PARAMETER_ERROR."
    assert!(rc.is_err(), "C14/decode_parameters/duplicate_parameter_rejected");
    assert!(rs.is_err(), "C14/decode_parameters/duplicate_parameter_rejected_from_server");
}


/// the SAME integer parameter twice, the FIRST occurrence explicitly encoding the RFC default value (so that the
/// decoded struct is indistinguishable from "not seen yet" after it), the second any value of its encoding class.
/// 7.4: a repeated parameter is an error whatever its values are.
fn block_duplicate_default_first<const ID: u64, const F1: u8, const F2: u8>() {
    let (x1, l1) = any_value_with_first_byte::<F1>();
    let (x2, l2) = any_value_with_first_byte::<F2>();
    kani::assume(x1 == tp_int_effective(int_row(ID), None));
    let mut buf = [0u8; 40];
    let n1 = tp_put_int_param(&mut buf, 0, ID, x1, l1);
    pin_first_value_byte::<F1, 40>(&mut buf, n1 - l1);
    // an unrelated (valid, zero-length) parameter in between: disable_active_migration
    buf[n1] = 0x0c;
    buf[n1 + 1] = 0x00;
    let n2 = tp_put_int_param(&mut buf, n1 + 2, ID, x2, l2);
    pin_first_value_byte::<F2, 40>(&mut buf, n1 + 2 + n2 - l2);
    let rc = ClientTransportParameters::decode_parameters(DecoderBuffer::new(&buf[..n1 + 2 + n2]));
    let rs = ServerTransportParameters::decode_parameters(DecoderBuffer::new(&buf[..n1 + 2 + n2]));
    kani::cover!(tp_int_valid(int_row(ID), x2), "reach:second_value_valid");
    assert!(rc.is_err(), "C14/decode_parameters/duplicate_after_explicit_default_rejected");
    assert!(rs.is_err(), "C14/decode_parameters/duplicate_after_explicit_default_rejected_from_server");
}

/// PreferredAddress::encode against Figure 22 for one (concrete) combination of address families
fn preferred_address_encode_case<const HAS4: bool, const HAS6: bool>() {
    // RFC 9000 18.2 Figure 22: IPv4 Address (32), IPv4 Port (16), IPv6 Address (128), IPv6 Port (16),
    // Connection ID Length (8), Connection ID (..), Stateless Reset Token (128); "Servers MAY choose to only send
    // a preferred address of one address family by sending an all-zero address and port (0.0.0.0:0 or [::]:0) for
    // the other family.  IP addresses are encoded in network byte order."
    let ip4: [u8; 4] = kani::any();
    let port4: u16 = kani::any();
    let ip6: [u8; 16] = kani::any();
    let port6: u16 = kani::any();
    let cid: [u8; 4] = kani::any();
    let token: [u8; 16] = kani::any();
    let has4 = HAS4;
    let has6 = HAS6;
    // a present family carries a specified address (an all-zero one IS the encoding of "absent")
    kani::assume(!has4 || ip4 != [0u8; 4] || port4 != 0);
    kani::assume(!has6 || ip6 != [0u8; 16] || port6 != 0);
    let value = PreferredAddress {
        ipv4_address: if has4 { Some(SocketAddressV4::new(ip4, port4)) } else { None },
        ipv6_address: if has6 { Some(SocketAddressV6::new(ip6, port6)) } else { None },
        connection_id: connection::UnboundedId::try_from_bytes(&cid[..]).unwrap(),
        stateless_reset_token: stateless_reset::Token::from(token),
    };
    // independent layout
    let mut want = [0u8; 48];
    if has4 {
        want[0] = ip4[0];
        want[1] = ip4[1];
        want[2] = ip4[2];
        want[3] = ip4[3];
        want[4] = (port4 >> 8) as u8;
        want[5] = port4 as u8;
    }
    if has6 {
        let mut i = 0;
        while i < 16 {
            want[6 + i] = ip6[i];
            i += 1;
        }
        want[22] = (port6 >> 8) as u8;
        want[23] = port6 as u8;
    }
    want[24] = 4;
    want[25] = cid[0];
    want[26] = cid[1];
    want[27] = cid[2];
    want[28] = cid[3];
    let mut i = 0;
    while i < 16 {
        want[29 + i] = token[i];
        i += 1;
    }
    let mut out = [0u8; 48];
    let written = {
        let mut enc = s2n_codec::EncoderBuffer::new(&mut out);
        enc.encode(&value);
        enc.len()
    };
    kani::cover!(written > 0, "reach:encoded");
    assert!(written == 4 + 2 + 16 + 2 + 1 + 4 + 16, "C14/preferred_address.encode/length_is_figure_22");
    // (compared in three 16-byte chunks to keep the unwind bound small)
    assert!(
        out[0..16] == want[0..16] && out[16..32] == want[16..32] && out[32..48] == want[32..48],
        "C14/preferred_address.encode/bytes_are_figure_22"
    );
    // as a transport parameter (Figure 21): id 0x0d, length 45, value
    let mut tlv = [0u8; 48];
    let tlv_len = {
        let mut enc = s2n_codec::EncoderBuffer::new(&mut tlv);
        enc.encode(&TransportParameterCodec(&Some(value)));
        enc.len()
    };
    assert!(tlv_len == 47 && tlv[0] == 0x0d && tlv[1] == 45 && tlv[2] == out[0] && tlv[7] == out[5] && tlv[8] == out[6] && tlv[46] == out[44],
        "C14/preferred_address.encode/tuple_is_id_length_value");
    // round trip through the real decoder
    let r = DecoderBuffer::new(&out[..written]).decode::<PreferredAddress>();
    assert!(
        matches!(r, Ok((d, rest)) if rest.is_empty()
            && d.ipv4_address == value.ipv4_address && d.ipv6_address == value.ipv6_address
            && d.connection_id.len() == 4 && d.connection_id.as_bytes()[0] == cid[0] && d.connection_id.as_bytes()[3] == cid[3]
            && d.stateless_reset_token.into_inner() == token),
        "C14/preferred_address.encode/decodes_to_the_same_value"
    );
    kani::cover!(true, "reach:end");
}

// ================================================================================================
// 1. validators: Ok <=> oracle.valid(v), over the full value domain; Ok returns the value unchanged;
//    default_value() == oracle default; ID == oracle id
// ================================================================================================

/// `$t(VarInt)` parameter: obligations named `C14/<name>.validate/...`
macro_rules! check_varint_param {
    ($t:ident, $row:expr, $x:expr, $iff:literal, $same:literal, $def:literal, $id:literal) => {{
        let r = $t(v($x)).validate();
        assert!(r.is_ok() == tp_int_valid($row, $x), $iff);
        if let Ok(p) = r {
            assert!(p.0.as_u64() == $x, $same);
        }
        assert!(<$t as TransportParameter>::default_value().0.as_u64() == tp_int_effective($row, None), $def);
        assert!(<$t as TransportParameter>::ID.as_u64() == $row.id, $id);
    }};
}

//@ harness props=C14 tier=quick level=full timeout=120
//@ fn AckDelayExponent::validate
//@ fn ActiveConnectionIdLimit::validate
//@ fn InitialMaxStreamsBidi::validate
//@ fn InitialMaxStreamsUni::validate
#[kani::proof]
#[kani::unwind(8)] // 2u64.pow(n) in the validators is a square-and-multiply loop (<= 6 iterations)
fn vq_c14_tp_validate_ranged() {
    let x = any_varint();
    check_varint_param!(ActiveConnectionIdLimit, TP_ACTIVE_CONNECTION_ID_LIMIT, x,
        "C14/active_connection_id_limit.validate/iff_spec", "C14/active_connection_id_limit.validate/ok_returns_value",
        "C14/active_connection_id_limit.default/is_rfc_default", "C14/active_connection_id_limit.id/is_rfc_id");
    check_varint_param!(InitialMaxStreamsBidi, TP_INITIAL_MAX_STREAMS_BIDI, x,
        "C14/initial_max_streams_bidi.validate/iff_spec", "C14/initial_max_streams_bidi.validate/ok_returns_value",
        "C14/initial_max_streams_bidi.default/is_rfc_default", "C14/initial_max_streams_bidi.id/is_rfc_id");
    check_varint_param!(InitialMaxStreamsUni, TP_INITIAL_MAX_STREAMS_UNI, x,
        "C14/initial_max_streams_uni.validate/iff_spec", "C14/initial_max_streams_uni.validate/ok_returns_value",
        "C14/initial_max_streams_uni.default/is_rfc_default", "C14/initial_max_streams_uni.id/is_rfc_id");
    // ack_delay_exponent is held in a u8 by the code: every u8 is covered here; integer values that do not
    // fit a u8 are > 20 and must be rejected by the decoder (block harnesses below)
    let e: u8 = kani::any();
    let r = AckDelayExponent(e).validate();
    assert!(r.is_ok() == tp_int_valid(TP_ACK_DELAY_EXPONENT, e as u64), "C14/ack_delay_exponent.validate/iff_spec");
    if let Ok(p) = r {
        assert!(p.0 == e, "C14/ack_delay_exponent.validate/ok_returns_value");
    }
    assert!(AckDelayExponent::default_value().0 as u64 == tp_int_effective(TP_ACK_DELAY_EXPONENT, None),
        "C14/ack_delay_exponent.default/is_rfc_default");
    assert!(AckDelayExponent::ID.as_u64() == TP_ACK_DELAY_EXPONENT.id, "C14/ack_delay_exponent.id/is_rfc_id");
    kani::cover!(x == 1, "reach:active_cid_limit_just_outside");
    kani::cover!(x == 2, "reach:active_cid_limit_at_bound");
    kani::cover!(x == (1 << 60), "reach:max_streams_at_bound");
    kani::cover!(x == (1 << 60) + 1, "reach:max_streams_just_outside");
    kani::cover!(x == MAXV, "reach:varint_max");
    kani::cover!(e == 20, "reach:exponent_at_bound");
    kani::cover!(e == 21, "reach:exponent_just_outside");
    kani::cover!(true, "reach:end");
}

//@ harness props=C14 tier=quick level=full timeout=120
//@ fn MaxIdleTimeout::validate
//@ fn InitialMaxData::validate
//@ fn InitialMaxStreamDataBidiLocal::validate
//@ fn InitialMaxStreamDataBidiRemote::validate
//@ fn InitialMaxStreamDataUni::validate
//@ fn MaxDatagramFrameSize::validate
#[kani::proof]
#[kani::unwind(8)] // 2u64.pow(n) in the validators is a square-and-multiply loop (<= 6 iterations)
fn vq_c14_tp_validate_unranged() {
    // the RFC states no invalid value for these: every variable-length integer must be accepted
    let x = any_varint();
    check_varint_param!(MaxIdleTimeout, TP_MAX_IDLE_TIMEOUT, x,
        "C14/max_idle_timeout.validate/iff_spec", "C14/max_idle_timeout.validate/ok_returns_value",
        "C14/max_idle_timeout.default/is_rfc_default", "C14/max_idle_timeout.id/is_rfc_id");
    check_varint_param!(InitialMaxData, TP_INITIAL_MAX_DATA, x,
        "C14/initial_max_data.validate/iff_spec", "C14/initial_max_data.validate/ok_returns_value",
        "C14/initial_max_data.default/is_rfc_default", "C14/initial_max_data.id/is_rfc_id");
    check_varint_param!(InitialMaxStreamDataBidiLocal, TP_INITIAL_MAX_STREAM_DATA_BIDI_LOCAL, x,
        "C14/initial_max_stream_data_bidi_local.validate/iff_spec", "C14/initial_max_stream_data_bidi_local.validate/ok_returns_value",
        "C14/initial_max_stream_data_bidi_local.default/is_rfc_default", "C14/initial_max_stream_data_bidi_local.id/is_rfc_id");
    check_varint_param!(InitialMaxStreamDataBidiRemote, TP_INITIAL_MAX_STREAM_DATA_BIDI_REMOTE, x,
        "C14/initial_max_stream_data_bidi_remote.validate/iff_spec", "C14/initial_max_stream_data_bidi_remote.validate/ok_returns_value",
        "C14/initial_max_stream_data_bidi_remote.default/is_rfc_default", "C14/initial_max_stream_data_bidi_remote.id/is_rfc_id");
    check_varint_param!(InitialMaxStreamDataUni, TP_INITIAL_MAX_STREAM_DATA_UNI, x,
        "C14/initial_max_stream_data_uni.validate/iff_spec", "C14/initial_max_stream_data_uni.validate/ok_returns_value",
        "C14/initial_max_stream_data_uni.default/is_rfc_default", "C14/initial_max_stream_data_uni.id/is_rfc_id");
    check_varint_param!(MaxDatagramFrameSize, TP_MAX_DATAGRAM_FRAME_SIZE, x,
        "C14/max_datagram_frame_size.validate/iff_spec", "C14/max_datagram_frame_size.validate/ok_returns_value",
        "C14/max_datagram_frame_size.default/is_rfc_default", "C14/max_datagram_frame_size.id/is_rfc_id");
    kani::cover!(x == 0, "reach:zero");
    kani::cover!(x == MAXV, "reach:varint_max");
    kani::cover!(true, "reach:end");
}

// ---- the two validators whose strict RFC obligation is expected to FAIL on the unchanged tree (DESIGN 6
// items 1, 2).  AUTHORING "Findings": the strict obligation stays, a residual obligation excludes exactly
// the known failing input class; each pair lives in its own harness.

//@ harness props=C14 tier=quick level=full timeout=120
//@ fn MaxAckDelay::validate
#[kani::proof]
#[kani::unwind(8)] // 2u64.pow(n) in the validators is a square-and-multiply loop (<= 6 iterations)
fn vq_c14_tp_validate_max_ack_delay() {
    let x = any_varint();
    let r = MaxAckDelay(v(x)).validate();
    // covers first: Kani turns an assert into check+assume, so a failing strict obligation cuts later covers
    kani::cover!(x == 16383 && r.is_ok(), "reach:just_inside_accepted");
    kani::cover!(x == 16384, "reach:at_2_pow_14");
    kani::cover!(x == 16385 && r.is_err(), "reach:just_outside_rejected");
    kani::cover!(x == MAXV, "reach:varint_max");
    kani::cover!(true, "reach:end");
    // residual (must precede the strict one for the same reason): the claim outside the known failing input
    // v == 2^14 (the code tests `<= 2^14`, DESIGN 6 item 1)
    assert!(x == 16384 || r.is_ok() == tp_int_valid(TP_MAX_ACK_DELAY, x), "C14/max_ack_delay.validate/iff_spec#outside-known");
    if let Ok(p) = r {
        assert!(p.0.as_u64() == x, "C14/max_ack_delay.validate/ok_returns_value");
    }
    assert!(MaxAckDelay::default_value().0.as_u64() == tp_int_effective(TP_MAX_ACK_DELAY, None), "C14/max_ack_delay.default/is_rfc_default");
    assert!(MaxAckDelay::ID.as_u64() == TP_MAX_ACK_DELAY.id, "C14/max_ack_delay.id/is_rfc_id");
    // strict, RFC 9000 18.2: "Values of 2^14 or greater are invalid."
    assert!(r.is_ok() == tp_int_valid(TP_MAX_ACK_DELAY, x), "C14/max_ack_delay.validate/iff_spec");
}

//@ harness props=C14 tier=quick level=full timeout=120
//@ fn MaxUdpPayloadSize::validate
#[kani::proof]
#[kani::unwind(8)] // 2u64.pow(n) in the validators is a square-and-multiply loop (<= 6 iterations)
fn vq_c14_tp_validate_max_udp_payload_size() {
    let x = any_varint();
    let r = MaxUdpPayloadSize(v(x)).validate();
    kani::cover!(x == 1199 && r.is_err(), "reach:just_outside_low_rejected");
    kani::cover!(x == 1200 && r.is_ok(), "reach:at_low_bound_accepted");
    kani::cover!(x == 65527 && r.is_ok(), "reach:at_default_accepted");
    kani::cover!(x == 65528, "reach:above_default");
    kani::cover!(x == MAXV, "reach:varint_max");
    kani::cover!(true, "reach:end");
    // residual: the claim outside the known failing input class v > 65527 (the code rejects those, DESIGN 6 item 2)
    assert!(x > 65527 || r.is_ok() == tp_int_valid(TP_MAX_UDP_PAYLOAD_SIZE, x), "C14/max_udp_payload_size.validate/iff_spec#outside-known");
    if let Ok(p) = r {
        assert!(p.0.as_u64() == x, "C14/max_udp_payload_size.validate/ok_returns_value");
    }
    assert!(MaxUdpPayloadSize::default_value().0.as_u64() == tp_int_effective(TP_MAX_UDP_PAYLOAD_SIZE, None), "C14/max_udp_payload_size.default/is_rfc_default");
    assert!(MaxUdpPayloadSize::ID.as_u64() == TP_MAX_UDP_PAYLOAD_SIZE.id, "C14/max_udp_payload_size.id/is_rfc_id");
    // strict, RFC 9000 18.2: "Values below 1200 are invalid." -- nothing else is
    assert!(r.is_ok() == tp_int_valid(TP_MAX_UDP_PAYLOAD_SIZE, x), "C14/max_udp_payload_size.validate/iff_spec");
}

// ================================================================================================
// 2. role gating (RFC 9000 18.2 last paragraph): the four server-only parameters are disabled in
//    ClientTransportParameters, enabled in ServerTransportParameters; every other parameter is enabled
// ================================================================================================

/// (id, ENABLED) of the four role-dependent type parameters of a TransportParameters instantiation
fn role_dependent<A, B, C, D>(_p: &TransportParameters<A, B, C, D>) -> [(u64, bool); 4]
where
    A: TransportParameter,
    B: TransportParameter,
    C: TransportParameter,
    D: TransportParameter,
{
    [
        (A::ID.as_u64(), A::ENABLED),
        (B::ID.as_u64(), B::ENABLED),
        (C::ID.as_u64(), C::ENABLED),
        (D::ID.as_u64(), D::ENABLED),
    ]
}

fn enabled_of(tab: &[(u64, bool); 4], id: u64) -> Option<bool> {
    if tab[0].0 == id {
        Some(tab[0].1)
    } else if tab[1].0 == id {
        Some(tab[1].1)
    } else if tab[2].0 == id {
        Some(tab[2].1)
    } else if tab[3].0 == id {
        Some(tab[3].1)
    } else {
        None
    }
}

//@ harness props=C14 tier=quick level=full timeout=120
//@ fn DisabledParameter::ENABLED
//@ fn ClientTransportParameters
//@ fn ServerTransportParameters
#[kani::proof]
#[kani::unwind(3)]
fn vq_c14_tp_role_gating_types() {
    let c = role_dependent(&ClientTransportParameters::default());
    let s = role_dependent(&ServerTransportParameters::default());
    // "A client MUST NOT include any server-only transport parameter: original_destination_connection_id,
    //  preferred_address, retry_source_connection_id, or stateless_reset_token."
    assert!(enabled_of(&c, TP_ORIGINAL_DESTINATION_CONNECTION_ID.id) == Some(false), "C14/client_parameters.gating/original_destination_connection_id_disabled");
    assert!(enabled_of(&c, TP_STATELESS_RESET_TOKEN.id) == Some(false), "C14/client_parameters.gating/stateless_reset_token_disabled");
    assert!(enabled_of(&c, TP_PREFERRED_ADDRESS.id) == Some(false), "C14/client_parameters.gating/preferred_address_disabled");
    assert!(enabled_of(&c, TP_RETRY_SOURCE_CONNECTION_ID.id) == Some(false), "C14/client_parameters.gating/retry_source_connection_id_disabled");
    assert!(enabled_of(&s, TP_ORIGINAL_DESTINATION_CONNECTION_ID.id) == Some(true), "C14/server_parameters.gating/original_destination_connection_id_enabled");
    assert!(enabled_of(&s, TP_STATELESS_RESET_TOKEN.id) == Some(true), "C14/server_parameters.gating/stateless_reset_token_enabled");
    assert!(enabled_of(&s, TP_PREFERRED_ADDRESS.id) == Some(true), "C14/server_parameters.gating/preferred_address_enabled");
    assert!(enabled_of(&s, TP_RETRY_SOURCE_CONNECTION_ID.id) == Some(true), "C14/server_parameters.gating/retry_source_connection_id_enabled");
    // the table's own server_only column says the same four and nothing else
    assert!(
        TP_ORIGINAL_DESTINATION_CONNECTION_ID.server_only && TP_STATELESS_RESET_TOKEN.server_only
            && TP_PREFERRED_ADDRESS.server_only && TP_RETRY_SOURCE_CONNECTION_ID.server_only
            && RFC_TP_SERVER_ONLY_IDS[0] == 0x00 && RFC_TP_SERVER_ONLY_IDS[1] == 0x0d
            && RFC_TP_SERVER_ONLY_IDS[2] == 0x10 && RFC_TP_SERVER_ONLY_IDS[3] == 0x02,
        "C14/oracle.table/server_only_rows_are_the_four_of_18_2"
    );
    // every parameter that both roles may send is enabled (for both instantiations: these field types do not
    // depend on the role) and carries the RFC id
    macro_rules! both_roles {
        ($t:ty, $row:expr) => {
            <$t as TransportParameter>::ENABLED && !$row.server_only && <$t as TransportParameter>::ID.as_u64() == $row.id
        };
    }
    assert!(
        both_roles!(MaxIdleTimeout, TP_MAX_IDLE_TIMEOUT)
            && both_roles!(MaxUdpPayloadSize, TP_MAX_UDP_PAYLOAD_SIZE)
            && both_roles!(InitialMaxData, TP_INITIAL_MAX_DATA)
            && both_roles!(InitialMaxStreamDataBidiLocal, TP_INITIAL_MAX_STREAM_DATA_BIDI_LOCAL)
            && both_roles!(InitialMaxStreamDataBidiRemote, TP_INITIAL_MAX_STREAM_DATA_BIDI_REMOTE)
            && both_roles!(InitialMaxStreamDataUni, TP_INITIAL_MAX_STREAM_DATA_UNI)
            && both_roles!(InitialMaxStreamsBidi, TP_INITIAL_MAX_STREAMS_BIDI)
            && both_roles!(InitialMaxStreamsUni, TP_INITIAL_MAX_STREAMS_UNI)
            && both_roles!(MaxDatagramFrameSize, TP_MAX_DATAGRAM_FRAME_SIZE)
            && both_roles!(AckDelayExponent, TP_ACK_DELAY_EXPONENT)
            && both_roles!(MaxAckDelay, TP_MAX_ACK_DELAY)
            && both_roles!(MigrationSupport, TP_DISABLE_ACTIVE_MIGRATION)
            && both_roles!(ActiveConnectionIdLimit, TP_ACTIVE_CONNECTION_ID_LIMIT)
            && both_roles!(Option<InitialSourceConnectionId>, TP_INITIAL_SOURCE_CONNECTION_ID),
        "C14/parameters.gating/common_parameters_enabled_with_rfc_ids"
    );
    // a disabled parameter is never put on the wire and decodes to nothing
    let d = DisabledParameter::<PreferredAddress>::default_value();
    assert!(d.try_into_codec_value().is_none(), "C14/client_parameters.gating/disabled_parameter_never_encoded");
    kani::cover!(true, "reach:end");
}

// ================================================================================================
// 3. the mapping used by the connection returns exactly the declared values
// ================================================================================================

/// arbitrary parameter struct: every integer field holds an arbitrary variable-length integer (the mapping
/// functions have no precondition), role-dependent fields absent
fn any_server_params() -> (ServerTransportParameters, [u64; 11], u8) {
    let mut x = [0u64; 11];
    let mut i = 0;
    while i < 11 {
        x[i] = any_varint();
        i += 1;
    }
    let e: u8 = kani::any();
    let mut p = ServerTransportParameters::default();
    p.max_idle_timeout = MaxIdleTimeout(v(x[0]));
    p.max_udp_payload_size = MaxUdpPayloadSize(v(x[1]));
    p.initial_max_data = InitialMaxData(v(x[2]));
    p.initial_max_stream_data_bidi_local = InitialMaxStreamDataBidiLocal(v(x[3]));
    p.initial_max_stream_data_bidi_remote = InitialMaxStreamDataBidiRemote(v(x[4]));
    p.initial_max_stream_data_uni = InitialMaxStreamDataUni(v(x[5]));
    p.initial_max_streams_bidi = InitialMaxStreamsBidi(v(x[6]));
    p.initial_max_streams_uni = InitialMaxStreamsUni(v(x[7]));
    p.max_datagram_frame_size = MaxDatagramFrameSize(v(x[8]));
    p.max_ack_delay = MaxAckDelay(v(x[9]));
    p.active_connection_id_limit = ActiveConnectionIdLimit(v(x[10]));
    p.ack_delay_exponent = AckDelayExponent(e);
    (p, x, e)
}

//@ harness props=C14 tier=quick level=full timeout=240
//@ fn TransportParameters::flow_control_limits
//@ fn TransportParameters::stream_limits
//@ fn TransportParameters::datagram_limits
//@ fn TransportParameters::zero_rtt_parameters
#[kani::proof]
#[kani::unwind(18)] // the builder's 11-iteration loop; memcmp over the 16 bytes of DcSupportedVersions::versions in `==`
fn vq_c14_tp_mapping_declared_values() {
    let (p, x, _e) = any_server_params();
    let before = p;
    let f = p.flow_control_limits();
    assert!(f.max_data.as_u64() == x[2], "C14/parameters.flow_control_limits/max_data_is_initial_max_data");
    assert!(f.stream_limits.max_data_bidi_local.as_u64() == x[3], "C14/parameters.flow_control_limits/bidi_local_is_declared");
    assert!(f.stream_limits.max_data_bidi_remote.as_u64() == x[4], "C14/parameters.flow_control_limits/bidi_remote_is_declared");
    assert!(f.stream_limits.max_data_uni.as_u64() == x[5], "C14/parameters.flow_control_limits/uni_is_declared");
    assert!(f.max_open_remote_bidirectional_streams.as_u64() == x[6], "C14/parameters.flow_control_limits/streams_bidi_is_declared");
    assert!(f.max_open_remote_unidirectional_streams.as_u64() == x[7], "C14/parameters.flow_control_limits/streams_uni_is_declared");
    let s = p.stream_limits();
    assert!(
        s.max_data_bidi_local.as_u64() == x[3] && s.max_data_bidi_remote.as_u64() == x[4] && s.max_data_uni.as_u64() == x[5],
        "C14/parameters.stream_limits/are_declared"
    );
    let d = p.datagram_limits();
    // RFC 9221 3 / 5: frames larger than max_datagram_frame_size must not be sent; max_udp_payload_size caps it further
    assert!(d.max_datagram_payload == core::cmp::min(x[8], x[1]), "C14/parameters.datagram_limits/min_of_frame_size_and_udp_payload");
    let z = p.zero_rtt_parameters();
    // 7.4.1: the remembered parameters are the declared values
    assert!(
        z.active_connection_id_limit.as_u64() == x[10] && z.initial_max_data.as_u64() == x[2]
            && z.initial_max_stream_data_bidi_local.as_u64() == x[3] && z.initial_max_stream_data_bidi_remote.as_u64() == x[4]
            && z.initial_max_stream_data_uni.as_u64() == x[5] && z.initial_max_streams_bidi.as_u64() == x[6]
            && z.initial_max_streams_uni.as_u64() == x[7] && z.max_datagram_frame_size.as_u64() == x[8],
        "C14/parameters.zero_rtt_parameters/are_declared"
    );
    // frame: the accessors are pure
    assert!(p == before, "C14/parameters.mapping/parameters_unchanged");
    kani::cover!(x[8] > x[1], "reach:udp_payload_caps_datagram");
    kani::cover!(x[8] < x[1], "reach:frame_size_caps_datagram");
    kani::cover!(true, "reach:end");
}

//@ harness props=C14 tier=quick level=full timeout=240
//@ fn InitialStreamLimits::max_data
#[kani::proof]
#[kani::unwind(3)]
fn vq_c14_tp_stream_limit_selection() {
    // RFC 9000 18.2, initial_max_stream_data_{bidi_local, bidi_remote, uni}: which limit of the SENDER's
    // parameters applies to which stream, by the two least significant bits of the stream id:
    //   client parameters: bidi_local -> 0x00, bidi_remote -> 0x01, uni -> 0x03
    //   server parameters: bidi_local -> 0x01, bidi_remote -> 0x00, uni -> 0x02
    let l = any_varint();
    let r = any_varint();
    let u = any_varint();
    let lim = InitialStreamLimits { max_data_bidi_local: v(l), max_data_bidi_remote: v(r), max_data_uni: v(u) };
    let id = any_varint();
    let sid = StreamId::from_varint(v(id));
    let by_client = lim.max_data(endpoint::Type::Client, sid).as_u64();
    let by_server = lim.max_data(endpoint::Type::Server, sid).as_u64();
    let lsb = id & 0x3;
    assert!(lsb != 0x0 || by_client == l, "C14/stream_limits.max_data/client_params_bidi_local_applies_to_0x00");
    assert!(lsb != 0x1 || by_client == r, "C14/stream_limits.max_data/client_params_bidi_remote_applies_to_0x01");
    assert!(lsb != 0x3 || by_client == u, "C14/stream_limits.max_data/client_params_uni_applies_to_0x03");
    assert!(lsb != 0x1 || by_server == l, "C14/stream_limits.max_data/server_params_bidi_local_applies_to_0x01");
    assert!(lsb != 0x0 || by_server == r, "C14/stream_limits.max_data/server_params_bidi_remote_applies_to_0x00");
    assert!(lsb != 0x2 || by_server == u, "C14/stream_limits.max_data/server_params_uni_applies_to_0x02");
    kani::cover!(lsb == 0 && l != r, "reach:client_bidi");
    kani::cover!(lsb == 1 && l != r, "reach:server_bidi");
    kani::cover!(lsb == 2, "reach:client_uni");
    kani::cover!(lsb == 3, "reach:server_uni");
    kani::cover!(id == MAXV, "reach:largest_stream_id");
}

//@ harness props=C14 tier=quick level=full timeout=240
//@ fn TransportParameters::load_limits
//@ fn connection::Limits::initial_flow_control_limits
#[kani::proof]
#[kani::unwind(18)] // the builder's 11-iteration loop; memcmp over the 16 bytes of DcSupportedVersions::versions in `==`
fn vq_c14_tp_load_limits() {
    // what the local endpoint declares to its peer == the limits it was configured with, and what it then
    // enforces locally (Limits::ack_settings / initial_flow_control_limits) == what it declared
    let (src, x, e) = any_server_params();
    let mut lim = connection::Limits::new();
    lim.max_idle_timeout = src.max_idle_timeout;
    lim.data_window = src.initial_max_data;
    lim.bidirectional_local_data_window = src.initial_max_stream_data_bidi_local;
    lim.bidirectional_remote_data_window = src.initial_max_stream_data_bidi_remote;
    lim.unidirectional_data_window = src.initial_max_stream_data_uni;
    lim.max_open_remote_bidirectional_streams = src.initial_max_streams_bidi;
    lim.max_open_remote_unidirectional_streams = src.initial_max_streams_uni;
    lim.max_ack_delay = src.max_ack_delay;
    lim.ack_delay_exponent = src.ack_delay_exponent;
    lim.max_active_connection_ids = src.active_connection_id_limit;
    lim.max_datagram_frame_size = src.max_datagram_frame_size;
    let disabled: bool = kani::any();
    lim.migration_support = if disabled { MigrationSupport::Disabled } else { MigrationSupport::Enabled };

    let mut p = ClientTransportParameters::default();
    let before = p;
    p.load_limits(&lim);
    assert!(p.max_idle_timeout.0.as_u64() == x[0], "C14/parameters.load_limits/max_idle_timeout");
    assert!(p.initial_max_data.0.as_u64() == x[2], "C14/parameters.load_limits/initial_max_data");
    assert!(p.initial_max_stream_data_bidi_local.0.as_u64() == x[3], "C14/parameters.load_limits/initial_max_stream_data_bidi_local");
    assert!(p.initial_max_stream_data_bidi_remote.0.as_u64() == x[4], "C14/parameters.load_limits/initial_max_stream_data_bidi_remote");
    assert!(p.initial_max_stream_data_uni.0.as_u64() == x[5], "C14/parameters.load_limits/initial_max_stream_data_uni");
    assert!(p.initial_max_streams_bidi.0.as_u64() == x[6], "C14/parameters.load_limits/initial_max_streams_bidi");
    assert!(p.initial_max_streams_uni.0.as_u64() == x[7], "C14/parameters.load_limits/initial_max_streams_uni");
    assert!(p.max_datagram_frame_size.0.as_u64() == x[8], "C14/parameters.load_limits/max_datagram_frame_size");
    assert!(p.max_ack_delay.0.as_u64() == x[9], "C14/parameters.load_limits/max_ack_delay");
    assert!(p.active_connection_id_limit.0.as_u64() == x[10], "C14/parameters.load_limits/active_connection_id_limit");
    assert!(p.ack_delay_exponent.0 == e, "C14/parameters.load_limits/ack_delay_exponent");
    assert!((p.migration_support == MigrationSupport::Disabled) == disabled, "C14/parameters.load_limits/migration_support");
    // frame: everything load_limits does not own keeps its value
    assert!(
        p.max_udp_payload_size == before.max_udp_payload_size && p.initial_source_connection_id == before.initial_source_connection_id
            && p.dc_supported_versions == before.dc_supported_versions
            && p.mtu_probing_complete_support == before.mtu_probing_complete_support,
        "C14/parameters.load_limits/other_parameters_unchanged"
    );
    // the locally enforced flow-control limits equal the declared ones (ack settings: vq_c14_tp_ack_settings)
    let lf = lim.initial_flow_control_limits();
    assert!(lf == p.flow_control_limits(), "C14/limits.initial_flow_control_limits/equal_declared");
    kani::cover!(disabled, "reach:migration_disabled");
    kani::cover!(!disabled && x[9] == 0, "reach:zero_ack_delay_parameter");
    kani::cover!(true, "reach:end");
}

/// Millisecond values for the harnesses that reach `Duration::from_millis`: its 64-bit division makes every
/// query on the full 62-bit domain SAT-hard (a single cover took > 200 s; measured), so these harnesses are
/// bounded to values below 2^16 ms (~65 s; 4 x the largest valid max_ack_delay) and labelled level=bounded.
const MS_BOUND: u64 = 1 << 16;
fn any_millis() -> u64 {
    let x: u64 = kani::any();
    kani::assume(x < MS_BOUND);
    x
}

//@ harness props=C14 tier=quick level=bounded timeout=300 bound="millisecond values < 2^16"
//@ fn TransportParameters::ack_settings
//@ fn connection::Limits::ack_settings
//@ fn MaxAckDelay::as_duration
#[kani::proof]
#[kani::unwind(3)]
fn vq_c14_tp_ack_settings() {
    let ms = any_millis();
    let e: u8 = kani::any();
    let mut p = ServerTransportParameters::default();
    p.max_ack_delay = MaxAckDelay(v(ms));
    p.ack_delay_exponent = AckDelayExponent(e);
    let a = p.ack_settings();
    // max_ack_delay is "in milliseconds" (18.2): exactly ms milliseconds
    assert!(
        a.max_ack_delay.as_secs() == ms / 1000 && a.max_ack_delay.subsec_nanos() as u64 == (ms % 1000) * 1_000_000,
        "C14/parameters.ack_settings/max_ack_delay_is_declared_milliseconds"
    );
    assert!(a.ack_delay_exponent == e, "C14/parameters.ack_settings/ack_delay_exponent_is_declared");
    let rec = ack::Settings::RECOMMENDED;
    assert!(
        a.ack_elicitation_interval == rec.ack_elicitation_interval && a.ack_ranges_limit == rec.ack_ranges_limit,
        "C14/parameters.ack_settings/local_only_settings_untouched"
    );
    // what the local endpoint enforces for itself (Limits) == what it declares (load_limits)
    let mut lim = connection::Limits::new();
    lim.max_ack_delay = p.max_ack_delay;
    lim.ack_delay_exponent = p.ack_delay_exponent;
    let la = lim.ack_settings();
    assert!(la.max_ack_delay == a.max_ack_delay && la.ack_delay_exponent == e, "C14/limits.ack_settings/equal_declared");
    kani::cover!(ms == 16383 && e == 20, "reach:largest_valid");
    kani::cover!(ms == 25 && e == 3, "reach:defaults");
    kani::cover!(ms == MS_BOUND - 1, "reach:bound");
    kani::cover!(true, "reach:end");
}

//@ harness props=C14 tier=quick level=bounded timeout=300 bound="millisecond values < 2^16"
//@ fn MaxAckDelay::as_duration
//@ fn MaxIdleTimeout::as_duration
#[kani::proof]
#[kani::unwind(3)]
fn vq_c14_tp_millis_to_duration() {
    // 18.2: max_ack_delay and max_idle_timeout are "in milliseconds".  d is exactly x ms  <=>
    //   d.secs * 1000 + d.subsec_nanos / 10^6 == x  and  d.subsec_nanos is a whole number of ms below one second
    // (multiplication form: no second 64-bit divider for the solver to prove equivalent to the code's)
    let x = any_millis();
    let d = MaxAckDelay(v(x)).as_duration();
    let whole_ms = d.subsec_nanos() % 1_000_000 == 0 && d.subsec_nanos() < 1_000_000_000;
    assert!(whole_ms && (d.as_secs() as u128) * 1000 + (d.subsec_nanos() / 1_000_000) as u128 == x as u128, "C14/max_ack_delay.as_duration/is_declared_milliseconds");
    let i = MaxIdleTimeout(v(x)).as_duration();
    // "Idle timeout is disabled when both endpoints omit this transport parameter or specify a value of 0."
    assert!(i.is_none() == (x == 0), "C14/max_idle_timeout.as_duration/none_iff_zero");
    if let Some(i) = i {
        let whole_ms = i.subsec_nanos() % 1_000_000 == 0 && i.subsec_nanos() < 1_000_000_000;
        assert!(whole_ms && (i.as_secs() as u128) * 1000 + (i.subsec_nanos() / 1_000_000) as u128 == x as u128, "C14/max_idle_timeout.as_duration/is_declared_milliseconds");
    }
    kani::cover!(x == 16383, "reach:largest_valid_max_ack_delay");
    kani::cover!(x == 999, "reach:below_one_second");
    kani::cover!(x == MS_BOUND - 1, "reach:bound");
    kani::cover!(x == 0, "reach:zero");
}

//@ harness props=C14 tier=quick level=bounded timeout=300 bound="millisecond values < 2^16"
//@ fn MaxIdleTimeout::load_peer
//@ fn connection::Limits::load_peer
#[kani::proof]
#[kani::unwind(3)]
fn vq_c14_tp_max_idle_timeout_effective() {
    // 18.2 / 10.1: "Idle timeout is disabled when both endpoints omit this transport parameter or specify a
    // value of 0"; "the effective value at an endpoint is computed as the minimum of the two advertised values"
    // (a value of 0 = "no timeout" does not take part in the minimum).  Stated on the durations the parameters
    // denote (their exactness is vq_c14_tp_millis_to_duration): the order of the raw millisecond values is the order
    // of the durations only through monotonicity of 64-bit division, which the SAT back end did not decide in 280 s
    // even for values < 2^20 (tried); the duration of the chosen value is compared instead.
    let mine = any_millis();
    let peer = any_millis();
    let mut lim = connection::Limits::new();
    lim.max_idle_timeout = MaxIdleTimeout(v(mine));
    let before = lim;
    let mut p = ServerTransportParameters::default();
    p.max_idle_timeout = MaxIdleTimeout(v(peer));
    let d_mine = MaxIdleTimeout(v(mine)).as_duration();
    let d_peer = p.max_idle_timeout.as_duration();
    lim.load_peer(&p);
    let eff = lim.max_idle_timeout.0.as_u64();
    assert!(eff == mine || eff == peer, "C14/max_idle_timeout.load_peer/is_one_of_the_advertised_values");
    assert!(mine != 0 || eff == peer, "C14/max_idle_timeout.load_peer/local_disabled_takes_peer");
    assert!(peer != 0 || eff == mine, "C14/max_idle_timeout.load_peer/peer_disabled_keeps_local");
    // both enabled: the chosen value denotes a duration that is not longer than the other one's
    assert!(
        mine == 0 || peer == 0 || (if eff == peer { d_peer <= d_mine } else { d_mine <= d_peer }),
        "C14/max_idle_timeout.load_peer/is_min_of_advertised_nonzero_values"
    );
    assert!((eff == 0) == (mine == 0 && peer == 0), "C14/max_idle_timeout.load_peer/disabled_iff_both_zero");
    assert!(
        lim.data_window == before.data_window && lim.max_ack_delay == before.max_ack_delay
            && lim.ack_delay_exponent == before.ack_delay_exponent
            && lim.max_open_remote_bidirectional_streams == before.max_open_remote_bidirectional_streams,
        "C14/limits.load_peer/other_limits_unchanged"
    );
    kani::cover!(mine == 0 && peer > 0, "reach:only_peer");
    kani::cover!(mine > 0 && peer == 0, "reach:only_local");
    kani::cover!(mine > peer && peer > 0 && eff == peer, "reach:peer_smaller");
    kani::cover!(mine < peer && mine > 0 && eff == mine, "reach:local_smaller");
    kani::cover!(mine == 0 && peer == 0, "reach:both_disabled");
    kani::cover!(mine == MS_BOUND - 1 && peer == MS_BOUND - 1, "reach:both_at_bound");
}

// ================================================================================================
// 4. the Option<..> wrappers and PreferredAddress
// ================================================================================================

//@ harness props=C14 tier=quick level=bounded timeout=240 bound="connection ids of the concrete lengths 8 (odcid), 4 (retry scid), 0 and 20 (initial scid); bytes symbolic"
//@ fn Option<OriginalDestinationConnectionId>::validate
//@ fn Option<stateless_reset::Token>::validate
//@ fn Option<InitialSourceConnectionId>::validate
//@ fn Option<RetrySourceConnectionId>::validate
#[kani::proof]
#[kani::unwind(22)] // memcmp over <= 20 connection-id bytes in `==`
fn vq_c14_tp_validate_optional_wrappers() {
    // the RFC declares no value of these parameters invalid (length limits are enforced by the decoder):
    // absent stays absent, present stays present with the same value
    let b: [u8; 20] = kani::any();
    let odcid = OriginalDestinationConnectionId(connection::InitialId::try_from_bytes(&b[..8]).unwrap());
    let rscid = RetrySourceConnectionId(connection::LocalId::try_from_bytes(&b[..4]).unwrap());
    let iscid0 = InitialSourceConnectionId(connection::UnboundedId::try_from_bytes(&b[..0]).unwrap());
    let iscid20 = InitialSourceConnectionId(connection::UnboundedId::try_from_bytes(&b[..20]).unwrap());
    let t: [u8; 16] = kani::any();
    let token = stateless_reset::Token::from(t);

    assert!(matches!(Some(odcid).validate(), Ok(Some(y)) if y == odcid), "C14/original_destination_connection_id.validate/present_accepted_unchanged");
    assert!(matches!(None::<OriginalDestinationConnectionId>.validate(), Ok(None)), "C14/original_destination_connection_id.validate/absent_stays_absent");
    assert!(matches!(Some(rscid).validate(), Ok(Some(y)) if y == rscid), "C14/retry_source_connection_id.validate/present_accepted_unchanged");
    assert!(matches!(None::<RetrySourceConnectionId>.validate(), Ok(None)), "C14/retry_source_connection_id.validate/absent_stays_absent");
    assert!(matches!(Some(iscid0).validate(), Ok(Some(y)) if y == iscid0), "C14/initial_source_connection_id.validate/zero_length_accepted_unchanged");
    assert!(matches!(Some(iscid20).validate(), Ok(Some(y)) if y == iscid20), "C14/initial_source_connection_id.validate/max_length_accepted_unchanged");
    assert!(matches!(None::<InitialSourceConnectionId>.validate(), Ok(None)), "C14/initial_source_connection_id.validate/absent_stays_absent");
    let rt = Some(token).validate();
    assert!(matches!(rt, Ok(Some(x)) if x.into_inner() == t), "C14/stateless_reset_token.validate/present_accepted_unchanged");
    assert!(matches!(None::<stateless_reset::Token>.validate(), Ok(None)), "C14/stateless_reset_token.validate/absent_stays_absent");
    assert!(
        <Option<OriginalDestinationConnectionId> as TransportParameter>::default_value().is_none()
            && <Option<stateless_reset::Token> as TransportParameter>::default_value().is_none()
            && <Option<PreferredAddress> as TransportParameter>::default_value().is_none()
            && <Option<InitialSourceConnectionId> as TransportParameter>::default_value().is_none()
            && <Option<RetrySourceConnectionId> as TransportParameter>::default_value().is_none(),
        "C14/optional_parameters.default/absent"
    );
    assert!(
        <Option<OriginalDestinationConnectionId> as TransportParameter>::ID.as_u64() == TP_ORIGINAL_DESTINATION_CONNECTION_ID.id
            && <Option<stateless_reset::Token> as TransportParameter>::ID.as_u64() == TP_STATELESS_RESET_TOKEN.id
            && <Option<PreferredAddress> as TransportParameter>::ID.as_u64() == TP_PREFERRED_ADDRESS.id
            && <Option<InitialSourceConnectionId> as TransportParameter>::ID.as_u64() == TP_INITIAL_SOURCE_CONNECTION_ID.id
            && <Option<RetrySourceConnectionId> as TransportParameter>::ID.as_u64() == TP_RETRY_SOURCE_CONNECTION_ID.id,
        "C14/optional_parameters.id/are_rfc_ids"
    );
    kani::cover!(b[0] != 0 && t[15] != 0, "reach:nonzero_bytes");
    kani::cover!(true, "reach:end");
}

/// Figure 22 with a connection id of N bytes: 4 + 2 + 16 + 2 + 1 + N + 16 bytes, every byte symbolic except the
/// Connection ID Length field
fn preferred_address_bytes<const N: usize, const L: usize>() -> [u8; L] {
    let mut w: [u8; L] = kani::any();
    w[24] = N as u8;
    w
}

fn pa_all_zero(w: &[u8], from: usize, to: usize) -> bool {
    let mut i = from;
    let mut z = true;
    while i < to {
        z = z && w[i] == 0;
        i += 1;
    }
    z
}

//@ harness props=C14 tier=quick level=bounded timeout=300 bound="preferred_address with connection-id length 0 and 4; all address/port/cid/token bytes symbolic"
//@ fn PreferredAddress::validate
//@ fn PreferredAddress::decode
//@ fn Option<PreferredAddress>::validate
#[kani::proof]
#[kani::unwind(26)] // harness loops over <= 18 address bytes; memcmp over 16/20 bytes in the code's `==`
fn vq_c14_tp_validate_preferred_address() {
    // RFC 9000 18.2: "a server MUST NOT include a zero-length connection ID in this transport parameter.  A
    // client MUST treat a violation of these requirements as a connection error of type
    // TRANSPORT_PARAMETER_ERROR."  Nothing else about the value is declared invalid ("Servers MAY choose to only
    // send a preferred address of one address family by sending an all-zero address and port ... for the other").
    let w4 = preferred_address_bytes::<4, 45>();
    let both_unspecified4 = pa_all_zero(&w4, 0, 6) && pa_all_zero(&w4, 6, 24);
    let r4 = match DecoderBuffer::new(&w4[..]).decode::<PreferredAddress>() {
        Ok((p, rest)) => {
            assert!(rest.is_empty(), "C14/preferred_address.decode/consumes_figure_22_exactly");
            Some(p).validate().is_ok()
        }
        Err(_) => false,
    };
    let w0 = preferred_address_bytes::<0, 41>();
    let both_unspecified0 = pa_all_zero(&w0, 0, 6) && pa_all_zero(&w0, 6, 24);
    let r0 = match DecoderBuffer::new(&w0[..]).decode::<PreferredAddress>() {
        Ok((p, _)) => Some(p).validate().is_ok(),
        Err(_) => false,
    };
    kani::cover!(r4 && !both_unspecified4, "reach:accepted");
    kani::cover!(both_unspecified4, "reach:both_families_all_zero");
    kani::cover!(r0, "reach:zero_length_cid_accepted");
    kani::cover!(true, "reach:end");
    // residuals first: outside the two known deviations (a) zero-length connection id accepted, (b) a value whose
    // two addresses are both all-zero rejected although the RFC does not declare it invalid
    assert!(both_unspecified4 || r4, "C14/preferred_address.validate/iff_spec#outside-known");
    assert!(!both_unspecified0 || !r0, "C14/preferred_address.validate/zero_length_cid_and_no_address_rejected#outside-known");
    // strict: valid <=> the connection id is not zero-length
    assert!(r4, "C14/preferred_address.validate/nonzero_cid_accepted");
    assert!(!r0, "C14/preferred_address.validate/zero_length_cid_rejected");
}

// ================================================================================================
// 5. the block decoder (RFC 9000 7.4, 18, 18.1, 18.2) on blocks of <= 2 parameters with CONCRETE ids and
//    encoding lengths (symbolic ids/lengths: 12 GB, DESIGN 7), symbolic values; and the block encoder
// ================================================================================================

// (the generic helpers block_one_int / block_two_ints / block_duplicate and their oracle functions sit at the top of
// this file, before the first `//@ harness` line, so that the registry does not attribute their obligation
// strings to an unrelated harness)

//@ harness props=C14 tier=quick level=bounded timeout=300 bound="1 parameter per block; id, varint length and first value byte (0x80) concrete, remaining value bytes symbolic"
//@ fn TransportParameters::decode_parameters
#[kani::proof]
#[kani::unwind(14)] // others_default: 12 ids; 2u64.pow(62): 6
fn vq_c14_tp_block_one_max_ack_delay_first_80() {
    // obligations (asserted in block_one_int): "C14/oracle.encoder/first_value_byte_is_the_declared_constant" "C14/decode_parameters/client_block_accepted_iff_value_valid" "C14/decode_parameters/server_block_accepted_iff_value_valid" "C14/decode_parameters/declared_value_is_applied" "C14/decode_parameters/absent_parameters_get_rfc_defaults" "C14/decode_parameters/server_declared_value_applied_others_default" "C14/decode_parameters/absent_server_only_parameters_are_none"
    block_one_int::<0x0b, 0x80>();
}

//@ harness props=C14 tier=thorough level=bounded timeout=900 bound="1 parameter per block; id, varint length and first value byte (0x40) concrete, remaining value bytes symbolic"
//@ fn TransportParameters::decode_parameters
#[kani::proof]
#[kani::unwind(14)] // others_default: 12 ids; 2u64.pow(62): 6
fn vq_c14_tp_block_one_active_connection_id_limit_first_40() {
    // obligations (asserted in block_one_int): "C14/oracle.encoder/first_value_byte_is_the_declared_constant" "C14/decode_parameters/client_block_accepted_iff_value_valid" "C14/decode_parameters/server_block_accepted_iff_value_valid" "C14/decode_parameters/declared_value_is_applied" "C14/decode_parameters/absent_parameters_get_rfc_defaults" "C14/decode_parameters/server_declared_value_applied_others_default" "C14/decode_parameters/absent_server_only_parameters_are_none"
    block_one_int::<0x0e, 0x40>();
}

//@ harness props=C14 tier=quick level=bounded timeout=300 bound="1 parameter per block; id, varint length and first value byte (0xd0) concrete, remaining value bytes symbolic"
//@ fn TransportParameters::decode_parameters
#[kani::proof]
#[kani::unwind(14)] // others_default: 12 ids; 2u64.pow(62): 6
fn vq_c14_tp_block_one_initial_max_streams_bidi_first_d0() {
    // obligations (asserted in block_one_int): "C14/oracle.encoder/first_value_byte_is_the_declared_constant" "C14/decode_parameters/client_block_accepted_iff_value_valid" "C14/decode_parameters/server_block_accepted_iff_value_valid" "C14/decode_parameters/declared_value_is_applied" "C14/decode_parameters/absent_parameters_get_rfc_defaults" "C14/decode_parameters/server_declared_value_applied_others_default" "C14/decode_parameters/absent_server_only_parameters_are_none"
    block_one_int::<0x08, 0xd0>();
}

//@ harness props=C14 tier=thorough level=bounded timeout=900 bound="1 parameter per block; id, varint length and first value byte (0x80) concrete, remaining value bytes symbolic"
//@ fn TransportParameters::decode_parameters
#[kani::proof]
#[kani::unwind(14)] // others_default: 12 ids; 2u64.pow(62): 6
fn vq_c14_tp_block_one_max_udp_payload_size_first_80() {
    // obligations (asserted in block_one_int): "C14/oracle.encoder/first_value_byte_is_the_declared_constant" "C14/decode_parameters/client_block_accepted_iff_value_valid" "C14/decode_parameters/server_block_accepted_iff_value_valid" "C14/decode_parameters/declared_value_is_applied" "C14/decode_parameters/absent_parameters_get_rfc_defaults" "C14/decode_parameters/server_declared_value_applied_others_default" "C14/decode_parameters/absent_server_only_parameters_are_none"
    block_one_int::<0x03, 0x80>();
}

//@ harness props=C14 tier=thorough level=bounded timeout=900 bound="1 parameter per block; id, varint length and first value byte (0x80) concrete, remaining value bytes symbolic"
//@ fn TransportParameters::decode_parameters
#[kani::proof]
#[kani::unwind(14)] // others_default: 12 ids; 2u64.pow(62): 6
fn vq_c14_tp_block_one_max_idle_timeout_first_80() {
    // obligations (asserted in block_one_int): "C14/oracle.encoder/first_value_byte_is_the_declared_constant" "C14/decode_parameters/client_block_accepted_iff_value_valid" "C14/decode_parameters/server_block_accepted_iff_value_valid" "C14/decode_parameters/declared_value_is_applied" "C14/decode_parameters/absent_parameters_get_rfc_defaults" "C14/decode_parameters/server_declared_value_applied_others_default" "C14/decode_parameters/absent_server_only_parameters_are_none"
    block_one_int::<0x01, 0x80>();
}

//@ harness props=C14 tier=thorough level=bounded timeout=900 bound="1 parameter per block; id, varint length and first value byte (0xc0) concrete, remaining value bytes symbolic"
//@ fn TransportParameters::decode_parameters
#[kani::proof]
#[kani::unwind(14)] // others_default: 12 ids; 2u64.pow(62): 6
fn vq_c14_tp_block_one_max_idle_timeout_first_c0() {
    // obligations (asserted in block_one_int): "C14/oracle.encoder/first_value_byte_is_the_declared_constant" "C14/decode_parameters/client_block_accepted_iff_value_valid" "C14/decode_parameters/server_block_accepted_iff_value_valid" "C14/decode_parameters/declared_value_is_applied" "C14/decode_parameters/absent_parameters_get_rfc_defaults" "C14/decode_parameters/server_declared_value_applied_others_default" "C14/decode_parameters/absent_server_only_parameters_are_none"
    block_one_int::<0x01, 0xc0>();
}

//@ harness props=C14 tier=thorough level=bounded timeout=900 bound="1 parameter per block; id, varint length and first value byte (0xc0) concrete, remaining value bytes symbolic"
//@ fn TransportParameters::decode_parameters
#[kani::proof]
#[kani::unwind(14)] // others_default: 12 ids; 2u64.pow(62): 6
fn vq_c14_tp_block_one_max_udp_payload_size_first_c0() {
    // obligations (asserted in block_one_int): "C14/oracle.encoder/first_value_byte_is_the_declared_constant" "C14/decode_parameters/client_block_accepted_iff_value_valid" "C14/decode_parameters/server_block_accepted_iff_value_valid" "C14/decode_parameters/declared_value_is_applied" "C14/decode_parameters/absent_parameters_get_rfc_defaults" "C14/decode_parameters/server_declared_value_applied_others_default" "C14/decode_parameters/absent_server_only_parameters_are_none"
    block_one_int::<0x03, 0xc0>();
}

//@ harness props=C14 tier=thorough level=bounded timeout=900 bound="1 parameter per block; id, varint length and first value byte (0x80) concrete, remaining value bytes symbolic"
//@ fn TransportParameters::decode_parameters
#[kani::proof]
#[kani::unwind(14)] // others_default: 12 ids; 2u64.pow(62): 6
fn vq_c14_tp_block_one_initial_max_data_first_80() {
    // obligations (asserted in block_one_int): "C14/oracle.encoder/first_value_byte_is_the_declared_constant" "C14/decode_parameters/client_block_accepted_iff_value_valid" "C14/decode_parameters/server_block_accepted_iff_value_valid" "C14/decode_parameters/declared_value_is_applied" "C14/decode_parameters/absent_parameters_get_rfc_defaults" "C14/decode_parameters/server_declared_value_applied_others_default" "C14/decode_parameters/absent_server_only_parameters_are_none"
    block_one_int::<0x04, 0x80>();
}

//@ harness props=C14 tier=thorough level=bounded timeout=900 bound="1 parameter per block; id, varint length and first value byte (0xc0) concrete, remaining value bytes symbolic"
//@ fn TransportParameters::decode_parameters
#[kani::proof]
#[kani::unwind(14)] // others_default: 12 ids; 2u64.pow(62): 6
fn vq_c14_tp_block_one_initial_max_data_first_c0() {
    // obligations (asserted in block_one_int): "C14/oracle.encoder/first_value_byte_is_the_declared_constant" "C14/decode_parameters/client_block_accepted_iff_value_valid" "C14/decode_parameters/server_block_accepted_iff_value_valid" "C14/decode_parameters/declared_value_is_applied" "C14/decode_parameters/absent_parameters_get_rfc_defaults" "C14/decode_parameters/server_declared_value_applied_others_default" "C14/decode_parameters/absent_server_only_parameters_are_none"
    block_one_int::<0x04, 0xc0>();
}

//@ harness props=C14 tier=thorough level=bounded timeout=900 bound="1 parameter per block; id, varint length and first value byte (0x80) concrete, remaining value bytes symbolic"
//@ fn TransportParameters::decode_parameters
#[kani::proof]
#[kani::unwind(14)] // others_default: 12 ids; 2u64.pow(62): 6
fn vq_c14_tp_block_one_initial_max_stream_data_bidi_local_first_80() {
    // obligations (asserted in block_one_int): "C14/oracle.encoder/first_value_byte_is_the_declared_constant" "C14/decode_parameters/client_block_accepted_iff_value_valid" "C14/decode_parameters/server_block_accepted_iff_value_valid" "C14/decode_parameters/declared_value_is_applied" "C14/decode_parameters/absent_parameters_get_rfc_defaults" "C14/decode_parameters/server_declared_value_applied_others_default" "C14/decode_parameters/absent_server_only_parameters_are_none"
    block_one_int::<0x05, 0x80>();
}

//@ harness props=C14 tier=thorough level=bounded timeout=900 bound="1 parameter per block; id, varint length and first value byte (0xc0) concrete, remaining value bytes symbolic"
//@ fn TransportParameters::decode_parameters
#[kani::proof]
#[kani::unwind(14)] // others_default: 12 ids; 2u64.pow(62): 6
fn vq_c14_tp_block_one_initial_max_stream_data_bidi_local_first_c0() {
    // obligations (asserted in block_one_int): "C14/oracle.encoder/first_value_byte_is_the_declared_constant" "C14/decode_parameters/client_block_accepted_iff_value_valid" "C14/decode_parameters/server_block_accepted_iff_value_valid" "C14/decode_parameters/declared_value_is_applied" "C14/decode_parameters/absent_parameters_get_rfc_defaults" "C14/decode_parameters/server_declared_value_applied_others_default" "C14/decode_parameters/absent_server_only_parameters_are_none"
    block_one_int::<0x05, 0xc0>();
}

//@ harness props=C14 tier=thorough level=bounded timeout=900 bound="1 parameter per block; id, varint length and first value byte (0x80) concrete, remaining value bytes symbolic"
//@ fn TransportParameters::decode_parameters
#[kani::proof]
#[kani::unwind(14)] // others_default: 12 ids; 2u64.pow(62): 6
fn vq_c14_tp_block_one_initial_max_stream_data_bidi_remote_first_80() {
    // obligations (asserted in block_one_int): "C14/oracle.encoder/first_value_byte_is_the_declared_constant" "C14/decode_parameters/client_block_accepted_iff_value_valid" "C14/decode_parameters/server_block_accepted_iff_value_valid" "C14/decode_parameters/declared_value_is_applied" "C14/decode_parameters/absent_parameters_get_rfc_defaults" "C14/decode_parameters/server_declared_value_applied_others_default" "C14/decode_parameters/absent_server_only_parameters_are_none"
    block_one_int::<0x06, 0x80>();
}

//@ harness props=C14 tier=thorough level=bounded timeout=900 bound="1 parameter per block; id, varint length and first value byte (0xc0) concrete, remaining value bytes symbolic"
//@ fn TransportParameters::decode_parameters
#[kani::proof]
#[kani::unwind(14)] // others_default: 12 ids; 2u64.pow(62): 6
fn vq_c14_tp_block_one_initial_max_stream_data_bidi_remote_first_c0() {
    // obligations (asserted in block_one_int): "C14/oracle.encoder/first_value_byte_is_the_declared_constant" "C14/decode_parameters/client_block_accepted_iff_value_valid" "C14/decode_parameters/server_block_accepted_iff_value_valid" "C14/decode_parameters/declared_value_is_applied" "C14/decode_parameters/absent_parameters_get_rfc_defaults" "C14/decode_parameters/server_declared_value_applied_others_default" "C14/decode_parameters/absent_server_only_parameters_are_none"
    block_one_int::<0x06, 0xc0>();
}

//@ harness props=C14 tier=thorough level=bounded timeout=900 bound="1 parameter per block; id, varint length and first value byte (0x80) concrete, remaining value bytes symbolic"
//@ fn TransportParameters::decode_parameters
#[kani::proof]
#[kani::unwind(14)] // others_default: 12 ids; 2u64.pow(62): 6
fn vq_c14_tp_block_one_initial_max_stream_data_uni_first_80() {
    // obligations (asserted in block_one_int): "C14/oracle.encoder/first_value_byte_is_the_declared_constant" "C14/decode_parameters/client_block_accepted_iff_value_valid" "C14/decode_parameters/server_block_accepted_iff_value_valid" "C14/decode_parameters/declared_value_is_applied" "C14/decode_parameters/absent_parameters_get_rfc_defaults" "C14/decode_parameters/server_declared_value_applied_others_default" "C14/decode_parameters/absent_server_only_parameters_are_none"
    block_one_int::<0x07, 0x80>();
}

//@ harness props=C14 tier=thorough level=bounded timeout=900 bound="1 parameter per block; id, varint length and first value byte (0xc0) concrete, remaining value bytes symbolic"
//@ fn TransportParameters::decode_parameters
#[kani::proof]
#[kani::unwind(14)] // others_default: 12 ids; 2u64.pow(62): 6
fn vq_c14_tp_block_one_initial_max_stream_data_uni_first_c0() {
    // obligations (asserted in block_one_int): "C14/oracle.encoder/first_value_byte_is_the_declared_constant" "C14/decode_parameters/client_block_accepted_iff_value_valid" "C14/decode_parameters/server_block_accepted_iff_value_valid" "C14/decode_parameters/declared_value_is_applied" "C14/decode_parameters/absent_parameters_get_rfc_defaults" "C14/decode_parameters/server_declared_value_applied_others_default" "C14/decode_parameters/absent_server_only_parameters_are_none"
    block_one_int::<0x07, 0xc0>();
}

//@ harness props=C14 tier=thorough level=bounded timeout=900 bound="1 parameter per block; id, varint length and first value byte (0x80) concrete, remaining value bytes symbolic"
//@ fn TransportParameters::decode_parameters
#[kani::proof]
#[kani::unwind(14)] // others_default: 12 ids; 2u64.pow(62): 6
fn vq_c14_tp_block_one_initial_max_streams_bidi_first_80() {
    // obligations (asserted in block_one_int): "C14/oracle.encoder/first_value_byte_is_the_declared_constant" "C14/decode_parameters/client_block_accepted_iff_value_valid" "C14/decode_parameters/server_block_accepted_iff_value_valid" "C14/decode_parameters/declared_value_is_applied" "C14/decode_parameters/absent_parameters_get_rfc_defaults" "C14/decode_parameters/server_declared_value_applied_others_default" "C14/decode_parameters/absent_server_only_parameters_are_none"
    block_one_int::<0x08, 0x80>();
}

//@ harness props=C14 tier=thorough level=bounded timeout=900 bound="1 parameter per block; id, varint length and first value byte (0xc0) concrete, remaining value bytes symbolic"
//@ fn TransportParameters::decode_parameters
#[kani::proof]
#[kani::unwind(14)] // others_default: 12 ids; 2u64.pow(62): 6
fn vq_c14_tp_block_one_initial_max_streams_bidi_first_c0() {
    // obligations (asserted in block_one_int): "C14/oracle.encoder/first_value_byte_is_the_declared_constant" "C14/decode_parameters/client_block_accepted_iff_value_valid" "C14/decode_parameters/server_block_accepted_iff_value_valid" "C14/decode_parameters/declared_value_is_applied" "C14/decode_parameters/absent_parameters_get_rfc_defaults" "C14/decode_parameters/server_declared_value_applied_others_default" "C14/decode_parameters/absent_server_only_parameters_are_none"
    block_one_int::<0x08, 0xc0>();
}

//@ harness props=C14 tier=thorough level=bounded timeout=900 bound="1 parameter per block; id, varint length and first value byte (0x80) concrete, remaining value bytes symbolic"
//@ fn TransportParameters::decode_parameters
#[kani::proof]
#[kani::unwind(14)] // others_default: 12 ids; 2u64.pow(62): 6
fn vq_c14_tp_block_one_initial_max_streams_uni_first_80() {
    // obligations (asserted in block_one_int): "C14/oracle.encoder/first_value_byte_is_the_declared_constant" "C14/decode_parameters/client_block_accepted_iff_value_valid" "C14/decode_parameters/server_block_accepted_iff_value_valid" "C14/decode_parameters/declared_value_is_applied" "C14/decode_parameters/absent_parameters_get_rfc_defaults" "C14/decode_parameters/server_declared_value_applied_others_default" "C14/decode_parameters/absent_server_only_parameters_are_none"
    block_one_int::<0x09, 0x80>();
}

//@ harness props=C14 tier=thorough level=bounded timeout=900 bound="1 parameter per block; id, varint length and first value byte (0xc0) concrete, remaining value bytes symbolic"
//@ fn TransportParameters::decode_parameters
#[kani::proof]
#[kani::unwind(14)] // others_default: 12 ids; 2u64.pow(62): 6
fn vq_c14_tp_block_one_initial_max_streams_uni_first_c0() {
    // obligations (asserted in block_one_int): "C14/oracle.encoder/first_value_byte_is_the_declared_constant" "C14/decode_parameters/client_block_accepted_iff_value_valid" "C14/decode_parameters/server_block_accepted_iff_value_valid" "C14/decode_parameters/declared_value_is_applied" "C14/decode_parameters/absent_parameters_get_rfc_defaults" "C14/decode_parameters/server_declared_value_applied_others_default" "C14/decode_parameters/absent_server_only_parameters_are_none"
    block_one_int::<0x09, 0xc0>();
}

//@ harness props=C14 tier=thorough level=bounded timeout=900 bound="1 parameter per block; id, varint length and first value byte (0xc0) concrete, remaining value bytes symbolic"
//@ fn TransportParameters::decode_parameters
#[kani::proof]
#[kani::unwind(14)] // others_default: 12 ids; 2u64.pow(62): 6
fn vq_c14_tp_block_one_max_ack_delay_first_c0() {
    // obligations (asserted in block_one_int): "C14/oracle.encoder/first_value_byte_is_the_declared_constant" "C14/decode_parameters/client_block_accepted_iff_value_valid" "C14/decode_parameters/server_block_accepted_iff_value_valid" "C14/decode_parameters/declared_value_is_applied" "C14/decode_parameters/absent_parameters_get_rfc_defaults" "C14/decode_parameters/server_declared_value_applied_others_default" "C14/decode_parameters/absent_server_only_parameters_are_none"
    block_one_int::<0x0b, 0xc0>();
}

//@ harness props=C14 tier=thorough level=bounded timeout=900 bound="1 parameter per block; id, varint length and first value byte (0x80) concrete, remaining value bytes symbolic"
//@ fn TransportParameters::decode_parameters
#[kani::proof]
#[kani::unwind(14)] // others_default: 12 ids; 2u64.pow(62): 6
fn vq_c14_tp_block_one_active_connection_id_limit_first_80() {
    // obligations (asserted in block_one_int): "C14/oracle.encoder/first_value_byte_is_the_declared_constant" "C14/decode_parameters/client_block_accepted_iff_value_valid" "C14/decode_parameters/server_block_accepted_iff_value_valid" "C14/decode_parameters/declared_value_is_applied" "C14/decode_parameters/absent_parameters_get_rfc_defaults" "C14/decode_parameters/server_declared_value_applied_others_default" "C14/decode_parameters/absent_server_only_parameters_are_none"
    block_one_int::<0x0e, 0x80>();
}

//@ harness props=C14 tier=thorough level=bounded timeout=900 bound="1 parameter per block; id, varint length and first value byte (0xc0) concrete, remaining value bytes symbolic"
//@ fn TransportParameters::decode_parameters
#[kani::proof]
#[kani::unwind(14)] // others_default: 12 ids; 2u64.pow(62): 6
fn vq_c14_tp_block_one_active_connection_id_limit_first_c0() {
    // obligations (asserted in block_one_int): "C14/oracle.encoder/first_value_byte_is_the_declared_constant" "C14/decode_parameters/client_block_accepted_iff_value_valid" "C14/decode_parameters/server_block_accepted_iff_value_valid" "C14/decode_parameters/declared_value_is_applied" "C14/decode_parameters/absent_parameters_get_rfc_defaults" "C14/decode_parameters/server_declared_value_applied_others_default" "C14/decode_parameters/absent_server_only_parameters_are_none"
    block_one_int::<0x0e, 0xc0>();
}

//@ harness props=C14 tier=thorough level=bounded timeout=900 bound="1 parameter per block; id, varint length and first value byte (0x80) concrete, remaining value bytes symbolic"
//@ fn TransportParameters::decode_parameters
#[kani::proof]
#[kani::unwind(14)] // others_default: 12 ids; 2u64.pow(62): 6
fn vq_c14_tp_block_one_max_datagram_frame_size_first_80() {
    // obligations (asserted in block_one_int): "C14/oracle.encoder/first_value_byte_is_the_declared_constant" "C14/decode_parameters/client_block_accepted_iff_value_valid" "C14/decode_parameters/server_block_accepted_iff_value_valid" "C14/decode_parameters/declared_value_is_applied" "C14/decode_parameters/absent_parameters_get_rfc_defaults" "C14/decode_parameters/server_declared_value_applied_others_default" "C14/decode_parameters/absent_server_only_parameters_are_none"
    block_one_int::<0x20, 0x80>();
}

//@ harness props=C14 tier=thorough level=bounded timeout=900 bound="1 parameter per block; id, varint length and first value byte (0xc0) concrete, remaining value bytes symbolic"
//@ fn TransportParameters::decode_parameters
#[kani::proof]
#[kani::unwind(14)] // others_default: 12 ids; 2u64.pow(62): 6
fn vq_c14_tp_block_one_max_datagram_frame_size_first_c0() {
    // obligations (asserted in block_one_int): "C14/oracle.encoder/first_value_byte_is_the_declared_constant" "C14/decode_parameters/client_block_accepted_iff_value_valid" "C14/decode_parameters/server_block_accepted_iff_value_valid" "C14/decode_parameters/declared_value_is_applied" "C14/decode_parameters/absent_parameters_get_rfc_defaults" "C14/decode_parameters/server_declared_value_applied_others_default" "C14/decode_parameters/absent_server_only_parameters_are_none"
    block_one_int::<0x20, 0xc0>();
}

//@ harness props=C14 tier=thorough level=bounded timeout=900 bound="1 parameter per block; id, varint length and first value byte (0x7f) concrete, remaining value bytes symbolic"
//@ fn TransportParameters::decode_parameters
#[kani::proof]
#[kani::unwind(14)] // others_default: 12 ids; 2u64.pow(62): 6
fn vq_c14_tp_block_one_max_ack_delay_first_7f() {
    // obligations (asserted in block_one_int): "C14/oracle.encoder/first_value_byte_is_the_declared_constant" "C14/decode_parameters/client_block_accepted_iff_value_valid" "C14/decode_parameters/server_block_accepted_iff_value_valid" "C14/decode_parameters/declared_value_is_applied" "C14/decode_parameters/absent_parameters_get_rfc_defaults" "C14/decode_parameters/server_declared_value_applied_others_default" "C14/decode_parameters/absent_server_only_parameters_are_none"
    block_one_int::<0x0b, 0x7f>();
}

//@ harness props=C14 tier=thorough level=bounded timeout=900 bound="1 parameter per block; id, varint length and first value byte (0x40) concrete, remaining value bytes symbolic"
//@ fn TransportParameters::decode_parameters
#[kani::proof]
#[kani::unwind(14)] // others_default: 12 ids; 2u64.pow(62): 6
fn vq_c14_tp_block_one_max_ack_delay_first_40() {
    // obligations (asserted in block_one_int): "C14/oracle.encoder/first_value_byte_is_the_declared_constant" "C14/decode_parameters/client_block_accepted_iff_value_valid" "C14/decode_parameters/server_block_accepted_iff_value_valid" "C14/decode_parameters/declared_value_is_applied" "C14/decode_parameters/absent_parameters_get_rfc_defaults" "C14/decode_parameters/server_declared_value_applied_others_default" "C14/decode_parameters/absent_server_only_parameters_are_none"
    block_one_int::<0x0b, 0x40>();
}

//@ harness props=C14 tier=thorough level=bounded timeout=900 bound="1 parameter per block; id, varint length and first value byte (0xcf) concrete, remaining value bytes symbolic"
//@ fn TransportParameters::decode_parameters
#[kani::proof]
#[kani::unwind(14)] // others_default: 12 ids; 2u64.pow(62): 6
fn vq_c14_tp_block_one_initial_max_streams_bidi_first_cf() {
    // obligations (asserted in block_one_int): "C14/oracle.encoder/first_value_byte_is_the_declared_constant" "C14/decode_parameters/client_block_accepted_iff_value_valid" "C14/decode_parameters/server_block_accepted_iff_value_valid" "C14/decode_parameters/declared_value_is_applied" "C14/decode_parameters/absent_parameters_get_rfc_defaults" "C14/decode_parameters/server_declared_value_applied_others_default" "C14/decode_parameters/absent_server_only_parameters_are_none"
    block_one_int::<0x08, 0xcf>();
}

//@ harness props=C14 tier=thorough level=bounded timeout=900 bound="1 parameter per block; id, varint length and first value byte (0xd0) concrete, remaining value bytes symbolic"
//@ fn TransportParameters::decode_parameters
#[kani::proof]
#[kani::unwind(14)] // others_default: 12 ids; 2u64.pow(62): 6
fn vq_c14_tp_block_one_initial_max_streams_uni_first_d0() {
    // obligations (asserted in block_one_int): "C14/oracle.encoder/first_value_byte_is_the_declared_constant" "C14/decode_parameters/client_block_accepted_iff_value_valid" "C14/decode_parameters/server_block_accepted_iff_value_valid" "C14/decode_parameters/declared_value_is_applied" "C14/decode_parameters/absent_parameters_get_rfc_defaults" "C14/decode_parameters/server_declared_value_applied_others_default" "C14/decode_parameters/absent_server_only_parameters_are_none"
    block_one_int::<0x09, 0xd0>();
}

//@ harness props=C14 tier=thorough level=bounded timeout=900 bound="1 parameter per block; id, varint length and first value byte (0xff) concrete, remaining value bytes symbolic"
//@ fn TransportParameters::decode_parameters
#[kani::proof]
#[kani::unwind(14)] // others_default: 12 ids; 2u64.pow(62): 6
fn vq_c14_tp_block_one_initial_max_data_first_ff() {
    // obligations (asserted in block_one_int): "C14/oracle.encoder/first_value_byte_is_the_declared_constant" "C14/decode_parameters/client_block_accepted_iff_value_valid" "C14/decode_parameters/server_block_accepted_iff_value_valid" "C14/decode_parameters/declared_value_is_applied" "C14/decode_parameters/absent_parameters_get_rfc_defaults" "C14/decode_parameters/server_declared_value_applied_others_default" "C14/decode_parameters/absent_server_only_parameters_are_none"
    block_one_int::<0x04, 0xff>();
}

//@ harness props=C14 tier=thorough level=bounded timeout=900 bound="1 parameter per block; id, varint length and first value byte (0x14) concrete, remaining value bytes symbolic"
//@ fn TransportParameters::decode_parameters
#[kani::proof]
#[kani::unwind(14)] // others_default: 12 ids; 2u64.pow(62): 6
fn vq_c14_tp_block_one_ack_delay_exponent_first_14() {
    // obligations (asserted in block_one_int): "C14/oracle.encoder/first_value_byte_is_the_declared_constant" "C14/decode_parameters/client_block_accepted_iff_value_valid" "C14/decode_parameters/server_block_accepted_iff_value_valid" "C14/decode_parameters/declared_value_is_applied" "C14/decode_parameters/absent_parameters_get_rfc_defaults" "C14/decode_parameters/server_declared_value_applied_others_default" "C14/decode_parameters/absent_server_only_parameters_are_none"
    block_one_int::<0x0a, 0x14>();
}

//@ harness props=C14 tier=quick level=bounded timeout=300 bound="2 parameters per block; ids, varint lengths and first value bytes (0x80, 0x40) concrete, remaining value bytes symbolic"
//@ fn TransportParameters::decode_parameters
#[kani::proof]
#[kani::unwind(14)] // others_default: 12 ids; 2u64.pow(62): 6
fn vq_c14_tp_block_two_max_ack_delay_80_active_connection_id_limit_40() {
    // obligations (asserted in block_two_ints): "C14/oracle.encoder/first_value_byte_is_the_declared_constant" "C14/decode_parameters/block_accepted_iff_every_value_valid" "C14/decode_parameters/both_declared_values_applied" "C14/decode_parameters/absent_parameters_get_rfc_defaults"
    block_two_ints::<0x0b, 0x80, 0x0e, 0x40>();
}

//@ harness props=C14 tier=quick level=bounded timeout=300 bound="2 parameters per block; ids, varint lengths and first value bytes (0x80, 0x40) concrete, remaining value bytes symbolic"
//@ fn TransportParameters::decode_parameters
#[kani::proof]
#[kani::unwind(14)] // others_default: 12 ids; 2u64.pow(62): 6
fn vq_c14_tp_block_two_max_ack_delay_80_max_ack_delay_40() {
    // obligations (asserted in block_duplicate): "C14/oracle.encoder/first_value_byte_is_the_declared_constant" "C14/decode_parameters/duplicate_parameter_rejected" "C14/decode_parameters/duplicate_parameter_rejected_from_server"
    block_duplicate::<0x0b, 0x80, 0x40>();
}

//@ harness props=C14 tier=thorough level=bounded timeout=900 bound="2 parameters per block; ids, varint lengths and first value bytes (0x40, 0x80) concrete, remaining value bytes symbolic"
//@ fn TransportParameters::decode_parameters
#[kani::proof]
#[kani::unwind(14)] // others_default: 12 ids; 2u64.pow(62): 6
fn vq_c14_tp_block_two_active_connection_id_limit_40_max_ack_delay_80() {
    // obligations (asserted in block_two_ints): "C14/oracle.encoder/first_value_byte_is_the_declared_constant" "C14/decode_parameters/block_accepted_iff_every_value_valid" "C14/decode_parameters/both_declared_values_applied" "C14/decode_parameters/absent_parameters_get_rfc_defaults"
    block_two_ints::<0x0e, 0x40, 0x0b, 0x80>();
}

//@ harness props=C14 tier=thorough level=bounded timeout=900 bound="2 parameters per block; ids, varint lengths and first value bytes (0x80, 0x03) concrete, remaining value bytes symbolic"
//@ fn TransportParameters::decode_parameters
#[kani::proof]
#[kani::unwind(14)] // others_default: 12 ids; 2u64.pow(62): 6
fn vq_c14_tp_block_two_max_udp_payload_size_80_ack_delay_exponent_03() {
    // obligations (asserted in block_two_ints): "C14/oracle.encoder/first_value_byte_is_the_declared_constant" "C14/decode_parameters/block_accepted_iff_every_value_valid" "C14/decode_parameters/both_declared_values_applied" "C14/decode_parameters/absent_parameters_get_rfc_defaults"
    block_two_ints::<0x03, 0x80, 0x0a, 0x03>();
}

//@ harness props=C14 tier=thorough level=bounded timeout=900 bound="2 parameters per block; ids, varint lengths and first value bytes (0xd0, 0xcf) concrete, remaining value bytes symbolic"
//@ fn TransportParameters::decode_parameters
#[kani::proof]
#[kani::unwind(14)] // others_default: 12 ids; 2u64.pow(62): 6
fn vq_c14_tp_block_two_initial_max_streams_bidi_d0_initial_max_streams_uni_cf() {
    // obligations (asserted in block_two_ints): "C14/oracle.encoder/first_value_byte_is_the_declared_constant" "C14/decode_parameters/block_accepted_iff_every_value_valid" "C14/decode_parameters/both_declared_values_applied" "C14/decode_parameters/absent_parameters_get_rfc_defaults"
    block_two_ints::<0x08, 0xd0, 0x09, 0xcf>();
}

//@ harness props=C14 tier=thorough level=bounded timeout=900 bound="2 parameters per block; ids, varint lengths and first value bytes (0xc0, 0x80) concrete, remaining value bytes symbolic"
//@ fn TransportParameters::decode_parameters
#[kani::proof]
#[kani::unwind(14)] // others_default: 12 ids; 2u64.pow(62): 6
fn vq_c14_tp_block_two_max_idle_timeout_c0_max_datagram_frame_size_80() {
    // obligations (asserted in block_two_ints): "C14/oracle.encoder/first_value_byte_is_the_declared_constant" "C14/decode_parameters/block_accepted_iff_every_value_valid" "C14/decode_parameters/both_declared_values_applied" "C14/decode_parameters/absent_parameters_get_rfc_defaults"
    block_two_ints::<0x01, 0xc0, 0x20, 0x80>();
}

//@ harness props=C14 tier=thorough level=bounded timeout=900 bound="2 parameters per block; ids, varint lengths and first value bytes (0x40, 0x80) concrete, remaining value bytes symbolic"
//@ fn TransportParameters::decode_parameters
#[kani::proof]
#[kani::unwind(14)] // others_default: 12 ids; 2u64.pow(62): 6
fn vq_c14_tp_block_two_active_connection_id_limit_40_active_connection_id_limit_80() {
    // obligations (asserted in block_duplicate): "C14/oracle.encoder/first_value_byte_is_the_declared_constant" "C14/decode_parameters/duplicate_parameter_rejected" "C14/decode_parameters/duplicate_parameter_rejected_from_server"
    block_duplicate::<0x0e, 0x40, 0x80>();
}

//@ harness props=C14 tier=thorough level=bounded timeout=900 bound="2 parameters per block; ids, varint lengths and first value bytes (0x80, 0x80) concrete, remaining value bytes symbolic"
//@ fn TransportParameters::decode_parameters
#[kani::proof]
#[kani::unwind(14)] // others_default: 12 ids; 2u64.pow(62): 6
fn vq_c14_tp_block_two_initial_max_data_80_initial_max_data_80() {
    // obligations (asserted in block_duplicate): "C14/oracle.encoder/first_value_byte_is_the_declared_constant" "C14/decode_parameters/duplicate_parameter_rejected" "C14/decode_parameters/duplicate_parameter_rejected_from_server"
    block_duplicate::<0x04, 0x80, 0x80>();
}

//@ harness props=C14 tier=thorough level=bounded timeout=900 bound="2 parameters per block; ids, varint lengths and first value bytes (0x03, 0x03) concrete, remaining value bytes symbolic"
//@ fn TransportParameters::decode_parameters
#[kani::proof]
#[kani::unwind(14)] // others_default: 12 ids; 2u64.pow(62): 6
fn vq_c14_tp_block_two_ack_delay_exponent_03_ack_delay_exponent_03() {
    // obligations (asserted in block_duplicate): "C14/oracle.encoder/first_value_byte_is_the_declared_constant" "C14/decode_parameters/duplicate_parameter_rejected" "C14/decode_parameters/duplicate_parameter_rejected_from_server"
    block_duplicate::<0x0a, 0x03, 0x03>();
}

//@ harness props=C14 tier=thorough level=bounded timeout=900 bound="2 parameters per block; ids, varint lengths and first value bytes (0x80, 0x80) concrete, remaining value bytes symbolic"
//@ fn TransportParameters::decode_parameters
#[kani::proof]
#[kani::unwind(14)] // others_default: 12 ids; 2u64.pow(62): 6
fn vq_c14_tp_block_two_max_udp_payload_size_80_max_udp_payload_size_80() {
    // obligations (asserted in block_duplicate): "C14/oracle.encoder/first_value_byte_is_the_declared_constant" "C14/decode_parameters/duplicate_parameter_rejected" "C14/decode_parameters/duplicate_parameter_rejected_from_server"
    block_duplicate::<0x03, 0x80, 0x80>();
}

//@ harness props=C14 tier=thorough level=bounded timeout=900 bound="2 parameters per block; ids, varint lengths and first value bytes (0x80, 0x80) concrete, remaining value bytes symbolic"
//@ fn TransportParameters::decode_parameters
#[kani::proof]
#[kani::unwind(14)] // others_default: 12 ids; 2u64.pow(62): 6
fn vq_c14_tp_block_two_initial_max_stream_data_bidi_local_80_initial_max_stream_data_bidi_remote_80() {
    // obligations (asserted in block_two_ints): "C14/oracle.encoder/first_value_byte_is_the_declared_constant" "C14/decode_parameters/block_accepted_iff_every_value_valid" "C14/decode_parameters/both_declared_values_applied" "C14/decode_parameters/absent_parameters_get_rfc_defaults"
    block_two_ints::<0x05, 0x80, 0x06, 0x80>();
}

//@ harness props=C14 tier=thorough level=bounded timeout=900 bound="2 parameters per block; ids, varint lengths and first value bytes (0x40, 0x40) concrete, remaining value bytes symbolic"
//@ fn TransportParameters::decode_parameters
#[kani::proof]
#[kani::unwind(14)] // others_default: 12 ids; 2u64.pow(62): 6
fn vq_c14_tp_block_two_initial_max_stream_data_uni_40_initial_max_stream_data_uni_40() {
    // obligations (asserted in block_duplicate): "C14/oracle.encoder/first_value_byte_is_the_declared_constant" "C14/decode_parameters/duplicate_parameter_rejected" "C14/decode_parameters/duplicate_parameter_rejected_from_server"
    block_duplicate::<0x07, 0x40, 0x40>();
}

//@ harness props=C14 tier=thorough level=bounded timeout=900 bound="2 parameters per block; ids, varint lengths and first value bytes (0x40, 0x40) concrete, remaining value bytes symbolic"
//@ fn TransportParameters::decode_parameters
#[kani::proof]
#[kani::unwind(14)] // others_default: 12 ids; 2u64.pow(62): 6
fn vq_c14_tp_block_two_initial_max_streams_bidi_40_initial_max_streams_bidi_40() {
    // obligations (asserted in block_duplicate): "C14/oracle.encoder/first_value_byte_is_the_declared_constant" "C14/decode_parameters/duplicate_parameter_rejected" "C14/decode_parameters/duplicate_parameter_rejected_from_server"
    block_duplicate::<0x08, 0x40, 0x40>();
}

//@ harness props=C14 tier=thorough level=bounded timeout=900 bound="2 parameters per block; ids, varint lengths and first value bytes (0x40, 0x40) concrete, remaining value bytes symbolic"
//@ fn TransportParameters::decode_parameters
#[kani::proof]
#[kani::unwind(14)] // others_default: 12 ids; 2u64.pow(62): 6
fn vq_c14_tp_block_two_initial_max_streams_uni_40_initial_max_streams_uni_40() {
    // obligations (asserted in block_duplicate): "C14/oracle.encoder/first_value_byte_is_the_declared_constant" "C14/decode_parameters/duplicate_parameter_rejected" "C14/decode_parameters/duplicate_parameter_rejected_from_server"
    block_duplicate::<0x09, 0x40, 0x40>();
}

//@ harness props=C14 tier=thorough level=bounded timeout=900 bound="2 parameters per block; ids, varint lengths and first value bytes (0x40, 0x40) concrete, remaining value bytes symbolic"
//@ fn TransportParameters::decode_parameters
#[kani::proof]
#[kani::unwind(14)] // others_default: 12 ids; 2u64.pow(62): 6
fn vq_c14_tp_block_two_max_idle_timeout_40_max_idle_timeout_40() {
    // obligations (asserted in block_duplicate): "C14/oracle.encoder/first_value_byte_is_the_declared_constant" "C14/decode_parameters/duplicate_parameter_rejected" "C14/decode_parameters/duplicate_parameter_rejected_from_server"
    block_duplicate::<0x01, 0x40, 0x40>();
}

//@ harness props=C14 tier=thorough level=bounded timeout=900 bound="2 parameters per block; ids, varint lengths and first value bytes (0x40, 0x40) concrete, remaining value bytes symbolic"
//@ fn TransportParameters::decode_parameters
#[kani::proof]
#[kani::unwind(14)] // others_default: 12 ids; 2u64.pow(62): 6
fn vq_c14_tp_block_two_max_datagram_frame_size_40_max_datagram_frame_size_40() {
    // obligations (asserted in block_duplicate): "C14/oracle.encoder/first_value_byte_is_the_declared_constant" "C14/decode_parameters/duplicate_parameter_rejected" "C14/decode_parameters/duplicate_parameter_rejected_from_server"
    block_duplicate::<0x20, 0x40, 0x40>();
}

//@ harness props=C14 tier=thorough level=bounded timeout=900 bound="2 parameters per block; ids, varint lengths and first value bytes (0x40, 0x40) concrete, remaining value bytes symbolic"
//@ fn TransportParameters::decode_parameters
#[kani::proof]
#[kani::unwind(14)] // others_default: 12 ids; 2u64.pow(62): 6
fn vq_c14_tp_block_two_initial_max_stream_data_bidi_local_40_initial_max_stream_data_bidi_local_40() {
    // obligations (asserted in block_duplicate): "C14/oracle.encoder/first_value_byte_is_the_declared_constant" "C14/decode_parameters/duplicate_parameter_rejected" "C14/decode_parameters/duplicate_parameter_rejected_from_server"
    block_duplicate::<0x05, 0x40, 0x40>();
}

//@ harness props=C14 tier=thorough level=bounded timeout=900 bound="2 parameters per block; ids, varint lengths and first value bytes (0x40, 0x40) concrete, remaining value bytes symbolic"
//@ fn TransportParameters::decode_parameters
#[kani::proof]
#[kani::unwind(14)] // others_default: 12 ids; 2u64.pow(62): 6
fn vq_c14_tp_block_two_initial_max_stream_data_bidi_remote_40_initial_max_stream_data_bidi_remote_40() {
    // obligations (asserted in block_duplicate): "C14/oracle.encoder/first_value_byte_is_the_declared_constant" "C14/decode_parameters/duplicate_parameter_rejected" "C14/decode_parameters/duplicate_parameter_rejected_from_server"
    block_duplicate::<0x06, 0x40, 0x40>();
}

//@ harness props=C14 tier=quick level=bounded timeout=300 bound="3 parameters per block: ack_delay_exponent encoding its RFC default (3), disable_active_migration, ack_delay_exponent again (first value byte 0x05, rest symbolic)"
//@ fn TransportParameters::decode_parameters
#[kani::proof]
#[kani::unwind(14)]
fn vq_c14_tp_block_duplicate_default_first_ack_delay_exponent() {
    // obligations (asserted in block_duplicate_default_first): "C14/oracle.encoder/first_value_byte_is_the_declared_constant" "C14/decode_parameters/duplicate_after_explicit_default_rejected" "C14/decode_parameters/duplicate_after_explicit_default_rejected_from_server"
    block_duplicate_default_first::<0x0a, 0x03, 0x05>();
}

//@ harness props=C14 tier=quick level=bounded timeout=300 bound="3 parameters per block: initial_max_data encoding its RFC default (0), disable_active_migration, initial_max_data again (first value byte 0x43, rest symbolic)"
//@ fn TransportParameters::decode_parameters
#[kani::proof]
#[kani::unwind(14)]
fn vq_c14_tp_block_duplicate_default_first_initial_max_data() {
    // obligations (asserted in block_duplicate_default_first): "C14/oracle.encoder/first_value_byte_is_the_declared_constant" "C14/decode_parameters/duplicate_after_explicit_default_rejected" "C14/decode_parameters/duplicate_after_explicit_default_rejected_from_server"
    block_duplicate_default_first::<0x04, 0x00, 0x43>();
}

//@ harness props=C14 tier=thorough level=bounded timeout=900 bound="3 parameters per block: active_connection_id_limit encoding its RFC default (2), disable_active_migration, active_connection_id_limit again (first value byte 0x02, rest symbolic)"
//@ fn TransportParameters::decode_parameters
#[kani::proof]
#[kani::unwind(14)]
fn vq_c14_tp_block_duplicate_default_first_active_connection_id_limit() {
    // obligations (asserted in block_duplicate_default_first): "C14/oracle.encoder/first_value_byte_is_the_declared_constant" "C14/decode_parameters/duplicate_after_explicit_default_rejected" "C14/decode_parameters/duplicate_after_explicit_default_rejected_from_server"
    block_duplicate_default_first::<0x0e, 0x02, 0x02>();
}

//@ harness props=C14 tier=thorough level=bounded timeout=900 bound="3 parameters per block: max_udp_payload_size encoding its RFC default (65527), disable_active_migration, max_udp_payload_size again (first value byte 0x45, rest symbolic)"
//@ fn TransportParameters::decode_parameters
#[kani::proof]
#[kani::unwind(14)]
fn vq_c14_tp_block_duplicate_default_first_max_udp_payload_size() {
    // obligations (asserted in block_duplicate_default_first): "C14/oracle.encoder/first_value_byte_is_the_declared_constant" "C14/decode_parameters/duplicate_after_explicit_default_rejected" "C14/decode_parameters/duplicate_after_explicit_default_rejected_from_server"
    block_duplicate_default_first::<0x03, 0x80, 0x45>();
}

//@ harness props=C14 tier=thorough level=bounded timeout=900 bound="3 parameters per block: max_ack_delay encoding its RFC default (25), disable_active_migration, max_ack_delay again (first value byte 0x40, rest symbolic)"
//@ fn TransportParameters::decode_parameters
#[kani::proof]
#[kani::unwind(14)]
fn vq_c14_tp_block_duplicate_default_first_max_ack_delay() {
    // obligations (asserted in block_duplicate_default_first): "C14/oracle.encoder/first_value_byte_is_the_declared_constant" "C14/decode_parameters/duplicate_after_explicit_default_rejected" "C14/decode_parameters/duplicate_after_explicit_default_rejected_from_server"
    block_duplicate_default_first::<0x0b, 0x19, 0x40>();
}

//@ harness props=C14 tier=thorough level=bounded timeout=900 bound="3 parameters per block: initial_max_streams_bidi encoding its RFC default (0), disable_active_migration, initial_max_streams_bidi again (first value byte 0x40, rest symbolic)"
//@ fn TransportParameters::decode_parameters
#[kani::proof]
#[kani::unwind(14)]
fn vq_c14_tp_block_duplicate_default_first_initial_max_streams_bidi() {
    // obligations (asserted in block_duplicate_default_first): "C14/oracle.encoder/first_value_byte_is_the_declared_constant" "C14/decode_parameters/duplicate_after_explicit_default_rejected" "C14/decode_parameters/duplicate_after_explicit_default_rejected_from_server"
    block_duplicate_default_first::<0x08, 0x00, 0x40>();
}

//@ harness props=C14 tier=thorough level=bounded timeout=900 bound="3 parameters per block: max_idle_timeout encoding its RFC default (0), disable_active_migration, max_idle_timeout again (first value byte 0x80, rest symbolic)"
//@ fn TransportParameters::decode_parameters
#[kani::proof]
#[kani::unwind(14)]
fn vq_c14_tp_block_duplicate_default_first_max_idle_timeout() {
    // obligations (asserted in block_duplicate_default_first): "C14/oracle.encoder/first_value_byte_is_the_declared_constant" "C14/decode_parameters/duplicate_after_explicit_default_rejected" "C14/decode_parameters/duplicate_after_explicit_default_rejected_from_server"
    block_duplicate_default_first::<0x01, 0x00, 0x80>();
}

//@ harness props=C14 tier=quick level=bounded timeout=300 bound="empty block"
//@ fn TransportParameters::decode_parameters
//@ fn TransportParameters::default
#[kani::proof]
#[kani::unwind(14)]
fn vq_c14_tp_block_empty() {
    // every parameter absent: the limits are the RFC defaults, for both roles
    let buf = [0u8; 1];
    let rc = ClientTransportParameters::decode_parameters(DecoderBuffer::new(&buf[..0]));
    let rs = ServerTransportParameters::decode_parameters(DecoderBuffer::new(&buf[..0]));
    assert!(rc.is_ok() && rs.is_ok(), "C14/decode_parameters/empty_block_accepted");
    if let Ok(p) = rc {
        assert!(others_default(&p, u64::MAX, u64::MAX), "C14/decode_parameters/empty_block_all_rfc_defaults");
        assert!(
            p.max_udp_payload_size.0.as_u64() == 65527 && p.ack_delay_exponent.0 == 3 && p.max_ack_delay.0.as_u64() == 25
                && p.active_connection_id_limit.0.as_u64() == 2 && p.initial_max_data.0.as_u64() == 0
                && p.initial_max_streams_bidi.0.as_u64() == 0 && p.max_idle_timeout.0.as_u64() == 0,
            "C14/decode_parameters/empty_block_literal_rfc_defaults"
        );
    }
    if let Ok(p) = rs {
        assert!(
            others_default(&p, u64::MAX, u64::MAX) && p.original_destination_connection_id.is_none()
                && p.stateless_reset_token.is_none() && p.preferred_address.is_none() && p.retry_source_connection_id.is_none(),
            "C14/decode_parameters/empty_server_block_all_defaults_optional_absent"
        );
    }
    kani::cover!(true, "reach:end");
}

// 18.2: "A client MUST NOT include any server-only transport parameter: original_destination_connection_id,
// preferred_address, retry_source_connection_id, or stateless_reset_token.  A server MUST treat receipt of any of
// these transport parameters as a connection error of type TRANSPORT_PARAMETER_ERROR."  (ClientTransportParameters
// is what a server decodes.)  One harness per parameter, each with a well-formed body of symbolic bytes.

//@ harness props=C14 tier=quick level=bounded timeout=300 bound="block of exactly one stateless_reset_token parameter (16 or 15 body bytes, symbolic)"
//@ fn TransportParameters::decode_parameters
//@ fn DisabledParameter::ENABLED
#[kani::proof]
#[kani::unwind(18)]
fn vq_c14_tp_block_server_only_stateless_reset_token() {
    let body: [u8; 16] = kani::any();
    let mut b2 = [0u8; 18];
    b2[0] = 0x02;
    b2[1] = 16;
    let mut i = 0;
    while i < 16 {
        b2[2 + i] = body[i];
        i += 1;
    }
    assert!(ClientTransportParameters::decode_parameters(DecoderBuffer::new(&b2[..])).is_err(), "C14/decode_parameters/client_stateless_reset_token_rejected");
    let s2 = ServerTransportParameters::decode_parameters(DecoderBuffer::new(&b2[..]));
    assert!(matches!(s2, Ok(p) if matches!(p.stateless_reset_token, Some(t) if t.into_inner() == body) && others_default(&p, u64::MAX, u64::MAX)), "C14/decode_parameters/server_stateless_reset_token_accepted");
    // a token that is not "a sequence of 16 bytes"
    b2[1] = 15;
    assert!(ServerTransportParameters::decode_parameters(DecoderBuffer::new(&b2[..17])).is_err(), "C14/decode_parameters/server_stateless_reset_token_of_15_bytes_rejected");
    // the role check does not depend on the body: an (ill-formed) empty body of any server-only parameter is
    // rejected from a client as well
    let e0 = [0x00u8, 0];
    let e2 = [0x02u8, 0];
    let e13 = [0x0du8, 0];
    let e16 = [0x10u8, 0];
    assert!(
        ClientTransportParameters::decode_parameters(DecoderBuffer::new(&e0[..])).is_err()
            && ClientTransportParameters::decode_parameters(DecoderBuffer::new(&e2[..])).is_err()
            && ClientTransportParameters::decode_parameters(DecoderBuffer::new(&e13[..])).is_err()
            && ClientTransportParameters::decode_parameters(DecoderBuffer::new(&e16[..])).is_err(),
        "C14/decode_parameters/client_server_only_parameter_with_empty_body_rejected"
    );
    kani::cover!(body[0] != 0 && body[15] != 0, "reach:nonzero_body");
    kani::cover!(true, "reach:end");
}

//@ harness props=C14 tier=thorough level=bounded timeout=900 bound="blocks of exactly one server-only parameter with a well-formed body (8-byte odcid, 4-byte retry scid, 45-byte preferred address with 4-byte cid); body bytes symbolic; client role only"
//@ fn TransportParameters::decode_parameters
//@ fn DisabledParameter::ENABLED
#[kani::proof]
#[kani::unwind(14)]
fn vq_c14_tp_block_server_only_from_client_wellformed() {
    // NOT achieved: the *server-role* acceptance of these three parameters through decode_parameters
    // (ServerTransportParameters, value == body).  Three harnesses of this shape (one parameter each) ran into
    // the 900 s timeout: after the connection-id / preferred-address value is decoded CBMC no longer treats the
    // remaining buffer as empty and explores a second, nondeterministic pass of the 20-arm block loop (seen in the
    // loop log); a per-loop unwind bound would cut it but cannot be expressed in a harness attribute.  The
    // validators of these types are covered by vq_c14_tp_validate_optional_wrappers / _preferred_address, the
    // server-role decode of stateless_reset_token by vq_c14_tp_block_server_only_stateless_reset_token.
    let body: [u8; 10] = kani::any();
    let b0 = [0x00u8, 8, body[0], body[1], body[2], body[3], body[4], body[5], body[6], body[7]];
    assert!(ClientTransportParameters::decode_parameters(DecoderBuffer::new(&b0[..])).is_err(), "C14/decode_parameters/client_original_destination_connection_id_rejected");
    let b16 = [0x10u8, 4, body[0], body[1], body[2], body[3]];
    assert!(ClientTransportParameters::decode_parameters(DecoderBuffer::new(&b16[..])).is_err(), "C14/decode_parameters/client_retry_source_connection_id_rejected");
    let mut b13 = [0u8; 47];
    b13[0] = 0x0d;
    b13[1] = 45;
    b13[2] = body[0] | 1; // a specified IPv4 address
    b13[3] = body[1];
    b13[6] = body[4];
    b13[7] = body[5];
    b13[2 + 24] = 4;
    b13[2 + 25] = body[6];
    b13[2 + 29] = body[7];
    assert!(ClientTransportParameters::decode_parameters(DecoderBuffer::new(&b13[..])).is_err(), "C14/decode_parameters/client_preferred_address_rejected");
    kani::cover!(body[0] != 0, "reach:nonzero_body");
    kani::cover!(true, "reach:end");
}

//@ harness props=C14 tier=quick level=bounded timeout=300 bound="2 parameters per block: one reserved (31*N+27) id 89 (two-byte varint id) with a 4-byte symbolic body, then active_connection_id_limit with a two-byte value encoding (first byte 0x40)"
//@ fn TransportParameters::decode_parameters
#[kani::proof]
#[kani::unwind(14)]
fn vq_c14_tp_block_unknown_parameter_ignored() {
    // 7.4.2: "An endpoint MUST ignore transport parameters that it does not support."  18.1: ids of the form
    // 31 * N + 27 are reserved to exercise this.
    let grease: u64 = 31 * 2 + 27;
    assert!(tp_is_reserved_grease(grease), "C14/oracle.table/grease_id_is_reserved");
    let body: [u8; 4] = kani::any();
    let (x, xl) = any_value_with_first_byte::<0x40>();
    let mut a = [0u8; 16];
    let n1 = tp_put_raw_param(&mut a, 0, grease, body, 4);
    let n2 = tp_put_int_param(&mut a, n1, 0x0e, x, xl);
    pin_first_value_byte::<0x40, 16>(&mut a, n1 + n2 - xl);
    let ra = ClientTransportParameters::decode_parameters(DecoderBuffer::new(&a[..n1 + n2]));
    kani::cover!(ra.is_ok() && x == 255, "reach:accepted");
    kani::cover!(ra.is_err(), "reach:invalid_known_value_still_rejected");
    assert!(ra.is_ok() == tp_int_valid(TP_ACTIVE_CONNECTION_ID_LIMIT, x), "C14/decode_parameters/unknown_parameter_does_not_change_acceptance");
    if let Ok(p) = ra {
        assert!(p.active_connection_id_limit.0.as_u64() == x && others_default(&p, 0x0e, 0x0e), "C14/decode_parameters/unknown_parameter_skipped_known_applied");
    }
}

//@ harness props=C14 tier=thorough level=bounded timeout=900 bound="2 parameters per block: active_connection_id_limit (two-byte value encoding, first byte 0x40) then reserved id 89 with empty body; reserved id twice (4-byte and empty body); reserved id with truncated body"
//@ fn TransportParameters::decode_parameters
#[kani::proof]
#[kani::unwind(14)]
fn vq_c14_tp_block_unknown_parameter_trailing_repeated_truncated() {
    let grease: u64 = 31 * 2 + 27;
    let body: [u8; 4] = kani::any();
    let (x, xl) = any_value_with_first_byte::<0x40>();
    // known first, then unknown with an empty body
    let mut b = [0u8; 16];
    let m1 = tp_put_int_param(&mut b, 0, 0x0e, x, xl);
    pin_first_value_byte::<0x40, 16>(&mut b, m1 - xl);
    let m2 = tp_put_raw_param(&mut b, m1, grease, body, 0);
    let rb = ServerTransportParameters::decode_parameters(DecoderBuffer::new(&b[..m1 + m2]));
    // the same unknown parameter twice is not a "duplicate" the endpoint knows about: ignored twice
    let mut c = [0u8; 16];
    let k1 = tp_put_raw_param(&mut c, 0, grease, body, 4);
    let k2 = tp_put_raw_param(&mut c, k1, grease, body, 0);
    let rcc = ClientTransportParameters::decode_parameters(DecoderBuffer::new(&c[..k1 + k2]));
    kani::cover!(rb.is_ok(), "reach:accepted");
    assert!(rb.is_ok() == tp_int_valid(TP_ACTIVE_CONNECTION_ID_LIMIT, x), "C14/decode_parameters/trailing_unknown_parameter_does_not_change_acceptance");
    if let Ok(p) = rb {
        assert!(p.active_connection_id_limit.0.as_u64() == x && others_default(&p, 0x0e, 0x0e), "C14/decode_parameters/trailing_unknown_parameter_skipped_known_applied");
    }
    assert!(matches!(rcc, Ok(p) if others_default(&p, u64::MAX, u64::MAX)), "C14/decode_parameters/repeated_unknown_parameter_ignored");
    // an unknown parameter whose length field overruns the block is a malformed block
    let mut d = [0u8; 16];
    let _ = tp_put_raw_param(&mut d, 0, grease, body, 4);
    assert!(ClientTransportParameters::decode_parameters(DecoderBuffer::new(&d[..5])).is_err(), "C14/decode_parameters/truncated_unknown_parameter_rejected");
}

//@ harness props=C14 tier=quick level=bounded timeout=300 bound="1 parameter per block: ack_delay_exponent encoded as a variable-length integer of 1, 2, 4 and 8 bytes; value symbolic"
//@ fn TransportParameters::decode_parameters
//@ fn AckDelayExponent::validate
#[kani::proof]
#[kani::unwind(14)]
fn vq_c14_tp_block_ack_delay_exponent_encoding() {
    // 18.2: "Those transport parameters that are identified as integers use a variable-length integer encoding;
    // see Section 16" and 16: "Values do not need to be encoded on the minimum number of bytes necessary" --
    // ack_delay_exponent is "an integer value": acceptance must depend on the value, not on the encoding length.
    // The code decodes the value as ONE raw byte (u8 codec).
    let x: u64 = kani::any();
    kani::assume(x <= 63);
    let mut b1 = [0u8; 24];
    let n1 = tp_put_int_param(&mut b1, 0, 0x0a, x, 1);
    let r1 = ClientTransportParameters::decode_parameters(DecoderBuffer::new(&b1[..n1]));
    let mut b2 = [0u8; 24];
    let n2 = tp_put_int_param(&mut b2, 0, 0x0a, x, 2);
    let r2 = ClientTransportParameters::decode_parameters(DecoderBuffer::new(&b2[..n2]));
    let mut b8 = [0u8; 24];
    let n8 = tp_put_int_param(&mut b8, 0, 0x0a, x, 8);
    let r8 = ClientTransportParameters::decode_parameters(DecoderBuffer::new(&b8[..n8]));
    kani::cover!(r1.is_ok() && x == 20, "reach:one_byte_accepted");
    kani::cover!(r2.is_ok(), "reach:two_bytes_accepted");
    kani::cover!(true, "reach:end");
    // residual: the shortest encoding (what every known implementation sends)
    assert!(r1.is_ok() == tp_int_valid(TP_ACK_DELAY_EXPONENT, x), "C14/decode_parameters/ack_delay_exponent_accepted_iff_valid#outside-known");
    assert!(!matches!(r1, Ok(p) if p.ack_delay_exponent.0 as u64 != x), "C14/decode_parameters/ack_delay_exponent_value_applied#outside-known");
    // invalid values are rejected whatever the encoding
    assert!(tp_int_valid(TP_ACK_DELAY_EXPONENT, x) || (r2.is_err() && r8.is_err()), "C14/decode_parameters/ack_delay_exponent_invalid_value_rejected_in_any_encoding");
    // strict: longer encodings of a valid value are accepted too
    assert!(r2.is_ok() == tp_int_valid(TP_ACK_DELAY_EXPONENT, x) && r8.is_ok() == tp_int_valid(TP_ACK_DELAY_EXPONENT, x), "C14/decode_parameters/ack_delay_exponent_accepted_iff_valid");
}

//@ harness props=C14 tier=quick level=bounded timeout=300 bound="struct with 3 non-default parameters (ack_delay_exponent one byte, max_ack_delay in the two-byte varint class, active_connection_id_limit in the one-byte class); values symbolic within their class"
//@ fn TransportParameters::encode
//@ fn TransportParameterCodec::encode
#[kani::proof]
#[kani::unwind(26)] // memcmp over the 24 output bytes
fn vq_c14_tp_block_encode() {
    // Figure 20/21: the block is the concatenation of (id, length, value) tuples; a parameter equal to its default
    // is omitted (permitted: the peer assumes the default).  Oracle bytes: independent encoder of _rfc9000_tp.rs,
    // parameters in the order of the struct's declaration.
    let e: u8 = kani::any();
    let d: u64 = kani::any();
    let l: u64 = kani::any();
    kani::assume(e <= 20 && e != 3);
    kani::assume(d >= 64 && d <= 16383);
    kani::assume(l >= 3 && l <= 63);
    let mut p = ClientTransportParameters::default();
    p.ack_delay_exponent = AckDelayExponent(e);
    p.max_ack_delay = MaxAckDelay(v(d));
    p.active_connection_id_limit = ActiveConnectionIdLimit(v(l));
    let mut out = [0u8; 24];
    let written = {
        let mut enc = s2n_codec::EncoderBuffer::new(&mut out);
        enc.encode(&p);
        enc.len()
    };
    let mut want = [0u8; 24];
    let a = tp_put_int_param(&mut want, 0, 0x0a, e as u64, 1);
    let b = tp_put_int_param(&mut want, a, 0x0b, d, 2);
    let c = tp_put_int_param(&mut want, a + b, 0x0e, l, 1);
    assert!(written == a + b + c, "C14/parameters.encode/length_is_sum_of_tuples");
    assert!(out == want, "C14/parameters.encode/bytes_are_rfc_tuples");
    // all-default struct: nothing on the wire
    let mut out0 = [0u8; 8];
    let n0 = {
        let mut enc = s2n_codec::EncoderBuffer::new(&mut out0);
        enc.encode(&ClientTransportParameters::default());
        enc.len()
    };
    assert!(n0 == 0, "C14/parameters.encode/defaults_are_omitted");
    kani::cover!(d == 16383 && e == 20 && l == 63, "reach:upper_values");
    kani::cover!(true, "reach:end");
}

//@ harness props=C14,C05 tier=quick level=bounded timeout=300 bound="preferred_address with a 4-byte connection id, IPv6 only (IPv4 address and port all-zero); all address, port, cid and token bytes symbolic"
//@ fn PreferredAddress::encode
//@ fn PreferredAddress::decode
//@ fn TransportParameterCodec::encode
#[kani::proof]
#[kani::unwind(20)] // write_repeated over the 18 bytes of an absent IPv6 family; 16-byte loops / memcmp chunks
fn vq_c14_tp_preferred_address_encode_ipv6_only() {
    // obligations (asserted in preferred_address_encode_case): "C14/preferred_address.encode/length_is_figure_22" "C14/preferred_address.encode/bytes_are_figure_22" "C14/preferred_address.encode/tuple_is_id_length_value" "C14/preferred_address.encode/decodes_to_the_same_value"
    preferred_address_encode_case::<false, true>();
}

//@ harness props=C14,C05 tier=thorough level=bounded timeout=900 bound="preferred_address with a 4-byte connection id, IPv4 only (IPv6 address and port all-zero); all address, port, cid and token bytes symbolic"
//@ fn PreferredAddress::encode
//@ fn PreferredAddress::decode
//@ fn TransportParameterCodec::encode
#[kani::proof]
#[kani::unwind(20)] // write_repeated over the 18 bytes of an absent IPv6 family; 16-byte loops / memcmp chunks
fn vq_c14_tp_preferred_address_encode_ipv4_only() {
    // obligations (asserted in preferred_address_encode_case): "C14/preferred_address.encode/length_is_figure_22" "C14/preferred_address.encode/bytes_are_figure_22" "C14/preferred_address.encode/tuple_is_id_length_value" "C14/preferred_address.encode/decodes_to_the_same_value"
    preferred_address_encode_case::<true, false>();
}

//@ harness props=C14,C05 tier=thorough level=bounded timeout=900 bound="preferred_address with a 4-byte connection id, both address families; all address, port, cid and token bytes symbolic"
//@ fn PreferredAddress::encode
//@ fn PreferredAddress::decode
//@ fn TransportParameterCodec::encode
#[kani::proof]
#[kani::unwind(20)] // write_repeated over the 18 bytes of an absent IPv6 family; 16-byte loops / memcmp chunks
fn vq_c14_tp_preferred_address_encode_both_families() {
    // obligations (asserted in preferred_address_encode_case): "C14/preferred_address.encode/length_is_figure_22" "C14/preferred_address.encode/bytes_are_figure_22" "C14/preferred_address.encode/tuple_is_id_length_value" "C14/preferred_address.encode/decodes_to_the_same_value"
    preferred_address_encode_case::<true, true>();
}

