//@ inject crate=core src=quic/s2n-quic-core/src/buffer/reassembler/slot.rs
// MODULAR contract harnesses for `Reassembler` (properties C16 and C01, receiver side).
//
// Why modular: every monolithic Reassembler harness (real `Slot`s over real `BytesMut`s) timed out (DESIGN §7).
// Here the *real* Reassembler code (write_at / write_at_fin / write_reader* / unsplit_range / skip / pop_watermarked /
// read_chunk / report / total_received_len / len / is_empty ...) runs against `Slot` methods that are replaced by
// `#[kani::stub]`s; `Reassembler::allocate_slot` is replaced by its own contract (asserted on the real function in
// c16_reassembler.rs) and the crate's debug check `Reassembler::invariants()` by a no-op in the mutating harnesses
// (what it asserts is implied by `rep_inv` + the observer obligations, which are asserted instead).  Each stub
//   * ASSERTS the callee's precondition (caller checked against callee contract: obligations `C01/reassembler.calls.*`),
//   * havocs the slot view and ASSUMES exactly the `slot_*` predicates of contracts/spec/reassembly.rs, i.e. the text
//     that contracts/kani/core/c16_slot.rs asserts about the real `Slot` methods.
// The Reassembler cannot see `Slot`'s fields (they are private to this module), so it can only observe a slot through
// the contracted methods; under the stubs the abstract slot view (start, len, end_alloc, allocation id) is kept in the
// two integer fields (`start` = start; `end` = packed (capacity, len, allocation id)) and `data` stays empty.
// Byte contents: one symbolic witness offset W (global), `W_VAL` = "the byte buffered for stream offset W"; the write
// stub stores the request's byte there exactly when the Slot content contract says the slot stores it, the pop stubs
// record the identity of the buffer they hand out together with its byte for W (ghost), and the harness checks that the
// chunk returned to the application is that very buffer.  Since W is arbitrary this is the map `recv: offset -> byte`.
//
// This file is injected into slot.rs (not reassembler.rs) because the stubs must touch `Slot`'s private fields; a child
// of `slot` also sees the private items of its ancestor `reassembler`.
//
// ---- RECORD: the write path (write_at / write_at_fin) is NOT discharged ------------------------------------------------
// Harnesses vq_c01_reassembler_write_k{0,1,2} (now in probes/kani_c01_reassembler_write_modular.rs, NOT registered)
// state the contract; none of them finished.  What was tried
// (Kani 0.68 / CBMC 6.11, 12 GB cap, machine shared by 8 jobs, load average 35-50):
//   1. all Slot methods stubbed, real allocate_slot (real BytesMut::with_capacity(4096..65536)), unwind 8, K=0:
//      21 min, 3.8 GB, still in symbolic execution (killed).
//   2. + allocate_slot replaced by its contract stub, + Reassembler::invariants() stubbed, drop glue skipped
//      (mem::forget), K=0, unwind 8: > 25 min in symbolic execution (Reader::skip_until unwound 77 times,
//      write_reader_with_alloc 7 times).
//   3. same with unwind 4: > 20 min in symbolic execution.
//   4. diagnostic with Reassembler::insert replaced by push_back (wrong on purpose, to see whether VecDeque::insert
//      with a symbolic index is the bottleneck): after 13 min symbolic execution had reached unsplit_range, i.e. it
//      progressed further but still did not finish in 15 min.
//   Where the time goes: symbolic execution, not SAT.  write_reader_at and write_reader_with_alloc are nested loops
//   whose exit conditions depend on the symbolic reader, so CBMC unwinds both to the bound; every body moves 48-byte
//   `Slot`s into / inside the VecDeque at symbolic positions (push_front, insert, remove), and every later access
//   has to see through the accumulated byte-level updates of the queue buffer.  Per-loop unwind bounds
//   (--unwindset, not available through the harness attributes of this driver) would remove a factor 4-16 but not
//   the cost per step.  The principled continuation is to give write_reader_with_alloc / write_reader_at /
//   unsplit_range contracts of their own (loop-invariant style) and stub them in their callers; that was outside
//   the effort limit.
//   5. (idle machine, load 5-8, 16 GB cap, one harness at a time) K=0, ONE write of <= 2 bytes, every Slot method and
//      allocate_slot stubbed, invariants() stubbed, snapshot-based obligations, unwind 4
//      (vq_c01_reassembler_write_k0_l2 in the probe file): stopped after 61 min of CBMC time at 6.7 GB without a result
//      (memory grew steadily 1.8 -> 3.8 -> 4.8 -> 5.6 -> 6.4 -> 6.7 GB at 2/10/27/36/54/61 min).
// What IS discharged in modular form: allocate_slot (real code, full domain), pop_watermarked / pop (K <= 2),
// skip (K <= 1; K = 2 exceeds 12 GB), all observers (K <= 2), each against rep_inv.
//
// One-step inductive pattern (DESIGN 2.3): arbitrary Reassembler satisfying the representation invariant `rep_inv`
// with exactly n slots (one harness per n), ONE operation with symbolic arguments, then: result/ error code as
// specified, cursors as specified, recv' as specified (witness), rep_inv re-established.  level=bounded K=n, L=8.
use super::*;
use crate::buffer::{
    reader::{storage::Chunk, Storage as _},
    reassembler::{Cursors, Reassembler, UNKNOWN_FINAL_SIZE},
    Error,
};
use alloc::collections::VecDeque;
#[allow(dead_code, unused_variables)]
mod spec {
    include!("../../spec/reassembly.rs");
}
use spec::*;

const MAXV: u64 = crate::varint::MAX_VARINT_VALUE;

// ---- stub-world representation of a slot ---------------------------------------------------------------------------
const F_BITS: u32 = 20;
const F_MASK: u64 = (1 << F_BITS) - 1;

fn pack(cap: u64, len: u64, org: u64) -> u64 {
    cap | (len << F_BITS) | (org << (2 * F_BITS))
}
fn g_cap(s: &Slot) -> u64 {
    s.end & F_MASK
}
fn g_len(s: &Slot) -> u64 {
    (s.end >> F_BITS) & F_MASK
}
/// ghost allocation id ("which BytesMut allocation backs this slot"); two slots are adjacent in memory iff they
/// are adjacent in offsets and have the same allocation id (proved for the real split in c16_slot.rs:
/// `halves_adjacent_in_memory`)
fn g_org(s: &Slot) -> u64 {
    s.end >> (2 * F_BITS)
}
fn gview(s: &Slot) -> SlotV {
    SlotV { start: s.start as i128, len: g_len(s) as i128, end_alloc: s.start as i128 + g_cap(s) as i128 }
}
fn mk_slot(v: SlotV, org: u64) -> Slot {
    Slot { start: v.start as u64, end: pack((v.end_alloc - v.start) as u64, v.len as u64, org), data: BytesMut::new() }
}
fn set_view(s: &mut Slot, v: SlotV) {
    let org = g_org(s);
    s.start = v.start as u64;
    s.end = pack((v.end_alloc - v.start) as u64, v.len as u64, org);
}
fn any_view() -> SlotV {
    let a: u64 = kani::any();
    let b: u64 = kani::any();
    let c: u64 = kani::any();
    SlotV { start: a as i128, len: b as i128, end_alloc: c as i128 }
}

// ---- ghost state ----------------------------------------------------------------------------------------------------
static mut W_OFF: u64 = 0; // witness stream offset (set once by the harness)
static mut W_VAL: u8 = 0; // byte buffered for W_OFF (meaningful iff some slot holds W_OFF)
/// memory of the chunk the pop stub handed out last (the harness reads the chunk's bytes through this alias: the
/// `Option<BytesMut>` returned by `pop_watermarked` is a merge of several return sites and dereferencing its
/// pointer field makes CBMC consider every object)
static mut POP_PTR: *const u8 = core::ptr::null();
static mut POP_START: i128 = 0;
static mut POP_LEN: i128 = 0;
static mut POP_W: Option<u8> = None;

fn w_off() -> u64 {
    unsafe { W_OFF }
}
fn w_val() -> u8 {
    unsafe { W_VAL }
}

// ---- the stubs ---------------------------------------------------------------------------------------------------------
// (the stubs of the write path -- Slot::new, Slot::try_write_reader, Slot::unsplit, Reassembler::allocate_slot -- live in
// probes/kani_c01_reassembler_write_modular.rs together with the write harnesses that did not finish)
fn st_skip(s: &mut Slot, len: u64) {
    let old = gview(s);
    let t = old.start + len as i128;
    assert!(slot_skip_until_pre(old, t) && len <= 1 << 16, "C01/reassembler.calls.slot_skip/pre_target_within_allocation");
    let new = any_view();
    kani::assume(slot_skip_until_post(old, t, new));
    set_view(s, new);
}

/// The chunk a pop hands out: n bytes starting at stream offset `start`.  By the Slot contract (c16_slot.rs,
/// `chunk_is_prefix_of_filled_bytes`) its contents are the slot's first n filled bytes, i.e. its byte for the witness
/// offset W is W_VAL.  The stub records the buffer's identity and that byte in ghost variables; the harness checks that
/// the chunk returned to the application IS this buffer (same memory, same length), untouched.
/// (Materialising the byte inside the 64 KiB buffer and reading it back costs CBMC > 10 GB.)
fn mk_chunk(start: i128, n: i128) -> BytesMut {
    // concrete capacity on purpose: `BytesMut` keeps a tag derived from the capacity in the low bits of a pointer
    // field; a symbolic capacity makes that pointer symbolic and CBMC's encoding explodes (15 M variables)
    let mut c = BytesMut::with_capacity(1 << 16);
    unsafe { c.set_len(n as usize) }; // n <= 2^16 by slot_inv
    let w = w_off() as i128;
    unsafe {
        POP_PTR = c.as_ptr();
        POP_START = start;
        POP_LEN = n;
        POP_W = if start <= w && w < start + n { Some(w_val()) } else { None };
    }
    c
}

fn st_consume(s: &mut Slot) -> BytesMut {
    let old = gview(s);
    let chunk = mk_chunk(old.start, old.len);
    let new = any_view();
    kani::assume(slot_consume_post(old, new, old.len));
    set_view(s, new);
    chunk
}

fn st_read_chunk(s: &mut Slot, watermark: usize) -> Result<Chunk<'_>, core::convert::Infallible> {
    let old = gview(s);
    let n = ra_min(old.len, watermark as i128);
    let chunk = mk_chunk(old.start, n);
    let new = any_view();
    kani::assume(slot_read_chunk_post(old, watermark as i128, new, n));
    set_view(s, new);
    Ok(chunk.into())
}

/// the crate's own debug check `Reassembler::invariants()` iterates five times over the slot queue; what it asserts
/// is implied by `rep_inv` (clauses [1], [2], [6]) and the observer obligations (vq_c01_reassembler_observers_*),
/// which are asserted after every operation instead
fn st_invariants(_r: &Reassembler) {}

fn st_buffered_len(s: &Slot) -> usize {
    g_len(s) as usize
}
fn st_end(s: &Slot) -> u64 {
    s.start + g_len(s)
}
fn st_end_allocated(s: &Slot) -> u64 {
    s.start + g_cap(s)
}
fn st_is_empty(s: &Slot) -> bool {
    g_len(s) == 0
}
static ZEROS: [u8; 1 << 16] = [0; 1 << 16];
fn st_as_slice(s: &Slot) -> &[u8] {
    // only the LENGTH of the slice is observed by the Reassembler (report(): `chunk.len()`); contents are handed out
    // through the pop stubs
    &ZEROS[..g_len(s) as usize]
}

// ---- Reassembler: abstraction and representation invariant -----------------------------------------------------------------
fn cur(r: &Reassembler) -> CurV {
    let c = r.cursors;
    CurV {
        start: c.start_offset as i128,
        max_recv: c.max_recv_offset as i128,
        fin: if c.final_offset == UNKNOWN_FINAL_SIZE { -1 } else { c.final_offset as i128 },
    }
}

/// `ra_block_start` / `ra_alloc_size` of the spec file computed with a bit mask instead of a 128-bit division
/// (equality with the spec functions is obligation `C16/spec.block_start/mask_form_eq_spec` below)
fn asz(o: i128) -> i128 {
    ra_alloc_size(o)
}
fn blk(o: i128) -> i128 {
    let a = asz(o) as u64;
    ((o as u64) & !(a - 1)) as i128
}
fn same_block(a: i128, b: i128) -> bool {
    blk(a) == blk(b)
}

//@ harness props=C16,C01 tier=quick level=full timeout=240 ignore_checks=dealloc
#[kani::proof]
#[kani::unwind(2)]
fn vq_c01_spec_block_start_mask_form() {
    let o: u64 = kani::any();
    kani::assume(o <= MAXV + (1 << 16));
    assert!(blk(o as i128) == ra_block_start(o as i128), "C16/spec.block_start/mask_form_eq_spec");
    kani::cover!(o == 1048576 + 65535, "reach:last_byte_of_a_64k_block");
    kani::cover!(o == MAXV, "reach:max_stream_offset");
}

/// the model's bound on the queue length after one operation (asserted: `queue_length_within_model_bound`)
const MAXS: usize = 6;

/// Integer snapshot of the slot queue, taken with ONE pass over the `VecDeque` (after an operation its head/len are
/// symbolic and every indexed access is expensive for CBMC; all obligations are evaluated on the snapshot).
#[derive(Clone, Copy)]
struct Snap {
    n: usize,
    v: [SlotV; MAXS],
    org: [u64; MAXS],
}

fn snap(r: &Reassembler) -> Snap {
    let z = SlotV { start: 0, len: 0, end_alloc: 0 };
    let mut s = Snap { n: r.slots.len(), v: [z; MAXS], org: [0; MAXS] };
    let mut take = |i: usize| {
        if let Some(sl) = r.slots.get(i) {
            s.v[i] = gview(sl);
            s.org[i] = g_org(sl);
        }
    };
    take(0);
    take(1);
    take(2);
    take(3);
    take(4);
    take(5);
    s
}

/// does the buffer hold a byte for stream offset w  (w in dom(recv))
fn has(s: &Snap, w: u64) -> bool {
    let w = w as i128;
    let at = |i: usize| i < s.n && s.v[i].start <= w && w < slot_end(s.v[i]);
    at(0) || at(1) || at(2) || at(3) || at(4) || at(5)
}

/// Representation invariant of the Reassembler (stronger than the crate's `invariants()`), clause by clause:
///  [0] cursors: start <= max_recv <= 2^62-1, final size (if known) >= max_recv
///  [1] every slot is well formed (slot_inv), non-empty allocation (not should_drop)
///  [2] ordered and disjoint, nothing below the read cursor: slot[0].start >= start, slot[i+1].start >= slot[i].end_alloc
///  [3] every slot lies inside one allocation block (allocation_size / align_offset partition)
///  [4] buffered bytes were received: slot.end() <= max_recv
///  [5] the slots of one block tile it: the first one starts at max(block start, read cursor), consecutive ones are
///      adjacent, the last one ends at the block end or at the final size
///  [6] merged: a full slot is never directly followed by a slot of the same block (crate invariant)
///  [7] slots of one block share their allocation (memory adjacency needed by `unsplit`)
///  [8] only the first slot of a block can be empty
fn rep_inv(c: CurV, s: &Snap) -> [bool; 9] {
    let mut ok = [true; 9];
    ok[0] = cur_inv(c);
    let mut one = |i: usize| {
        if i < s.n {
            let v = s.v[i];
            let b = blk(v.start);
            let a = asz(v.start);
            let prev_end = if i == 0 { c.start } else { s.v[i - 1].end_alloc };
            ok[1] &= slot_inv(v) && v.start < v.end_alloc;
            ok[2] &= v.start >= prev_end;
            ok[3] &= v.end_alloc <= b + a;
            ok[4] &= slot_end(v) <= c.max_recv;
            let first_in_block = i == 0 || !same_block(s.v[i - 1].start, v.start);
            let last_in_block = i + 1 >= s.n || i + 1 >= MAXS || !same_block(s.v[i + 1].start, v.start);
            if first_in_block {
                ok[5] &= v.start == ra_max(b, c.start);
            } else {
                ok[5] &= s.v[i - 1].end_alloc == v.start;
                ok[7] &= s.org[i - 1] == s.org[i];
                ok[8] &= v.len > 0;
            }
            if last_in_block {
                ok[5] &= v.end_alloc == b + a || (cur_fin_known(c) && v.end_alloc == c.fin);
            } else {
                ok[6] &= !slot_is_full(v);
            }
        }
    };
    one(0);
    one(1);
    one(2);
    one(3);
    one(4);
    one(5);
    ok
}

fn all(b: [bool; 9]) -> bool {
    b[0] && b[1] && b[2] && b[3] && b[4] && b[5] && b[6] && b[7] && b[8]
}

/// arbitrary Reassembler with exactly `n` (<= 2) slots satisfying rep_inv
fn any_reassembler(n: usize) -> Reassembler {
    let start: u64 = kani::any();
    let max_recv: u64 = kani::any();
    let fin: u64 = kani::any();
    let fin_known: bool = kani::any();
    let mut slots = VecDeque::with_capacity(8);
    let mut add = |slots: &mut VecDeque<Slot>| {
        let s: u64 = kani::any();
        let len: u64 = kani::any();
        let cap: u64 = kani::any();
        let org: u64 = kani::any();
        kani::assume(s <= MAXV && len <= cap && cap <= 1 << 16 && org < 16);
        slots.push_back(Slot { start: s, end: pack(cap, len, org), data: BytesMut::new() });
    };
    if n >= 1 {
        add(&mut slots);
    }
    if n >= 2 {
        add(&mut slots);
    }
    let r = Reassembler {
        slots,
        cursors: Cursors {
            start_offset: start,
            max_recv_offset: max_recv,
            final_offset: if fin_known { fin } else { UNKNOWN_FINAL_SIZE },
        },
    };
    kani::assume(!fin_known || fin <= MAXV);
    kani::assume(all(rep_inv(cur(&r), &snap(&r))));
    r
}

/// The harness ends without running the drop glue of the queue: after an operation the queue's head/len are symbolic
/// and dropping a symbolic number of `BytesMut`s (tagged-pointer representation) costs CBMC 15 M variables (measured)
/// while the stub-world buffers are all empty anyway.
fn end_of_harness(r: Reassembler) {
    core::mem::forget(r);
}

fn same_slots(a: &Snap, b: &Snap) -> bool {
    let eq = |i: usize| {
        i >= a.n
            || (a.v[i].start == b.v[i].start && a.v[i].len == b.v[i].len && a.v[i].end_alloc == b.v[i].end_alloc && a.org[i] == b.org[i])
    };
    a.n == b.n && eq(0) && eq(1) && eq(2) && eq(3) && eq(4) && eq(5)
}

/// the Slot stubs each group of harnesses runs with (Kani's attribute expansion has a nesting limit, so every group
/// lists only the methods its operation can reach; a method that is reached without a stub would run the real code on
/// the packed representation and fail its own `invariants()`)
// `ignore_checks=dealloc` on every harness of this file: the slots are contract stubs whose BytesMut holds packed
// state; CBMC's checks on DEALLOCATING such a stand-in (kani_lib.c __rust_dealloc) passed on the pinned tree and failed
// after two unrelated fix commits elsewhere in the workspace (same harness text, same driver) -- they depend on object
// layout, not on the Reassembler.  The driver therefore does not count them; everything else (named obligations, bounds,
// overflow, the crate's own assertions) stays in force.
macro_rules! modular {
    (read unwind($u:literal) fn $name:ident() $body:block) => {
        #[kani::proof]
        #[kani::unwind($u)]
        #[kani::stub(crate::buffer::reassembler::Reassembler::invariants, st_invariants)]
        #[kani::stub(crate::buffer::reassembler::slot::Slot::skip, st_skip)]
        #[kani::stub(crate::buffer::reassembler::slot::Slot::consume, st_consume)]
        #[kani::stub(crate::buffer::reassembler::slot::Slot::end, st_end)]
        #[kani::stub(crate::buffer::reassembler::slot::Slot::end_allocated, st_end_allocated)]
        #[kani::stub(crate::buffer::reassembler::slot::Slot::is_empty, st_is_empty)]
        #[kani::stub(crate::buffer::reassembler::slot::Slot::as_slice, st_as_slice)]
        #[kani::stub(<crate::buffer::reassembler::slot::Slot as crate::buffer::reader::Storage>::read_chunk, st_read_chunk)]
        #[kani::stub(<crate::buffer::reassembler::slot::Slot as crate::buffer::reader::Storage>::buffered_len, st_buffered_len)]
        fn $name() $body
    };
    (read0 unwind($u:literal) fn $name:ident() $body:block) => {
        #[kani::proof]
        #[kani::unwind($u)]
        #[kani::stub(crate::buffer::reassembler::Reassembler::invariants, st_invariants)]
        #[kani::stub(crate::buffer::reassembler::slot::Slot::end, st_end)]
        #[kani::stub(crate::buffer::reassembler::slot::Slot::end_allocated, st_end_allocated)]
        #[kani::stub(crate::buffer::reassembler::slot::Slot::is_empty, st_is_empty)]
        #[kani::stub(crate::buffer::reassembler::slot::Slot::as_slice, st_as_slice)]
        fn $name() $body
    };
    (observe unwind($u:literal) fn $name:ident() $body:block) => {
        #[kani::proof]
        #[kani::unwind($u)]
        #[kani::stub(crate::buffer::reassembler::slot::Slot::end, st_end)]
        #[kani::stub(crate::buffer::reassembler::slot::Slot::end_allocated, st_end_allocated)]
        #[kani::stub(crate::buffer::reassembler::slot::Slot::is_empty, st_is_empty)]
        #[kani::stub(crate::buffer::reassembler::slot::Slot::as_slice, st_as_slice)]
        #[kani::stub(<crate::buffer::reassembler::slot::Slot as crate::buffer::reader::Storage>::buffered_len, st_buffered_len)]
        fn $name() $body
    };
}

// ---- pop / pop_watermarked ---------------------------------------------------------------------------------------------------
// (`pop()` is `pop_watermarked(usize::MAX)`: covered by the symbolic watermark.)
// The obligations of one pop are split over two harnesses per queue length (CBMC needs > 12 GB for both together):
//   part VIEW: result, cursors, chunk bytes, recv' (witness), queue unchanged on None
//   part INV : the representation invariant is re-established
//@ harness props=C16,C01 tier=quick level=bounded bound="K=0 stored slots; Slot methods replaced by contract stubs" timeout=300 mem=12 ignore_checks=dealloc
//@ fn Reassembler::pop_watermarked
//@ fn Reassembler::pop
//@ fn Reassembler::read_chunk
modular! { read0 unwind(4)
fn vq_c01_reassembler_pop_k0() {
    // empty queue: nothing can be popped, nothing changes
    let mut r = any_reassembler(0);
    let c0 = cur(&r);
    let wm: usize = kani::any();
    let res = r.pop_watermarked(wm);
    let c1 = cur(&r);
    let s1 = snap(&r);
    assert!(res.is_none(), "C01/reassembler.pop/empty_buffer_yields_none");
    assert!(c1.start == c0.start && c1.max_recv == c0.max_recv && c1.fin == c0.fin && s1.n == 0, "C01/reassembler.pop/empty_buffer_unchanged");
    assert!(all(rep_inv(c1, &s1)), "C01/reassembler.pop/empty_buffer_inv");
    kani::cover!(cur_fin_known(c0) && c0.fin == c0.start, "reach:reading_complete");
    core::mem::forget(res);
    end_of_harness(r);
}
}

//@ harness props=C16,C01 tier=thorough level=bounded bound="K=1 stored slot; Slot methods replaced by contract stubs" timeout=1800 mem=12 ignore_checks=dealloc
//@ fn Reassembler::pop_watermarked
//@ fn Reassembler::pop
//@ fn Reassembler::read_chunk
modular! { read unwind(4)
fn vq_c01_reassembler_pop_view_k1() {
    let o = pop_run(1);
    pop_assert_view(&o);
}
}

/// what one `pop_watermarked` on an arbitrary n-slot buffer did
struct PopObs {
    n: usize,
    v0: u8,
    wi: i128,
    wmi: i128,
    c0: CurV,
    c1: CurV,
    s0: Snap,
    s1: Snap,
    had: bool,
    had_front: bool,
    some: bool,
    k: i128,
    same_buffer: bool,
    byte: Option<u8>,
    w_val_after: u8,
}

fn pop_run(n: usize) -> PopObs {
    let w: u64 = kani::any();
    let v0: u8 = kani::any();
    unsafe {
        W_OFF = w;
        W_VAL = v0;
    }
    let mut r = any_reassembler(n);
    let c0 = cur(&r);
    let s0 = snap(&r);
    let had = has(&s0, w);
    let had_front = has(&s0, c0.start as u64);
    let wm: usize = kani::any();

    let res = r.pop_watermarked(wm);

    let c1 = cur(&r);
    let s1 = snap(&r);
    // chunk length; is the chunk the very buffer the slot handed out (compared without dereferencing: the returned
    // `Option<BytesMut>` is a merge of several return sites)
    let mut k: i128 = 0;
    let mut same_buffer = true;
    if let Some(c) = res.as_ref() {
        k = c.len() as i128;
        same_buffer = c.as_ptr() == unsafe { POP_PTR } && k == unsafe { POP_LEN } && c0.start == unsafe { POP_START };
    }
    let o = PopObs {
        n,
        v0,
        wi: w as i128,
        wmi: wm as i128,
        c0,
        c1,
        s0,
        s1,
        had,
        had_front,
        some: res.is_some(),
        k,
        same_buffer,
        byte: unsafe { POP_W },
        w_val_after: w_val(),
    };
    let in_chunk = o.some && c0.start <= o.wi && o.wi < c0.start + k;
    kani::cover!(o.some && s1.n < n, "reach:slot_fully_consumed");
    kani::cover!(o.some && s1.n == n, "reach:slot_partially_consumed");
    kani::cover!(o.some && had && o.wi >= c1.start, "reach:witness_stays");
    kani::cover!(in_chunk, "reach:witness_popped");
    kani::cover!(!o.some && !had_front, "reach:none");
    kani::cover!(!o.some && had_front, "reach:none_because_watermark_0");
    kani::cover!(o.some && cur_fin_known(c0) && c1.start == c0.fin, "reach:popped_up_to_final_size");
    kani::cover!(o.some && wm == usize::MAX, "reach:pop_without_watermark");
    core::mem::forget(res);
    end_of_harness(r);
    o
}

fn pop_assert_view(o: &PopObs) {
    let (some, k, c0, c1) = (o.some, o.k, o.c0, o.c1);
    let in_chunk = some && c0.start <= o.wi && o.wi < c0.start + k;
    // None iff there is no byte at the read cursor (or the caller asked for at most 0 bytes)
    assert!(some == (o.had_front && o.wmi > 0), "C01/reassembler.pop/some_iff_byte_at_read_cursor");
    assert!(some || (c1.start == c0.start && c1.max_recv == c0.max_recv && c1.fin == c0.fin), "C01/reassembler.pop/none_leaves_cursors");
    assert!(some || (same_slots(&o.s0, &o.s1) && o.w_val_after == o.v0), "C01/reassembler.pop/none_leaves_contents");
    assert!(!some || (1 <= k && k <= o.wmi), "C01/reassembler.pop/chunk_len_between_1_and_watermark");
    // as much as the first slot holds, up to the watermark
    assert!(!some || k == ra_min(o.s0.v[0].len, o.wmi), "C01/reassembler.pop/chunk_is_first_slot_up_to_watermark");
    assert!(!some || pop_cursors_post(c0, k, c1), "C01/reassembler.pop/cursors_start_advances_by_chunk_len");
    // c[i] == recv[start + i], in order, nothing invented: the chunk IS the buffer the slot handed out for the read
    // cursor, whose byte for offset w is recv[w] by the Slot contract
    assert!(!in_chunk || o.had, "C01/reassembler.pop/chunk_bytes_were_buffered");
    assert!(!some || o.same_buffer, "C01/reassembler.pop/chunk_is_the_slot_buffer_for_the_read_cursor");
    assert!(!in_chunk || o.byte == Some(o.v0), "C01/reassembler.pop/chunk_bytes_eq_recv_in_order");
    assert!(!some || has(&o.s1, o.wi as u64) == (o.had && o.wi >= c1.start), "C01/reassembler.pop/recv_is_rest_above_new_start");
    assert!(o.w_val_after == o.v0, "C01/reassembler.pop/buffered_bytes_unchanged");
}

//@ harness props=C16,C01 tier=thorough level=bounded bound="K=1 stored slot; Slot methods replaced by contract stubs" timeout=1800 mem=12 ignore_checks=dealloc
//@ fn Reassembler::pop_watermarked
//@ fn Reassembler::read_chunk
modular! { read unwind(4)
fn vq_c01_reassembler_pop_inv_k1() {
    let o = pop_run(1);
    assert_rep_inv(o.c1, &o.s1);
}
}

/// asserts the nine clauses of `rep_inv` (obligation names are literals: Kani reports an unexpanded `concat!(..)`
/// verbatim as the description, which the driver would not recognise as a named obligation)
fn assert_rep_inv(c: CurV, s: &Snap) {
    assert!(s.n <= MAXS, "C01/reassembler.inv/queue_length_within_model_bound");
    let p = rep_inv(c, s);
    assert!(p[0], "C01/reassembler.inv/cursors_ordered_within_varint_and_final_size");
    assert!(p[1], "C01/reassembler.inv/slots_well_formed_nonempty_allocation");
    assert!(p[2], "C01/reassembler.inv/slots_ordered_disjoint_above_read_cursor");
    assert!(p[3], "C01/reassembler.inv/slot_within_one_block");
    assert!(p[4], "C01/reassembler.inv/buffered_bytes_below_max_recv");
    assert!(p[5], "C01/reassembler.inv/block_tiling");
    assert!(p[6], "C01/reassembler.inv/full_slots_merged");
    assert!(p[7], "C01/reassembler.inv/block_shares_allocation");
    assert!(p[8], "C01/reassembler.inv/only_first_slot_of_block_empty");
}

//@ harness props=C16,C01 tier=thorough level=bounded bound="K=2 stored slots; Slot methods replaced by contract stubs" timeout=2400 mem=12 ignore_checks=dealloc
//@ fn Reassembler::pop_watermarked
//@ fn Reassembler::pop
//@ fn Reassembler::read_chunk
modular! { read unwind(4)
fn vq_c01_reassembler_pop_view_k2() {
    let o = pop_run(2);
    pop_assert_view(&o);
}
}

//@ harness props=C16,C01 tier=thorough level=bounded bound="K=2 stored slots; Slot methods replaced by contract stubs" timeout=2400 mem=12 ignore_checks=dealloc
//@ fn Reassembler::pop_watermarked
//@ fn Reassembler::read_chunk
modular! { read unwind(4)
fn vq_c01_reassembler_pop_inv_k2() {
    let o = pop_run(2);
    assert_rep_inv(o.c1, &o.s1);
}
}

// ---- skip ----------------------------------------------------------------------------------------------------------------------
// K <= 1 only: both K=2 harnesses exceed the 12 GB cap (the `while let Some(slot) = pop_front()` loop leaves the queue
// in a three-way merged symbolic state).
//@ harness props=C16,C01 tier=quick level=bounded bound="K=0 stored slots; Slot methods replaced by contract stubs" timeout=300 mem=12 ignore_checks=dealloc
//@ fn Reassembler::skip
modular! { read0 unwind(4)
fn vq_c01_reassembler_skip_k0() {
    let o = skip_run(0);
    skip_assert_view(&o);
    assert_rep_inv(o.c1, &o.s1);
}
}

//@ harness props=C16,C01 tier=thorough level=bounded bound="K=1 stored slot; Slot methods replaced by contract stubs" timeout=1800 mem=12 ignore_checks=dealloc
//@ fn Reassembler::skip
modular! { read unwind(4)
fn vq_c01_reassembler_skip_view_k1() {
    let o = skip_run(1);
    skip_assert_view(&o);
}
}

struct SkipObs {
    n: usize,
    v0: u8,
    wi: i128,
    li: i128,
    c0: CurV,
    c1: CurV,
    s0: Snap,
    s1: Snap,
    had: bool,
    ok: bool,
    err_out_of_range: bool,
    err_invalid_fin: bool,
    w_val_after: u8,
}

fn skip_run(n: usize) -> SkipObs {
    let w: u64 = kani::any();
    let v0: u8 = kani::any();
    unsafe {
        W_OFF = w;
        W_VAL = v0;
    }
    let mut r = any_reassembler(n);
    let c0 = cur(&r);
    let s0 = snap(&r);
    let had = has(&s0, w);
    let len: u64 = kani::any();
    kani::assume(len <= MAXV);

    let res = r.skip(VarInt::new(len).unwrap());

    let c1 = cur(&r);
    let s1 = snap(&r);
    let ok = res.is_ok();
    kani::cover!(n == 0 || (ok && s1.n < n), "reach:slot_dropped");
    kani::cover!(n == 0 || (ok && s1.n == n && len > 0 && s0.v[0].start != s1.v[0].start), "reach:slot_trimmed");
    kani::cover!(ok && len == 0, "reach:skip_0");
    kani::cover!(res == Err(Error::InvalidFin), "reach:beyond_final_size");
    kani::cover!(res == Err(Error::OutOfRange), "reach:out_of_range");
    kani::cover!(n == 0 || (ok && had && !has(&s1, w)), "reach:witness_skipped");
    let o = SkipObs {
        n,
        v0,
        wi: w as i128,
        li: len as i128,
        c0,
        c1,
        s0,
        s1,
        had,
        ok,
        err_out_of_range: res == Err(Error::OutOfRange),
        err_invalid_fin: res == Err(Error::InvalidFin),
        w_val_after: w_val(),
    };
    end_of_harness(r);
    o
}

fn skip_assert_view(o: &SkipObs) {
    let (ok, c0, c1) = (o.ok, o.c0, o.c1);
    let out_of_range = skip_out_of_range(c0, o.li);
    let contradicts = skip_contradicts_fin(c0, o.li);
    assert!(!ok == (out_of_range || contradicts), "C01/reassembler.skip/err_iff_out_of_range_or_beyond_final_size");
    assert!(ok || (if out_of_range { o.err_out_of_range } else { o.err_invalid_fin }), "C01/reassembler.skip/error_code");
    assert!(ok || (c1.start == c0.start && c1.max_recv == c0.max_recv && c1.fin == c0.fin), "C01/reassembler.skip/err_leaves_cursors");
    assert!(ok || same_slots(&o.s0, &o.s1), "C01/reassembler.skip/err_leaves_contents");
    assert!(!ok || skip_cursors_post(c0, o.li, c1), "C01/reassembler.skip/cursors");
    assert!(!ok || has(&o.s1, o.wi as u64) == (o.had && o.wi >= c1.start), "C01/reassembler.skip/recv_is_rest_above_new_start");
    assert!(o.w_val_after == o.v0, "C01/reassembler.skip/buffered_bytes_unchanged");
}

//@ harness props=C16,C01 tier=thorough level=bounded bound="K=1 stored slot; Slot methods replaced by contract stubs" timeout=1800 mem=12 ignore_checks=dealloc
//@ fn Reassembler::skip
modular! { read unwind(4)
fn vq_c01_reassembler_skip_inv_k1() {
    let o = skip_run(1);
    assert_rep_inv(o.c1, &o.s1);
}
}

// ---- observers -------------------------------------------------------------------------------------------------------------------
//@ harness props=C16,C01 tier=quick level=bounded bound="K=0 stored slots; Slot methods replaced by contract stubs" timeout=300 mem=12 ignore_checks=dealloc
//@ fn Reassembler::len
//@ fn Reassembler::is_empty
//@ fn Reassembler::consumed_len
//@ fn Reassembler::total_received_len
//@ fn Reassembler::final_size
//@ fn Reassembler::is_reading_complete
//@ fn Reassembler::is_writing_complete
//@ fn Reassembler::report
modular! { observe unwind(4)
fn vq_c01_reassembler_observers_k0() {
    observers_step(0);
}
}

fn observers_step(n: usize) {
    let w: u64 = kani::any();
    unsafe {
        W_OFF = w;
        W_VAL = kani::any();
    }
    let r = any_reassembler(n);
    let c = cur(&r);
    let s0 = snap(&r);
    let had = has(&s0, w);
    let len = r.len() as i128;
    // len() = length of the contiguous run of buffered bytes at the read cursor
    let wi = w as i128;
    assert!(!(c.start <= wi && wi < c.start + len) || had, "C01/reassembler.len/every_offset_of_the_prefix_is_buffered");
    assert!(!has(&s0, (c.start + len) as u64), "C01/reassembler.len/prefix_is_maximal");
    assert!(r.is_empty() == !has(&s0, c.start as u64), "C01/reassembler.is_empty/iff_no_byte_at_read_cursor");
    assert!(r.consumed_len() as i128 == c.start, "C01/reassembler.consumed_len/eq_start");
    let total = r.total_received_len() as i128;
    assert!(total == c.start + len, "C01/reassembler.total_received_len/eq_start_plus_len");
    assert!(total <= c.max_recv, "C01/reassembler.total_received_len/le_max_recv");
    let fs = r.final_size();
    assert!(fs.is_some() == cur_fin_known(c), "C01/reassembler.final_size/some_iff_known");
    assert!(fs.is_none() || fs.unwrap_or(0) as i128 == c.fin, "C01/reassembler.final_size/eq_fin");
    assert!(r.is_reading_complete() == (cur_fin_known(c) && c.fin == c.start), "C01/reassembler.is_reading_complete/iff_final_size_eq_start");
    assert!(r.is_writing_complete() == (cur_fin_known(c) && c.fin == total), "C01/reassembler.is_writing_complete/iff_contiguous_up_to_final_size");
    let (bytes, chunks) = r.report();
    assert!(bytes as i128 == len && chunks <= n, "C01/reassembler.report/bytes_eq_len");
    kani::cover!(n == 0 || len > 0, "reach:readable");
    kani::cover!(n < 2 || chunks == 2, "reach:two_contiguous_chunks");
    // (with two slots the second one lies above the read cursor and below max_recv: reading cannot be complete)
    kani::cover!(n >= 2 || r.is_reading_complete(), "reach:reading_complete");
    kani::cover!(n == 0 || (r.is_writing_complete() && !r.is_reading_complete()), "reach:writing_complete_only");
    kani::cover!(n == 0 || len == 0, "reach:gap_at_read_cursor");
    end_of_harness(r);
}

//@ harness props=C16,C01 tier=thorough level=bounded bound="K=1 stored slot; Slot methods replaced by contract stubs" timeout=1800 mem=12 ignore_checks=dealloc
//@ fn Reassembler::len
//@ fn Reassembler::total_received_len
//@ fn Reassembler::is_writing_complete
//@ fn Reassembler::report
modular! { observe unwind(4)
fn vq_c01_reassembler_observers_k1() {
    observers_step(1);
}
}

//@ harness props=C16,C01 tier=thorough level=bounded bound="K=2 stored slots; Slot methods replaced by contract stubs" timeout=1800 mem=12 ignore_checks=dealloc
//@ fn Reassembler::len
//@ fn Reassembler::total_received_len
//@ fn Reassembler::is_writing_complete
//@ fn Reassembler::report
modular! { observe unwind(5)
fn vq_c01_reassembler_observers_k2() {
    observers_step(2);
}
}
