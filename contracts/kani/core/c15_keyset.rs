//@ inject crate=core src=quic/s2n-quic-core/src/crypto/application/keyset.rs
// Contract harnesses for KeySet (property C15: AEAD limits respected, key updates survive).
// Predicates: contracts/spec/keys.rs (shared with verus/lemmas/C15.rs).  Harness key: _c15_key.rs.
// Builder helpers for private fields of other modules: c15_limited.rs (limited::Key counters),
// c15_timestamp_helper.rs (Timestamp from microseconds).
use super::*;
#[allow(dead_code, unused_variables)]
mod spec {
    include!("../../spec/keys.rs");
}
use spec::*;
#[allow(dead_code)]
mod hkey {
    include!("_c15_key.rs");
}
use hkey::HKey;
use crate::{
    connection::id::ConnectionInfo,
    crypto::testing::HeaderKey as PlainHeaderKey,
    inet::SocketAddress,
    packet::{number::PacketNumberSpace, short::ProtectedShort},
    varint::VarInt,
};
use s2n_codec::DecoderBufferMut;

fn ts(micros: u64) -> Timestamp {
    Timestamp::verif_c15_from_micros(micros)
}

fn abs_key(k: &limited::Key<HKey>) -> LKey {
    LKey {
        enc: k.encrypted_packets() as i128,
        dec: k.verif_c15_decrypted() as i128,
        limit: k.verif_c15_limit() as i128,
        gen: k.verif_c15_key().gen as i128,
    }
}

fn abs(ks: &KeySet<HKey>) -> Ks {
    Ks {
        phase: (ks.key_phase as u8) as i128,
        generation: ks.generation as i128,
        k0: abs_key(&ks.crypto.0[0]),
        k1: abs_key(&ks.crypto.0[1]),
        failures: ks.packet_decryption_failures as i128,
        integrity_limit: ks.aead_integrity_limit as i128,
        window: ks.limits.key_update_window as i128,
        timer_armed: ks.key_derivation_timer.is_armed(),
    }
}

/// Arbitrary KeySet satisfying ks_inv (the only code that writes private fields).  `ok0`/`ok1`: does the
/// packet of the harness authenticate under the key stored for phase 0 / 1.  `deadline`: expiration of the
/// derivation timer when an update is in progress.
/// Stated restrictions beyond ks_inv: failure / attempt counters < u64::MAX (they count received packets;
/// 2^64 packets cannot be received), generation < u16::MAX where the caller says so (see
/// vq_c15_keyset_generation_counter for the counter itself).
fn any_keyset(ok0: bool, ok1: bool, deadline: Timestamp) -> KeySet<HKey> {
    let conf: u64 = kani::any();
    let integ: u64 = kani::any();
    let window: u64 = kani::any();
    let generation: u16 = kani::any();
    let armed: bool = kani::any();
    kani::assume(!armed || generation >= 1);
    let mut limits = limited::Limits::default();
    limits.key_update_window = window;
    let mut ks = KeySet::new(HKey { gen: 0, conf, integ, auth_ok: false }, limits);
    ks.generation = generation;
    let active = (generation & 1) as usize; // the key phase bit toggles with every rotation
    ks.key_phase = if active == 1 { KeyPhase::One } else { KeyPhase::Zero };
    let other_gen = if armed { generation as u32 - 1 } else { generation as u32 + 1 };
    let oks = [ok0, ok1];
    ks.crypto.0[active] = limited::Key::new(HKey { gen: generation as u32, conf, integ, auth_ok: oks[active] });
    ks.crypto.0[1 - active] = limited::Key::new(HKey { gen: other_gen, conf, integ, auth_ok: oks[1 - active] });
    let e0: u64 = kani::any();
    let e1: u64 = kani::any();
    let d0: u64 = kani::any();
    let d1: u64 = kani::any();
    kani::assume(e0 <= conf && e1 <= conf && d0 < u64::MAX && d1 < u64::MAX);
    ks.crypto.0[0].verif_c15_set_counters(e0, d0);
    ks.crypto.0[1].verif_c15_set_counters(e1, d1);
    let failures: u64 = kani::any();
    kani::assume(failures < u64::MAX);
    ks.packet_decryption_failures = failures;
    if armed {
        ks.key_derivation_timer.set(deadline);
    }
    ks
}

//@ harness props=C15 tier=quick level=full timeout=120
//@ fn KeySet::new
#[kani::proof]
#[kani::unwind(3)]
fn vq_c15_keyset_new() {
    let conf: u64 = kani::any();
    let integ: u64 = kani::any();
    let window: u64 = kani::any();
    let mut limits = limited::Limits::default();
    limits.key_update_window = window;
    let ks = KeySet::new(HKey { gen: 0, conf, integ, auth_ok: false }, limits);
    let s = abs(&ks);
    // RFC 9001 6: "The Key Phase bit is initially set to 0"; 6.3: current and next receive keys available
    assert!(ks_new_post(s, conf as i128, integ as i128, window as i128), "C15/keyset.new/phase_zero_generation_zero_next_key_derived");
    assert!(ks_inv(s), "C15/keyset.new/inv_established");
    assert!(!ks.key_update_in_progress(), "C15/keyset.new/no_update_in_progress");
    kani::cover!(conf == 0, "reach:zero_limit");
    kani::cover!(conf == u64::MAX, "reach:largest_limit");
}

//@ harness props=C15 tier=quick level=full timeout=240
//@ fn KeySet::encryption_phase
//@ fn KeySet::encrypt_packet
//@ fn KeySet::active_key
#[kani::proof]
#[kani::unwind(3)]
fn vq_c15_keyset_encrypt_packet() {
    let mut ks = any_keyset(false, false, ts(1));
    let old = abs(&ks);
    assert!(ks_inv(old), "C15/keyset.builder/inv");
    let phase = ks.encryption_phase();
    assert!((phase as u8) as i128 == ks_encryption_phase(old), "C15/keyset.encryption_phase/next_phase_iff_active_key_in_update_window");
    assert!(abs_key(ks.active_key()).gen == old.generation, "C15/keyset.active_key/is_key_of_current_generation");

    let cb_fails: bool = kani::any();
    let mut called = false;
    let mut cb_phase = 0u8;
    let mut cb_gen = 0u32;
    let mut enc = [0u8; 16];
    let mut dec = [0u8; 16];
    let buffer = EncoderBuffer::new(&mut enc);
    let r = ks.encrypt_packet(buffer, |buffer, key, phase| {
        called = true;
        cb_phase = phase as u8;
        cb_gen = key.gen;
        if cb_fails {
            Err(PacketEncodingError::InsufficientSpace(buffer))
        } else {
            Ok((ProtectedPayload::new(0, &mut dec), buffer))
        }
    });
    let new = abs(&ks);
    let limit_reached = matches!(r, Err(PacketEncodingError::AeadLimitReached(_)));
    let ok = r.is_ok();
    let used = ks_key(old, ks_encryption_phase(old));

    // RFC 9001 6.6: "If the total number of encrypted packets with the same key exceeds the confidentiality
    // limit for the selected AEAD, the endpoint MUST stop using those keys."
    assert!(limit_reached == ks_encrypt_limit_reached(old), "C15/keyset.encrypt_packet/aead_limit_error_iff_key_used_up");
    assert!(!limit_reached || !called, "C15/keyset.encrypt_packet/limit_reached_nothing_encrypted");
    assert!(limit_reached || called, "C15/keyset.encrypt_packet/below_limit_packet_is_written");
    assert!(!called || (cb_phase as i128 == ks_encryption_phase(old) && cb_gen as i128 == used.gen), "C15/keyset.encrypt_packet/writes_with_key_of_encryption_phase");
    assert!(ok == (called && !cb_fails), "C15/keyset.encrypt_packet/ok_iff_packet_written");
    assert!(!ok || used.enc < used.limit, "C15/keyset.encrypt_packet/ok_only_below_limit");
    assert!(ks_encrypt_post(old, new, ok), "C15/keyset.encrypt_packet/counted_exactly_once_else_state_unchanged");
    assert!(ks_inv(new), "C15/keyset.encrypt_packet/inv_preserved");
    assert!(new.k0.enc <= new.k0.limit && new.k1.enc <= new.k1.limit, "C15/keyset.encrypt_packet/no_key_exceeds_confidentiality_limit");
    kani::cover!(ok && ks_encryption_phase(old) != old.phase, "reach:encrypts_with_next_key");
    kani::cover!(ok && ks_encryption_phase(old) == old.phase, "reach:encrypts_with_active_key");
    kani::cover!(limit_reached && ks_encryption_phase(old) != old.phase, "reach:next_key_used_up");
    kani::cover!(limit_reached && ks_encryption_phase(old) == old.phase, "reach:active_key_used_up_zero_window");
    kani::cover!(called && cb_fails, "reach:writer_failed");
    kani::cover!(old.timer_armed && ok, "reach:during_update");
    kani::cover!(ok && new.k0.enc == new.k0.limit, "reach:last_permitted_packet");
}

//@ harness props=C15 tier=quick level=full timeout=240
//@ fn KeySet::encryption_phase
#[kani::proof]
#[kani::unwind(3)]
fn vq_c15_keyset_encryption_phase_generation() {
    // RFC 9001 6.4: "An endpoint never sends packets that are protected with old keys.  Only the current keys
    // are used." / property C15: "a packet with a higher packet number is never protected with an older key
    // generation than a packet with a lower one": the key selected for sending is the current one or the next
    // one, never the previous one.
    let ks = any_keyset(false, false, ts(1));
    let old = abs(&ks);
    let phase = (ks.encryption_phase() as u8) as i128;
    let selected = ks_key(old, phase);
    let in_window = lkey_needs_update(ks_active(old), old.window);
    kani::cover!(old.timer_armed && in_window, "reach:update_in_progress_and_new_key_already_in_window");
    kani::cover!(!old.timer_armed && in_window, "reach:initiates_update");
    kani::cover!(!in_window, "reach:current_key");
    assert!(phase == ks_encryption_phase(old), "C15/keyset.encryption_phase/is_spec_phase");
    // residual first: outside the known failing class {derivation timer armed (the other slot still holds the
    // PREVIOUS key) and the active key is already inside its update window}
    assert!((old.timer_armed && in_window) || selected.gen >= old.generation, "C15/keyset.encryption_phase/never_selects_a_key_older_than_current#outside-known");
    // strict
    assert!(ks_encryption_key_not_older(old), "C15/keyset.encryption_phase/never_selects_a_key_older_than_current");
}

// Kani does not support the `caller_location` intrinsic behind `core::panic::Location::caller()`, which
// `connection::Error::from_transport_error` (#[track_caller]) uses to fill the debug-only `source` field of the
// error value.  The decrypt harnesses replace it by a reference to a dummy static (assumption A-location: the
// `source` field is never read by the code under contract nor by the obligations).  The stub body needs one
// `unsafe` cast and crypto/mod.rs carries #![forbid(unsafe_code)], so it lives in c15_timestamp_helper.rs.

/// the short-header packet of the decrypt harnesses: 1 tag byte, 4-byte DCID, 2-byte packet number, 3 payload
/// bytes.  Concrete shape; symbolic spin / reserved / key-phase bits, packet-number bytes and payload.
fn any_short_packet_bytes() -> [u8; 10] {
    let tag: u8 = kani::any();
    // header form 0 (short), fixed bit 1, packet number length 2 (0b01); spin, reserved and key phase free
    kani::assume(tag & 0b1100_0011 == 0b0100_0001);
    let mut buf = [0u8; 10];
    buf[0] = tag;
    buf[5] = kani::any();
    buf[6] = kani::any();
    buf[7] = kani::any();
    buf
}

/// result classes of decrypt_packet
#[derive(Clone, Copy, PartialEq, Eq)]
enum Outcome {
    Delivered { rotated_to: Option<u16>, pn: u64, phase: u8 },
    AeadLimitReached,
    DecryptError,
    ProtocolViolation,
    Other,
}

fn classify(r: &Result<(CleartextShort<'_>, Option<u16>), ProcessingError>) -> Outcome {
    match r {
        Ok((p, g)) => Outcome::Delivered { rotated_to: *g, pn: p.packet_number.as_u64(), phase: p.key_phase as u8 },
        Err(ProcessingError::DecryptError) => Outcome::DecryptError,
        Err(ProcessingError::ConnectionError(crate::connection::Error::Transport { code, .. })) => {
            if *code == transport::Error::AEAD_LIMIT_REACHED.code {
                Outcome::AeadLimitReached
            } else if *code == transport::Error::PROTOCOL_VIOLATION.code {
                Outcome::ProtocolViolation
            } else {
                Outcome::Other
            }
        }
        Err(_) => Outcome::Other,
    }
}

/// runs decrypt_packet on an arbitrary key set and an arbitrary packet of the fixed shape; returns everything
/// the obligations talk about
struct DecryptRun {
    old: Ks,
    new: Ks,
    out: Outcome,
    pkt_phase: i128,
    auth: bool,
    reserved_clear: bool,
    pn: u64,
    timer_at_pto: bool,
    timer_unchanged: bool,
}

fn run_decrypt(only_update_in_progress_other_phase: bool) -> DecryptRun {
    let ok0: bool = kani::any();
    let ok1: bool = kani::any();
    let deadline_us: u64 = kani::any();
    let pto_us: u64 = kani::any();
    kani::assume(deadline_us >= 1 && pto_us >= 1);
    let deadline = ts(deadline_us);
    let pto = ts(pto_us);
    let mut ks = any_keyset(ok0, ok1, deadline);
    let old = abs(&ks);
    // rotate_phase increments a u16; the counter itself is the subject of vq_c15_keyset_generation_counter
    kani::assume(old.generation < u16_max());
    let timer_before = ks.key_derivation_timer.clone();

    let mut buf = any_short_packet_bytes();
    let tag = buf[0];
    let pkt_phase = ((tag >> 2) & 1) as i128;
    if only_update_in_progress_other_phase {
        kani::assume(old.timer_armed && pkt_phase != old.phase);
    } else {
        kani::assume(!(old.timer_armed && pkt_phase != old.phase));
    }
    let largest: u64 = kani::any();
    kani::assume(largest <= crate::varint::MAX_VARINT_VALUE);
    let largest_pn = PacketNumberSpace::ApplicationData.new_packet_number(VarInt::new(largest).unwrap());
    let remote = SocketAddress::default();
    let info = ConnectionInfo::new(&remote);
    let (protected, _rest) = ProtectedShort::decode(tag, DecoderBufferMut::new(&mut buf), &info, &4usize).unwrap();
    let encrypted = protected.unprotect(&PlainHeaderKey::default(), largest_pn).unwrap();
    let pn = encrypted.packet_number.as_u64();

    let r = ks.decrypt_packet(encrypted, largest_pn, pto);
    let out = classify(&r);
    let new = abs(&ks);
    DecryptRun {
        old,
        new,
        out,
        pkt_phase,
        auth: if pkt_phase == 0 { ok0 } else { ok1 },
        reserved_clear: tag & 0b0001_1000 == 0,
        pn,
        timer_at_pto: ks.key_derivation_timer == Timer::from(Some(pto)),
        timer_unchanged: ks.key_derivation_timer == timer_before,
    }
}

//@ harness props=C15,C06 tier=quick level=bounded timeout=300 bound="one short-header packet of fixed shape: 4-byte DCID, 2-byte packet number, 3-byte payload; all header bits, packet number, largest acked, key-set state symbolic"
//@ fn KeySet::decrypt_packet
//@ fn KeySet::rotate_phase
//@ fn KeySet::set_derivation_timer
//@ fn KeySet::key_update_in_progress
#[kani::proof]
#[kani::unwind(12)]
#[kani::stub(core::panic::Location::caller, crate::time::timestamp::aws_s2n_quic_verif_c15_timestamp_helper::VerifC15Location::caller)]
fn vq_c15_keyset_decrypt_packet() {
    // every case except "update in progress and the packet carries the other key phase" (next harness)
    let t = run_decrypt(false);
    let (old, new) = (t.old, t.new);
    // the key tried is the one stored for the packet's key-phase bit: `auth` is that key's verdict
    let delivered = t.auth && t.reserved_clear;
    let is_delivered = matches!(t.out, Outcome::Delivered { .. });
    assert!(is_delivered == delivered, "C15/keyset.decrypt_packet/delivered_iff_authentic_under_key_of_packet_phase");

    if !delivered {
        // RFC 9001 6.6: "endpoints MUST count the number of received packets that fail authentication";
        // (a packet that authenticates but has reserved bits set is rejected and counted as well: conservative)
        assert!(ks_decrypt_fail_post(old, t.pkt_phase, new), "C15/keyset.decrypt_packet/failure_counted_once_keys_and_phase_untouched");
        // "If the total number of received packets that fail authentication ... exceeds the integrity limit ...
        //  the endpoint MUST immediately close the connection with a connection error of type AEAD_LIMIT_REACHED"
        assert!((t.out == Outcome::AeadLimitReached) == ks_decrypt_fail_is_close(new), "C15/keyset.decrypt_packet/aead_limit_reached_iff_failures_at_integrity_limit");
        assert!(
            ks_decrypt_fail_is_close(new) || t.out == (if t.auth { Outcome::ProtocolViolation } else { Outcome::DecryptError }),
            "C15/keyset.decrypt_packet/below_limit_error_is_the_decrypt_error"
        );
        assert!(t.timer_unchanged, "C15/keyset.decrypt_packet/failure_leaves_timer");
    } else if t.pkt_phase == old.phase {
        assert!(ks_decrypt_ok_same_phase_post(old, new), "C15/keyset.decrypt_packet/same_phase_success_changes_nothing_but_attempt_counter");
        assert!(t.timer_unchanged, "C15/keyset.decrypt_packet/same_phase_success_leaves_timer");
        assert!(t.out == Outcome::Delivered { rotated_to: None, pn: t.pn, phase: t.pkt_phase as u8 }, "C15/keyset.decrypt_packet/same_phase_success_reports_no_update");
    } else {
        // no update in progress, packet carries the next key phase and authenticates under the next key:
        // the peer updated its keys (RFC 9001 6.2) -- rotate
        assert!(ks_decrypt_ok_next_phase_post(old, new), "C15/keyset.decrypt_packet/next_phase_success_rotates_generation_plus_one");
        assert!(t.timer_at_pto, "C15/keyset.decrypt_packet/next_phase_success_arms_derivation_timer_at_pto");
        assert!(
            t.out == Outcome::Delivered { rotated_to: Some((old.generation + 1) as u16), pn: t.pn, phase: t.pkt_phase as u8 },
            "C15/keyset.decrypt_packet/next_phase_success_reports_new_generation"
        );
        // send keys: the active key after the rotation is strictly newer
        assert!(ks_active(new).gen == ks_active(old).gen + 1, "C15/keyset.decrypt_packet/send_key_generation_advances_by_one");
    }
    assert!(ks_inv(new), "C15/keyset.decrypt_packet/inv_preserved");
    assert!(ks_active(new).gen >= ks_active(old).gen, "C15/keyset.decrypt_packet/send_key_generation_never_decreases");
    kani::cover!(delivered && t.pkt_phase == old.phase, "reach:current_phase_ok");
    kani::cover!(delivered && t.pkt_phase != old.phase, "reach:peer_initiated_update");
    kani::cover!(!t.auth && t.out == Outcome::AeadLimitReached, "reach:integrity_limit");
    kani::cover!(!t.auth && t.out == Outcome::DecryptError, "reach:plain_failure");
    kani::cover!(t.auth && !t.reserved_clear, "reach:reserved_bits");
    kani::cover!(!t.auth && t.pkt_phase != old.phase, "reach:forged_key_update");
    kani::cover!(old.timer_armed && delivered, "reach:during_update_current_phase");
    kani::cover!(t.pn > 70000, "reach:packet_number_expanded");
}

//@ harness props=C15,C06 tier=quick level=bounded timeout=300 bound="one short-header packet of fixed shape: 4-byte DCID, 2-byte packet number, 3-byte payload; all header bits, packet number, largest acked, key-set state symbolic"
//@ fn KeySet::decrypt_packet
#[kani::proof]
#[kani::unwind(12)]
#[kani::stub(core::panic::Location::caller, crate::time::timestamp::aws_s2n_quic_verif_c15_timestamp_helper::VerifC15Location::caller)]
fn vq_c15_keyset_decrypt_previous_key() {
    // a key update is in progress (derivation timer armed: the non-active slot still holds the PREVIOUS key)
    // and the packet carries the previous key phase -- a packet delayed across the update (RFC 9001 6.5)
    let t = run_decrypt(true);
    let (old, new) = (t.old, t.new);
    let delivered = t.auth && t.reserved_clear;
    let is_delivered = matches!(t.out, Outcome::Delivered { .. });
    kani::cover!(delivered, "reach:delayed_packet_authenticates_under_previous_key");
    kani::cover!(!t.auth && t.out == Outcome::AeadLimitReached, "reach:integrity_limit");
    kani::cover!(delivered && t.pn < 5, "reach:low_packet_number");
    kani::cover!(true, "reach:end");
    assert!(is_delivered == delivered, "C15/keyset.decrypt_packet/previous_phase_delivered_iff_authentic_under_previous_key");
    if !delivered {
        assert!(ks_decrypt_fail_post(old, t.pkt_phase, new), "C15/keyset.decrypt_packet/previous_phase_failure_counted_once");
        assert!((t.out == Outcome::AeadLimitReached) == ks_decrypt_fail_is_close(new), "C15/keyset.decrypt_packet/previous_phase_aead_limit_reached_iff_at_integrity_limit");
        assert!(t.timer_unchanged, "C15/keyset.decrypt_packet/previous_phase_failure_leaves_timer");
    }
    // residuals first (a failing assert is also assumed by Kani): what holds even for the known failing class
    // {update in progress, previous-phase packet authenticates}: the packet is delivered with the previous key,
    // no failure is counted, no key's usage counters are disturbed
    assert!(
        !delivered
            || (new.failures == old.failures
                && lkey_on_decryption_post(ks_other(old), ks_key(new, t.pkt_phase))
                && lkey_same(ks_active(old), ks_key(new, other_phase(t.pkt_phase)))),
        "C15/keyset.decrypt_packet/previous_phase_success_keeps_send_keys#outside-known"
    );
    assert!(delivered || ks_inv(new), "C15/keyset.decrypt_packet/previous_phase_inv_preserved#outside-known");
    // strict (RFC 9001 6.4: "An endpoint never sends packets that are protected with old keys"; property C15:
    // "a packet with a higher packet number is never protected with an older key generation"): a delayed packet
    // that authenticates under the previous key must not switch the send keys back
    assert!(!delivered || ks_decrypt_ok_previous_phase_post(old, new), "C15/keyset.decrypt_packet/previous_phase_success_keeps_send_keys");
    assert!(ks_inv(new), "C15/keyset.decrypt_packet/previous_phase_inv_preserved");
    assert!(ks_active(new).gen >= ks_active(old).gen, "C15/keyset.decrypt_packet/previous_phase_send_key_generation_never_decreases");
}

//@ harness props=C15 tier=quick level=full timeout=240
//@ fn KeySet::on_timeout
//@ fn KeySet::derive_and_store_next_key
#[kani::proof]
#[kani::unwind(3)]
fn vq_c15_keyset_on_timeout() {
    let deadline_us: u64 = kani::any();
    let now_us: u64 = kani::any();
    // timestamps are microseconds since the clock epoch; keep 1 ms of head room for the timer granularity
    kani::assume(deadline_us >= 1 && now_us >= 1 && now_us <= u64::MAX - 1000);
    let mut ks = any_keyset(false, false, ts(deadline_us));
    let old = abs(&ks);
    let conf = ks_active(old).limit;
    ks.on_timeout(ts(now_us));
    let new = abs(&ks);
    if !old.timer_armed {
        assert!(ks_same(old, new), "C15/keyset.on_timeout/no_update_in_progress_nothing_changes");
    } else if now_us >= deadline_us {
        // RFC 9001 6.5: after ~PTO the next keys are created and "MAY replace the previous keys"
        assert!(ks_timeout_fired_post(old, new, conf), "C15/keyset.on_timeout/derives_exactly_one_next_key_from_active");
    } else if now_us + 1000 <= deadline_us {
        // more than the 1 ms timer granularity before the deadline: the previous keys are retained
        assert!(ks_same(old, new), "C15/keyset.on_timeout/before_deadline_previous_key_retained");
    } else {
        assert!(ks_same(old, new) || ks_timeout_fired_post(old, new, conf), "C15/keyset.on_timeout/within_granularity_either");
    }
    assert!(ks_inv(new), "C15/keyset.on_timeout/inv_preserved");
    assert!(ks_active(new).gen == ks_active(old).gen, "C15/keyset.on_timeout/send_key_unchanged");
    kani::cover!(old.timer_armed && now_us >= deadline_us, "reach:fired");
    kani::cover!(old.timer_armed && now_us + 1000 <= deadline_us, "reach:early");
    kani::cover!(old.timer_armed && now_us < deadline_us && now_us + 1000 > deadline_us, "reach:within_granularity");
    kani::cover!(!old.timer_armed, "reach:idle");
}

//@ harness props=C15 tier=quick level=full timeout=120
//@ fn KeySet::rotate_phase
#[kani::proof]
#[kani::unwind(3)]
fn vq_c15_keyset_generation_counter() {
    // the rotation counter for ANY number of earlier key updates (the decrypt harnesses assume generation < 65535)
    let mut ks = any_keyset(false, false, ts(1));
    let old = abs(&ks);
    kani::cover!(old.generation == u16_max(), "reach:counter_at_u16_max");
    kani::cover!(old.generation == 0, "reach:first_update");
    ks.rotate_phase();
    let new = abs(&ks);
    assert!(new.phase == other_phase(old.phase), "C15/keyset.rotate_phase/phase_toggles");
    assert!(lkey_same(ks_active(new), ks_other(old)) && lkey_same(ks_other(new), ks_active(old)), "C15/keyset.rotate_phase/swaps_active_and_next");
    // the counter is a u16 incremented with `+= 1`: after 65535 updates the increment overflows (panic in the
    // dev profile, silent wrap in release) -- that path fails the automatic overflow check inside rotate_phase
    // (reported as <harness>/safety); the residual states the claim outside generation == 65535
    assert!(old.generation == u16_max() || new.generation == old.generation + 1, "C15/keyset.rotate_phase/generation_plus_one#outside-known");
    assert!(new.generation == old.generation + 1, "C15/keyset.rotate_phase/generation_plus_one");
    kani::cover!(true, "reach:end");
}
