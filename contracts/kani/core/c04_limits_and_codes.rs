//@ inject crate=core src=quic/s2n-quic-core/src/frame/mod.rs
// Contract harnesses (property C04) for the decode-time limit checks of MAX_STREAMS / STREAMS_BLOCKED
// (RFC 9000 4.6, 19.11, 19.14) and for the transport error code constants (RFC 9000 20.1).
// The oracle for the wire bytes is written here as ordinary Rust (bytes cannot be phrased in the i128
// sub-language): an independent transcription of RFC 9000 16 (variable-length integers), never a call to
// the crate's own encoder.
use super::*;
use crate::{stream::StreamType, transport, varint::VarInt};
use s2n_codec::DecoderBuffer;
#[allow(dead_code, unused_variables)]
mod spec {
    include!("../../spec/flow_out.rs");
    include!("../../spec/flow_in.rs");
}
use spec::*;

const MAXV: u64 = crate::varint::MAX_VARINT_VALUE;
const MAX_STREAMS: u64 = 1 << 60;

/// RFC 9000 16, Table 4: 2MSB 00/01/10/11 -> 1/2/4/8 bytes, value big-endian in the remaining bits.
/// `wide`: use the 8-byte form even when a shorter one exists (the RFC allows non-minimal encodings here).
fn rfc_varint(buf: &mut [u8; 9], at: usize, x: u64, wide: bool) -> usize {
    if !wide && x <= 63 {
        buf[at] = x as u8;
        1
    } else if !wide && x <= 16383 {
        buf[at] = 0x40 | (x >> 8) as u8;
        buf[at + 1] = x as u8;
        2
    } else if !wide && x <= 1073741823 {
        buf[at] = 0x80 | (x >> 24) as u8;
        buf[at + 1] = (x >> 16) as u8;
        buf[at + 2] = (x >> 8) as u8;
        buf[at + 3] = x as u8;
        4
    } else {
        buf[at] = 0xC0 | (x >> 56) as u8;
        buf[at + 1] = (x >> 48) as u8;
        buf[at + 2] = (x >> 40) as u8;
        buf[at + 3] = (x >> 32) as u8;
        buf[at + 4] = (x >> 24) as u8;
        buf[at + 5] = (x >> 16) as u8;
        buf[at + 6] = (x >> 8) as u8;
        buf[at + 7] = x as u8;
        8
    }
}

//@ harness props=C04 tier=quick level=full timeout=300
//@ fn MaxStreams::decode
//@ fn StreamsBlocked::decode
//@ fn transport::Error::from<DecoderError>
#[kani::proof]
#[kani::unwind(10)]
fn vq_c04_max_streams_decode() {
    let value: u64 = kani::any();
    kani::assume(value <= MAXV);
    let wide: bool = kani::any();
    // RFC 9000 19.11: MAX_STREAMS type 0x12 (bidi) / 0x13 (uni); 19.14: STREAMS_BLOCKED type 0x16 / 0x17
    let tag: u8 = match kani::any::<u8>() % 4 {
        0 => 0x12,
        1 => 0x13,
        2 => 0x16,
        _ => 0x17,
    };
    let mut bytes = [0u8; 9];
    bytes[0] = tag;
    let n = 1 + rfc_varint(&mut bytes, 1, value, wide);
    // the frame decoder (frame/mod.rs `frames!`) dispatches on the tag byte and hands the rest of the buffer to
    // `decode_parameterized(tag)`; the whole `Frame` decoder did not finish under Kani within 300 s, so the two
    // contracted decoders are called the same way, directly
    let body = DecoderBuffer::new(&bytes[1..n]);
    let is_max_streams = tag == 0x12 || tag == 0x13;
    let (ok, right, consumed, err_code) = if is_max_streams {
        match body.decode_parameterized::<MaxStreams>(tag) {
            Ok((f, rest)) => (true, f.maximum_streams.as_u64() == value && (f.stream_type == StreamType::Bidirectional) == (tag == 0x12) && f.tag() == tag, rest.is_empty(), -1),
            // what space/mod.rs:953-955 does with a frame decode error
            Err(e) => (false, false, false, transport::Error::from(e).code.as_u64() as i128),
        }
    } else {
        match body.decode_parameterized::<StreamsBlocked>(tag) {
            Ok((f, rest)) => (true, f.stream_limit.as_u64() == value && (f.stream_type == StreamType::Bidirectional) == (tag == 0x16) && f.tag() == tag, rest.is_empty(), -1),
            Err(e) => (false, false, false, transport::Error::from(e).code.as_u64() as i128),
        }
    };
    // RFC 9000 4.6: "If a max_streams transport parameter or a MAX_STREAMS frame is received with a value greater
    // than 2^60 ... the connection MUST be closed immediately with a connection error of type ...
    // FRAME_ENCODING_ERROR if it was received in a frame"; 19.14 likewise for STREAMS_BLOCKED
    if is_max_streams {
        assert!(ok == (value <= MAX_STREAMS), "C04/max_streams.decode/err_iff_value_over_2_60");
        assert!(!ok || (consumed && right), "C04/max_streams.decode/ok_yields_the_value_and_stream_type");
    } else {
        assert!(ok == (value <= MAX_STREAMS), "C04/streams_blocked.decode/err_iff_value_over_2_60");
        assert!(!ok || (consumed && right), "C04/streams_blocked.decode/ok_yields_the_value_and_stream_type");
    }
    // the prescribed code, or the generic PROTOCOL_VIOLATION that RFC 9000 11 permits in its place
    let permitted = err_code == code_frame_encoding_error()
        || err_code == code_protocol_violation()
        || (!is_max_streams && err_code == code_stream_limit_error());
    assert!(ok || permitted, "C04/max_streams.decode/err_maps_to_frame_encoding_error_or_a_permitted_code");
    kani::cover!(ok && value == MAX_STREAMS, "reach:exactly_2_60_accepted");
    kani::cover!(!ok && value == MAX_STREAMS + 1, "reach:2_60_plus_1_rejected");
    kani::cover!(!ok && tag == 0x17, "reach:streams_blocked_rejected");
    kani::cover!(ok && value == 0 && !wide, "reach:one_byte_value");
    kani::cover!(ok && value == 0 && wide, "reach:non_minimal_encoding");
    kani::cover!(!ok && value == MAXV, "reach:varint_max");
}

//@ harness props=C04 tier=quick level=full timeout=120
//@ fn transport::Error::{NO_ERROR..AEAD_LIMIT_REACHED}
#[kani::proof]
#[kani::unwind(3)]
fn vq_c04_transport_error_codes() {
    // RFC 9000 20.1, Table 7
    let c = |e: transport::Error| e.code.as_u64() as i128;
    assert!(c(transport::Error::NO_ERROR) == 0x0, "C04/transport_error.codes/no_error_is_0x0");
    assert!(c(transport::Error::INTERNAL_ERROR) == 0x1, "C04/transport_error.codes/internal_error_is_0x1");
    assert!(c(transport::Error::CONNECTION_REFUSED) == 0x2, "C04/transport_error.codes/connection_refused_is_0x2");
    assert!(c(transport::Error::FLOW_CONTROL_ERROR) == 0x3 && code_flow_control_error() == 0x3, "C04/transport_error.codes/flow_control_error_is_0x3");
    assert!(c(transport::Error::STREAM_LIMIT_ERROR) == 0x4 && code_stream_limit_error() == 0x4, "C04/transport_error.codes/stream_limit_error_is_0x4");
    assert!(c(transport::Error::STREAM_STATE_ERROR) == 0x5 && code_stream_state_error() == 0x5, "C04/transport_error.codes/stream_state_error_is_0x5");
    assert!(c(transport::Error::FINAL_SIZE_ERROR) == 0x6 && code_final_size_error() == 0x6, "C04/transport_error.codes/final_size_error_is_0x6");
    assert!(c(transport::Error::FRAME_ENCODING_ERROR) == 0x7 && code_frame_encoding_error() == 0x7, "C04/transport_error.codes/frame_encoding_error_is_0x7");
    assert!(c(transport::Error::TRANSPORT_PARAMETER_ERROR) == 0x8 && code_transport_parameter_error() == 0x8, "C04/transport_error.codes/transport_parameter_error_is_0x8");
    assert!(c(transport::Error::CONNECTION_ID_LIMIT_ERROR) == 0x9, "C04/transport_error.codes/connection_id_limit_error_is_0x9");
    assert!(c(transport::Error::PROTOCOL_VIOLATION) == 0xa && code_protocol_violation() == 0xa, "C04/transport_error.codes/protocol_violation_is_0xa");
    assert!(c(transport::Error::INVALID_TOKEN) == 0xb, "C04/transport_error.codes/invalid_token_is_0xb");
    assert!(c(transport::Error::APPLICATION_ERROR) == 0xc, "C04/transport_error.codes/application_error_is_0xc");
    assert!(c(transport::Error::CRYPTO_BUFFER_EXCEEDED) == 0xd, "C04/transport_error.codes/crypto_buffer_exceeded_is_0xd");
    assert!(c(transport::Error::KEY_UPDATE_ERROR) == 0xe, "C04/transport_error.codes/key_update_error_is_0xe");
    assert!(c(transport::Error::AEAD_LIMIT_REACHED) == 0xf, "C04/transport_error.codes/aead_limit_reached_is_0xf");
    // RFC 9000 20.1: CRYPTO_ERROR 0x0100-0x01ff carries the TLS alert in the low byte
    let alert: u8 = kani::any();
    assert!(c(transport::Error::crypto_error(alert)) == 0x100 + alert as i128, "C04/transport_error.codes/crypto_error_is_0x100_plus_alert");
    // builder methods used on the error paths keep the code
    let e = transport::Error::FLOW_CONTROL_ERROR.with_reason("x").with_frame_type(VarInt::from_u8(8));
    assert!(c(e) == 0x3, "C04/transport_error.with_reason_frame_type/keeps_code");
    kani::cover!(alert == 0xff, "reach:end");
}
