//@ inject crate=core src=quic/s2n-quic-core/src/stream/id.rs
// Contract harnesses for StreamId::{initial, nth, next_of_type, initiator, stream_type}
// (properties C12: "stream IDs of each type are opened in increasing order and never reused";
// C03: stream-count limits are expressed through StreamId::nth).
// Predicates: contracts/spec/stream_id.rs (shared with verus/lemmas/C12.rs).
use super::*;
#[allow(dead_code, unused_variables)]
mod spec {
    include!("../../spec/stream_id.rs");
}
use spec::*;

const MAXV: u64 = crate::varint::MAX_VARINT_VALUE;

fn any_type() -> (bool, bool, endpoint::Type, StreamType) {
    let client: bool = kani::any();
    let bidi: bool = kani::any();
    (
        client,
        bidi,
        if client { endpoint::Type::Client } else { endpoint::Type::Server },
        if bidi { StreamType::Bidirectional } else { StreamType::Unidirectional },
    )
}

fn val(id: StreamId) -> i128 {
    id.as_varint().as_u64() as i128
}

/// independent reading of the type bits (RFC 9000 2.1), not the code's own accessors
fn bits_match(id: StreamId, client: bool, bidi: bool) -> bool {
    let v = id.as_varint().as_u64();
    ((v & 1) == 0) == client && ((v & 2) == 0) == bidi
}

//@ harness props=C12,C03 tier=quick level=full timeout=120
//@ fn StreamId::initial
//@ fn StreamId::initiator
//@ fn StreamId::stream_type
#[kani::proof]
#[kani::unwind(2)]
fn vq_c12_stream_id_initial_and_type_bits() {
    let (client, bidi, initiator, ty) = any_type();
    let id = StreamId::initial(initiator, ty);
    assert!(sid_initial_post(client, bidi, val(id)), "C12/stream_id.initial/rfc9000_table1");
    assert!(bits_match(id, client, bidi), "C12/stream_id.initial/type_bits");
    // accessors on an arbitrary id: least significant bit = initiator, second bit = direction
    let v: u64 = kani::any();
    kani::assume(v <= MAXV);
    let any = StreamId::from_varint(VarInt::new(v).unwrap());
    assert!((any.initiator() == endpoint::Type::Client) == (v & 1 == 0), "C12/stream_id.initiator/least_significant_bit");
    assert!((any.stream_type() == StreamType::Bidirectional) == (v & 2 == 0), "C12/stream_id.stream_type/second_bit");
    assert!(
        sid_type_bits(v as i128) == sid_type_of(any.initiator() == endpoint::Type::Client, any.stream_type() == StreamType::Bidirectional),
        "C12/stream_id.accessors/agree_with_type_bits"
    );
    assert!(val(any) == v as i128 && u64::from(any) == v && VarInt::from(any).as_u64() == v, "C12/stream_id.from_varint/roundtrip");
    kani::cover!(v == MAXV, "reach:max_id");
    kani::cover!(val(id) == 3, "reach:server_uni");
    kani::cover!(val(id) == 0, "reach:client_bidi");
}

//@ harness props=C12,C03 tier=quick level=full timeout=120
//@ fn StreamId::next_of_type
#[kani::proof]
#[kani::unwind(2)]
fn vq_c12_stream_id_next_of_type() {
    let v: u64 = kani::any();
    kani::assume(v <= MAXV);
    let id = StreamId::from_varint(VarInt::new(v).unwrap());
    let r = id.next_of_type();
    let (some, rv) = match r {
        Some(n) => (true, val(n)),
        None => (false, 0),
    };
    assert!(sid_next_some_iff_in_range(v as i128, some), "C12/stream_id.next_of_type/none_only_past_2_62_minus_1");
    assert!(sid_next_value(v as i128, some, rv), "C12/stream_id.next_of_type/is_id_plus_four");
    if let Some(n) = r {
        assert!(sid_valid(rv), "C12/stream_id.next_of_type/result_is_62_bit");
        assert!(sid_type_bits(rv) == sid_type_bits(v as i128), "C12/stream_id.next_of_type/type_bits_preserved");
        assert!(n.initiator() == id.initiator() && n.stream_type() == id.stream_type(), "C12/stream_id.next_of_type/same_initiator_and_direction");
        assert!(n > id, "C12/stream_id.next_of_type/strictly_increasing");
    }
    kani::cover!(some && rv == MAXV as i128, "reach:last_id");
    kani::cover!(!some && v == MAXV - 3, "reach:first_without_successor");
    kani::cover!(some && v == 0, "reach:first");
}

//@ harness props=C12,C03 tier=quick level=full timeout=120
//@ fn StreamId::nth
#[kani::proof]
#[kani::unwind(2)]
fn vq_c12_stream_id_nth() {
    let (client, bidi, initiator, ty) = any_type();
    let n: u64 = kani::any();
    let r = StreamId::nth(initiator, ty, n);
    let (some, rv) = match r {
        Some(s) => (true, val(s)),
        None => (false, 0),
    };
    assert!(sid_nth_some_iff_in_range(client, bidi, n as i128, some), "C12/stream_id.nth/none_only_past_2_62_minus_1");
    assert!(sid_nth_value(client, bidi, n as i128, some, rv), "C12/stream_id.nth/is_4n_plus_type");
    if let Some(s) = r {
        assert!(bits_match(s, client, bidi), "C12/stream_id.nth/type_bits");
        assert!(s.initiator() == initiator && s.stream_type() == ty, "C12/stream_id.nth/accessors");
        // nth(0) is the initial id and nth(n+1) is the successor of nth(n): allocation by
        // next_of_type enumerates exactly the ids nth() names, in increasing order
        assert!(n != 0 || s == StreamId::initial(initiator, ty), "C12/stream_id.nth/zeroth_is_initial");
        match s.next_of_type() {
            Some(nx) => assert!(StreamId::nth(initiator, ty, n + 1) == Some(nx), "C12/stream_id.nth/successor_is_next_of_type"),
            None => assert!(StreamId::nth(initiator, ty, n + 1).is_none(), "C12/stream_id.nth/no_successor_past_max"),
        }
    }
    kani::cover!(some && rv == MAXV as i128, "reach:last_id");
    kani::cover!(!some && n == (1u64 << 60), "reach:first_out_of_range");
    kani::cover!(!some && n == u64::MAX, "reach:mul_overflow");
    kani::cover!(some && n == 0, "reach:initial");
}
