//@ inject crate=dc src=dc/s2n-quic-dc/src/path/secret/key.rs
// Contract harnesses for path::secret::key::open::Application::{decrypt, decrypt_in_place} (property C18: "a packet is
// acted upon only if its authentication tag verifies"): a packet that fails the AEAD open, or the replay (dedup) check,
// changes no key state -- in particular it cannot schedule a key update by carrying the other key-phase bit.
//
// Stand-ins (A-aead; all FFI-backed):
//   * `aws_lc_rs::aead::LessSafeKey::{open_separate_gather, open_in_place_separate_tag}` (AES-GCM, C code) are stubbed by
//     models that answer with a symbolic verdict and record which key object and which byte slices they were given;
//     the crate's own `awslc::open::Application::decrypt*` wrappers around them are real.
//   * `map::Dedup::check` (consults the path-secret map: Arc, hash maps) is stubbed by a model with a symbolic verdict
//     that counts its calls.
//   * The two `awslc::open::Application` keys and the `schedule::OpenUpdate` stored inside the object are opaque FFI handles
//     (EVP_AEAD_CTX, HKDF PRK).  They are created as unconstrained bytes (`opaque()`); every operation on them that the
//     contracted functions reach is one of the stubs above.  `schedule::OpenUpdate::next` (HKDF, called by the real
//     constructor `Application::new`) is stubbed to return such opaque values.
// Builder restriction: the fields of `open::Application` are private to the *inline* module `key::open`, into which
// nothing can be injected, so states are built through the real API only: `Application::new` (expected phase Zero,
// needs_update false) followed by an optional authentic packet of phase One (needs_update true).  The expected phase
// One is not reachable without `update()` (event subscriber, clock); hence level=bounded.
use super::*;
use crate::crypto::{awslc, open::Application as _, UninitSlice};
use aws_lc_rs::{
    aead::{Aad, LessSafeKey, Nonce},
    error::Unspecified,
};
use core::mem::{ManuallyDrop, MaybeUninit};

type R = crate::crypto::open::Result;
use crate::crypto::open::Error as E;

static mut AEAD_OK: bool = false;
static mut AEAD_CALLS: u32 = 0;
static mut AEAD_KEY: *const LessSafeKey = core::ptr::null();
static mut AEAD_AAD: (*const u8, usize) = (core::ptr::null(), 0);
static mut AEAD_IN: (*const u8, usize) = (core::ptr::null(), 0);
static mut AEAD_TAG: (*const u8, usize) = (core::ptr::null(), 0);
static mut DEDUP_VERDICT: u8 = 0;
static mut DEDUP_CALLS: u32 = 0;

fn open_separate_gather_model<A: AsRef<[u8]>>(
    this: &LessSafeKey,
    _nonce: Nonce,
    aad: Aad<A>,
    in_ciphertext: &[u8],
    in_tag: &[u8],
    _out_plaintext: &mut [u8],
) -> Result<(), Unspecified> {
    unsafe {
        AEAD_CALLS += 1;
        AEAD_KEY = this as *const LessSafeKey;
        let a: &[u8] = aad.as_ref();
        AEAD_AAD = (a.as_ptr(), a.len());
        AEAD_IN = (in_ciphertext.as_ptr(), in_ciphertext.len());
        AEAD_TAG = (in_tag.as_ptr(), in_tag.len());
        if AEAD_OK {
            Ok(())
        } else {
            Err(Unspecified)
        }
    }
}

fn open_in_place_separate_tag_model<'in_out, A: AsRef<[u8]>>(
    this: &LessSafeKey,
    _nonce: Nonce,
    aad: Aad<A>,
    tag: &[u8],
    in_out: &'in_out mut [u8],
) -> Result<&'in_out mut [u8], Unspecified> {
    unsafe {
        AEAD_CALLS += 1;
        AEAD_KEY = this as *const LessSafeKey;
        let a: &[u8] = aad.as_ref();
        AEAD_AAD = (a.as_ptr(), a.len());
        AEAD_IN = (in_out.as_ptr(), in_out.len());
        AEAD_TAG = (tag.as_ptr(), tag.len());
        if AEAD_OK {
            Ok(in_out)
        } else {
            Err(Unspecified)
        }
    }
}

fn dedup_check_model(_this: &map::Dedup) -> R {
    unsafe {
        DEDUP_CALLS += 1;
        match DEDUP_VERDICT {
            0 => Ok(()),
            1 => Err(E::ReplayDefinitelyDetected),
            _ => Err(E::ReplayPotentiallyDetected { gap: None }),
        }
    }
}

fn dedup_error() -> R {
    dedup_check_model_pure(unsafe { DEDUP_VERDICT })
}

fn dedup_check_model_pure(v: u8) -> R {
    match v {
        0 => Ok(()),
        1 => Err(E::ReplayDefinitelyDetected),
        _ => Err(E::ReplayPotentiallyDetected { gap: None }),
    }
}

/// `zeroize::optimization_barrier` is an inline-asm *comment* (no instruction) that only keeps the compiler from eliding
/// the wipe; Kani does not support inline asm, so it is replaced by the no-op it is.
fn optimization_barrier_model<T: ?Sized>(_val: &T) {}

/// an opaque FFI handle: unconstrained bytes, never inspected (see the header comment)
fn opaque<T>() -> T {
    unsafe { MaybeUninit::<T>::uninit().assume_init() }
}

fn open_update_next_model(_this: &schedule::OpenUpdate) -> (awslc::open::Application, schedule::OpenUpdate) {
    (opaque(), opaque())
}

fn any_phase() -> KeyPhase {
    if kani::any() {
        KeyPhase::One
    } else {
        KeyPhase::Zero
    }
}

const HL: usize = 4; // header bytes handed to the AEAD as AAD (contents irrelevant to the stand-in)
const PL: usize = 4; // payload bytes

/// object in an arbitrary API-reachable state; never dropped (dropping the opaque handles would call into aws-lc)
fn any_application() -> ManuallyDrop<open::Application> {
    // the OpenUpdate handed to `new` is consumed and dropped there, so it is a real one (Prk::new_less_safe is plain
    // Rust); the one `new` stores comes from the stubbed `next()` and is opaque like the two keys
    let ku = schedule::OpenUpdate::new(&[0u8; 32], &schedule::Ciphersuite::AES_GCM_128_SHA256);
    let app = ManuallyDrop::new(open::Application::new(opaque(), ku, map::Dedup::disabled()));
    if kani::any() {
        // an earlier authentic, fresh packet carrying the other key phase
        unsafe {
            AEAD_OK = true;
            DEDUP_VERDICT = 0;
        }
        let header = [0u8; HL];
        let tag = [0u8; 16];
        let mut payload = [0u8; PL];
        let r = app.decrypt_in_place(KeyPhase::One, 0, &header, &mut payload, &tag);
        assert!(r.is_ok() && app.needs_update(), "C18/key.open.builder/authentic_other_phase_packet_schedules_update");
    }
    unsafe {
        AEAD_CALLS = 0;
        DEDUP_CALLS = 0;
        AEAD_OK = kani::any();
        DEDUP_VERDICT = kani::any();
        kani::assume(DEDUP_VERDICT <= 2);
    }
    app
}

/// the contract shared by decrypt and decrypt_in_place, given the observations of one call
fn check_outcome(r: R, phase: KeyPhase, before: bool, after: bool) {
    let (aead_ok, dedup_v, aead_calls, dedup_calls) = unsafe { (AEAD_OK, DEDUP_VERDICT, AEAD_CALLS, DEDUP_CALLS) };
    assert!(aead_calls == 1, "C18/key.open/aead_open_attempted_exactly_once");
    assert!(r.is_ok() == (aead_ok && dedup_v == 0), "C18/key.open/ok_iff_authentic_and_not_a_replay");
    if !aead_ok {
        assert!(r == Err(E::InvalidTag), "C18/key.open/forged_packet_reports_invalid_tag");
        assert!(after == before, "C18/key.open/forged_packet_never_schedules_key_update");
        assert!(dedup_calls == 0, "C18/key.open/forged_packet_never_consumes_the_replay_token");
    } else {
        assert!(dedup_calls == 1, "C18/key.open/replay_check_exactly_once_after_authentication");
        if dedup_v != 0 {
            assert!(r == dedup_error(), "C18/key.open/replayed_packet_reports_the_replay_error");
            assert!(after == before, "C18/key.open/replayed_packet_never_schedules_key_update");
        }
    }
    // expected phase is Zero in every buildable state (see header): exact next state of the flag
    assert!(after == (before || (r.is_ok() && phase == KeyPhase::One)),
            "C18/key.open/needs_update_set_exactly_by_accepted_packet_of_other_phase");
    kani::cover!(!aead_ok && phase == KeyPhase::One && !before, "reach:forged_packet_with_flipped_phase");
    kani::cover!(aead_ok && dedup_v == 1 && phase == KeyPhase::One && !before, "reach:replayed_packet_with_flipped_phase");
    kani::cover!(r.is_ok() && phase == KeyPhase::One && !before && after, "reach:update_scheduled");
    kani::cover!(r.is_ok() && phase == KeyPhase::Zero && before, "reach:current_phase_keeps_pending_update");
    kani::cover!(true, "reach:end");
}

//@ harness props=C18 tier=quick level=bounded timeout=900 bound="expected key phase Zero (states reachable through Application::new + decrypt*), payload 4 bytes, header 4 bytes (contents symbolic)"
//@ fn path::secret::key::open::Application::decrypt
//@ fn path::secret::key::open::Application::on_decrypt_success
//@ fn path::secret::key::open::Application::needs_update
//@ fn crypto::awslc::open::Application::decrypt
#[kani::proof]
#[kani::unwind(70)]
#[kani::stub(aws_lc_rs::aead::LessSafeKey::open_separate_gather, open_separate_gather_model)]
#[kani::stub(aws_lc_rs::aead::LessSafeKey::open_in_place_separate_tag, open_in_place_separate_tag_model)]
#[kani::stub(crate::path::secret::map::Dedup::check, dedup_check_model)]
#[kani::stub(crate::path::secret::schedule::OpenUpdate::next, open_update_next_model)]
#[kani::stub(zeroize::optimization_barrier, optimization_barrier_model)]
fn vq_c18_key_open_decrypt() {
    let app = any_application();
    let before = app.needs_update();
    let phase = any_phase();
    let pn: u64 = kani::any();
    let header: [u8; HL] = kani::any();
    let tag: [u8; 16] = kani::any();
    let payload_in: [u8; PL] = kani::any();
    let mut out = [0xffu8; PL];
    let pl: usize = PL; // concrete: a symbolic length makes CBMC unwind the wipe loop up to the global bound
    let r = app.decrypt(phase, pn, &header, &payload_in[..pl], &tag, UninitSlice::new(&mut out[..pl]));
    let after = app.needs_update();
    check_outcome(r, phase, before, after);
    unsafe {
        assert!(AEAD_AAD == (header.as_ptr(), HL) && AEAD_IN == (payload_in.as_ptr(), pl) && AEAD_TAG == (tag.as_ptr(), 16),
                "C18/key.open.decrypt/aead_is_given_header_as_aad_payload_and_tag");
        if AEAD_OK && DEDUP_VERDICT != 0 {
            // the plaintext of a replayed packet is wiped before the error is returned
            assert!((pl < 1 || out[0] == 0) && (pl < 2 || out[1] == 0) && (pl < 3 || out[2] == 0) && (pl < 4 || out[3] == 0),
                    "C18/key.open.decrypt/replayed_plaintext_is_wiped");
        }
    }
    kani::cover!(pl == PL, "reach:full_payload");
}

//@ harness props=C18 tier=thorough level=bounded timeout=2400 bound="expected key phase Zero (states reachable through Application::new + decrypt*), payload 4 bytes, header 4 bytes (contents symbolic)"
//@ fn path::secret::key::open::Application::decrypt_in_place
//@ fn path::secret::key::open::Application::on_decrypt_success
//@ fn path::secret::key::open::Application::needs_update
//@ fn crypto::awslc::open::Application::decrypt_in_place
#[kani::proof]
#[kani::unwind(70)]
#[kani::stub(aws_lc_rs::aead::LessSafeKey::open_separate_gather, open_separate_gather_model)]
#[kani::stub(aws_lc_rs::aead::LessSafeKey::open_in_place_separate_tag, open_in_place_separate_tag_model)]
#[kani::stub(crate::path::secret::map::Dedup::check, dedup_check_model)]
#[kani::stub(crate::path::secret::schedule::OpenUpdate::next, open_update_next_model)]
#[kani::stub(zeroize::optimization_barrier, optimization_barrier_model)]
fn vq_c18_key_open_decrypt_in_place() {
    let app = any_application();
    let before = app.needs_update();
    let phase = any_phase();
    let pn: u64 = kani::any();
    let header: [u8; HL] = kani::any();
    let tag: [u8; 16] = kani::any();
    let mut payload: [u8; PL] = kani::any();
    kani::assume(payload[0] != 0); // so that wiping is observable
    let pl: usize = PL; // concrete: a symbolic length makes CBMC unwind the wipe loop up to the global bound
    let base = payload.as_ptr();
    let r = app.decrypt_in_place(phase, pn, &header, &mut payload[..pl], &tag);
    let after = app.needs_update();
    check_outcome(r, phase, before, after);
    unsafe {
        assert!(AEAD_AAD == (header.as_ptr(), HL) && AEAD_IN == (base, pl) && AEAD_TAG == (tag.as_ptr(), 16),
                "C18/key.open.decrypt_in_place/aead_is_given_header_as_aad_payload_and_tag");
        if AEAD_OK && DEDUP_VERDICT != 0 {
            assert!((pl < 1 || payload[0] == 0) && (pl < 2 || payload[1] == 0) && (pl < 3 || payload[2] == 0)
                        && (pl < 4 || payload[3] == 0),
                    "C18/key.open.decrypt_in_place/replayed_plaintext_is_wiped");
        }
    }
    kani::cover!(pl == PL, "reach:full_payload");
}

//@ harness props=C18 tier=thorough level=bounded timeout=2400 bound="expected key phase Zero; two consecutive packets"
//@ fn path::secret::key::open::Application::decrypt_in_place
#[kani::proof]
#[kani::unwind(70)]
#[kani::stub(aws_lc_rs::aead::LessSafeKey::open_separate_gather, open_separate_gather_model)]
#[kani::stub(aws_lc_rs::aead::LessSafeKey::open_in_place_separate_tag, open_in_place_separate_tag_model)]
#[kani::stub(crate::path::secret::map::Dedup::check, dedup_check_model)]
#[kani::stub(crate::path::secret::schedule::OpenUpdate::next, open_update_next_model)]
#[kani::stub(zeroize::optimization_barrier, optimization_barrier_model)]
fn vq_c18_key_open_selects_key_by_packet_phase() {
    // the key object used for the AEAD open is determined by the phase bit of the packet: same bit, same key;
    // different bit, different key
    let app = any_application();
    let (p1, p2) = (any_phase(), any_phase());
    let header = [0u8; HL];
    let tag = [0u8; 16];
    let mut payload = [0u8; PL];
    let _ = app.decrypt_in_place(p1, 1, &header, &mut payload, &tag);
    let k1 = unsafe { AEAD_KEY };
    let _ = app.decrypt_in_place(p2, 2, &header, &mut payload, &tag);
    let k2 = unsafe { AEAD_KEY };
    assert!((p1 == p2) == (k1 == k2), "C18/key.open/key_selected_by_packet_phase_bit");
    kani::cover!(p1 != p2, "reach:both_phases");
    kani::cover!(true, "reach:end");
}
