// Shared by dc_pkt_control.rs / dc_pkt_datagram.rs (include!d into the harness modules).
//
// A-aead: the real AES-GCM / HMAC implementations are FFI (aws-lc).  The harnesses implement the crate's own
// `crypto::{seal,open}` traits with a keyed stand-in:
//   * sign / verify:     tag = key with the header length and first header byte folded in (16 bytes, loop-free);
//   * encrypt / decrypt: payload bytes XORed with a key byte, tag as above plus the packet number.
// What is claimed with it is codec behaviour (round trip, lengths, which bytes are handed to the crypto), never
// unforgeability.
use core::cell::Cell;

const MAXV: u64 = (1u64 << 62) - 1;
const TAGLEN: usize = 16;

struct StandInKey {
    key: [u8; TAGLEN],
    // recorded by sign(): the slices handed to the MAC
    signed_header: Cell<(*const u8, usize)>,
    signed_tag: Cell<(*const u8, usize)>,
}

impl StandInKey {
    fn new() -> Self {
        Self { key: kani::any(), signed_header: Cell::new((core::ptr::null(), 0)), signed_tag: Cell::new((core::ptr::null(), 0)) }
    }

    fn mac(&self, header: &[u8], pn: u64) -> u128 {
        let mut t = self.key;
        t[0] ^= header.len() as u8;
        if !header.is_empty() {
            t[1] ^= header[0];
        }
        u128::from_be_bytes(t) ^ ((pn as u128) << 32)
    }
}

fn be16(s: &[u8]) -> u128 {
    u128::from_be_bytes([s[0], s[1], s[2], s[3], s[4], s[5], s[6], s[7], s[8], s[9], s[10], s[11], s[12], s[13], s[14], s[15]])
}

impl crate::crypto::seal::Control for StandInKey {
    fn tag_len(&self) -> usize {
        TAGLEN
    }

    fn sign(&self, header: &[u8], tag: &mut [u8]) {
        self.signed_header.set((header.as_ptr(), header.len()));
        self.signed_tag.set((tag.as_ptr(), tag.len()));
        let t = self.mac(header, 0).to_be_bytes();
        tag.copy_from_slice(&t);
    }
}

impl crate::crypto::seal::control::Stream for StandInKey {
    fn retransmission_tag(&self, _original_packet_number: u64, _retransmission_packet_number: u64, _tag_out: &mut [u8]) {}
}

impl crate::crypto::open::Control for StandInKey {
    fn tag_len(&self) -> usize {
        TAGLEN
    }

    fn verify(&self, header: &[u8], tag: &[u8]) -> crate::crypto::open::Result {
        if tag.len() == TAGLEN && be16(tag) == self.mac(header, 0) {
            Ok(())
        } else {
            Err(crate::crypto::open::Error::InvalidTag)
        }
    }
}

// ---- independent transcription of RFC 9000 section 16 varints --------------------------------------------------------
fn varint_len(v: u64) -> usize {
    if v < (1 << 6) {
        1
    } else if v < (1 << 14) {
        2
    } else if v < (1 << 30) {
        4
    } else {
        8
    }
}

/// decodes the varint at `pos` of `buf[..end]`; None when truncated
fn oracle_varint(buf: &[u8], pos: usize, end: usize) -> Option<(u64, usize)> {
    if pos >= end {
        return None;
    }
    let b0 = buf[pos];
    let n = 1usize << (b0 >> 6);
    if pos + n > end {
        return None;
    }
    let mut v = (b0 & 0x3f) as u64;
    if n >= 2 {
        v = (v << 8) | buf[pos + 1] as u64;
    }
    if n >= 4 {
        v = (v << 8) | buf[pos + 2] as u64;
        v = (v << 8) | buf[pos + 3] as u64;
    }
    if n == 8 {
        v = (v << 8) | buf[pos + 4] as u64;
        v = (v << 8) | buf[pos + 5] as u64;
        v = (v << 8) | buf[pos + 6] as u64;
        v = (v << 8) | buf[pos + 7] as u64;
    }
    Some((v, n))
}

fn any_varint() -> VarInt {
    let v: u64 = kani::any();
    kani::assume(v <= MAXV);
    VarInt::new(v).unwrap()
}

fn any_opt_varint() -> Option<VarInt> {
    if kani::any() {
        Some(any_varint())
    } else {
        None
    }
}

fn opt_u64(v: Option<VarInt>) -> Option<u64> {
    match v {
        Some(v) => Some(v.as_u64()),
        None => None,
    }
}

fn any_credentials() -> Credentials {
    let id: [u8; 16] = kani::any();
    Credentials { id: crate::credentials::Id::from(id), key_id: any_varint() }
}

fn id_of(id: &crate::credentials::Id) -> u128 {
    let b: [u8; 16] = **id;
    u128::from_be_bytes(b)
}
