//@ inject crate=dc src=dc/s2n-quic-dc/src/path/secret/sender.rs
// Contract harnesses for the dc key-id sender (property C19, sender half).
// Predicates: contracts/spec/dc_keys.rs (shared with the Verus lemmas in verus/lemmas/C19.rs).
// Concurrency: `fetch_update` / `fetch_max` are single atomic read-modify-write operations; Kani executes
// them sequentially.  Their linearizability is assumption A-atomics; what is proved is the sequential contract.
use super::*;
#[allow(dead_code, unused_variables)]
mod spec {
    include!("../../spec/dc_keys.rs");
}
use spec::*;

const KEY_MAX: u64 = (1u64 << 62) - 1;

/// arbitrary sender state satisfying dcs_inv (the only code touching the private field).
/// `current_id` starts at 0 and is only written by next_key_id (-> cur + 1 <= 2^62 - 2) and
/// update_for_stale_key (-> max(cur, VarInt)), both re-establish 0 <= cur <= VarInt::MAX (asserted below).
fn any_sender(cur: u64) -> State {
    let tag: [u8; secret_control::TAG_LEN] = kani::any();
    let s = State::new(tag);
    s.current_id.store(cur, Ordering::Relaxed);
    s
}

/// the frame field as one integer (a `==` on the array would be a 16-iteration memcmp loop)
fn tag_of(s: &State) -> u128 {
    u128::from_le_bytes(s.stateless_reset)
}

fn abs(s: &State) -> i128 {
    s.current_id.load(Ordering::Relaxed) as i128
}

//@ harness props=C19 tier=quick level=full timeout=120
//@ fn path::secret::sender::State::new
#[kani::proof]
#[kani::unwind(3)]
fn vq_c19_sender_new() {
    let tag: [u8; secret_control::TAG_LEN] = kani::any();
    let s = State::new(tag);
    assert!(abs(&s) == 0, "C19/sender.new/starts_at_zero");
    assert!(dcs_inv(abs(&s)), "C19/sender.new/inv_established");
    assert!(tag_of(&s) == u128::from_le_bytes(tag), "C19/sender.new/stateless_reset_stored");
    kani::cover!(true, "reach:end");
}

//@ harness props=C19 tier=quick level=full timeout=120
//@ fn path::secret::sender::State::next_key_id
#[kani::proof]
#[kani::unwind(3)]
fn vq_c19_sender_next_key_id() {
    let cur: u64 = kani::any();
    // argument range: below the documented panic point (the call issuing 2^62 - 2 would leave
    // current == VarInt::MAX, which is reserved; the code panics instead of issuing it)
    kani::assume(dcs_next_pre(cur as i128));
    let s = any_sender(cur);
    let tag = tag_of(&s);
    let old = abs(&s);
    let r = s.next_key_id();
    let new = abs(&s);
    let r = r.as_u64() as i128;
    assert!(dcs_next_returns_current(old, new, r), "C19/sender.next_key_id/returns_current");
    assert!(dcs_next_increments_by_one(old, new, r), "C19/sender.next_key_id/increments_by_one");
    assert!(dcs_next_issued_below_reserved_max(old, new, r), "C19/sender.next_key_id/never_issues_reserved_max");
    assert!(dcs_inv(new), "C19/sender.next_key_id/inv_preserved");
    assert!(tag_of(&s) == tag, "C19/sender.next_key_id/frame_stateless_reset");
    kani::cover!(cur == 0, "reach:first_id");
    kani::cover!(cur == KEY_MAX - 2, "reach:last_issuable_id");
    kani::cover!(true, "reach:end");
}

//@ harness props=C19 tier=quick level=full timeout=120
//@ fn path::secret::sender::State::update_for_stale_key
#[kani::proof]
#[kani::unwind(3)]
fn vq_c19_sender_update_for_stale_key() {
    let cur: u64 = kani::any();
    kani::assume(dcs_inv(cur as i128));
    let s = any_sender(cur);
    let tag = tag_of(&s);
    let old = abs(&s);
    let m: u64 = kani::any();
    kani::assume(m <= KEY_MAX); // the argument is a VarInt
    s.update_for_stale_key(VarInt::new(m).unwrap());
    let new = abs(&s);
    assert!(dcs_stale_is_max(old, m as i128, new), "C19/sender.update_for_stale_key/current_is_max");
    assert!(new >= old, "C19/sender.update_for_stale_key/never_decreases");
    assert!(dcs_inv(new), "C19/sender.update_for_stale_key/inv_preserved");
    assert!(tag_of(&s) == tag, "C19/sender.update_for_stale_key/frame_stateless_reset");
    kani::cover!(m > cur, "reach:advance");
    kani::cover!(m <= cur, "reach:stale_ignored");
    kani::cover!(m == KEY_MAX, "reach:max_argument");
    kani::cover!(cur == KEY_MAX, "reach:max_state");
    kani::cover!(true, "reach:end");
}

//@ harness props=C19 tier=quick level=full timeout=120
//@ fn path::secret::sender::State::next_key_id
//@ fn path::secret::sender::State::update_for_stale_key
#[kani::proof]
#[kani::unwind(3)]
fn vq_c19_sender_never_reissues() {
    // issue, any stale-key update (or none), issue again: the second id is strictly larger
    let cur: u64 = kani::any();
    kani::assume(dcs_next_pre(cur as i128));
    let s = any_sender(cur);
    let a = s.next_key_id().as_u64();
    let do_update: bool = kani::any();
    let m: u64 = kani::any();
    kani::assume(m <= KEY_MAX);
    if do_update {
        s.update_for_stale_key(VarInt::new(m).unwrap());
    }
    let mid = abs(&s);
    if dcs_next_pre(mid) {
        let b = s.next_key_id().as_u64();
        assert!(b > a, "C19/sender.sequence/second_id_strictly_larger");
        assert!(!do_update || b >= m, "C19/sender.sequence/restarts_at_or_above_stale_minimum");
        kani::cover!(do_update && b == m, "reach:restart_at_minimum");
        kani::cover!(!do_update && b == a + 1, "reach:consecutive");
    }
    kani::cover!(do_update && !dcs_next_pre(mid), "reach:exhausted_by_stale_key");
    kani::cover!(true, "reach:end");
}
