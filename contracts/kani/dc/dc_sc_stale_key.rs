//@ inject crate=dc src=dc/s2n-quic-dc/src/packet/secret_control/stale_key.rs
// Contract harnesses for the StaleKey secret-control packet (property C18): codec round trip, decoder totality and
// exact acceptance, and `Packet::authenticate` = "Some only if the MAC verified, over exactly the packet minus its tag".
use super::*;
include!("_sc_common.rs");

const BASE_TAG: u8 = 0b0110_0001; // STALE_KEY (independent of the crate's constant)

fn any_value() -> StaleKey {
    let id: [u8; 16] = kani::any();
    StaleKey {
        credential_id: credentials::Id::from(id),
        wire_version: WireVersion(kani::any()),
        queue_id: any_queue_id(),
        min_key_id: any_varint(),
    }
}

//@ harness props=C18 tier=quick level=full timeout=120
//@ fn packet::secret_control::stale_key::Packet::authenticate
#[kani::proof]
#[kani::unwind(3)]
fn vq_c18_stale_key_authenticate() {
    // an arbitrary decoded packet: header and crypto_tag are arbitrary sub-slices of some datagram, value arbitrary.
    // authenticate() never reads the bytes itself, so slice identity (pointer, length) is what has to be shown.
    let storage: [u8; BUF] = kani::any();
    let (a, b, c, d): (usize, usize, usize, usize) = (kani::any(), kani::any(), kani::any(), kani::any());
    kani::assume(a <= b && b <= BUF && c <= d && d <= BUF);
    let packet = Packet { header: &storage[a..b], value: any_value(), crypto_tag: &storage[c..d] };
    let opener = RecordingOpener::new(kani::any());
    let r = packet.authenticate(&opener);
    assert!(opener.calls.get() == 1, "C18/stale_key.authenticate/verify_called_exactly_once");
    assert!(r.is_some() == opener.answer, "C18/stale_key.authenticate/some_iff_verify_ok");
    assert!(opener.header_ptr.get() == packet.header.as_ptr() && opener.header_len.get() == b - a,
            "C18/stale_key.authenticate/verified_bytes_are_the_whole_header");
    assert!(opener.tag_ptr.get() == packet.crypto_tag.as_ptr() && opener.tag_len.get() == d - c,
            "C18/stale_key.authenticate/verified_tag_is_the_packet_tag");
    if let Some(v) = r {
        assert!(core::ptr::eq(v, &packet.value), "C18/stale_key.authenticate/returns_the_decoded_value");
    }
    kani::cover!(r.is_some(), "reach:authentic");
    kani::cover!(r.is_none(), "reach:rejected");
    kani::cover!(b - a == 34 && d - c == 16, "reach:longest_header");
    kani::cover!(true, "reach:end");
}

//@ harness props=C18 tier=thorough level=bounded timeout=2400 bound="datagram <= 64 bytes (secret_control::MAX_PACKET_SIZE; longest packet 50), contents and length symbolic"
//@ fn packet::secret_control::stale_key::Packet::decode
//@ fn packet::secret_control::stale_key::Packet::authenticate
//@ fn packet::secret_control::decoder::header_len
//@ fn packet::secret_control::decoder::header
#[kani::proof]
#[kani::unwind(20)]
fn vq_c18_stale_key_decode_total_and_exact() {
    let mut buf: [u8; BUF] = kani::any();
    let snapshot = buf;
    let len: usize = kani::any();
    kani::assume(len <= BUF);
    let expect = oracle_parse(&snapshot, len, BASE_TAG, true);
    let base = buf.as_ptr();
    let r = Packet::decode(DecoderBufferMut::new(&mut buf[..len]));
    match r {
        Ok((packet, rest)) => {
            assert!(expect.is_some(), "C18/stale_key.decode/accepts_only_well_formed");
            let e = expect.unwrap();
            assert!(packet.header.as_ptr() == base && packet.header.len() == e.header_len,
                    "C18/stale_key.decode/header_is_packet_prefix_up_to_tag");
            assert!(packet.crypto_tag.as_ptr() == unsafe { base.add(e.header_len) } && packet.crypto_tag.len() == TAG_LEN,
                    "C18/stale_key.decode/tag_is_the_16_bytes_after_header");
            assert!(rest.len() == len - e.header_len - TAG_LEN, "C18/stale_key.decode/consumes_exactly_header_plus_tag");
            assert!(id_of(&packet.value.credential_id) == e.id, "C18/stale_key.decode/credential_id");
            assert!(packet.value.wire_version == WireVersion(0), "C18/stale_key.decode/wire_version_zero");
            assert!(opt_u64(packet.value.queue_id) == if e.has_queue { Some(e.queue_id) } else { None },
                    "C18/stale_key.decode/queue_id");
            assert!(packet.value.min_key_id.as_u64() == e.key_id, "C18/stale_key.decode/min_key_id");
            assert!(opt_u64(packet.queue_id()) == opt_u64(packet.value.queue_id), "C18/stale_key.decode/queue_id_accessor");
            // the bytes handed to the MAC are exactly the datagram prefix minus its tag
            let opener = RecordingOpener::new(kani::any());
            let a = packet.authenticate(&opener);
            assert!(a.is_some() == opener.answer, "C18/stale_key.decode_authenticate/some_iff_verify_ok");
            assert!(opener.header_ptr.get() == base && opener.header_len.get() == e.header_len
                        && opener.tag_ptr.get() == unsafe { base.add(e.header_len) } && opener.tag_len.get() == TAG_LEN,
                    "C18/stale_key.decode_authenticate/verified_bytes_are_packet_minus_tag");
            kani::cover!(e.has_queue && e.header_len == 34, "reach:longest_packet");
            kani::cover!(!e.has_queue && e.header_len == 19, "reach:shortest_packet");
            kani::cover!(rest.len() > 0, "reach:trailing_bytes");
        }
        Err(_) => {
            assert!(expect.is_none(), "C18/stale_key.decode/accepts_every_well_formed");
            kani::cover!(len == 0, "reach:empty_input");
            kani::cover!(len == 34 && snapshot[0] == BASE_TAG && snapshot[17] == 0, "reach:truncated");
            kani::cover!(len > 18 && snapshot[0] == BASE_TAG && snapshot[17] != 0, "reach:bad_wire_version");
        }
    }
    kani::cover!(true, "reach:end");
}

// Round trip, compositionally: `..._decode_total_and_exact` shows decode == the independent wire-layout oracle on every
// input (and that authenticate verifies exactly header / tag); this harness shows that the oracle reads back, from
// encode's output, exactly the fields that were encoded, and that the MAC was computed over exactly that header into
// exactly that tag.  Hence decode(encode(v)) == v and the sealed packet authenticates under the same key.
//@ harness props=C18 tier=thorough level=full timeout=2400
//@ fn packet::secret_control::stale_key::StaleKey::encode
//@ fn packet::secret_control::encoder::finish
#[kani::proof]
#[kani::unwind(20)]
fn vq_c18_stale_key_encode_wire_image() {
    // all fields full-domain (wire version: only 0 is encodable, see WireVersion::encode's debug_assert and decode)
    let mut value = any_value();
    value.wire_version = WireVersion(0);
    let key = ChecksumKey::new();
    let mut buf = [0u8; BUF];
    let base = buf.as_ptr();
    let len = value.encode(EncoderBuffer::new(&mut buf), &key);
    let e = oracle_parse(&buf, len, BASE_TAG, true);
    assert!(e.is_some(), "C18/stale_key.encode/wire_image_is_well_formed");
    let e = e.unwrap();
    assert!(len == e.header_len + TAG_LEN && len <= 50 && len <= MAX_PACKET_SIZE, "C18/stale_key.encode/returned_len_is_header_plus_tag");
    assert!(e.id == id_of(&value.credential_id), "C18/stale_key.encode/wire_image_carries_credential_id");
    assert!(e.has_queue == value.queue_id.is_some() && (!e.has_queue || Some(e.queue_id) == opt_u64(value.queue_id)),
            "C18/stale_key.encode/wire_image_carries_queue_id");
    assert!(e.key_id == value.min_key_id.as_u64(), "C18/stale_key.encode/wire_image_carries_min_key_id");
    assert!(key.sign_calls.get() == 1 && key.signed_header.get() == (base, e.header_len)
                && key.signed_tag.get() == (unsafe { base.add(e.header_len) }, TAG_LEN),
            "C18/stale_key.encode/mac_computed_over_exactly_the_header_into_the_tag");
    kani::cover!(len == 50, "reach:longest_packet");
    kani::cover!(len == 35, "reach:shortest_packet");
    kani::cover!(true, "reach:end");
}
