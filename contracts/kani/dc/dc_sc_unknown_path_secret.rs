//@ inject crate=dc src=dc/s2n-quic-dc/src/packet/secret_control/unknown_path_secret.rs
// Contract harnesses for the UnknownPathSecret secret-control packet (property C18).  This packet is not MACed: its
// 16-byte tag is the stateless-reset token derived from the path secret, compared in constant time.
//
// A-aead / FFI: `aws_lc_rs::constant_time::verify_slices_are_equal` ends in the C function CRYPTO_memcmp.  It is
// replaced (kani::stub) by `verify_slices_model`, which implements its documented meaning ("Ok iff the two byte
// strings are equal", here for 16-byte strings) and records which slices it was given.
use super::*;
include!("_sc_common.rs");

const BASE_TAG: u8 = 0b0110_0000; // UNKNOWN_PATH_SECRET (independent of the crate's constant)

static mut CMP_CALLS: u32 = 0;
static mut CMP_A: (*const u8, usize) = (core::ptr::null(), 0);
static mut CMP_B: (*const u8, usize) = (core::ptr::null(), 0);

fn verify_slices_model(a: &[u8], b: &[u8]) -> Result<(), aws_lc_rs::error::Unspecified> {
    unsafe {
        CMP_CALLS += 1;
        CMP_A = (a.as_ptr(), a.len());
        CMP_B = (b.as_ptr(), b.len());
    }
    // the model covers 16-byte strings only (loop-free); that this is all the code ever asks for is itself checked
    assert!(a.len() == TAG_LEN && b.len() == TAG_LEN, "C18/unknown_path_secret.authenticate/compares_two_16_byte_strings");
    if tag16(a) == tag16(b) {
        Ok(())
    } else {
        Err(aws_lc_rs::error::Unspecified)
    }
}

fn any_value() -> UnknownPathSecret {
    let id: [u8; 16] = kani::any();
    UnknownPathSecret { credential_id: credentials::Id::from(id), wire_version: WireVersion(kani::any()), queue_id: any_queue_id() }
}

fn tag16(s: &[u8]) -> u128 {
    u128::from_be_bytes([s[0], s[1], s[2], s[3], s[4], s[5], s[6], s[7], s[8], s[9], s[10], s[11], s[12], s[13], s[14], s[15]])
}

//@ harness props=C18 tier=quick level=full timeout=300
//@ fn packet::secret_control::unknown_path_secret::Packet::authenticate
#[kani::proof]
#[kani::unwind(3)]
#[kani::stub(aws_lc_rs::constant_time::verify_slices_are_equal, verify_slices_model)]
fn vq_c18_unknown_path_secret_authenticate() {
    // an arbitrary decoded packet (decode always yields a 16-byte crypto_tag, see ..._decode_total_and_exact)
    let storage: [u8; BUF] = kani::any();
    let (a, b, c): (usize, usize, usize) = (kani::any(), kani::any(), kani::any());
    kani::assume(a <= b && b <= BUF && c <= BUF - TAG_LEN);
    let packet = Packet { header: &storage[a..b], value: any_value(), crypto_tag: &storage[c..c + TAG_LEN] };
    let token: [u8; TAG_LEN] = kani::any();
    let r = packet.authenticate(&token);
    let equal = tag16(packet.crypto_tag) == u128::from_be_bytes(token);
    assert!(r.is_some() == equal, "C18/unknown_path_secret.authenticate/some_iff_tag_equals_stateless_reset_token");
    unsafe {
        assert!(CMP_CALLS == 1, "C18/unknown_path_secret.authenticate/compare_called_exactly_once");
        assert!(CMP_A == (packet.crypto_tag.as_ptr(), TAG_LEN) && CMP_B == (token.as_ptr(), TAG_LEN),
                "C18/unknown_path_secret.authenticate/compares_packet_tag_with_token");
    }
    if let Some(v) = r {
        assert!(core::ptr::eq(v, &packet.value), "C18/unknown_path_secret.authenticate/returns_the_decoded_value");
    }
    kani::cover!(r.is_some(), "reach:authentic");
    kani::cover!(r.is_none(), "reach:rejected");
    kani::cover!(true, "reach:end");
}

//@ harness props=C18 tier=thorough level=bounded timeout=2400 bound="datagram <= 64 bytes (secret_control::MAX_PACKET_SIZE; longest packet 42), contents and length symbolic"
//@ fn packet::secret_control::unknown_path_secret::Packet::decode
//@ fn packet::secret_control::decoder::header_len
//@ fn packet::secret_control::decoder::header
#[kani::proof]
#[kani::unwind(20)]
fn vq_c18_unknown_path_secret_decode_total_and_exact() {
    let mut buf: [u8; BUF] = kani::any();
    let snapshot = buf;
    let len: usize = kani::any();
    kani::assume(len <= BUF);
    let expect = oracle_parse(&snapshot, len, BASE_TAG, false);
    let base = buf.as_ptr();
    let r = Packet::decode(DecoderBufferMut::new(&mut buf[..len]));
    match r {
        Ok((packet, rest)) => {
            assert!(expect.is_some(), "C18/unknown_path_secret.decode/accepts_only_well_formed");
            let e = expect.unwrap();
            assert!(packet.header.as_ptr() == base && packet.header.len() == e.header_len,
                    "C18/unknown_path_secret.decode/header_is_packet_prefix_up_to_tag");
            assert!(packet.crypto_tag.as_ptr() == unsafe { base.add(e.header_len) } && packet.crypto_tag.len() == TAG_LEN,
                    "C18/unknown_path_secret.decode/tag_is_the_16_bytes_after_header");
            assert!(rest.len() == len - e.header_len - TAG_LEN, "C18/unknown_path_secret.decode/consumes_exactly_header_plus_tag");
            assert!(id_of(&packet.value.credential_id) == e.id, "C18/unknown_path_secret.decode/credential_id");
            assert!(id_of(packet.credential_id()) == e.id, "C18/unknown_path_secret.decode/credential_id_accessor");
            assert!(packet.value.wire_version == WireVersion(0), "C18/unknown_path_secret.decode/wire_version_zero");
            assert!(opt_u64(packet.value.queue_id) == if e.has_queue { Some(e.queue_id) } else { None },
                    "C18/unknown_path_secret.decode/queue_id");
            assert!(opt_u64(packet.queue_id()) == opt_u64(packet.value.queue_id), "C18/unknown_path_secret.decode/queue_id_accessor");
            kani::cover!(e.has_queue && e.header_len == 26, "reach:longest_packet");
            kani::cover!(!e.has_queue && e.header_len == 18, "reach:shortest_packet");
            kani::cover!(rest.len() > 0, "reach:trailing_bytes");
        }
        Err(_) => {
            assert!(expect.is_none(), "C18/unknown_path_secret.decode/accepts_every_well_formed");
            kani::cover!(len == 0, "reach:empty_input");
            kani::cover!(len == 33 && snapshot[0] == BASE_TAG && snapshot[17] == 0, "reach:truncated_tag");
            kani::cover!(len > 18 && snapshot[0] == BASE_TAG && snapshot[17] != 0, "reach:bad_wire_version");
        }
    }
    kani::cover!(true, "reach:end");
}

fn encode_any(buf: &mut [u8; BUF], token: &[u8; TAG_LEN]) -> (UnknownPathSecret, usize) {
    let mut value = any_value();
    value.wire_version = WireVersion(0); // only 0 is encodable / decodable
    let len = value.encode(EncoderBuffer::new(&mut buf[..]), token);
    (value, len)
}

// Round trip, compositionally (see dc_sc_stale_key.rs): decode == oracle on every input; here: the oracle reads back from
// encode's output exactly the encoded fields, and the trailing 16 bytes are the stateless-reset token, which is what
// authenticate compares.
//@ harness props=C18 tier=thorough level=full timeout=2400
//@ fn packet::secret_control::unknown_path_secret::UnknownPathSecret::encode
#[kani::proof]
#[kani::unwind(20)]
fn vq_c18_unknown_path_secret_encode_wire_image() {
    let token: [u8; TAG_LEN] = kani::any();
    let mut buf = [0u8; BUF];
    let (value, len) = encode_any(&mut buf, &token);
    let e = oracle_parse(&buf, len, BASE_TAG, false);
    assert!(e.is_some(), "C18/unknown_path_secret.encode/wire_image_is_well_formed");
    let e = e.unwrap();
    assert!(len == e.header_len + TAG_LEN && len <= UnknownPathSecret::MAX_PACKET_SIZE,
            "C18/unknown_path_secret.encode/returned_len_is_header_plus_tag_and_within_max");
    assert!(e.id == id_of(&value.credential_id), "C18/unknown_path_secret.encode/wire_image_carries_credential_id");
    assert!(e.has_queue == value.queue_id.is_some() && (!e.has_queue || Some(e.queue_id) == opt_u64(value.queue_id)),
            "C18/unknown_path_secret.encode/wire_image_carries_queue_id");
    assert!(tag16(&buf[e.header_len..e.header_len + TAG_LEN]) == u128::from_be_bytes(token),
            "C18/unknown_path_secret.encode/tag_is_the_stateless_reset_token");
    kani::cover!(len == 42, "reach:longest_packet");
    kani::cover!(len == 34, "reach:shortest_packet");
    kani::cover!(true, "reach:end");
}

//@ harness props=C18 tier=thorough level=full timeout=2400
//@ fn packet::secret_control::unknown_path_secret::Packet::decode
//@ fn packet::secret_control::unknown_path_secret::Packet::authenticate
#[kani::proof]
#[kani::unwind(20)]
#[kani::stub(aws_lc_rs::constant_time::verify_slices_are_equal, verify_slices_model)]
fn vq_c18_unknown_path_secret_tamper() {
    // property statement: "changing any header, payload or tag byte gets it rejected".
    // A valid packet for `token`, one byte at an arbitrary position replaced by a different value.
    let token: [u8; TAG_LEN] = kani::any();
    let mut buf = [0u8; BUF];
    let (_value, len) = encode_any(&mut buf, &token);
    let header_len = len - TAG_LEN;
    let pos: usize = kani::any();
    let new_byte: u8 = kani::any();
    kani::assume(pos < len && new_byte != buf[pos]);
    buf[pos] = new_byte;
    let accepted = match Packet::decode(DecoderBufferMut::new(&mut buf[..len])) {
        Ok((packet, _)) => packet.authenticate(&token).is_some(),
        Err(_) => false,
    };
    // FINDING (fails on the unchanged tree): the header of an UnknownPathSecret packet (credential id, queue id) is not
    // covered by any authentication; only the trailing token is compared.
    assert!(!accepted, "C18/unknown_path_secret.authenticate/any_byte_change_is_rejected");
    // residual: every change outside the unauthenticated header region is rejected
    assert!(!accepted || pos < header_len, "C18/unknown_path_secret.authenticate/any_byte_change_is_rejected#outside-known");
    kani::cover!(pos >= header_len, "reach:tag_byte_changed");
    kani::cover!(pos == 0, "reach:packet_tag_byte_changed");
    kani::cover!(pos == 18 && header_len > 18, "reach:queue_id_byte_changed");
    kani::cover!(true, "reach:end");
}
