//@ inject crate=dc src=dc/s2n-quic-dc/src/packet/stream/decoder.rs
// Contract harnesses for the dc stream-packet decoder (property C18: "arbitrary bytes never crash a decoder", and
// decode == the wire layout): totality and exact acceptance / field values against an independent transcription of the
// layout, on arbitrary inputs.
//
// Wire layout (transcribed from the encoder and the protocol comments, independent of the decoder's code):
//   tag (1: 00 Q R C F H K) | credential id (16) | key id (varint) | wire version (1, == 0) | unused (2)
//   | stream id (varint: queue_id << 2 | reliable << 1 | bidirectional) | [source queue id (varint), if Q]
//   | original packet number (varint) | [relative retransmission offset (u32 big endian), if the stream id is reliable]
//   | next expected control packet (varint) | stream offset (varint) | [final offset (varint), if F]
//   | [control data length (varint), if C] | payload length (varint) | [application header length (varint), if H]
//   | application header | control data | payload | authentication tag (16)
// packet number = original packet number + relative offset, which must still be a varint (<= 2^62 - 1).
use super::*;
include!("_pkt_common.rs");

const N: usize = 64; // shortest valid packet: 42 bytes

#[derive(Clone, Copy)]
struct Parsed {
    key_id: u64,
    stream_id: u64,
    source_queue_id: Option<u64>,
    original_pn: u64,
    pn: u64,
    retransmission_offset_pos: usize,
    next_expected: u64,
    stream_offset: u64,
    final_offset: Option<u64>,
    ahl: usize,
    cdl: usize,
    pl: usize,
    header_len: usize,
}

fn oracle(buf: &[u8; N], len: usize) -> Option<Parsed> {
    if len < 1 {
        return None;
    }
    let t = buf[0];
    if t & 0b1100_0000 != 0 {
        return None;
    }
    let mut pos = 17;
    let (key_id, n) = oracle_varint(buf, pos, len)?;
    pos += n;
    if pos + 3 > len || buf[pos] != 0 {
        return None;
    }
    pos += 3; // wire version + 2 unused bytes
    let (stream_id, n) = oracle_varint(buf, pos, len)?;
    pos += n;
    let mut source_queue_id = None;
    if t & 0b10_0000 != 0 {
        let (v, n) = oracle_varint(buf, pos, len)?;
        source_queue_id = Some(v);
        pos += n;
    }
    let (original_pn, n) = oracle_varint(buf, pos, len)?;
    pos += n;
    let retransmission_offset_pos = pos;
    let mut pn = original_pn;
    if stream_id & 0b10 != 0 {
        if pos + 4 > len {
            return None;
        }
        let rel = u32::from_be_bytes([buf[pos], buf[pos + 1], buf[pos + 2], buf[pos + 3]]);
        pos += 4;
        pn = original_pn + rel as u64; // < 2^63, no u64 overflow
        if pn > MAXV {
            return None;
        }
    }
    let (next_expected, n) = oracle_varint(buf, pos, len)?;
    pos += n;
    let (stream_offset, n) = oracle_varint(buf, pos, len)?;
    pos += n;
    let mut final_offset = None;
    if t & 0b100 != 0 {
        let (v, n) = oracle_varint(buf, pos, len)?;
        final_offset = Some(v);
        pos += n;
    }
    let mut cdl = 0u64;
    if t & 0b1000 != 0 {
        let (v, n) = oracle_varint(buf, pos, len)?;
        cdl = v;
        pos += n;
    }
    let (pl, n) = oracle_varint(buf, pos, len)?;
    pos += n;
    let mut ahl = 0u64;
    if t & 0b10 != 0 {
        let (v, n) = oracle_varint(buf, pos, len)?;
        ahl = v;
        pos += n;
    }
    let header_len = pos;
    // everything announced has to be there (all quantities < 2^62: the sum cannot overflow u64)
    if (header_len as u64) + ahl + cdl + pl + (TAGLEN as u64) > len as u64 {
        return None;
    }
    Some(Parsed {
        key_id,
        stream_id,
        source_queue_id,
        original_pn,
        pn,
        retransmission_offset_pos,
        next_expected,
        stream_offset,
        final_offset,
        ahl: ahl as usize,
        cdl: cdl as usize,
        pl: pl as usize,
        header_len,
    })
}

fn stream_id_raw(id: &stream::Id) -> u64 {
    (id.queue_id().as_u64() << 2) | ((id.is_reliable as u64) << 1) | (id.is_bidirectional as u64)
}

//@ harness props=C18 tier=thorough level=bounded timeout=4800 bound="input <= 64 bytes, contents and length symbolic (every tag byte, every varint length class; shortest valid packet 42 bytes)"
//@ fn packet::stream::decoder::Packet::decode
//@ fn packet::stream::id::Id::decode
#[kani::proof]
#[kani::unwind(8)]
fn vq_c18_stream_decode_total_and_exact() {
    let mut buf: [u8; N] = kani::any();
    let snapshot = buf;
    let len: usize = kani::any();
    kani::assume(len <= N);
    let expect = oracle(&snapshot, len);
    let base = buf.as_ptr();
    match Packet::decode(DecoderBufferMut::new(&mut buf[..len]), (), TAGLEN) {
        Ok((p, rest)) => {
            assert!(expect.is_some(), "C18/stream.decode/accepts_only_well_formed");
            let e = expect.unwrap();
            assert!(u8::from(p.tag) == snapshot[0], "C18/stream.decode/tag");
            assert!(id_of(&p.credentials.id) == be16(&snapshot[1..17]) && p.credentials.key_id.as_u64() == e.key_id,
                    "C18/stream.decode/credentials");
            assert!(p.wire_version == WireVersion::ZERO, "C18/stream.decode/wire_version_zero");
            assert!(stream_id_raw(&p.stream_id) == e.stream_id, "C18/stream.decode/stream_id");
            assert!(opt_u64(p.source_queue_id) == e.source_queue_id, "C18/stream.decode/source_queue_id");
            assert!(p.original_packet_number.as_u64() == e.original_pn, "C18/stream.decode/original_packet_number");
            assert!(p.packet_number.as_u64() == e.pn, "C18/stream.decode/packet_number_is_original_plus_relative_offset");
            assert!(p.retransmission_packet_number_offset as usize == e.retransmission_offset_pos,
                    "C18/stream.decode/retransmission_offset_position");
            assert!(p.next_expected_control_packet.as_u64() == e.next_expected, "C18/stream.decode/next_expected_control_packet");
            assert!(p.stream_offset.as_u64() == e.stream_offset, "C18/stream.decode/stream_offset");
            assert!(opt_u64(p.final_offset) == e.final_offset, "C18/stream.decode/final_offset");
            let total_header = e.header_len + e.ahl + e.cdl;
            assert!(p.header.as_ptr() == base && p.header.len() == total_header,
                    "C18/stream.decode/header_is_prefix_up_to_payload");
            assert!(p.application_header().len() == e.ahl && p.control_data().len() == e.cdl
                        && (e.ahl == 0 || p.application_header().as_ptr() == unsafe { base.add(e.header_len) })
                        && (e.cdl == 0 || p.control_data().as_ptr() == unsafe { base.add(e.header_len + e.ahl) }),
                    "C18/stream.decode/application_header_and_control_data_ranges");
            assert!(p.payload.len() == e.pl && p.payload.as_ptr() == unsafe { base.add(total_header) },
                    "C18/stream.decode/payload_range");
            assert!(p.auth_tag.len() == TAGLEN && p.auth_tag.as_ptr() == unsafe { base.add(total_header + e.pl) },
                    "C18/stream.decode/auth_tag_range");
            assert!(rest.len() == len - total_header - e.pl - TAGLEN, "C18/stream.decode/consumes_exactly_the_packet");
            kani::cover!(e.stream_id & 0b10 != 0 && e.pn > e.original_pn, "reach:ok_retransmission");
            kani::cover!(e.stream_id & 0b10 == 0, "reach:ok_unreliable");
            kani::cover!(e.cdl > 0 && e.pl > 0, "reach:ok_control_data_and_payload");
            kani::cover!(e.final_offset.is_some() && e.source_queue_id.is_some(), "reach:ok_final_offset_and_queue_id");
        }
        Err(_) => {
            assert!(expect.is_none(), "C18/stream.decode/accepts_every_well_formed");
            kani::cover!(len == 0, "reach:empty_input");
            kani::cover!(len == N && snapshot[0] == 0 && snapshot[18] == 0 && snapshot[21] == 0b10 && snapshot[22] == 0xff
                            && snapshot[30] == 0xff, "reach:packet_number_overflow_rejected");
            kani::cover!(len == N && snapshot[0] == 0 && snapshot[18] != 0, "reach:bad_wire_version");
        }
    }
    kani::cover!(true, "reach:end");
}

// A cheaper companion (the harness above needs 17-25 min): totality on every input shorter than the shortest valid
// packet.  All header arithmetic (stream id, packet numbers, relative retransmission offset) happens within the first
// 34 bytes, so an arithmetic panic on crafted bytes is a safety failure here as well.
//@ harness props=C18 tier=quick level=bounded timeout=900 bound="input <= 40 bytes, contents and length symbolic (no valid packet fits: every input must be rejected without panic)"
//@ fn packet::stream::decoder::Packet::decode
#[kani::proof]
#[kani::unwind(8)]
fn vq_c18_stream_decode_total_short_input() {
    const M: usize = 40;
    let mut buf: [u8; M] = kani::any();
    let snapshot = buf;
    let len: usize = kani::any();
    kani::assume(len <= M);
    let r = Packet::decode(DecoderBufferMut::new(&mut buf[..len]), (), TAGLEN);
    assert!(r.is_err(), "C18/stream.decode/input_shorter_than_any_packet_is_rejected");
    kani::cover!(len == 0, "reach:empty_input");
    kani::cover!(len == M && snapshot[0] == 0 && snapshot[17] == 0 && snapshot[18] == 0 && snapshot[21] == 0b10
                    && snapshot[22] == 0xff && snapshot[30] == 0xff, "reach:reliable_stream_with_huge_packet_number_and_offset");
    kani::cover!(len == M && snapshot[0] == 0b11_1111, "reach:all_optional_fields_announced");
    kani::cover!(true, "reach:end");
}
