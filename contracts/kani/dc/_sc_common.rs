// Shared by dc_sc_stale_key.rs / dc_sc_replay_detected.rs / dc_sc_unknown_path_secret.rs (include!d into the
// harness module, which itself is injected into the packet's source file => private `Packet` fields are visible).
//
// A-aead: the real control-packet MAC (HMAC through aws-lc, FFI) is replaced by harness-side implementations of the
// crate's own `crypto::{seal,open}::Control` traits:
//   * `RecordingOpener`  -- answers `verify` with an arbitrary (symbolic) verdict and records *which* bytes it was
//     asked to verify (pointer + length of both slices), so that "Some only if verify said yes" and "the bytes
//     verified are exactly the packet minus its tag" become checkable facts about the real `authenticate`;
//   * `ChecksumKey`      -- a keyed 16-byte tag (key with header length / first byte folded in) used as sealer and
//     opener for the round-trip harnesses.
use core::cell::Cell;

const MAXV: u64 = (1u64 << 62) - 1;
const HAS_QUEUE: u8 = 0b0000_0100;
const BUF: usize = 64; // == secret_control::MAX_PACKET_SIZE; the longest secret-control packet is 1+16+1+8+8+16 = 50 bytes

struct RecordingOpener {
    answer: bool,
    calls: Cell<u32>,
    header_ptr: Cell<*const u8>,
    header_len: Cell<usize>,
    tag_ptr: Cell<*const u8>,
    tag_len: Cell<usize>,
}

impl RecordingOpener {
    fn new(answer: bool) -> Self {
        Self {
            answer,
            calls: Cell::new(0),
            header_ptr: Cell::new(core::ptr::null()),
            header_len: Cell::new(0),
            tag_ptr: Cell::new(core::ptr::null()),
            tag_len: Cell::new(0),
        }
    }
}

impl crate::crypto::open::Control for RecordingOpener {
    fn tag_len(&self) -> usize {
        TAG_LEN
    }

    fn verify(&self, header: &[u8], tag: &[u8]) -> crate::crypto::open::Result {
        self.calls.set(self.calls.get() + 1);
        self.header_ptr.set(header.as_ptr());
        self.header_len.set(header.len());
        self.tag_ptr.set(tag.as_ptr());
        self.tag_len.set(tag.len());
        if self.answer {
            Ok(())
        } else {
            Err(crate::crypto::open::Error::InvalidTag)
        }
    }
}

impl crate::crypto::open::control::Secret for RecordingOpener {}

/// keyed, loop-free stand-in for the MAC: tag = key, with the header's first byte and length folded into two bytes.
/// (That `authenticate` hands the *whole* header to the MAC is shown separately with `RecordingOpener`.)
struct ChecksumKey {
    key: [u8; TAG_LEN],
    // recorded by sign(): how often it was called and with which slices
    sign_calls: Cell<u32>,
    signed_header: Cell<(*const u8, usize)>,
    signed_tag: Cell<(*const u8, usize)>,
}

impl ChecksumKey {
    fn new() -> Self {
        Self {
            key: kani::any(),
            sign_calls: Cell::new(0),
            signed_header: Cell::new((core::ptr::null(), 0)),
            signed_tag: Cell::new((core::ptr::null(), 0)),
        }
    }

    fn compute(&self, header: &[u8]) -> u128 {
        let mut t = self.key;
        t[0] ^= header.len() as u8;
        if !header.is_empty() {
            t[1] ^= header[0];
        }
        u128::from_be_bytes(t)
    }
}

impl crate::crypto::seal::Control for ChecksumKey {
    fn tag_len(&self) -> usize {
        TAG_LEN
    }

    fn sign(&self, header: &[u8], tag: &mut [u8]) {
        self.sign_calls.set(self.sign_calls.get() + 1);
        self.signed_header.set((header.as_ptr(), header.len()));
        self.signed_tag.set((tag.as_ptr(), tag.len()));
        let t = self.compute(header).to_be_bytes();
        tag.copy_from_slice(&t);
    }
}

impl crate::crypto::seal::control::Secret for ChecksumKey {}

impl crate::crypto::open::Control for ChecksumKey {
    fn tag_len(&self) -> usize {
        TAG_LEN
    }

    fn verify(&self, header: &[u8], tag: &[u8]) -> crate::crypto::open::Result {
        if tag.len() != TAG_LEN {
            return Err(crate::crypto::open::Error::InvalidTag);
        }
        let got = u128::from_be_bytes([
            tag[0], tag[1], tag[2], tag[3], tag[4], tag[5], tag[6], tag[7], tag[8], tag[9], tag[10], tag[11], tag[12],
            tag[13], tag[14], tag[15],
        ]);
        if got == self.compute(header) {
            Ok(())
        } else {
            Err(crate::crypto::open::Error::InvalidTag)
        }
    }
}

impl crate::crypto::open::control::Secret for ChecksumKey {}

// ---- independent transcription of the wire layout ---------------------------------------------------------------
//   tag (1: base | 0b100 if a queue id follows) | credential id (16) | wire version (1, must be 0)
//   | [queue id: varint] | [key id: varint, StaleKey / ReplayDetected only] | authentication tag (16)
// varint = RFC 9000 section 16: the two most significant bits of the first byte give the length 1/2/4/8, the rest is the
// big-endian value.
#[derive(Clone, Copy)]
struct Parsed {
    has_queue: bool,
    id: u128,
    queue_id: u64,
    key_id: u64,
    header_len: usize,
}

fn oracle_varint(buf: &[u8; BUF], pos: usize, end: usize) -> Option<(u64, usize)> {
    if pos >= end {
        return None;
    }
    let b0 = buf[pos];
    let n = 1usize << (b0 >> 6);
    if pos + n > end {
        return None;
    }
    let mut v = (b0 & 0x3f) as u64;
    if n >= 2 {
        v = (v << 8) | buf[pos + 1] as u64;
    }
    if n >= 4 {
        v = (v << 8) | buf[pos + 2] as u64;
        v = (v << 8) | buf[pos + 3] as u64;
    }
    if n == 8 {
        v = (v << 8) | buf[pos + 4] as u64;
        v = (v << 8) | buf[pos + 5] as u64;
        v = (v << 8) | buf[pos + 6] as u64;
        v = (v << 8) | buf[pos + 7] as u64;
    }
    Some((v, n))
}

fn oracle_id(buf: &[u8; BUF]) -> u128 {
    u128::from_be_bytes([
        buf[1], buf[2], buf[3], buf[4], buf[5], buf[6], buf[7], buf[8], buf[9], buf[10], buf[11], buf[12], buf[13],
        buf[14], buf[15], buf[16],
    ])
}

/// Some(..) iff buf[..len] starts with a well-formed packet of the given kind (including its 16-byte tag)
fn oracle_parse(buf: &[u8; BUF], len: usize, base_tag: u8, has_key_id: bool) -> Option<Parsed> {
    if len < 18 {
        return None;
    }
    let t = buf[0];
    if t != base_tag && t != (base_tag | HAS_QUEUE) {
        return None;
    }
    if buf[17] != 0 {
        return None;
    }
    let has_queue = t & HAS_QUEUE != 0;
    let mut pos = 18;
    let mut queue_id = 0;
    if has_queue {
        let (v, n) = oracle_varint(buf, pos, len)?;
        queue_id = v;
        pos += n;
    }
    let mut key_id = 0;
    if has_key_id {
        let (v, n) = oracle_varint(buf, pos, len)?;
        key_id = v;
        pos += n;
    }
    if len < pos + TAG_LEN {
        return None;
    }
    Some(Parsed { has_queue, id: oracle_id(buf), queue_id, key_id, header_len: pos })
}

fn id_of(id: &credentials::Id) -> u128 {
    let b: [u8; 16] = **id;
    u128::from_be_bytes(b)
}

fn any_varint() -> VarInt {
    let v: u64 = kani::any();
    kani::assume(v <= MAXV);
    VarInt::new(v).unwrap()
}

fn any_queue_id() -> Option<VarInt> {
    if kani::any() {
        Some(any_varint())
    } else {
        None
    }
}

fn opt_u64(v: Option<VarInt>) -> Option<u64> {
    match v {
        Some(v) => Some(v.as_u64()),
        None => None,
    }
}
