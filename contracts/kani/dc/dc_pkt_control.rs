//@ inject crate=dc src=dc/s2n-quic-dc/src/packet/control/decoder.rs
// Contract harnesses for the dc control-packet decoder (property C18): totality and structural well-formedness of
// what it hands out.
use super::*;
include!("_pkt_common.rs");

// NOT ACHIEVED: encode -> decode round trip of control packets.  Three formulations were tried (symbolic shape with
// application header <= 2 / control data <= 4; concrete shapes "all fields", "stream ack", "minimal"); none finished
// within 40 min per harness (load 35-70 on the shared machine).  The drafts are kept in
// probes/kani_dc_packet_round_trip_drafts.rs.  control::encoder::encode is therefore NOT under contract.

//@ harness props=C18 tier=thorough level=bounded timeout=2400 bound="input <= 48 bytes, contents and length symbolic (shortest valid packet: 37 bytes)"
//@ fn packet::control::decoder::Packet::decode
#[kani::proof]
#[kani::unwind(8)]
fn vq_c18_control_decode_total() {
    const N: usize = 48;
    let mut buf: [u8; N] = kani::any();
    let snapshot = buf;
    let len: usize = kani::any();
    kani::assume(len <= N);
    let base = buf.as_ptr();
    match Packet::decode(DecoderBufferMut::new(&mut buf[..len]), (), TAGLEN) {
        Ok((packet, rest)) => {
            // well-formedness of what the decoder hands out
            assert!(snapshot[0] & 0xf0 == 0b0101_0000, "C18/control.decode/accepts_only_control_tags");
            assert!(packet.header().as_ptr() == base && packet.header().len() + TAGLEN + rest.len() == len,
                    "C18/control.decode/header_tag_rest_partition_the_input");
            assert!(packet.auth_tag().len() == TAGLEN && packet.auth_tag().as_ptr() == unsafe { base.add(packet.header().len()) },
                    "C18/control.decode/tag_follows_header");
            assert!(packet.application_header().len() + packet.control_data().len() <= packet.header().len(),
                    "C18/control.decode/ranges_inside_header");
            assert!(packet.wire_version() == WireVersion::ZERO, "C18/control.decode/wire_version_zero");
            kani::cover!(packet.control_data().len() == 3, "reach:ok_with_control_data");
            kani::cover!(packet.stream_id().is_some() && packet.source_queue_id().is_some(), "reach:ok_with_ids");
        }
        Err(_) => {
            kani::cover!(len == 0, "reach:empty_input");
            kani::cover!(len == N && snapshot[0] == 0b0101_0000, "reach:truncated_or_oversized_lengths");
        }
    }
    kani::cover!(true, "reach:end");
}
