//@ inject crate=dc src=dc/s2n-quic-dc/src/packet/control/decoder.rs
// Contract harnesses for the dc control-packet codec (property C18): encode/decode round trip, announced length,
// MAC coverage (everything but the tag), decoder totality.
use super::*;
use crate::packet::control::encoder;
use s2n_codec::EncoderBuffer;
include!("_pkt_common.rs");

const HMAX: usize = 2; // application header bytes
const CMAX: usize = 4; // control data bytes
const BUF: usize = 96; // longest packet with these bounds: 1+16+8+1+8+8+8+8+1+2+4+16 = 81

fn eq_small(a: &[u8], b: &[u8]) -> bool {
    a.len() == b.len()
        && (a.len() < 1 || a[0] == b[0])
        && (a.len() < 2 || a[1] == b[1])
        && (a.len() < 3 || a[2] == b[2])
        && (a.len() < 4 || a[3] == b[3])
        && a.len() <= 4
}

fn any_stream_id() -> Option<stream::Id> {
    if kani::any() {
        let q: u64 = kani::any();
        kani::assume(q < (1u64 << 60)); // stream::Id invariant (MAX_QUEUE_ID), enforced by its constructors
        let mut id = stream::Id::normal(VarInt::new(q).unwrap()).unwrap();
        id.is_reliable = kani::any();
        id.is_bidirectional = kani::any();
        Some(id)
    } else {
        None
    }
}

fn stream_id_wire(id: Option<stream::Id>) -> Option<u64> {
    // independent transcription: (queue_id << 2) | reliable << 1 | bidirectional
    match id {
        Some(id) => Some((id.queue_id().as_u64() << 2) | ((id.is_reliable as u64) << 1) | (id.is_bidirectional as u64)),
        None => None,
    }
}

//@ harness props=C18 tier=thorough level=bounded timeout=1800 bound="application header <= 2 bytes, control data <= 4 bytes; all integer fields full-domain"
//@ fn packet::control::encoder::encode
//@ fn packet::control::decoder::Packet::decode
#[kani::proof]
#[kani::unwind(8)]
fn vq_c18_control_round_trip() {
    let source_queue_id = any_opt_varint();
    let stream_id = any_stream_id();
    let packet_number = any_varint();
    let credentials = any_credentials();
    let hdr: [u8; HMAX] = kani::any();
    let hl: usize = kani::any();
    kani::assume(hl <= HMAX);
    let cd: [u8; CMAX] = kani::any();
    let cl: usize = kani::any();
    kani::assume(cl <= CMAX);
    let key = StandInKey::new();
    let mut buf = [0u8; BUF];
    let base = buf.as_ptr();

    let mut header_storage: &[u8] = &hdr[..hl];
    let control_data: &[u8] = &cd[..cl];
    // call-site facts (stream/recv/state.rs, stream/send/...): header_len == header.len(), control_data_len == encoding size
    let len = encoder::encode(
        EncoderBuffer::new(&mut buf),
        source_queue_id,
        stream_id,
        packet_number,
        VarInt::new(hl as u64).unwrap(),
        &mut header_storage,
        VarInt::new(cl as u64).unwrap(),
        &control_data,
        &key,
        &credentials,
    );

    // encoded length as announced by the wire format
    let sid = stream_id_wire(stream_id);
    let expect_len = 1 + 16 + varint_len(credentials.key_id.as_u64()) + 1
        + (match sid { Some(v) => varint_len(v), None => 0 })
        + (match source_queue_id { Some(v) => varint_len(v.as_u64()), None => 0 })
        + varint_len(packet_number.as_u64())
        + varint_len(cl as u64)
        + (if hl > 0 { varint_len(hl as u64) + hl } else { 0 })
        + cl
        + TAGLEN;
    assert!(len == expect_len, "C18/control.encode/encoded_len_as_announced");
    // the MAC is computed over everything but the tag, and written to the last 16 bytes
    assert!(key.signed_header.get() == (base, len - TAGLEN), "C18/control.encode/mac_covers_every_byte_before_the_tag");
    assert!(key.signed_tag.get() == (unsafe { base.add(len - TAGLEN) }, TAGLEN), "C18/control.encode/tag_is_the_last_16_bytes");
    // tag byte: independent transcription of the bit layout 0101 Q S H 0
    let tag_byte = 0b0101_0000u8
        | (if source_queue_id.is_some() { 0b1000 } else { 0 })
        | (if stream_id.is_some() { 0b0100 } else { 0 })
        | (if hl > 0 { 0b0010 } else { 0 });
    assert!(buf[0] == tag_byte, "C18/control.encode/tag_byte_layout");

    let (packet, rest) = match Packet::decode(DecoderBufferMut::new(&mut buf[..len]), (), TAGLEN) {
        Ok(v) => v,
        Err(_) => {
            assert!(false, "C18/control.round_trip/encoded_packet_decodes");
            return;
        }
    };
    assert!(rest.is_empty(), "C18/control.round_trip/nothing_left_over");
    assert!(id_of(&packet.credentials().id) == id_of(&credentials.id) && packet.credentials().key_id == credentials.key_id,
            "C18/control.round_trip/credentials");
    assert!(packet.wire_version() == WireVersion::ZERO, "C18/control.round_trip/wire_version");
    assert!(opt_u64(packet.source_queue_id()) == opt_u64(source_queue_id), "C18/control.round_trip/source_queue_id");
    assert!(stream_id_wire(packet.stream_id().copied()) == sid, "C18/control.round_trip/stream_id");
    assert!(packet.packet_number() == packet_number, "C18/control.round_trip/packet_number");
    assert!(eq_small(packet.application_header(), &hdr[..hl]), "C18/control.round_trip/application_header");
    assert!(eq_small(packet.control_data(), &cd[..cl]), "C18/control.round_trip/control_data");
    assert!(packet.header().as_ptr() == base && packet.header().len() == len - TAGLEN && packet.auth_tag().len() == TAGLEN
                && packet.auth_tag().as_ptr() == unsafe { base.add(len - TAGLEN) } && packet.total_len() == len,
            "C18/control.round_trip/header_and_tag_partition_the_packet");
    use crate::crypto::open::Control as _;
    assert!(key.verify(packet.header(), packet.auth_tag()).is_ok(), "C18/control.round_trip/sealed_packet_verifies");

    kani::cover!(hl == HMAX && cl == CMAX && source_queue_id.is_some() && stream_id.is_some(), "reach:all_optional_fields");
    kani::cover!(hl == 0 && cl == 0 && source_queue_id.is_none() && stream_id.is_none(), "reach:minimal_packet");
    kani::cover!(len == 81, "reach:longest_packet");
    kani::cover!(true, "reach:end");
}

//@ harness props=C18 tier=thorough level=bounded timeout=1800 bound="input <= 48 bytes, contents and length symbolic (shortest valid packet: 37 bytes)"
//@ fn packet::control::decoder::Packet::decode
#[kani::proof]
#[kani::unwind(8)]
fn vq_c18_control_decode_total() {
    const N: usize = 48;
    let mut buf: [u8; N] = kani::any();
    let snapshot = buf;
    let len: usize = kani::any();
    kani::assume(len <= N);
    let base = buf.as_ptr();
    match Packet::decode(DecoderBufferMut::new(&mut buf[..len]), (), TAGLEN) {
        Ok((packet, rest)) => {
            // well-formedness of what the decoder hands out
            assert!(snapshot[0] & 0xf0 == 0b0101_0000, "C18/control.decode/accepts_only_control_tags");
            assert!(packet.header().as_ptr() == base && packet.header().len() + TAGLEN + rest.len() == len,
                    "C18/control.decode/header_tag_rest_partition_the_input");
            assert!(packet.auth_tag().len() == TAGLEN && packet.auth_tag().as_ptr() == unsafe { base.add(packet.header().len()) },
                    "C18/control.decode/tag_follows_header");
            assert!(packet.application_header().len() + packet.control_data().len() <= packet.header().len(),
                    "C18/control.decode/ranges_inside_header");
            assert!(packet.wire_version() == WireVersion::ZERO, "C18/control.decode/wire_version_zero");
            kani::cover!(packet.control_data().len() == 3, "reach:ok_with_control_data");
            kani::cover!(packet.stream_id().is_some() && packet.source_queue_id().is_some(), "reach:ok_with_ids");
        }
        Err(_) => {
            kani::cover!(len == 0, "reach:empty_input");
            kani::cover!(len == N && snapshot[0] == 0b0101_0000, "reach:truncated_or_oversized_lengths");
        }
    }
    kani::cover!(true, "reach:end");
}
