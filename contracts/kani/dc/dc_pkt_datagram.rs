//@ inject crate=dc src=dc/s2n-quic-dc/src/packet/datagram/decoder.rs
// Contract harnesses for the dc datagram-packet decoder (property C18): totality and structural well-formedness of
// what it hands out.
use super::*;
include!("_pkt_common.rs");

// NOT ACHIEVED within budget: encode -> decode round trip of datagram packets.  The symbolic-shape harness and the
// concrete shape "all fields" did not finish in 40 min; the concrete shapes "connected" (the production call site) and
// "minimal" discharged every obligation but needed 38 and 29 min (load 35-70), far beyond the 10-minute rule.  The drafts
// are kept in probes/kani_dc_packet_round_trip_drafts.rs.  datagram::encoder::encode is therefore NOT under contract.

//@ harness props=C18 tier=thorough level=bounded timeout=2400 bound="input <= 48 bytes, contents and length symbolic (shortest valid packet: 38 bytes)"
//@ fn packet::datagram::decoder::Packet::decode
#[kani::proof]
#[kani::unwind(8)]
fn vq_c18_datagram_decode_total() {
    const N: usize = 48;
    let mut buf: [u8; N] = kani::any();
    let snapshot = buf;
    let len: usize = kani::any();
    kani::assume(len <= N);
    let base = buf.as_ptr();
    match Packet::decode(DecoderBufferMut::new(&mut buf[..len]), (), TAGLEN) {
        Ok((packet, rest)) => {
            assert!(snapshot[0] & 0xf0 == 0b0100_0000, "C18/datagram.decode/accepts_only_datagram_tags");
            assert!(packet.header().as_ptr() == base
                        && packet.header().len() + packet.payload().len() + TAGLEN + rest.len() == len,
                    "C18/datagram.decode/header_payload_tag_rest_partition_the_input");
            assert!(packet.auth_tag().len() == TAGLEN && packet.wire_len() == len - rest.len(), "C18/datagram.decode/wire_len");
            assert!(packet.application_header().len() + packet.control_data().len() <= packet.header().len(),
                    "C18/datagram.decode/ranges_inside_header");
            assert!(packet.wire_version() == WireVersion::ZERO, "C18/datagram.decode/wire_version_zero");
            kani::cover!(packet.payload().len() == 3, "reach:ok_with_payload");
            kani::cover!(packet.next_expected_control_packet().is_some(), "reach:ok_ack_eliciting");
        }
        Err(_) => {
            kani::cover!(len == 0, "reach:empty_input");
            kani::cover!(len == N && snapshot[0] == 0b0100_0000, "reach:truncated_or_oversized_lengths");
        }
    }
    kani::cover!(true, "reach:end");
}
