//@ inject crate=dc src=dc/s2n-quic-dc/src/packet/datagram/decoder.rs
// Contract harnesses for the dc datagram-packet codec (property C18): encode/decode round trip, announced length,
// AEAD coverage (AAD = every byte before the payload), decoder totality.
use super::*;
use crate::packet::datagram::encoder;
use s2n_codec::EncoderBuffer;
use s2n_quic_core::packet::KeyPhase;
include!("_pkt_common.rs");

const HMAX: usize = 2; // application header bytes
const CMAX: usize = 4; // control data bytes
const PMAX: usize = 4; // payload bytes
const BUF: usize = 112; // longest packet with these bounds: 1+16+8+1+2+8+1+8+1+1+2+4+4+16 = 73

fn eq_small(a: &[u8], b: &[u8]) -> bool {
    a.len() == b.len()
        && (a.len() < 1 || a[0] == b[0])
        && (a.len() < 2 || a[1] == b[1])
        && (a.len() < 3 || a[2] == b[2])
        && (a.len() < 4 || a[3] == b[3])
        && a.len() <= 4
}

/// seal::Application stand-in (A-aead): XORs the payload with a key byte, tag = keyed function of header and nonce;
/// records the slices it was given.
struct SealKey {
    k: StandInKey,
    phase: bool,
    nonce: Cell<u64>,
    aad: Cell<(*const u8, usize)>,
    out: Cell<(*const u8, usize)>,
    extra_len: Cell<usize>,
}

impl crate::crypto::seal::Application for SealKey {
    fn key_phase(&self) -> KeyPhase {
        if self.phase {
            KeyPhase::One
        } else {
            KeyPhase::Zero
        }
    }

    fn tag_len(&self) -> usize {
        TAGLEN
    }

    fn encrypt(&self, packet_number: u64, header: &[u8], extra_payload: Option<&[u8]>, payload_and_tag: &mut [u8]) {
        self.nonce.set(packet_number);
        self.aad.set((header.as_ptr(), header.len()));
        self.out.set((payload_and_tag.as_ptr(), payload_and_tag.len()));
        let extra = extra_payload.unwrap_or(&[]);
        self.extra_len.set(extra.len());
        // same split as crypto/awslc.rs: [inline plaintext | room for the extra payload | tag]
        let inline_len = payload_and_tag.len() - TAGLEN - extra.len();
        let x = self.k.key[15];
        let mut i = 0;
        while i < inline_len {
            payload_and_tag[i] ^= x;
            i += 1;
        }
        let mut j = 0;
        while j < extra.len() {
            payload_and_tag[inline_len + j] = extra[j] ^ x;
            j += 1;
        }
        let t = self.k.mac(header, packet_number).to_be_bytes();
        let n = payload_and_tag.len();
        payload_and_tag[n - TAGLEN..].copy_from_slice(&t);
    }
}

//@ harness props=C18 tier=thorough level=bounded timeout=1800 bound="application header <= 2 bytes, control data <= 4 bytes, payload <= 4 bytes; all integer fields full-domain"
//@ fn packet::datagram::encoder::encode
//@ fn packet::datagram::decoder::Packet::decode
#[kani::proof]
#[kani::unwind(8)]
fn vq_c18_datagram_round_trip() {
    let source_control_port: u16 = kani::any();
    let packet_number = any_opt_varint();
    let next_expected = any_opt_varint();
    // call-site fact (datagram/tunneled/send.rs, and the FIXME in encoder.rs): an ack-eliciting datagram always
    // carries a packet number; encode() unwraps it
    kani::assume(next_expected.is_none() || packet_number.is_some());
    let credentials = any_credentials();
    let hdr: [u8; HMAX] = kani::any();
    let hl: usize = kani::any();
    kani::assume(hl <= HMAX);
    let cd: [u8; CMAX] = kani::any();
    let cl: usize = kani::any();
    kani::assume(cl <= CMAX);
    let pl_bytes: [u8; PMAX] = kani::any();
    let pl: usize = kani::any();
    kani::assume(pl <= PMAX);
    let key = SealKey {
        k: StandInKey::new(),
        phase: kani::any(),
        nonce: Cell::new(0),
        aad: Cell::new((core::ptr::null(), 0)),
        out: Cell::new((core::ptr::null(), 0)),
        extra_len: Cell::new(0),
    };
    let mut buf = [0u8; BUF];
    let base = buf.as_ptr();

    let mut header_storage: &[u8] = &hdr[..hl];
    let control_data: &[u8] = &cd[..cl];
    let mut payload_storage: &[u8] = &pl_bytes[..pl];
    let len = encoder::encode(
        EncoderBuffer::new(&mut buf),
        source_control_port,
        packet_number,
        next_expected,
        VarInt::new(hl as u64).unwrap(),
        &mut header_storage,
        &control_data,
        VarInt::new(pl as u64).unwrap(),
        &mut payload_storage,
        &key,
        &credentials,
    );

    // control data is only written for ack-eliciting datagrams
    let cl_wire = if next_expected.is_some() { cl } else { 0 };
    let has_pn = packet_number.is_some() || next_expected.is_some();
    let aad_len = 1 + 16 + varint_len(credentials.key_id.as_u64()) + 1 + 2
        + (if has_pn { varint_len(packet_number.unwrap().as_u64()) } else { 0 })
        + varint_len(pl as u64)
        + (match next_expected { Some(v) => varint_len(v.as_u64()) + varint_len(cl as u64), None => 0 })
        + (if hl > 0 { varint_len(hl as u64) + hl } else { 0 })
        + cl_wire;
    assert!(len == aad_len + pl + TAGLEN, "C18/datagram.encode/encoded_len_as_announced");
    assert!(key.aad.get() == (base, aad_len), "C18/datagram.encode/aad_is_every_byte_before_the_payload");
    assert!(key.out.get() == (unsafe { base.add(aad_len) }, pl + TAGLEN) && key.extra_len.get() <= pl,
            "C18/datagram.encode/payload_and_tag_are_the_rest_of_the_packet");
    assert!(key.nonce.get() == (match packet_number { Some(v) => v.as_u64(), None => 0 }), "C18/datagram.encode/nonce_is_packet_number");
    // tag byte: independent transcription of the bit layout 0100 A C H K
    let tag_byte = 0b0100_0000u8
        | (if next_expected.is_some() { 0b1000 } else { 0 })
        | (if packet_number.is_some() { 0b0100 } else { 0 })
        | (if hl > 0 { 0b0010 } else { 0 })
        | (if key.phase { 0b0001 } else { 0 });
    assert!(buf[0] == tag_byte, "C18/datagram.encode/tag_byte_layout");

    let (packet, rest) = match Packet::decode(DecoderBufferMut::new(&mut buf[..len]), (), TAGLEN) {
        Ok(v) => v,
        Err(_) => {
            assert!(false, "C18/datagram.round_trip/encoded_packet_decodes");
            return;
        }
    };
    assert!(rest.is_empty(), "C18/datagram.round_trip/nothing_left_over");
    assert!(id_of(&packet.credentials().id) == id_of(&credentials.id) && packet.credentials().key_id == credentials.key_id,
            "C18/datagram.round_trip/credentials");
    assert!(packet.wire_version() == WireVersion::ZERO, "C18/datagram.round_trip/wire_version");
    assert!(packet.source_control_port() == source_control_port, "C18/datagram.round_trip/source_control_port");
    assert!(packet.packet_number().as_u64() == (if has_pn { packet_number.unwrap().as_u64() } else { 0 }),
            "C18/datagram.round_trip/packet_number");
    assert!(packet.crypto_nonce() == key.nonce.get(), "C18/datagram.round_trip/decoder_nonce_equals_encoder_nonce");
    assert!(opt_u64(packet.next_expected_control_packet()) == opt_u64(next_expected), "C18/datagram.round_trip/next_expected_control_packet");
    assert!(eq_small(packet.application_header(), &hdr[..hl]), "C18/datagram.round_trip/application_header");
    assert!(eq_small(packet.control_data(), &cd[..cl_wire]), "C18/datagram.round_trip/control_data");
    assert!(packet.header().as_ptr() == base && packet.header().len() == aad_len, "C18/datagram.round_trip/decoder_aad_equals_encoder_aad");
    assert!(packet.payload().len() == pl && packet.auth_tag().len() == TAGLEN && packet.wire_len() == len,
            "C18/datagram.round_trip/payload_and_tag_lengths");
    // undo the stand-in cipher: the payload bytes are the ones passed in
    let x = key.k.key[15];
    let p = packet.payload();
    assert!((pl < 1 || p[0] ^ x == pl_bytes[0]) && (pl < 2 || p[1] ^ x == pl_bytes[1]) && (pl < 3 || p[2] ^ x == pl_bytes[2])
                && (pl < 4 || p[3] ^ x == pl_bytes[3]),
            "C18/datagram.round_trip/payload_bytes");
    assert!(be16(packet.auth_tag()) == key.k.mac(packet.header(), packet.crypto_nonce()), "C18/datagram.round_trip/sealed_packet_verifies");

    kani::cover!(hl == HMAX && cl == CMAX && pl == PMAX && next_expected.is_some(), "reach:all_optional_fields");
    kani::cover!(hl == 0 && pl == 0 && packet_number.is_none() && next_expected.is_none(), "reach:minimal_packet");
    kani::cover!(next_expected.is_none() && cl > 0, "reach:control_data_dropped_when_not_ack_eliciting");
    kani::cover!(true, "reach:end");
}

//@ harness props=C18 tier=thorough level=bounded timeout=1800 bound="input <= 48 bytes, contents and length symbolic (shortest valid packet: 38 bytes)"
//@ fn packet::datagram::decoder::Packet::decode
#[kani::proof]
#[kani::unwind(8)]
fn vq_c18_datagram_decode_total() {
    const N: usize = 48;
    let mut buf: [u8; N] = kani::any();
    let snapshot = buf;
    let len: usize = kani::any();
    kani::assume(len <= N);
    let base = buf.as_ptr();
    match Packet::decode(DecoderBufferMut::new(&mut buf[..len]), (), TAGLEN) {
        Ok((packet, rest)) => {
            assert!(snapshot[0] & 0xf0 == 0b0100_0000, "C18/datagram.decode/accepts_only_datagram_tags");
            assert!(packet.header().as_ptr() == base
                        && packet.header().len() + packet.payload().len() + TAGLEN + rest.len() == len,
                    "C18/datagram.decode/header_payload_tag_rest_partition_the_input");
            assert!(packet.auth_tag().len() == TAGLEN && packet.wire_len() == len - rest.len(), "C18/datagram.decode/wire_len");
            assert!(packet.application_header().len() + packet.control_data().len() <= packet.header().len(),
                    "C18/datagram.decode/ranges_inside_header");
            assert!(packet.wire_version() == WireVersion::ZERO, "C18/datagram.decode/wire_version_zero");
            kani::cover!(packet.payload().len() == 3, "reach:ok_with_payload");
            kani::cover!(packet.next_expected_control_packet().is_some(), "reach:ok_ack_eliciting");
        }
        Err(_) => {
            kani::cover!(len == 0, "reach:empty_input");
            kani::cover!(len == N && snapshot[0] == 0b0100_0000, "reach:truncated_or_oversized_lengths");
        }
    }
    kani::cover!(true, "reach:end");
}
