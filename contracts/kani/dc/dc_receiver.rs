//@ inject crate=dc src=dc/s2n-quic-dc/src/path/secret/receiver.rs
// Contract harnesses for the dc replay-window receiver (property C19, receiver half).
// Predicates: contracts/spec/dc_keys.rs (shared with the Verus lemmas in verus/lemmas/C19.rs).
//
// Structure of the receiver proof.  `bitvec`'s `shift_end` does not fit into CBMC (DESIGN 7 / probe P5; re-measured
// here: bitvec encodes span head/length into pointer bits and recovers lengths through pointer->integer casts, so
// even for a CONCRETE distance CBMC sees symbolic loop bounds and unwinds the generic bit-by-bit copy loop of
// `copy_within_unchecked` (9 of 895 iterations in 10 min for distance 1; the 8 edge distances did not finish in
// 20 min)).  Therefore:
//   * vq_c19_receiver_post_authentication_{initial,advance,within} run the REAL `post_authentication` from an
//     arbitrary state (symbolic max_seen, 896 symbolic window bits, symbolic key id, symbolic witness id) with
//     exactly ONE dependency function, `bitvec::slice::BitSlice::shift_end`, replaced through `#[kani::stub]` by the
//     word-level model `shift_end_model` below, which works on the same 14-word storage.  Everything else -- the
//     max/delta/index arithmetic, `fill`, the test-and-set through `get_mut`/`BitRef`, Mutex and atomics -- is real.
//   * ASSUMED DEPENDENCY CONTRACT (A-bitvec-shift_end, trusted, not proved): for a 896-bit `BitArr!(for 896)` (usize,
//     Lsb0) and by <= 896, `shift_end(by)` moves bit i to bit i + by and clears the low `by` bits (bitvec 1.1.1
//     documentation of `BitSlice::shift_end`).  The planned Kani cross-check of the model against the real function
//     for the distances {0,1,63,64,65,127,895,896} is NOT feasible (see above) and is not claimed.
// Concurrency: the step runs under `self.seen`'s Mutex; Kani executes it sequentially (A-atomics).
use super::*;
use crate::credentials::Id;
#[allow(dead_code, unused_variables)]
mod spec {
    include!("../../spec/dc_keys.rs");
}
use spec::*;

const KEY_MAX: u64 = (1u64 << 62) - 1;
const WORDS: usize = 14;
type Words = [usize; WORDS];

// ---- the word-level model of BitSlice::<usize, Lsb0>::shift_end on a 896-bit array ---------------------------
// bitvec documentation of shift_end: "bit i moves to i + by; the vacated low `by` bits are cleared; by == len
// clears everything; panics if by > len".  Lsb0 over usize: bit i lives in word i / 64 at position i % 64.
fn model_word(old: &Words, j: usize, q: usize, r: u32) -> usize {
    if j < q {
        0
    } else {
        let lo = old[j - q] << r;
        let hi = if r > 0 && j - q >= 1 { old[j - q - 1] >> (64 - r) } else { 0 };
        lo | hi
    }
}

fn shift_words(old: &Words, by: usize) -> Words {
    let q = by / 64;
    let r = (by % 64) as u32;
    [
        model_word(old, 0, q, r), model_word(old, 1, q, r), model_word(old, 2, q, r), model_word(old, 3, q, r),
        model_word(old, 4, q, r), model_word(old, 5, q, r), model_word(old, 6, q, r), model_word(old, 7, q, r),
        model_word(old, 8, q, r), model_word(old, 9, q, r), model_word(old, 10, q, r), model_word(old, 11, q, r),
        model_word(old, 12, q, r), model_word(old, 13, q, r),
    ]
}

/// Stub for `bitvec::slice::BitSlice::shift_end` (same signature).  Only sound for a bit-slice that is a whole
/// `Seen` array (checked here: 896 bits starting at bit 0 of its first word) and `by <= 896` (checked here; the
/// real function panics otherwise).
fn shift_end_model<T: bitvec::store::BitStore, O: bitvec::order::BitOrder>(
    this: &mut bitvec::slice::BitSlice<T, O>,
    by: usize,
) {
    assert!(this.len() == WINDOW, "C19/receiver.shift_end_model/called_on_whole_window");
    assert!(by <= WINDOW, "C19/receiver.post_authentication/shift_distance_at_most_window");
    let bp = this.as_mut_bitptr();
    assert!(bp.bit().into_inner() == 0, "C19/receiver.shift_end_model/called_on_whole_window");
    assert!(core::mem::size_of::<T>() == core::mem::size_of::<usize>(), "C19/receiver.shift_end_model/called_on_whole_window");
    let p = bp.pointer() as *mut Words;
    unsafe {
        let old: Words = *p;
        *p = shift_words(&old, by);
    }
}

// ---- builder / abstraction ----------------------------------------------------------------------------------
struct Pre {
    init: bool,
    max_seen: u64,
    words: Words,
}

/// Representation invariant of receiver::State:
///   initial state (State::new): max_seen_key_id == u64::MAX and an empty window;
///   otherwise: max_seen <= 2^62 - 2 (KeyId::MAX is rejected before any state change) and bit 0 -- the maximum
///   itself -- is set; all other 895 bits arbitrary.
/// post_authentication re-establishes it (asserted as `inv_preserved`).
/// `any_receiver` builds every non-initial state; the initial state is built by the real `State::new()`.
fn any_receiver() -> (State, Pre) {
    let state = State::new();
    let mut words: Words = kani::any();
    let max_seen: u64 = kani::any();
    kani::assume(max_seen < KEY_MAX);
    words[0] |= 1;
    state.max_seen_key_id.store(max_seen, Ordering::Relaxed);
    {
        let mut seen = state.seen.lock().unwrap();
        *seen = Seen::new(words);
    }
    (state, Pre { init: false, max_seen, words })
}

fn read_back(state: &State) -> Pre {
    let max_seen = state.max_seen_key_id.load(Ordering::Relaxed);
    let words: Words = state.seen.lock().unwrap().data;
    Pre { init: max_seen == u64::MAX, max_seen, words }
}

fn abs(p: &Pre) -> Rx {
    Rx { init: p.init, max_seen: if p.init { 0 } else { p.max_seen as i128 } }
}

/// independent reading of the window: bit i of the Lsb0/usize array
fn bit(words: &Words, i: u64) -> bool {
    (words[(i / 64) as usize] >> (i % 64)) & 1 == 1
}

/// "id w is marked as accepted in the window"
fn seen_at(p: &Pre, w: u64) -> bool {
    !p.init && w <= p.max_seen && p.max_seen - w < WINDOW as u64 && bit(&p.words, p.max_seen - w)
}

fn words_eq(a: &Words, b: &Words) -> bool {
    a[0] == b[0] && a[1] == b[1] && a[2] == b[2] && a[3] == b[3] && a[4] == b[4] && a[5] == b[5] && a[6] == b[6]
        && a[7] == b[7] && a[8] == b[8] && a[9] == b[9] && a[10] == b[10] && a[11] == b[11] && a[12] == b[12]
        && a[13] == b[13]
}

fn code(r: Result<(), Error>) -> i128 {
    match r {
        Ok(()) => 0,
        Err(Error::AlreadyExists) => 1,
        Err(Error::Unknown) => 2,
    }
}

fn creds(k: u64) -> Credentials {
    let id: [u8; 16] = kani::any();
    Credentials { id: Id::from(id), key_id: KeyId::new(k).unwrap() }
}

/// the one-step contract of post_authentication, shared by the stubbed (symbolic distance) and the unstubbed
/// (concrete distance) harnesses
fn check_post_authentication(state: &State, pre: &Pre, k: u64) -> Out {
    let w: u64 = kani::any(); // witness id: every obligation mentioning w holds for all ids
    kani::assume(w <= KEY_MAX);
    let old = abs(pre);
    let k_seen = seen_at(pre, k);
    let w_seen_old = seen_at(pre, w);
    assert!(rx_inv_at(old, w as i128, w_seen_old), "C19/receiver.builder/inv");

    let res = code(state.post_authentication(&creds(k)));

    let post = read_back(state);
    let new = abs(&post);
    let w_seen_new = seen_at(&post, w);
    let (k, w) = (k as i128, w as i128);
    assert!(rx_post_ok_iff(old, k, k_seen, res), "C19/receiver.post_authentication/ok_iff_unseen_and_in_window_and_not_max");
    assert!(rx_post_already_exists_iff_seen(old, k, k_seen, res), "C19/receiver.post_authentication/already_exists_iff_marked_in_window");
    assert!(rx_post_unknown_only_outside_window_or_max(old, k, k_seen, res), "C19/receiver.post_authentication/unknown_iff_outside_window_or_max");
    assert!(rx_post_max_seen(old, k, res, new), "C19/receiver.post_authentication/max_seen_is_max_of_accepted");
    assert!(rx_post_witness(old, k, res, new, w, w_seen_old, w_seen_new), "C19/receiver.post_authentication/accepted_is_old_plus_k_within_window");
    assert!(rx_inv_at(new, w, w_seen_new), "C19/receiver.post_authentication/inv_preserved");
    assert!(res == 0 || (post.max_seen == pre.max_seen && words_eq(&post.words, &pre.words)),
            "C19/receiver.post_authentication/error_leaves_state_unchanged");
    assert!(res != 0 || post.max_seen < KEY_MAX, "C19/receiver.post_authentication/max_seen_below_reserved_max");

    kani::cover!(true, "reach:end");
    Out { old, new, res, k, w_seen_old, w_seen_new }
}

struct Out {
    old: Rx,
    new: Rx,
    res: i128,
    k: i128,
    w_seen_old: bool,
    w_seen_new: bool,
}

// The contract is discharged in three case harnesses whose union is every (state, key id) pair:
//   _initial: nothing accepted yet;  _advance: k > max_seen (window shifts);  _within: k <= max_seen (no shift).
// They take 60-525 s each on the shared development machine (16 cores, load average 20-60) and are therefore thorough-tier.

//@ harness props=C19 tier=thorough level=full timeout=2400
//@ fn path::secret::receiver::State::post_authentication
//@ fn path::secret::receiver::State::pre_authentication
//@ fn path::secret::receiver::State::new
// obligations asserted through check_post_authentication / shift_end_model (listed here for the registry):
//   "C19/receiver.builder/inv"
//   "C19/receiver.post_authentication/ok_iff_unseen_and_in_window_and_not_max"
//   "C19/receiver.post_authentication/already_exists_iff_marked_in_window"
//   "C19/receiver.post_authentication/unknown_iff_outside_window_or_max"
//   "C19/receiver.post_authentication/max_seen_is_max_of_accepted"
//   "C19/receiver.post_authentication/accepted_is_old_plus_k_within_window"
//   "C19/receiver.post_authentication/inv_preserved"
//   "C19/receiver.post_authentication/error_leaves_state_unchanged"
//   "C19/receiver.post_authentication/max_seen_below_reserved_max"
//   "C19/receiver.post_authentication/shift_distance_at_most_window"
//   "C19/receiver.shift_end_model/called_on_whole_window"
#[kani::proof]
#[kani::unwind(16)]
#[kani::stub(bitvec::slice::BitSlice::shift_end, shift_end_model)]
fn vq_c19_receiver_post_authentication_initial() {
    let state = State::new();
    let pre = read_back(&state);
    assert!(pre.init && words_eq(&pre.words, &[0; WORDS]), "C19/receiver.new/starts_empty");
    let k: u64 = kani::any();
    kani::assume(k <= KEY_MAX); // the argument is a KeyId (VarInt)
    let o = check_post_authentication(&state, &pre, k);
    kani::cover!(o.res == 0 && o.k == 0, "reach:first_accept_zero");
    kani::cover!(o.res == 2 && o.k == KEY_MAX as i128, "reach:unknown_reserved_max");
    kani::cover!(!o.w_seen_old && o.w_seen_new, "reach:witness_is_new_id");
}

//@ harness props=C19 tier=thorough level=full timeout=2400
//@ fn path::secret::receiver::State::post_authentication
//@ fn path::secret::receiver::State::pre_authentication
// obligations asserted through check_post_authentication / shift_end_model (listed here for the registry):
//   "C19/receiver.builder/inv"
//   "C19/receiver.post_authentication/ok_iff_unseen_and_in_window_and_not_max"
//   "C19/receiver.post_authentication/already_exists_iff_marked_in_window"
//   "C19/receiver.post_authentication/unknown_iff_outside_window_or_max"
//   "C19/receiver.post_authentication/max_seen_is_max_of_accepted"
//   "C19/receiver.post_authentication/accepted_is_old_plus_k_within_window"
//   "C19/receiver.post_authentication/inv_preserved"
//   "C19/receiver.post_authentication/error_leaves_state_unchanged"
//   "C19/receiver.post_authentication/max_seen_below_reserved_max"
//   "C19/receiver.post_authentication/shift_distance_at_most_window"
//   "C19/receiver.shift_end_model/called_on_whole_window"
#[kani::proof]
#[kani::unwind(16)]
#[kani::stub(bitvec::slice::BitSlice::shift_end, shift_end_model)]
fn vq_c19_receiver_post_authentication_advance() {
    let (state, pre) = any_receiver();
    let k: u64 = kani::any();
    kani::assume(k <= KEY_MAX);
    kani::assume(k > pre.max_seen); // case split
    let o = check_post_authentication(&state, &pre, k);
    kani::cover!(o.res == 0 && o.k > o.old.max_seen + 896, "reach:accept_jump_beyond_window");
    kani::cover!(o.res == 0 && o.k == o.old.max_seen + 896, "reach:accept_jump_exactly_window");
    kani::cover!(o.res == 0 && o.k == o.old.max_seen + 1, "reach:accept_next");
    kani::cover!(o.res == 2 && o.k == KEY_MAX as i128, "reach:unknown_reserved_max");
    kani::cover!(o.w_seen_old && !o.w_seen_new, "reach:witness_fell_out_of_window");
    kani::cover!(o.w_seen_old && o.w_seen_new, "reach:witness_kept_across_shift");
    kani::cover!(!o.w_seen_old && o.w_seen_new, "reach:witness_is_new_id");
}

//@ harness props=C19 tier=thorough level=full timeout=2400
//@ fn path::secret::receiver::State::post_authentication
//@ fn path::secret::receiver::State::pre_authentication
// obligations asserted through check_post_authentication / shift_end_model (listed here for the registry):
//   "C19/receiver.builder/inv"
//   "C19/receiver.post_authentication/ok_iff_unseen_and_in_window_and_not_max"
//   "C19/receiver.post_authentication/already_exists_iff_marked_in_window"
//   "C19/receiver.post_authentication/unknown_iff_outside_window_or_max"
//   "C19/receiver.post_authentication/max_seen_is_max_of_accepted"
//   "C19/receiver.post_authentication/accepted_is_old_plus_k_within_window"
//   "C19/receiver.post_authentication/inv_preserved"
//   "C19/receiver.post_authentication/error_leaves_state_unchanged"
//   "C19/receiver.post_authentication/max_seen_below_reserved_max"
//   "C19/receiver.post_authentication/shift_distance_at_most_window"
//   "C19/receiver.shift_end_model/called_on_whole_window"
#[kani::proof]
#[kani::unwind(16)]
#[kani::stub(bitvec::slice::BitSlice::shift_end, shift_end_model)]
fn vq_c19_receiver_post_authentication_within() {
    let (state, pre) = any_receiver();
    let k: u64 = kani::any();
    kani::assume(k <= KEY_MAX);
    kani::assume(k <= pre.max_seen); // case split
    let o = check_post_authentication(&state, &pre, k);
    kani::cover!(o.res == 0 && o.k == o.old.max_seen - 895, "reach:accept_oldest_in_window");
    kani::cover!(o.res == 1 && o.k == o.old.max_seen - 895, "reach:replay_of_oldest_in_window");
    kani::cover!(o.res == 2 && o.k == o.old.max_seen - 896, "reach:unknown_just_below_window");
    kani::cover!(!o.w_seen_old && o.w_seen_new, "reach:witness_is_new_id");
    kani::cover!(o.w_seen_old && o.w_seen_new && o.res == 0, "reach:witness_kept");
}

//@ harness props=C19 tier=quick level=full timeout=120
//@ fn path::secret::receiver::State::minimum_unseen_key_id
#[kani::proof]
#[kani::unwind(3)]
fn vq_c19_receiver_minimum_unseen_key_id() {
    // any value of the atomic, also the ones the invariant excludes (the code saturates instead of panicking)
    let state = State::new();
    let max_seen: u64 = kani::any();
    state.max_seen_key_id.store(max_seen, Ordering::Relaxed);
    let pre = read_back(&state);
    let r = state.minimum_unseen_key_id().as_u64() as i128;
    let post = read_back(&state);
    let s = Rx { init: pre.init, max_seen: if pre.init { 0 } else { max_seen as i128 } };
    assert!(rx_min_unseen(s, r), "C19/receiver.minimum_unseen_key_id/is_max_seen_plus_one_saturating");
    assert!(post.max_seen == pre.max_seen && words_eq(&post.words, &pre.words), "C19/receiver.minimum_unseen_key_id/state_unchanged");
    kani::cover!(pre.init && r == 0, "reach:initial_is_zero");
    kani::cover!(!pre.init && r == KEY_MAX as i128 && max_seen == KEY_MAX - 1, "reach:largest_regular");
    kani::cover!(!pre.init && max_seen > KEY_MAX, "reach:saturated");
    kani::cover!(true, "reach:end");
}
