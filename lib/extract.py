"""Layer X: mechanical, verbatim extraction of real functions from /repo into a Verus file.

Directives inside a layer-X job file (verus/extract/*.rs):

  //@ splice-fn <repo file> <impl selector | -> <fn name> [ret=<name>] [drop=debug_assert] [subst="old=>new;;old2=>new2"] [vis=keep|strip]
  //@| requires ...            <- contract lines, copied between the extracted signature and the body
  //@| ensures  ...
  //@ splice-item <repo file> <first line prefix of the item> [else=1]  (struct / const / enum / type, or any
  //@             brace-delimited block such as a `match`; attributes dropped; else=1 keeps the else chain of an `if`)

What the extraction drops or rewrites is exactly (and is echoed into the evidence):
  * attribute lines (`#[inline]`, `#[must_use]`, `#[cfg_attr(..)]`, derives) and comments;
  * `-> T` becomes `-> (ret: T)` so that the postcondition can name the result;
  * with drop=debug_assert: `debug_assert!`/`debug_assert_eq!` statements;
  * with dropstmt=<prefix>[@@<prefix>..]: every statement that starts with the prefix (event publication such as
    `publisher.on_duplicate_packet( .. );`, `tracing::error!( .. );`), up to its terminating `;`;
  * `//@^ after|before "<anchor>" :: <proof-only text>` lines: ghost annotations (proof blocks, assertions, loop
    invariants, decreases clauses) inserted next to the unique occurrence of the anchor -- Verus erases them, the
    executable text is unchanged; only text starting with proof/assert/invariant/decreases/ensures/let ghost is accepted;
  * every `subst` pair listed in the directive (stated token substitutions, e.g. a trait call that Verus
    does not know replaced by the equivalent core function); a pair written `?old=>new` is an optional renaming
    (applied where the text mentions `old`, silently skipped where it does not -- for type renamings only).
Nothing else of the function body is touched.  If an anchor is not found: ExtractError -> undecided."""
import os
import re
import shlex

from common import REPO


class ExtractError(Exception):
    pass


def _scan(text, i):
    """Advance over one lexical element starting at i; returns (kind, next_i); kind in code|skip."""
    c = text[i]
    if text.startswith("//", i):
        j = text.find("\n", i)
        return "skip", (len(text) if j < 0 else j)
    if text.startswith("/*", i):
        j = text.find("*/", i + 2)
        return "skip", (len(text) if j < 0 else j + 2)
    if c == '"':
        j = i + 1
        while j < len(text) and text[j] != '"':
            j += 2 if text[j] == "\\" else 1
        return "skip", j + 1
    if c == "'":
        # char literal or lifetime
        m = re.match(r"'(\\.[^']*|[^'\\])'", text[i:i + 12])
        if m:
            return "skip", i + m.end()
        return "code", i + 1
    return "code", i + 1


def match_brace(text, open_i):
    assert text[open_i] == "{"
    depth = 0
    i = open_i
    while i < len(text):
        kind, j = _scan(text, i)
        if kind == "code":
            if text[i] == "{":
                depth += 1
            elif text[i] == "}":
                depth -= 1
                if depth == 0:
                    return i
        i = j
    raise ExtractError("unbalanced braces")


def find_code(text, pat, start=0, end=None):
    """First regex match of `pat` at or after start that is not inside a comment/string."""
    end = len(text) if end is None else end
    rx = re.compile(pat)
    i = start
    while i < end:
        kind, j = _scan(text, i)
        if kind == "code":
            m = rx.match(text, i)
            if m:
                return m
        i = j
    return None


def impl_blocks(text, impl_sel):
    """All (open_brace, close_brace) of impl blocks whose header (text between `impl` and `{`,
    whitespace-normalised, leading generics `<..>` removed) equals the selector."""
    want = " ".join(impl_sel.split())
    out = []
    i = 0
    while True:
        m = find_code(text, r"impl\b([^{;]*)\{", i)
        if not m:
            break
        hdr = " ".join(m.group(1).split())
        hdr_nog = re.sub(r"^<[^>]*>\s*", "", hdr)
        ob = m.end() - 1
        cb = match_brace(text, ob)
        if hdr == want or hdr_nog == want:
            out.append((ob, cb))
        i = ob + 1
    return out


def locate_fn(text, impl_sel, fn_name):
    ranges = [(0, len(text))]
    if impl_sel != "-":
        ranges = impl_blocks(text, impl_sel)
        if not ranges:
            raise ExtractError("impl block `%s` not found" % impl_sel)
    for lo, hi in ranges:
        m = find_code(text, r"(?:pub(?:\([a-z:]+\))?\s+)?(?:const\s+)?(?:unsafe\s+)?fn\s+" + re.escape(fn_name) + r"\b", lo, hi)
        if not m:
            continue
        start = m.start()
        ob = find_code(text, r"\{", m.end(), hi)
        if not ob:
            raise ExtractError("fn `%s` has no body" % fn_name)
        cb = match_brace(text, ob.start())
        return start, ob.start(), cb
    raise ExtractError("fn `%s` not found in `%s`" % (fn_name, impl_sel))


def strip_comments_and_attrs(code):
    """Removes comments and every `#[...]` / `#![...]` attribute group (bracket-matched, also inline)."""
    out = []
    i = 0
    n = len(code)
    while i < n:
        if code.startswith("//", i):
            j = code.find("\n", i)
            i = n if j < 0 else j
            continue
        if code.startswith("/*", i):
            j = code.find("*/", i + 2)
            i = n if j < 0 else j + 2
            continue
        if code[i] == "#" and (code.startswith("#[", i) or code.startswith("#![", i)):
            j = code.index("[", i)
            depth = 0
            while j < n:
                kind, k = _scan(code, j)
                if kind == "code":
                    if code[j] == "[":
                        depth += 1
                    elif code[j] == "]":
                        depth -= 1
                        if depth == 0:
                            break
                j = k
            i = j + 1
            continue
        kind, j = _scan(code, i)
        out.append(code[i:j])
        i = j
    text = "".join(out)
    return "\n".join(l.rstrip() for l in text.split("\n") if l.strip() != "")



def drop_statements(body, prefix, what):
    """Removes every statement that starts with `prefix` (up to the `;` that ends it at nesting depth 0).
    Used for event-publication statements (`publisher.on_*( .. );`): declared drop, echoed into the evidence."""
    out = body
    n = 0
    while True:
        m = find_code(out, r"(?<![\w\.])" + re.escape(prefix))
        if not m:
            break
        # must be at statement start: previous non-space char is one of `{ } ;`
        k = m.start() - 1
        while k >= 0 and out[k] in " \t\n":
            k -= 1
        if k >= 0 and out[k] not in "{};":
            raise ExtractError("`%s` is not at the start of a statement in %s" % (prefix, what))
        i = m.start()
        depth = 0
        while i < len(out):
            kind, j = _scan(out, i)
            if kind == "code":
                c = out[i]
                if c in "([{":
                    depth += 1
                elif c in ")]}":
                    depth -= 1
                    if depth < 0:
                        raise ExtractError("statement `%s` has no terminating `;` in %s" % (prefix, what))
                elif c == ";" and depth == 0:
                    break
            i = j
        else:
            raise ExtractError("statement `%s` not terminated in %s" % (prefix, what))
        out = out[:m.start()] + out[i + 1:]
        n += 1
    if n == 0:
        raise ExtractError("statement `%s` to drop not found in %s" % (prefix, what))
    return out, n


# `name:` alone is the Verus syntax that names the ghost iterator of a `for x in name: iter` loop (proof-only)
GHOST_OK = re.compile(r"^(proof\s*\{|assert\b|assert_by\b|invariant\b|invariant_except_break\b|ensures\b|decreases\b|let\s+ghost\b|broadcast\s+use\b|[a-z_]\w*:$)")


def insert_ghost(body, ghost_lines, what):
    """`//@^ after|before "<anchor>" :: <ghost text>`: inserts proof-only text (proof blocks, assertions, loop
    invariants / decreases clauses -- erased by Verus, no executable effect) next to the unique occurrence of the
    anchor in the extracted body.  Every insertion is echoed into the evidence."""
    notes = []
    for g in ghost_lines:
        m = re.match(r'(after|before)\s+"((?:[^"\\]|\\.)*)"\s*::\s*(.*)$', g)
        if not m:
            raise ExtractError("malformed ghost directive in %s: %s" % (what, g))
        where, anchor, text = m.group(1), m.group(2).replace('\\"', '"'), m.group(3).strip()
        if not GHOST_OK.match(text):
            raise ExtractError("ghost insertion in %s is not proof-only text: %s" % (what, text[:60]))
        n = body.count(anchor)
        if n != 1:
            raise ExtractError("ghost anchor `%s` occurs %d times in %s (need exactly 1)" % (anchor, n, what))
        k = body.index(anchor)
        if where == "after":
            k += len(anchor)
            body = body[:k] + "\n        " + text + "\n" + body[k:]
        else:
            body = body[:k] + text + "\n        " + body[k:]
        notes.append("%s: ghost (proof-only) text inserted %s `%s`: %s" % (what, where, anchor, text[:120]))
    return body, notes


def splice_fn(rel, impl_sel, fn_name, opts, contract_lines, ghost_lines=()):
    path = os.path.join(REPO, rel)
    if not os.path.exists(path):
        raise ExtractError("file %s not found" % rel)
    text = open(path).read()
    s, ob, cb = locate_fn(text, impl_sel, fn_name)
    sig = " ".join(strip_comments_and_attrs(text[s:ob]).split())
    body = strip_comments_and_attrs(text[ob:cb + 1])
    dropped = ["%s::%s: attributes and comments" % (impl_sel, fn_name)]
    ret = opts.get("ret", "ret")
    m = re.search(r"\)\s*->\s*(.+?)\s*(where\b.*)?$", sig)
    if m and contract_lines:
        sig = sig[:m.start()] + ") -> (%s: %s)" % (ret, m.group(1)) + (" " + m.group(2) if m.group(2) else "")
        dropped.append("%s::%s: return type `%s` named `%s`" % (impl_sel, fn_name, m.group(1), ret))
    if opts.get("vis") == "strip":
        sig = re.sub(r"^pub(\([a-z:]+\))?\s+", "", sig)
    if "debug_assert" in opts.get("drop", ""):
        body2 = re.sub(r"\n\s*debug_assert(?:_eq|_ne)?!\((?:[^;]|\n)*?\);", "", body)
        if body2 != body:
            dropped.append("%s::%s: debug_assert! statements" % (impl_sel, fn_name))
        body = body2
    for pre in [p for p in opts.get("dropstmt", "").split("@@") if p]:
        body, cnt = drop_statements(body, pre, fn_name)
        dropped.append("%s::%s: %d statement(s) starting with `%s` dropped (declared drop: event publication / tracing, no effect on the contracted state)" % (impl_sel, fn_name, cnt, pre))
    if "assign_ops" in opts.get("desugar", ""):
        # `place += expr;` / `place -= expr;` on newtype fields -> the method call the operator stands for (Verus
        # attaches fixed specs to the operator traits, so the impls are spliced as inherent fns); an integer literal
        # on the right selects the `<usize>` impl.  Purely syntactic, robust against renamed locals.
        def _ds(m):
            place, op, rhs = m.group(1), m.group(2), m.group(3).strip()
            meth = {"+=": "add_assign", "-=": "sub_assign"}[op]
            if re.fullmatch(r"\d+(usize)?", rhs):
                meth += "_usize"
            return "%s.%s(%s);" % (place, meth, rhs)
        body2 = re.sub(r"((?:self\.)[A-Za-z_][\w\.]*)\s*(\+=|-=)\s*([^;]+);", _ds, body)
        if body2 != body:
            dropped.append("%s::%s: `place += e;` / `place -= e;` desugared to `place.add_assign(e);` / `place.sub_assign(e);`" % (impl_sel, fn_name))
        body = body2
    for pair in [p for p in opts.get("subst", "").split("@@") if p]:
        a, b = pair.split("=>", 1)
        if a.startswith("?"):
            a = a[1:]
            if a not in body and a not in sig:
                continue   # optional renaming: nothing to rename in this version of the text
        if a not in body and a not in sig:
            raise ExtractError("substitution source `%s` not found in %s" % (a, fn_name))
        body = body.replace(a, b)
        sig = sig.replace(a, b)
        dropped.append("%s::%s: substitution `%s` => `%s`" % (impl_sel, fn_name, a, b))
    if ghost_lines:
        body, notes = insert_ghost(body, ghost_lines, "%s::%s" % (impl_sel, fn_name))
        dropped += notes
    # contract lines may be tagged `[mut]` / `[ref]`: kept only if the extracted signature takes `&mut self` / does not.
    # (a change that turns a `&self` lookup into a `&mut self` mutator is then judged against the frame clause
    # instead of making the contract ill-formed)
    is_mut = re.search(r"&\s*(?:'\w+\s+)?mut\s+self\b", sig) is not None
    sel = []
    for c in contract_lines:
        if c.startswith("[mut]"):
            if is_mut:
                sel.append(c[5:].strip())
        elif c.startswith("[ref]"):
            if not is_mut:
                sel.append(c[5:].strip())
        else:
            sel.append(c)
    contract_lines = sel
    out = ["// extracted verbatim from %s (%s::%s)" % (rel, impl_sel, fn_name), sig]
    out += ["    " + c for c in contract_lines]
    out.append(body)
    return "\n".join(out), dropped


def splice_item(rel, prefix, opts=None):
    path = os.path.join(REPO, rel)
    if not os.path.exists(path):
        raise ExtractError("file %s not found" % rel)
    text = open(path).read()
    m = find_code(text, re.escape(prefix))
    if not m:
        raise ExtractError("item `%s` not found in %s" % (prefix, rel))
    semi = find_code(text, r";", m.start())
    ob = find_code(text, r"\{", m.start())
    if ob and (not semi or ob.start() < semi.start()):
        end = match_brace(text, ob.start()) + 1
        # else=1: an `if .. { .. }` statement is extracted together with its `else [if ..] { .. }` chain
        while opts and opts.get("else"):
            m2 = re.match(r"\s*else\b[^{;]*\{", text[end:])
            if not m2:
                break
            end = match_brace(text, end + m2.end() - 1) + 1
    elif semi:
        end = semi.end()
    else:
        raise ExtractError("item `%s` has no end" % prefix)
    code = strip_comments_and_attrs(text[m.start():end])
    d = ["item `%s`: attributes (derives) and comments" % prefix]
    if opts and opts.get("vis") == "strip":
        code = re.sub(r"^pub(\([a-z:]+\))?\s+", "", code)
        d.append("item `%s`: visibility qualifier" % prefix)
    if opts and opts.get("derive"):
        # keep the listed derives, provided the original item really derives them (looked up in the
        # attribute lines directly above the item); `Structural` is Verus' marker for structural ==
        head = text[max(0, m.start() - 600):m.start()]
        have = set(x.strip() for mm in re.finditer(r"derive\(([^)]*)\)", head[head.rfind("\n\n") + 1:]) for x in mm.group(1).split(","))
        want = [x for x in opts["derive"].split(",") if x]
        missing = [x for x in want if x not in have and x != "Structural"]
        if missing:
            raise ExtractError("item `%s` does not derive %s in the source" % (prefix, missing))
        code = "#[derive(%s)]\n%s" % (", ".join(want), code)
        d[0] = "item `%s`: attributes and comments, except derive(%s) kept from the source%s" % (
            prefix, ", ".join(x for x in want if x != "Structural"), " (+ Verus marker Structural)" if "Structural" in want else "")
    for pre in [p for p in (opts or {}).get("dropstmt", "").split("@@") if p]:
        code, cnt = drop_statements(code, pre, prefix)
        d.append("item `%s`: %d statement(s) starting with `%s` dropped (declared drop: event publication / tracing)" % (prefix, cnt, pre))
    for pair in [p for p in (opts or {}).get("subst", "").split("@@") if p]:
        a, b = pair.split("=>", 1)
        if a.startswith("?"):
            a = a[1:]
            if a not in code:
                continue
        if a not in code:
            raise ExtractError("substitution source `%s` not found in item %s" % (a, prefix))
        code = code.replace(a, b)
        d.append("item `%s`: substitution `%s` => `%s`" % (prefix, a, b))
    return "// extracted verbatim from %s\n%s" % (rel, code), d


BLOCK_KW = re.compile(r"(if|for|while|loop|match|unsafe)\b|\{")


def _stmt_end(text, start, hi, else_chain=True):
    """End (exclusive) of the statement that starts at `start`: the `;` at nesting depth 0, or -- for a statement that
    starts with a block keyword -- the `}` that closes its block (plus its `else` chain)."""
    blockish = BLOCK_KW.match(text, start) is not None
    depth = 0
    i = start
    while i < hi:
        kind, j = _scan(text, i)
        if kind == "code":
            c = text[i]
            if c in "([{":
                depth += 1
            elif c in ")]}":
                depth -= 1
                if depth < 0:
                    # the enclosing block ends before any `;`: the anchor starts the block's TAIL EXPRESSION
                    return i
                if depth == 0 and c == "}" and blockish:
                    end = i + 1
                    while else_chain:
                        m2 = re.match(r"\s*else\b[^{;]*\{", text[end:hi])
                        if not m2:
                            break
                        end = match_brace(text, end + m2.end() - 1) + 1
                    # a block used as an expression statement may still be followed by `;` or `?;`
                    m3 = re.match(r"\s*\??\s*;", text[end:hi])
                    if m3 and not re.match(r"\s*(if|for|while|loop|match)\b", text[start:hi]):
                        end += m3.end()
                    return end
            elif c == ";" and depth == 0:
                return i + 1
        i = j
    if depth == 0:
        return hi   # tail expression of the function body
    raise ExtractError("statement at offset %d is not terminated" % start)


def splice_stmts(rel, impl_sel, fn_name, opts, ghost_lines=()):
    """Statement-level extraction: a contiguous run of statements of one real function.

      //@ splice-stmts <repo file> "<impl selector>" <fn> "from=<anchor text>" ["to=<anchor text>" | "until=<anchor text>"] [inner=1] [subst=..] [dropstmt=..]

    The run starts at the first occurrence of the `from` anchor inside the function body (which must be at the start of
    a statement) and ends with the statement that starts at the `to` anchor (default: the `from` statement itself).
    inner=1: the single extracted statement is a block construct (`for .. { body }`, `if .. { body }`); only the text
    between its outermost braces is kept and the header is echoed as a declared drop (loop body verified for an
    arbitrary element / branch body verified under a stated precondition)."""
    path = os.path.join(REPO, rel)
    if not os.path.exists(path):
        raise ExtractError("file %s not found" % rel)
    text = open(path).read()
    s, ob, cb = locate_fn(text, impl_sel, fn_name)
    what = "%s::%s" % (impl_sel, fn_name)
    if opts.get("body"):
        # body=1: the WHOLE body of the function (everything between its braces), whatever it says
        code = strip_comments_and_attrs(text[ob + 1:cb])
        d = ["%s: the whole function body is extracted (the signature is replaced by the wrapper's); attributes and comments dropped" % what]
        return _finish_stmts(rel, what, code, d, opts, ghost_lines)
    if "from" not in opts:
        raise ExtractError("splice-stmts %s: from= missing" % what)
    m = find_code(text, re.escape(opts["from"]), ob + 1, cb)
    if not m:
        raise ExtractError("anchor `%s` not found in %s" % (opts["from"], what))
    k = m.start() - 1
    while k > ob and text[k] in " \t\n":
        k -= 1
    # skip back over a trailing line comment check: previous significant char must end a statement / open a block
    if text[k] not in "{};" and not _prev_is_comment(text, k):
        raise ExtractError("anchor `%s` is not at the start of a statement in %s" % (opts["from"], what))
    start = m.start()
    last = start
    if opts.get("to"):
        m2 = find_code(text, re.escape(opts["to"]), start, cb)
        if not m2:
            raise ExtractError("anchor `%s` not found after `%s` in %s" % (opts["to"], opts["from"], what))
        last = m2.start()
    if opts.get("until"):
        # exclusive end: everything up to (not including) the statement that starts at the `until` anchor
        m3 = find_code(text, re.escape(opts["until"]), start + 1, cb)
        if not m3:
            raise ExtractError("anchor `%s` not found after `%s` in %s" % (opts["until"], opts["from"], what))
        end = m3.start()
    else:
        end = _stmt_end(text, last, cb, else_chain=opts.get("else", "1") != "0")
    raw = text[start:end]
    d = ["%s: statement-level extraction -- only the statements from `%s`%s are extracted; the rest of the function body is NOT verified by this job; attributes and comments dropped"
         % (what, opts["from"], (" to `%s`" % opts["to"]) if opts.get("to") else ((" up to (excluding) `%s`" % opts["until"]) if opts.get("until") else ""))]
    if opts.get("inner"):
        o = find_code(raw, r"\{")
        if not o:
            raise ExtractError("inner=1: statement `%s` of %s has no block" % (opts["from"], what))
        c = match_brace(raw, o.start())
        if raw[c + 1:].strip() not in ("", ";"):
            raise ExtractError("inner=1: statement `%s` of %s has text after its block" % (opts["from"], what))
        hdr = " ".join(strip_comments_and_attrs(raw[:o.start()]).split())
        d.append("%s: block header `%s` dropped, the block body is verified for an arbitrary element / under the stated precondition" % (what, hdr))
        raw = raw[o.start() + 1:c]
    code = strip_comments_and_attrs(raw)
    return _finish_stmts(rel, what, code, d, opts, ghost_lines)


def _finish_stmts(rel, what, code, d, opts, ghost_lines):
    if "bool_assign" in opts.get("desugar", ""):
        # `x &= e;` / `x |= e;` on bool locals -> `x = x && (e);` / `x = x || (e);` (Verus has no non-short-circuit bool
        # operators).  Same value whenever `e` has no side effect -- say so in the job header.
        # the right-hand side is evaluated FIRST and unconditionally, exactly like the compound operator does
        code2 = re.sub(r"\b([A-Za-z_]\w*)\s*&=\s*([^;]+);", lambda m: "{ let verif_rhs: bool = %s; %s = %s && verif_rhs; }" % (m.group(2).strip(), m.group(1), m.group(1)), code)
        code2 = re.sub(r"\b([A-Za-z_]\w*)\s*\|=\s*([^;]+);", lambda m: "{ let verif_rhs: bool = %s; %s = %s || verif_rhs; }" % (m.group(2).strip(), m.group(1), m.group(1)), code2)
        if code2 != code:
            d.append("%s: `x &= e;` / `x |= e;` on bools desugared to `{ let t = e; x = x && t; }` / `{ let t = e; x = x || t; }` (right side evaluated first, unconditionally)" % what)
        code = code2
    for pre in [p for p in opts.get("dropstmt", "").split("@@") if p]:
        code, cnt = drop_statements(code, pre, what)
        d.append("%s: %d statement(s) starting with `%s` dropped (declared drop: event publication / tracing)" % (what, cnt, pre))
    for pair in [p for p in opts.get("subst", "").split("@@") if p]:
        a, b = pair.split("=>", 1)
        if a.startswith("?"):
            a = a[1:]
            if a not in code:
                continue
        if a not in code:
            raise ExtractError("substitution source `%s` not found in statements of %s" % (a, what))
        code = code.replace(a, b)
        d.append("%s: substitution `%s` => `%s`" % (what, a, b))
    if ghost_lines:
        code, notes = insert_ghost(code, ghost_lines, what)
        d += notes
    return "// extracted verbatim from %s (%s, statements)\n%s" % (rel, what, code), d


def _prev_is_comment(text, k):
    """True if position k lies at the end of a `//` line comment (so the anchor that follows starts a statement)."""
    ls = text.rfind("\n", 0, k + 1) + 1
    return "//" in text[ls:k + 1]


HOIST = []


def auto_consts(rel, code, jobtext, d):
    """autoconst=1: every SCREAMING_CASE identifier of the extracted text that is a file-level `const` of the SAME source
    file and is not defined by the job itself is spliced verbatim in front of the job (so that a change which
    introduces or alters such a constant is judged, not lost)."""
    text = open(os.path.join(REPO, rel)).read()
    for name in sorted(set(re.findall(r"\b[A-Z][A-Z0-9_]{2,}\b", code))):
        if re.search(r"\b(const|static)\s+%s\b" % name, jobtext) or any(("const %s:" % name) in h for h in HOIST):
            continue
        m = find_code(text, r"(?:pub(?:\([a-z:]+\))?\s+)?const\s+%s\s*:" % name)
        if not m:
            continue
        # file level only: brace depth 0 at the match
        depth = 0
        i = 0
        while i < m.start():
            kind, j = _scan(text, i)
            if kind == "code":
                depth += text[i] == "{"
                depth -= text[i] == "}"
            i = j
        if depth != 0:
            continue
        semi = find_code(text, r";", m.start())
        item = strip_comments_and_attrs(text[m.start():semi.end()])
        item = re.sub(r"^pub(\([a-z:]+\))?\s+", "", item)
        HOIST.append("// extracted verbatim from %s (constant referenced by an extracted statement)\npub %s" % (rel, item))
        d.append("constant `%s` of %s spliced because the extracted text references it" % (name, rel))


def expand_splices(body, top=True):
    if top:
        del HOIST[:]
    out_text, dropped = _expand_splices(body)
    if top and HOIST:
        out_text = "\n".join(HOIST) + "\n" + out_text
    return out_text, dropped


def _expand_splices(body):
    lines = body.split("\n")
    JOBTEXT[0] = body if not JOBTEXT[0] else JOBTEXT[0]
    out, dropped = [], []
    i = 0
    while i < len(lines):
        s = lines[i].strip()
        if s.startswith("//@ splice-fn"):
            toks = shlex.split(s[len("//@ splice-fn"):])
            rel, impl_sel, fn_name = toks[0], toks[1], toks[2]
            opts = dict(t.split("=", 1) for t in toks[3:] if "=" in t)
            contract = []
            ghost = []
            i += 1
            while i < len(lines) and (lines[i].strip().startswith("//@|") or lines[i].strip().startswith("//@^")):
                if lines[i].strip().startswith("//@|"):
                    contract.append(lines[i].strip()[4:].strip())
                else:
                    ghost.append(lines[i].strip()[4:].strip())
                i += 1
            code, d = splice_fn(rel, impl_sel, fn_name, opts, contract, ghost)
            out.append(code)
            dropped += d
            continue
        if s.startswith("//@ splice-item"):
            toks = shlex.split(s[len("//@ splice-item"):])
            o_ = dict(t.split("=", 1) for t in toks[2:] if "=" in t)
            code, d = splice_item(toks[0], toks[1], o_)
            if o_.get("autoconst"):
                auto_consts(toks[0], code, JOBTEXT[0], d)
            out.append(code)
            dropped += d
            i += 1
            continue
        if s.startswith("//@ splice-stmts"):
            toks = shlex.split(s[len("//@ splice-stmts"):])
            ghost = []
            i += 1
            while i < len(lines) and lines[i].strip().startswith("//@^"):
                ghost.append(lines[i].strip()[4:].strip())
                i += 1
            o_ = dict(t.split("=", 1) for t in toks[3:] if "=" in t)
            code, d = splice_stmts(toks[0], toks[1], toks[2], o_, ghost)
            if o_.get("autoconst"):
                auto_consts(toks[0], code, JOBTEXT[0], d)
            out.append(code)
            dropped += d
            continue
        if s.startswith("//@ absent-fn"):
            # syntactic obligation: the named functions are NOT defined in the file (e.g. a packet space that must keep
            # the trait's default frame handlers).  A definition that appears makes the job UNDECIDED ("contract needed").
            toks = shlex.split(s[len("//@ absent-fn"):])
            ftext = open(os.path.join(REPO, toks[0])).read()
            for nm in toks[1].split(","):
                if find_code(ftext, r"fn\s+" + re.escape(nm) + r"\b"):
                    raise ExtractError("%s now defines `%s` (it used to inherit the trait default): the override needs a contract of its own" % (toks[0], nm))
            dropped.append("syntactic obligation checked: %s defines none of %s" % (toks[0], toks[1]))
            out.append("// absent-fn checked: %s" % toks[0])
            i += 1
            continue
        if s.startswith("//@ include-job"):
            if s.split()[2] in INCLUDED:
                out.append("// (job %s already included)" % s.split()[2])
                i += 1
                continue
            INCLUDED.add(s.split()[2])
            inc = os.path.join(os.path.dirname(JOBDIR[0]), s.split()[2])
            sub, d = _expand_splices("\n".join(l for l in open(inc).read().split("\n") if not l.startswith("//@ verus")))
            out.append("// ---- included job %s ----" % s.split()[2])
            out.append(sub)
            out.append("// ---- end included job %s ----" % s.split()[2])
            dropped += d
            i += 1
            continue
        out.append(lines[i])
        i += 1
    return "\n".join(out), dropped


INCLUDED = set()
JOBTEXT = [""]
JOBDIR = [os.path.join(os.path.dirname(os.path.dirname(os.path.abspath(__file__))), "verus", "extract", "x")]


def functions_of(job):
    fns = []
    for ln in open(job.path).read().split("\n"):
        s = ln.strip()
        if s.startswith("//@ splice-fn"):
            toks = shlex.split(s[len("//@ splice-fn"):])
            fns.append("%s %s::%s" % (toks[0], toks[1], toks[2]))
        elif s.startswith("//@ splice-stmts"):
            toks = shlex.split(s[len("//@ splice-stmts"):])
            f = "%s %s::%s [statements]" % (toks[0], toks[1], toks[2])
            if f not in fns:
                fns.append(f)
    return fns
