"""Scratch copy of /repo's working tree with the add-only harness modules injected (DESIGN 2.1)."""
import fcntl
import os
import shutil
import time

from common import REPO, SCRATCH_ROOT, VERIF, log, repo_tree_hash, run, sha256_bytes
from registry import MANIFEST_EDITS


class Scratch:
    """One scratch tree per /verif checkout.  It is re-synchronised with /repo's working tree on every
    run (rsync keeps mtimes, so cargo only rebuilds what changed); files that carry injected lines are
    excluded from the rsync and rewritten only when their desired content changes."""

    def __init__(self):
        self.tree_hash, self.nfiles = repo_tree_hash()
        self.key = sha256_bytes(VERIF.encode())[:12]
        self.dir = os.path.join(SCRATCH_ROOT, self.key)
        self.repo = os.path.join(self.dir, "repo")
        self.replay_dir = os.path.join(self.dir, "replay")
        self.lock_fh = None
        self.injected = {}  # rel path -> list of added lines
        self.manifest_edits = {}

    def prune_others(self):
        for name in os.listdir(SCRATCH_ROOT):
            p = os.path.join(SCRATCH_ROOT, name)
            if name.endswith(".lock") or name == self.key or not os.path.isdir(p):
                continue
            try:
                age = time.time() - os.path.getmtime(os.path.join(p, ".state"))
            except OSError:
                age = time.time() - os.path.getmtime(p)
            if age < 8 * 3600:
                continue  # recently used by another /verif checkout (e.g. a `vp run` snapshot)
            try:
                fh = open(p + ".lock", "a")
                fcntl.flock(fh, fcntl.LOCK_EX | fcntl.LOCK_NB)
            except OSError:
                continue  # in use by another check
            log("scratch: removing unused tree", name)
            shutil.rmtree(p, ignore_errors=True)
            try:
                os.unlink(p + ".lock")
            except OSError:
                pass
            fh.close()

    def _state(self, modules):
        want = sorted((m.src, m.path) for m in modules)
        return self.tree_hash + "\n" + repr(want)

    def prepare(self, modules):
        """Create (or reuse) the scratch tree and bring it in line with /repo + `modules`.
        Holds a shared lock afterwards; the re-synchronisation itself happens under an exclusive lock,
        i.e. it waits for checks that are still running on the previous tree."""
        os.makedirs(SCRATCH_ROOT, exist_ok=True)
        self.lock_fh = open(self.dir + ".lock", "a")
        fcntl.flock(self.lock_fh, fcntl.LOCK_SH)
        marker = os.path.join(self.dir, ".state")
        state = self._state(modules)
        if not (os.path.exists(marker) and open(marker).read() == state):
            fcntl.flock(self.lock_fh, fcntl.LOCK_UN)
            fcntl.flock(self.lock_fh, fcntl.LOCK_EX)
            if not (os.path.exists(marker) and open(marker).read() == state):
                self.prune_others()
                os.makedirs(self.repo, exist_ok=True)
                os.makedirs(self.replay_dir, exist_ok=True)
                if os.path.exists(marker):
                    os.unlink(marker)
                t0 = time.time()
                special = sorted(set(m.src for m in modules) | set(MANIFEST_EDITS) | self._previously_injected())
                excl = os.path.join(self.dir, ".rsync-exclude")
                open(excl, "w").write("".join("/" + r + "\n" for r in special))
                rc, out, _ = run(["rsync", "-a", "--delete", "--exclude", "/target", "--exclude", "/.git",
                                  "--exclude-from", excl, REPO.rstrip("/") + "/", self.repo + "/"])
                if rc != 0:
                    raise SystemExit("scratch: rsync failed: " + out[-500:])
                self._sync_injections(modules)
                open(marker, "w").write(state)
                log("scratch: synchronised %s with %s (%d files) in %.1fs" % (self.repo, REPO, self.nfiles, time.time() - t0))
            fcntl.flock(self.lock_fh, fcntl.LOCK_SH)
        else:
            self._sync_injections(modules, dry=True)

    def _previously_injected(self):
        p = os.path.join(self.dir, ".injected")
        if os.path.exists(p):
            return set(open(p).read().split("\n")) - {""}
        return set()

    def _sync_injections(self, modules, dry=False):
        want = {}
        for m in modules:
            lines = want.setdefault(m.src, [])
            # crates other than dc are only verified in builds that switch their `testing` feature/cfg on; when
            # they are compiled as a mere dependency of another crate's Kani build (dc depends on core and
            # transport, cfg(kani) is set there too) the harness modules must stay out
            gate = "kani" if m.crate == "dc" else 'all(kani, feature = "testing")'
            lines.append('#[cfg(%s)] #[path = "%s"] mod %s;' % (gate, m.path, m.modname))
            lines.append('#[cfg(all(test, aws_s2n_quic_verif_replay))] #[path = "%s"] mod %s_replay;'
                         % (os.path.join(self.replay_dir, m.modname + ".rs"), m.modname))
        state_p = os.path.join(self.dir, ".injected")
        touched = set(want) | self._previously_injected()
        for rel in sorted(touched):
            orig_p = os.path.join(REPO, rel)
            if not os.path.exists(orig_p):
                if rel in want:
                    raise LostAnchor("source file %s no longer exists" % rel)
                continue
            orig = open(orig_p).read()
            extra = want.get(rel, [])
            desired = orig + ("" if orig.endswith("\n") else "\n") + "".join(l + "\n" for l in extra) if extra else orig
            dst = os.path.join(self.repo, rel)
            cur = open(dst).read() if os.path.exists(dst) else None
            if cur != desired and not dry:
                os.makedirs(os.path.dirname(dst), exist_ok=True)
                with open(dst, "w") as f:
                    f.write(desired)
            if extra:
                self.injected[rel] = extra
        if not dry:
            open(state_p, "w").write("\n".join(sorted(want)))
        for rel, edits in MANIFEST_EDITS.items():
            orig = open(os.path.join(REPO, rel)).read()
            s = orig
            for a, b in edits:
                if a not in s:
                    raise LostAnchor("manifest line to edit not found in %s: %s" % (rel, a[:60]))
                s = s.replace(a, b, 1)
            dst = os.path.join(self.repo, rel)
            if not dry and not (os.path.exists(dst) and open(dst).read() == s):
                os.makedirs(os.path.dirname(dst), exist_ok=True)
                open(dst, "w").write(s)
            self.manifest_edits[rel] = [b for _, b in edits]

    def diff_summary(self):
        added = sum(len(v) for v in self.injected.values())
        return {"tree_hash": self.tree_hash, "files_hashed": self.nfiles, "scratch": self.repo,
                "source_lines_added": added, "source_lines_removed": 0,
                "source_files_with_injected_mod_lines": sorted(self.injected),
                "scratch_manifest_edits": self.manifest_edits}

    def remove(self):
        shutil.rmtree(self.dir, ignore_errors=True)


class LostAnchor(Exception):
    pass
