"""Runs contract harnesses with Kani on the scratch copy and classifies every check (DESIGN 2.4)."""
import json
import os
import re
import time
from concurrent.futures import ThreadPoolExecutor

from common import NCPU, VERIF, log, run
from registry import CRATES

RUSTFLAGS = '--cfg feature="testing"'


def rustflags_for(crate):
    """RUSTFLAGS of the Kani / replay build of a crate.  The global `--cfg feature="testing"` breaks crates
    whose `testing` feature pulls in optional dependencies (s2n-quic-dc: bach, bolero-generator); such a
    crate sets "kani_rustflags" in registry.CRATES."""
    return CRATES[crate].get("kani_rustflags", RUSTFLAGS)


def rustflags_env(crate):
    # an empty RUSTFLAGS variable makes kani-compiler see an empty file-name argument: leave it unset instead
    f = rustflags_for(crate)
    return {"RUSTFLAGS": f} if f.strip() else {}
NAMED = re.compile(r'^"?(C\d\d/[^"]+)"?$')


class HarnessResult:
    def __init__(self, h):
        self.h = h
        self.status = "undecided"  # discharged | failed | undecided
        self.reason = ""
        self.named = {}    # obligation -> status (discharged|failed|unreachable|undetermined)
        self.covers = {}   # description -> status
        self.safety_total = 0
        self.safety_failed = []  # [(description, location)]
        self.undecided_checks = []
        self.time_s = None
        self.solver_s = None
        self.solver = None
        self.vccs = None
        self.raw_tail = ""

    def failed_obligations(self):
        out = [o for o, s in self.named.items() if s == "failed"]
        if self.safety_failed:
            out.append("%s/safety" % self.h.name)
        return out


def _group_key(h):
    return (h.crate, tuple(sorted(f for f in h.flags if f in ("cbrtf",))))


def kani_cmd(crate, flags, harness_names, jobs, timeout_s, export_json, extra=()):
    c = CRATES[crate]
    cmd = ["cargo", "kani"] + c["kani_args"] + ["-Z", "unstable-options", "-Z", "stubbing", "-Z", "function-contracts"]
    if "cbrtf" in flags:
        cmd += ["-Z", "c-ffi", "--c-lib", os.path.join(VERIF, "clib", "cbrtf.c")]
    if jobs:
        cmd += ["-j", str(jobs), "--output-format", "terse"]
    if timeout_s:
        cmd += ["--harness-timeout", "%ds" % timeout_s]
    if export_json:
        cmd += ["--export-json", export_json]
    cmd += ["--exact"]
    cmd += list(extra)
    for n in harness_names:
        cmd += ["--harness", n]
    return cmd


def classify_check(c, hres):
    desc = c.get("description", "")
    status = c.get("status", "")
    cat = c.get("category", "")
    loc = c.get("location") or {}
    locs = "%s:%s" % (loc.get("file", "?"), loc.get("line", "?"))
    m = NAMED.match(desc)
    if cat == "cover":
        hres.covers[desc] = status
        return
    if m:
        name = m.group(1)
        st = {"Success": "discharged", "Failure": "failed", "Unreachable": "unreachable"}.get(status, "undetermined")
        # the same named assertion can be instantiated more than once (generic helpers): worst wins
        prev = hres.named.get(name)
        order = ["discharged", "unreachable", "undetermined", "failed"]
        if prev is None or order.index(st) > order.index(prev):
            hres.named[name] = st
        return
    if "dealloc" in hres.h.ignore and (c.get("function") == "__rust_dealloc" or "kani_lib.c" in (loc.get("file") or "")):
        # harnesses whose objects are contract stubs holding packed state (modular Reassembler): CBMC's checks on
        # *deallocating* those stand-in objects say nothing about the real code and flip with unrelated code layout
        hres.ignored = getattr(hres, "ignored", 0) + 1
        return
    hres.safety_total += 1
    if status == "Failure":
        if cat == "unwind" or "unwinding assertion" in desc:
            hres.undecided_checks.append("unwinding bound too small: " + locs)
        elif "not currently supported by Kani" in desc or cat == "unsupported_construct" or "unsupported" in cat:
            hres.undecided_checks.append("unsupported construct reached: %s %s" % (desc[:80], locs))
        elif (loc.get("file") or "").startswith(VERIF):
            hres.undecided_checks.append("check inside the harness itself failed (harness defect): %s %s" % (desc[:80], locs))
        else:
            hres.safety_failed.append((desc, locs, c.get("function", "")))
    elif status in ("Undetermined",):
        hres.undecided_checks.append("undetermined: %s %s" % (desc[:60], locs))


def finish(hres):
    h = hres.h
    failed = hres.failed_obligations()
    if failed:
        hres.status = "failed"
        hres.reason = "failed: " + ", ".join(failed)
        return
    if hres.undecided_checks:
        hres.status = "undecided"
        hres.reason = "; ".join(hres.undecided_checks[:3])
        return
    missing = [o for o in h.obligations if o not in hres.named]
    if missing:
        hres.status = "undecided"
        hres.reason = "named obligations not reported by Kani: " + ", ".join(missing[:4])
        return
    bad = [o for o, s in hres.named.items() if s != "discharged"]
    if bad:
        hres.status = "undecided"
        hres.reason = "vacuous/undetermined named obligations: " + ", ".join("%s=%s" % (o, hres.named[o]) for o in bad[:4])
        return
    if not hres.named:
        hres.status = "undecided"
        hres.reason = "harness produced no named obligation"
        return
    if not hres.covers:
        hres.status = "undecided"
        hres.reason = "harness has no reachability cover (vacuity guard)"
        return
    unsat = [d for d, s in hres.covers.items() if s != "Satisfied"]
    if unsat:
        hres.status = "undecided"
        hres.reason = "vacuity: cover not satisfied: " + ", ".join(unsat[:4])
        return
    hres.status = "discharged"



def qualified(h):
    """Fully qualified harness name as Kani prints it (for --exact)."""
    rel = h.src[len(CRATES[h.crate]["dir"]) + len("/src/"):]
    rel = rel[:-3] if rel.endswith(".rs") else rel
    parts = [p for p in rel.split("/") if p]
    if parts and parts[-1] in ("mod", "lib"):
        parts = parts[:-1]
    modname = "aws_s2n_quic_verif_" + re.sub(r"\W", "_", os.path.splitext(os.path.basename(h.file))[0])
    return "::".join(parts + [modname, h.name])


def run_group(scratch, crate, flags, harnesses, jobs, outdir):
    names = [qualified(h) for h in harnesses]
    # harness timeouts are calibrated on an idle 16-core machine: stretch them when the machine is busy
    # (other checks, builds), so that load alone never turns a discharged obligation into UNDECIDED
    try:
        load = os.getloadavg()[0] / float(NCPU)
    except OSError:
        load = 0.0
    scale = float(os.environ.get("VERIF_TIMEOUT_SCALE", "1.5")) * max(1.0, load)
    tmo = int(max(h.timeout for h in harnesses) * scale)
    # RLIMIT_AS is inherited by every process of the invocation, including kani-driver itself, whose *virtual*
    # size (threads, result JSON of thousands of checks) exceeded a 12 GB cap after all proofs were done
    # ("memory allocation of 128 bytes failed"): the cap is therefore generous and only stops runaway CBMC processes
    mem = max(32, 2 * max(h.mem for h in harnesses))
    tag = "%s-%s-%d-%s" % (crate, "_".join(flags) or "std", os.getpid(), names[0][-24:])
    export = os.path.join(outdir, "kani-%s.json" % tag)
    if os.path.exists(export):
        os.unlink(export)
    cmd = kani_cmd(crate, flags, names, jobs, tmo, export)
    cwd = os.path.join(scratch.repo, CRATES[crate]["dir"])
    log("kani[%s]: %d harnesses, -j %d, timeout %ds" % (tag, len(names), jobs, tmo))
    # outer limit: build (cold ~3 min) + ceil(n/jobs) rounds of the per-harness timeout
    outer = 900 + tmo * (1 + (len(names) + jobs - 1) // jobs)
    rc, out, wall = run(cmd, cwd=cwd, env=rustflags_env(crate), timeout=outer, mem_gb=mem)
    open(os.path.join(outdir, "kani-%s.log" % tag), "w").write(out)
    results = {h.name: HarnessResult(h) for h in harnesses}
    data = None
    if os.path.exists(export):
        try:
            data = json.load(open(export))
        except Exception as ex:  # noqa
            data = None
    if data is None:
        reason = "kani produced no result file (rc=%s)" % rc
        mm = re.search(r"error(?:\[E\d+\])?: [^\n]*\n\s*--> ([^\n]+)", out)
        if mm:
            where = mm.group(1).strip()
            first = re.search(r"error(?:\[E\d+\])?: ([^\n]*)", out).group(1)
            if VERIF in where or "aws_s2n_quic_verif" in where:
                reason = "compile error in injected harness code (lost anchor?): %s at %s" % (first, where)
            else:
                reason = "tree does not compile under Kani: %s at %s" % (first, where)
        elif rc == -9:
            reason = "kani group timed out after %ds" % outer
        for r in results.values():
            r.reason = reason
            r.raw_tail = out[-1500:]
        return list(results.values()), wall, " ".join(cmd)
    stats = {x["harness_id"]: x for x in data.get("cbmc", [])}
    seen = set()
    for r in data["verification_results"]["results"]:
        hid = r["harness_id"]
        short = hid.split("::")[-1]
        if short not in results:
            continue
        seen.add(short)
        hres = results[short]
        hres.time_s = r.get("duration_ms", 0) / 1000.0
        st = stats.get(hid, {})
        hres.solver = (st.get("configuration") or {}).get("solver")
        cs = st.get("cbmc_stats") or {}
        hres.solver_s = cs.get("runtime_decision_procedure_s")
        hres.vccs = cs.get("vccs_generated")
        for c in r.get("checks", []):
            classify_check(c, hres)
        if not r.get("checks"):
            hres.reason = "no checks reported (status %s: timeout, out of memory or CBMC crash)" % r.get("status")
            hres.status = "undecided"
            continue
        finish(hres)
    for n, hres in results.items():
        if n not in seen:
            m2 = re.search(r"Checking harness [^\n]*::%s\.\.\.(.*?)(?:Thread \d+: Checking harness|\Z)" % re.escape(n), out, re.S)
            hres.reason = "harness not in Kani's result file (timeout/OOM/crash?)"
            if m2:
                hres.raw_tail = m2.group(1)[-600:]
    return list(results.values()), wall, " ".join(cmd)


def run_harnesses(scratch, harnesses, outdir):
    """Returns ([HarnessResult], [cmds])."""
    groups = {}
    for h in harnesses:
        groups.setdefault(_group_key(h), []).append(h)
    # one crate at a time for the build (cargo lock); groups of one crate run sequentially, crates in parallel
    by_crate = {}
    for (crate, flags), hs in groups.items():
        by_crate.setdefault(crate, []).append((flags, hs))
    total = len(harnesses)
    ncr = max(1, len(by_crate))
    jobs_per = max(2, min(int(os.environ.get("VERIF_JOBS", "12")), NCPU - 2) // ncr)
    all_res, cmds = [], []

    # one cargo-kani invocation per at most MAX_GROUP harnesses: with ~50 harnesses in a single invocation the
    # kani driver itself ran out of memory under the address-space limit after all proofs had finished
    # ("memory allocation of 128 bytes failed", no result file, 2.7 h of work lost)
    max_group = int(os.environ.get("VERIF_MAX_GROUP", "12"))

    def do_crate(crate):
        out = []
        for flags, hs in by_crate[crate]:
            for k in range(0, len(hs), max_group):
                part = hs[k:k + max_group]
                res, wall, cmd = run_group(scratch, crate, flags, part, min(jobs_per, max(1, len(part))), outdir)
                out.append((res, cmd, wall))
        return out

    with ThreadPoolExecutor(max_workers=ncr) as ex:
        for lst in ex.map(do_crate, sorted(by_crate)):
            for res, cmd, wall in lst:
                all_res += res
                cmds.append(cmd)
    return all_res, cmds


VEC_RE = re.compile(r"vec!\[([0-9,\s]*)\]")


def concrete_playback(scratch, h, outdir, prefer=()):
    """Re-runs one failing harness with -Z concrete-playback and returns the list of byte vectors
    (one per kani::any() call, in call order) or None."""
    cmd = kani_cmd(h.crate, h.flags, [qualified(h)], 0, h.timeout, None,
                   extra=["-Z", "concrete-playback", "--concrete-playback", "print"])
    cwd = os.path.join(scratch.repo, CRATES[h.crate]["dir"])
    rc, out, wall = run(cmd, cwd=cwd, env=rustflags_env(h.crate), timeout=h.timeout * 2 + 600, mem_gb=h.mem)
    open(os.path.join(outdir, "playback-%s.log" % h.name), "w").write(out)
    tests = []
    for blk in out.split("Concrete playback unit test for")[1:]:
        m = re.search(r"/// Check for `([^`]*)`: \"?(.*?)\"?\n", blk)
        kind, desc = (m.group(1), m.group(2).strip().strip('"')) if m else ("?", "")
        i = blk.find("concrete_vals")
        j = blk.find("kani::concrete_playback_run", i)
        if i < 0:
            continue
        body = blk[i:j if j > 0 else len(blk)]
        inner = body[body.find("vec![") + 5:]
        vals = []
        for vm in VEC_RE.finditer(inner):
            b = vm.group(1).strip()
            vals.append([int(x) for x in b.split(",") if x.strip()] if b else [])
        tests.append({"kind": kind, "check": desc, "vals": vals})
    fails = [t for t in tests if t["kind"] != "cover"]
    if not fails:
        return None, out
    if prefer:
        for t in fails:
            if any(p and p in t["check"] for p in prefer):
                return t, out
    return fails[0], out
