"""Native replay of a Kani counterexample against the real code (DESIGN 2.5).

The harness module is rewritten mechanically into an ordinary #[test] module: `#[kani::proof]` becomes
`#[test]`, the other `#[kani::*]` attribute lines are dropped, and a small `kani` shim supplies
any()/assume()/cover!() reading the byte vectors Kani printed, in call order."""
import os
import re

from common import VERIF, run
from registry import CRATES
from kanirun import RUSTFLAGS, rustflags_for

SHIM = r'''
#[allow(unused, dead_code, unused_macros)]
mod verif_kani_shim {
    use std::cell::RefCell;
    thread_local! { static VALS: RefCell<(Vec<Vec<u8>>, usize)> = RefCell::new((load(), 0)); }
    fn load() -> Vec<Vec<u8>> {
        let s = std::env::var("VERIF_REPLAY_VALS").unwrap_or_default();
        if s.is_empty() { return vec![]; }
        s.split(';').map(|v| v.split(',').filter(|x| !x.is_empty()).map(|x| x.parse::<u8>().unwrap()).collect()).collect()
    }
    pub fn next(n: usize) -> Vec<u8> {
        VALS.with(|c| { let mut c = c.borrow_mut(); let i = c.1; c.1 += 1;
            let mut v = c.0.get(i).cloned().unwrap_or_default(); v.resize(n, 0); v })
    }
    pub trait Nd: Sized { fn nd() -> Self; }
    macro_rules! prim { ($($t:ty),*) => { $( impl Nd for $t { fn nd() -> Self {
        let v = next(core::mem::size_of::<$t>()); let mut a = [0u8; core::mem::size_of::<$t>()]; a.copy_from_slice(&v); <$t>::from_le_bytes(a) } } )* } }
    prim!(u8, u16, u32, u64, u128, usize, i8, i16, i32, i64, i128, isize);
    impl Nd for bool { fn nd() -> Self { next(1)[0] & 1 == 1 } }
    impl Nd for () { fn nd() -> Self {} }
    impl<T: Nd, const N: usize> Nd for [T; N] { fn nd() -> Self { core::array::from_fn(|_| T::nd()) } }
    impl<T: Nd> Nd for Option<T> { fn nd() -> Self { if bool::nd() { Some(T::nd()) } else { None } } }
    pub fn any<T: Nd>() -> T { T::nd() }
    pub fn any_where<T: Nd, F: FnOnce(&T) -> bool>(f: F) -> T { let v = T::nd(); assume(f(&v)); v }
    pub fn assume(c: bool) { if !c { panic!("VERIF-REPLAY-ASSUME-VIOLATED") } }
    pub fn assert(c: bool, msg: &'static str) { if !c { panic!("{}", msg) } }
    macro_rules! cover { ($($t:tt)*) => {}; }
    pub(crate) use cover;
}
#[allow(unused_imports)]
use verif_kani_shim as kani;
'''


def make_replay_module(module, scratch):
    src = open(module.path).read()
    out = []
    for ln in src.split("\n"):
        s = ln.strip()
        if s.startswith("#[kani::proof"):
            out.append(ln.replace(s, "#[test]"))
        elif s.startswith("#[kani::") or s.startswith("#![kani::"):
            out.append("// (replay) dropped: " + s)
        else:
            out.append(ln)
    # include!() of sibling files is resolved relative to the original file
    body = "\n".join(out)
    body = re.sub(r'include!\("([^/"][^"]*)"\)',
                  lambda m: 'include!("%s")' % os.path.join(os.path.dirname(module.path), m.group(1)), body)
    dst = os.path.join(scratch.replay_dir, module.modname + ".rs")
    with open(dst, "w") as f:
        f.write("// generated from %s for native replay\n" % module.path)
        f.write(SHIM)
        f.write(body)
    return dst


def native_replay(scratch, modules, module, h, vals, outdir):
    """Builds the crate's unit tests natively with the replay cfg and runs the harness on `vals`.
    Returns (reproduced: bool|None, panic_message, log_tail)."""
    for m in modules:
        if m.crate == h.crate:
            make_replay_module(m, scratch)
    c = CRATES[h.crate]
    tgt = os.path.join(scratch.dir, "target-replay")
    test_name = "%s_replay::%s" % (module.modname, h.name)
    cmd = ["cargo", "test", "--offline", "-p", c["pkg"], "--lib"] + c["test_args"] + \
          ["--target-dir", tgt, "--", test_name, "--nocapture", "--test-threads", "1"]
    env = {"RUSTFLAGS": (rustflags_for(h.crate) + " --cfg aws_s2n_quic_verif_replay").strip(),
           "VERIF_REPLAY_VALS": ";".join(",".join(str(b) for b in v) for v in vals)}
    rc, out, wall = run(cmd, cwd=scratch.repo, env=env, timeout=1800)
    open(os.path.join(outdir, "replay-%s.log" % h.name), "w").write(out)
    if "running 1 test" not in out:
        return None, "", out[-1500:]
    m = re.search(r"panicked at ([^\n]*):\n([^\n]*)", out)
    if rc != 0 and m:
        if "VERIF-REPLAY-ASSUME-VIOLATED" in m.group(2):
            # the concrete values did not satisfy a harness assumption (value order mismatch): not a reproduction
            return None, "replay values violated a harness assumption", out[-1500:]
        return True, (m.group(2) + " @ " + m.group(1)).strip(), out[-1500:]
    if rc == 0:
        return False, "", out[-800:]
    return None, "", out[-1500:]
