"""Parses the `//@` annotations of the contract harness files under contracts/kani/.

File header (exactly one per file):
    //@ inject crate=<crate> src=<path of the real source file that hosts the module, relative to /repo>
Per harness (directly above the #[kani::proof] function):
    //@ harness props=C03[,C12] tier=quick|thorough level=full|bounded timeout=<s> [bound="K=2 L=4"]
    //@         [flags=cbrtf,...] [mem=<GB>] [known=<id>]
    //@ fn <Type::function under contract>          (one line per function)
"""
import glob
import os
import re
import shlex

from common import VERIF

CRATES = {
    # dir: crate directory relative to the repository root; kani_args: extra cargo-kani arguments;
    # rustflags: extra RUSTFLAGS for the Kani and the native replay build
    "core": {"dir": "quic/s2n-quic-core", "pkg": "s2n-quic-core", "kani_args": ["--features", "testing"],
             "rustflags": "", "test_args": ["--features", "testing"]},
    "transport": {"dir": "quic/s2n-quic-transport", "pkg": "s2n-quic-transport", "kani_args": [],
                  "rustflags": '--cfg feature="testing"', "test_args": []},
    "dc": {"dir": "dc/s2n-quic-dc", "pkg": "s2n-quic-dc", "kani_args": [], "rustflags": "", "test_args": [],
           "kani_rustflags": ""},
    "crypto": {"dir": "quic/s2n-quic-crypto", "pkg": "s2n-quic-crypto", "kani_args": [], "rustflags": "",
               "test_args": []},
    "codec": {"dir": "common/s2n-codec", "pkg": "s2n-codec", "kani_args": ["--features", "testing"],
              "rustflags": "", "test_args": ["--features", "testing"]},
}

# Edits applied to the *scratch copy's* manifests only (never to /repo): the transport crate's unit
# tests do not compile under Kani's pinned nightly, so the lib target is built with the crate's own
# `feature = "testing"` helpers switched on (DESIGN 2.1).
MANIFEST_EDITS = {
    "quic/s2n-quic-transport/Cargo.toml": [
        ('s2n-codec = { version = "=0.88.0", path = "../../common/s2n-codec", features = ["bytes"], default-features = false }',
         's2n-codec = { version = "=0.88.0", path = "../../common/s2n-codec", features = ["bytes", "testing"], default-features = false }'),
        ('s2n-quic-core = { version = "=0.88.0", path = "../s2n-quic-core", features = ["alloc"], default-features = false }',
         's2n-quic-core = { version = "=0.88.0", path = "../s2n-quic-core", features = ["alloc", "testing"], default-features = false }'),
        ('[dependencies]\n', '[dependencies]\nbolero = "0.13"\n'),
    ],
    # the Kani build sets `--cfg feature="testing"` for every crate of the scratch workspace (one RUSTFLAGS value, so
    # that crates sharing the target directory do not rebuild each other): the crypto crate's dependencies then need
    # the real `testing` features (std, generators) as well, exactly as for the transport crate
    "quic/s2n-quic-crypto/Cargo.toml": [
        ('s2n-codec = { version = "=0.88.0", path = "../../common/s2n-codec", default-features = false }',
         's2n-codec = { version = "=0.88.0", path = "../../common/s2n-codec", features = ["testing"], default-features = false }'),
        ('s2n-quic-core = { version = "=0.88.0", path = "../s2n-quic-core", default-features = false }',
         's2n-quic-core = { version = "=0.88.0", path = "../s2n-quic-core", features = ["alloc", "testing"], default-features = false }'),
    ],
}

OBL_RE = re.compile(r'"((?:C\d\d)/[^"\\]+)"')


class Harness:
    def __init__(self):
        self.name = None
        self.file = None
        self.crate = None
        self.src = None
        self.props = []
        self.tier = "quick"
        self.level = "full"
        self.timeout = 120
        self.bound = None
        self.flags = []
        self.mem = 16
        self.fns = []
        self.obligations = []
        self.known = []
        self.ignore = []
        self.line = 0

    def as_dict(self):
        return {k: getattr(self, k) for k in
                ("name", "file", "crate", "src", "props", "tier", "level", "timeout", "bound", "flags", "fns")}


class Module:
    def __init__(self, path):
        self.path = path
        self.crate = None
        self.src = None
        self.harnesses = []
        self.modname = "aws_s2n_quic_verif_" + re.sub(r"\W", "_", os.path.splitext(os.path.basename(path))[0])


def _kv(s):
    out = {}
    for tok in shlex.split(s):
        if "=" in tok:
            k, v = tok.split("=", 1)
            out[k] = v
    return out


def parse_module(path):
    m = Module(path)
    lines = open(path).read().split("\n")
    cur = None
    pending = None
    for i, ln in enumerate(lines):
        s = ln.strip()
        if s.startswith("//@ inject"):
            kv = _kv(s[len("//@ inject"):])
            m.crate, m.src = kv["crate"], kv["src"]
        elif s.startswith("//@ harness"):
            pending = Harness()
            pending.line = i + 1
            kv = _kv(s[len("//@ harness"):])
            pending.props = kv.get("props", "").split(",")
            pending.tier = kv.get("tier", "quick")
            pending.level = kv.get("level", "full")
            pending.timeout = int(kv.get("timeout", "120"))
            pending.bound = kv.get("bound")
            pending.flags = [f for f in kv.get("flags", "").split(",") if f]
            pending.mem = int(kv.get("mem", "16"))
            pending.known = [f for f in kv.get("known", "").split(",") if f]
            pending.ignore = [f for f in kv.get("ignore_checks", "").split(",") if f]
            cur = pending
        elif s.startswith("//@-unregistered"):
            cur = None
            pending = None
        elif s.startswith("//@ fn") and pending is not None:
            pending.fns.append(s[len("//@ fn"):].strip())
        elif pending is not None and pending.name is None:
            mm = re.match(r"(?:pub(?:\([a-z]+\))?\s+)?fn\s+(\w+)\s*\(", s)
            if mm:
                pending.name = mm.group(1)
                pending.file = path
                pending.crate, pending.src = m.crate, m.src
                m.harnesses.append(pending)
        if cur is not None and not s.startswith("//"):
            for o in OBL_RE.findall(ln):
                if o not in cur.obligations:
                    cur.obligations.append(o)
    if m.crate is None:
        raise SystemExit("registry: %s has no `//@ inject` header" % path)
    return m


def load_modules():
    mods = []
    for p in sorted(glob.glob(os.path.join(VERIF, "contracts", "kani", "*", "*.rs"))):
        if os.path.basename(p).startswith("_"):
            continue  # shared include files
        mods.append(parse_module(p))
    return mods


def harnesses_for(mods, prop, tier):
    out = []
    for m in mods:
        for h in m.harnesses:
            if prop in h.props and (tier == "thorough" or h.tier == "quick"):
                out.append(h)
    return out
