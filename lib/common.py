"""Shared helpers for the /verif driver (paths, process running, hashing)."""
import hashlib
import json
import os
import subprocess
import sys
import time

VERIF = os.path.dirname(os.path.dirname(os.path.abspath(__file__)))
REPO = os.environ.get("VERIF_REPO", "/repo")
SCRATCH_ROOT = os.environ.get("VERIF_SCRATCH", "/var/tmp/aws_s2n_quic_verif")
NCPU = os.cpu_count() or 4

BASE_ENV = dict(os.environ)
BASE_ENV.update({"CARGO_NET_OFFLINE": "true", "GOPROXY": "off", "PIP_NO_INDEX": "1"})


def log(*a):
    print(*a, file=sys.stderr, flush=True)


def sha256_bytes(b):
    return hashlib.sha256(b).hexdigest()


def run(cmd, cwd=None, env=None, timeout=None, mem_gb=None, stdout=subprocess.PIPE, stderr=subprocess.STDOUT):
    """Run a command; returns (rc, output, wall_s).  rc = -9 on timeout."""
    e = dict(BASE_ENV)
    if env:
        e.update(env)
    pre = None
    if mem_gb:
        import resource

        def pre():
            lim = int(mem_gb * (1 << 30))
            resource.setrlimit(resource.RLIMIT_AS, (lim, lim))
    t0 = time.time()
    try:
        p = subprocess.Popen(cmd, cwd=cwd, env=e, stdout=stdout, stderr=stderr, preexec_fn=pre,
                             start_new_session=True, text=True, errors="replace")
        try:
            out, _ = p.communicate(timeout=timeout)
            rc = p.returncode
        except subprocess.TimeoutExpired:
            import signal
            try:
                os.killpg(p.pid, signal.SIGKILL)
            except ProcessLookupError:
                pass
            out, _ = p.communicate()
            rc = -9
    except FileNotFoundError as ex:
        return 127, str(ex), 0.0
    return rc, out or "", time.time() - t0


def repo_tree_hash():
    """Hash of /repo's current working tree (tracked + untracked, not ignored)."""
    rc, out, _ = run(["git", "-C", REPO, "ls-files", "-co", "--exclude-standard", "-z"])
    files = sorted(f for f in out.split("\0") if f)
    h = hashlib.sha256()
    for f in files:
        p = os.path.join(REPO, f)
        try:
            if os.path.islink(p):
                data = os.readlink(p).encode()
            else:
                with open(p, "rb") as fh:
                    data = fh.read()
        except (FileNotFoundError, IsADirectoryError):
            continue
        h.update(f.encode() + b"\0" + hashlib.sha256(data).digest())
    return h.hexdigest(), len(files)


def repo_head():
    rc, out, _ = run(["git", "-C", REPO, "rev-parse", "HEAD"])
    return out.strip()


def write_json(path, obj):
    os.makedirs(os.path.dirname(path), exist_ok=True)
    tmp = path + ".tmp%d" % os.getpid()
    with open(tmp, "w") as f:
        json.dump(obj, f, indent=1, sort_keys=False)
        f.write("\n")
    os.replace(tmp, path)
