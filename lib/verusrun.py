"""Layer L / X: Verus on (a) history lemmas over the transliterated contract predicates and
(b) functions extracted verbatim from /repo (DESIGN 2.1, 2.2)."""
import json
import os
import re

from common import VERIF, run

ALLOWED_TOKEN = re.compile(r"^[\sA-Za-z0-9_(){}\[\],:;.<>=!&|+\-*/%'#]*$")


class TranslitError(Exception):
    pass


def translit_spec(path):
    """contracts/spec/<x>.rs (restricted pure-Rust predicates over i128) -> Verus spec functions.
    Rejects anything outside the sub-language so nothing is dropped silently."""
    out = []
    for n, ln in enumerate(open(path).read().split("\n"), 1):
        s = ln.strip()
        if s.startswith("//") or s == "":
            out.append(ln)
            continue
        if s.startswith("#[") or s.startswith("#!["):
            continue  # derive/allow attributes carry no meaning for spec functions
        code = ln.split("//")[0]
        if not ALLOWED_TOKEN.match(code):
            raise TranslitError("%s:%d: token outside the contract sub-language: %s" % (path, n, s))
        for kw in (" as ", "while ", "for ", "loop", "unsafe", "mut ", "&mut", "match "):
            if kw in " " + code:
                raise TranslitError("%s:%d: `%s` not allowed in contract predicates" % (path, n, kw.strip()))
        code = re.sub(r"\bi128\b", "int", code)
        code = re.sub(r"^(\s*)pub fn ", r"\1pub open spec fn ", code)
        code = re.sub(r"^(\s*)fn ", r"\1pub open spec fn ", code)
        out.append(code)
    return "\n".join(out)


FN_RE = re.compile(r"^\s*(?:pub(?:\([a-z]+\))?\s+)?(?:open\s+|closed\s+)?(proof fn|fn|spec fn|const fn)\s+(\w+)")


IMPL_RE = re.compile(r"^\s*impl(?:<[^{]*?>)?\s+([A-Za-z_][\w:]*)(?:<[^{]*?>)?(?:\s+for\s+([A-Za-z_][\w:]*))?")


def function_spans(text):
    """[(name, kind, first_line, last_line)] by brace matching from each fn header."""
    lines = text.split("\n")
    spans = []
    i = 0
    while i < len(lines):
        m = FN_RE.match(lines[i])
        if not m:
            i += 1
            continue
        depth = 0
        started = False
        in_contract = False
        j = i
        while j < len(lines):
            code = lines[j].split("//")[0]
            # multi-line contracts (`requires` / `ensures` blocks on their own lines) may contain braces
            # (`if c { 1int } else { 0int }`); there the body opens with a `{` at the start of a line
            if not started and j > i and re.match(r"\s*(requires|ensures|decreases|recommends)\b", code):
                in_contract = True
            if not started and in_contract and not code.lstrip().startswith("{"):
                j += 1
                continue
            for ch in code:
                if ch == "{":
                    depth += 1
                    started = True
                elif ch == "}":
                    depth -= 1
            if started and depth == 0:
                break
            if not started and code.rstrip().endswith(";"):
                break
            j += 1
        spans.append((m.group(2), m.group(1), i + 1, j + 1))
        i = j + 1
    # functions of the same name in different impl blocks (is_duplicate of three packet spaces): qualify the
    # duplicates with the type of the enclosing impl block so that every obligation has its own name
    names = [s[0] for s in spans]
    dup = {n for n in names if names.count(n) > 1}
    if dup:
        impls = []   # (type, first_line, last_line)
        for k, ln in enumerate(lines):
            mi = IMPL_RE.match(ln)
            if not mi:
                continue
            depth, started, j = 0, False, k
            while j < len(lines):
                for ch in lines[j].split("//")[0]:
                    if ch == "{":
                        depth += 1
                        started = True
                    elif ch == "}":
                        depth -= 1
                if started and depth == 0:
                    break
                j += 1
            impls.append((mi.group(2) or mi.group(1), k + 1, j + 1))
        out = []
        for (n, kind, a, b) in spans:
            if n in dup:
                t = next((t for (t, lo, hi) in impls if lo <= a <= hi), None)
                if t:
                    n = "%s::%s" % (t, n)
            out.append((n, kind, a, b))
        spans = out
    return spans


def run_verus(file, timeout=600, rlimit=None):
    """As run_verus, plus per-function attribution of failures from the diagnostics on stderr."""
    import subprocess
    import time
    cmd = ["verus", file, "--output-json", "--time", "--num-threads", "8"]
    if rlimit:
        cmd += ["--rlimit", str(rlimit)]
    t0 = time.time()
    try:
        p = subprocess.run(cmd, cwd=os.path.dirname(file), timeout=timeout, capture_output=True, text=True, errors="replace")
        so, se, rc = p.stdout, p.stderr, p.returncode
    except subprocess.TimeoutExpired as ex:
        return {"ok": False, "verified": 0, "errors": 0, "failed": [], "wall": time.time() - t0, "smt_ms": None,
                "raw": "timeout", "cmd": " ".join(cmd), "undecided": "verus timed out after %ds" % timeout}
    wall = time.time() - t0
    res = {"ok": False, "verified": 0, "errors": 0, "failed": [], "wall": wall, "smt_ms": None,
           "raw": (se[-4000:] if se else ""), "cmd": " ".join(cmd), "undecided": None}
    try:
        data = json.loads(so[so.index("{"):so.rindex("}") + 1])
    except Exception:
        res["undecided"] = "verus produced no JSON (rc=%s): %s" % (rc, (se or so)[-600:])
        return res
    vr = data.get("verification-results", {})
    res["verified"] = vr.get("verified", 0)
    res["errors"] = vr.get("errors", 0)
    res["ok"] = bool(vr.get("success"))
    t = data.get("times-ms", {})
    smt = t.get("smt")
    res["smt_ms"] = smt.get("total") if isinstance(smt, dict) else None
    res["total_ms"] = t.get("total")
    text = open(file).read()
    spans = function_spans(text)
    base = os.path.basename(file)
    allerrs = []
    for m in re.finditer(r"(?:^|\n)error(?:\[[^\]]*\])?: ([^\n]+)\n\s*--> [^\n]*?%s:(\d+):(\d+)" % re.escape(base), se):
        msg, line = m.group(1), int(m.group(2))
        fn = next((n for (n, k, a, b) in spans if a <= line <= b), "?")
        allerrs.append({"fn": fn, "msg": msg, "line": line})
    proof_errs = ("postcondition not satisfied", "assertion failed", "precondition not satisfied", "invariant not satisfied",
                  "possible arithmetic underflow/overflow", "possible division by zero", "decreases not satisfied",
                  "recommendation not met", "loop invariant", "bit shift", "index out of bounds")
    res["failed"] = [f for f in allerrs if any(p in f["msg"] for p in proof_errs)]
    if not res["ok"]:
        hard = [f for f in allerrs if not any(p in f["msg"] for p in proof_errs)]
        if vr.get("encountered-vir-error") or vr.get("encountered-error") and not res["failed"]:
            res["undecided"] = "verus front-end error: " + (hard[0]["msg"] if hard else se[-300:])
        elif hard and all("rlimit" in f["msg"] or "Resource limit" in f["msg"] for f in hard):
            res["undecided"] = "verus resource limit exceeded in " + ", ".join(f["fn"] for f in hard)
        elif hard:
            res["undecided"] = "verus error that is not a proof failure: %s (fn %s)" % (hard[0]["msg"], hard[0]["fn"])
    return res
