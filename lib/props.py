"""Per-property static text for the evidence: what is trusted / assumed (DESIGN 3 and 5)."""

CLAIMED = ["C01", "C03", "C04", "C05", "C06", "C08", "C09", "C10", "C11", "C12", "C13", "C14", "C15", "C16", "C18", "C19"]

COMMON_TRUSTED = [
    "A-tools: rustc (Kani's pinned nightly), Kani 0.68, CBMC 6.11 and its SAT back ends (cadical/kissat), Verus 0.2026.09.13, Z3",
    "A-kani-models: Kani's models of alloc/VecDeque/Bytes, atomics executed sequentially, Mutex without contention",
    "A-profile: obligations are decided for the dev profile (debug assertions and overflow checks on)",
    "A-builders: each harness state builder generates every state satisfying the stated invariant (reviewed by hand, guarded by reach covers)",
    "A-inject: the verified text is /repo's working tree plus add-only `#[cfg(kani)] #[path] mod` lines (and, in the scratch copy only, the transport manifest enabling the crate's own `testing` helpers)",
]

GLUE = {
    "C01": ["glue unverified: stream lookup by id (stream::manager), packet->frame iteration in the packet spaces, retransmission scheduling, ReceiveStream::poll_request, the macro-generated stream API beyond the polls / is_open statement covered by layer X",
            "A-aead: corrupted/truncated datagrams are removed by AEAD authentication (cryptographic assumption, FFI)"],
    "C03": ["glue unverified: SendStream::on_transmit wiring of DataSender to the packet writer, AbstractStreamManager dispatch of MAX_* frames, transport-parameter -> initial-limit plumbing in stream::manager::new"],
    "C04": ["glue unverified: the tag dispatch of handle_cleartext_payload (the default handlers it dispatches to are decided by layer X), STREAM_STATE_ERROR for unopened/wrong-direction streams (StreamManagerState), turning a returned transport::Error into CONNECTION_CLOSE (ConnectionImpl)",
            "call-site fact: ReceiveStreamFlowController::new is only called with initial == desired <= u32::MAX (stream/manager.rs)"],
    "C05": ["header protection / AEAD are outside the codecs (C06)"],
    "C06": ["A-aead: authenticity is AEAD unforgeability (aws-lc/ring through FFI), not verifiable here",
            "glue unverified: that every received packet is handed to validate_and_decrypt_packet (connection_id_mapper, ConnectionImpl); inside it, decrypt -> duplicate gate -> delivery is decided by layer X, header unprotection by layer F"],
    "C08": ["glue unverified: on_processed_packet is only called after successful processing (packet spaces); ack timer polled by ConnectionImpl; congestion/amplification gating of ACK-only packets"],
    "C09": ["glue unverified: ConnectionImpl's calls into recovery::Manager (decided by layer X: ACK-range validation before any effect, process_acks orchestration after the ranges, the inner loop of process_ack_range, update_congestion_control, detect_lost_packets, the byte accounting of remove_lost_packets and process_new_acked_packets, on_packet_sent, on_timeout, on_retry_packet, on_packet_number_space_discarded are decided by layer X; packet::number::Map::remove_range is an assumed callee), ConnectionImpl timers"],
    "C10": ["A-libm: cbrtf is replaced by a nondeterministic model (finite, sign-preserving, |r| <= |x|+1)",
            "A-env: HybridSlowStart::use_hystart_parameter() (reads an environment variable) is stubbed by an arbitrary bool",
            "BBRv2: only the minimum-window floor functions are under contract, not the BBR state machine",
            "glue unverified: that transmission consults transmission_constraint() before writing congestion-controlled frames"],
    "C11": ["glue unverified: PTO arming while amplification-limited (recovery::Manager), invocation of the close sender only when not limited (ConnectionImpl), client Initial padding (transmission::early / connection::transmission)"],
    "C12": ["glue unverified: SendStream::on_transmit ordering of RESET vs data, stream-id allocation in stream/manager.rs, ConnectionImpl switching to the close sender"],
    "C13": ["trusted: hashbrown/SipHash routing in ConnectionIdMapper; PeerIdRegistry::is_active / consume_new_id_for_existing_path contracts assumed by the path::Manager layer-X job; iterator adapters visiting every registry entry"],
    "C14": ["glue unverified: SessionContext::on_transport_parameters (cid authentication against the handshake, mapping decode errors to TRANSPORT_PARAMETER_ERROR)"],
    "C15": ["harness key: an instrumented OneRttKey with symbolic limits stands in for the AEAD (A-aead); ApplicationSpace calling encrypt_packet for every 1-RTT packet is glue"],
    "C16": ["bounded one-step container obligations cover histories whose container never exceeds the stated K"],
    "C18": ["A-aead: seal/open/HMAC replaced by a harness-side recording / keyed stand-in; aws_lc_rs::constant_time::verify_slices_are_equal (FFI) is stubbed by an equality model",
            "not under contract: the stream packet codec, control/datagram encoders (round trips timed out), path::secret::map internals (lookups, request_handshake, evict: assumed callees of the layer-X handler job), stream::recv::State::on_cleartext_stream_packet"],
    "C19": ["A-atomics: linearizability of Mutex / fetch_update / fetch_max is assumed, the sequential contract is what is proved",
            "A-bitvec-shift_end: bitvec 1.x BitSlice::shift_end is replaced (kani::stub) by a word-level model over the same 14-word storage ('bit i moves to i+n, vacated bits are zero'); assumed dependency contract, compared with the real function only natively (897 distances x 200 contents), not by the verifier"],
}


def trusted_base(prop):
    return COMMON_TRUSTED + GLUE.get(prop, [])


def assumptions(prop):
    return COMMON_TRUSTED + GLUE.get(prop, [])
