#!/usr/bin/env python3
"""Regenerates /verif/MANIFEST.json from the table below (kept in one place so that the manifest is always valid)."""
import json
import os
import sys

sys.path.insert(0, os.path.dirname(os.path.abspath(__file__)))
from common import VERIF  # noqa: E402

TECH = "contract harnesses on the real crate discharged by Kani/CBMC (full-domain symbolic, loop-free = complete; containers bounded and labelled) + Verus history lemmas over the same contract predicates + Verus on verbatim-extracted functions"

CHECKS = {
    "C01": {
        "text": "PARTIAL -- this check does not prove C01 end to end; it decides the receiver- and sender-side component obligations that are within the verifier's reach and the history lemma that connects them. Discharged on the real code (Kani/CBMC): Slot::{try_write_reader, unsplit, skip_until, consume, read_chunk, observers} against the view (start, filled bytes, end_allocated) on 8-byte buffers with symbolic offsets (bounded); Reassembler::allocate_slot / allocation_size / align_offset (full); and, modularly (K = 0 shapes in the quick tier) (Slot methods replaced by stubs that assert the callee precondition and assume exactly the Slot postconditions proved above, K <= 2 slots, thorough tier), Reassembler::{pop, pop_watermarked, read_chunk, skip, len, consumed_len, total_received_len, final_size, is_reading_complete} against the view (recv, start, final). Verus proves for every sequence of consistent writes (any order, multiplicity, overlap), pops and skips that what is delivered is a prefix of the sent stream and a clean end means the whole stream (layer L).",
        "note": "NOT discharged: the Reassembler write path (write_at / write_reader / unsplit_range orchestration over the slot queue) -- every modular variant stayed in symbolic execution beyond 15-25 min; the write obligations of the lemma are therefore backed at Slot level only, and the write-rejection obligations (final-size contradiction, 2^62-1, state unchanged) only by Cursors::handle_reader_fin. ReceiveStream::on_data and the stream API layer (stream/api.rs), stream lookup, and retransmission scheduling are unverified glue; sender-side consistency is C12. A-aead for corrupted datagrams.",
        "design": "5/C01",
    },
    "C05": {
        "text": "Every codec is compared with an independent transcription of RFC 9000 16-19 (and RFC 9221 4) written without s2n-codec: varint encode/decode over all 2^62 values including the unsafe wide-write path and encode_updated, decoder totality and agreement with the reference parser on every input of 0..=9 bytes, packet-number wire form, and -- per frame type -- encoder output == oracle bytes with the announced size, decoder on oracle bytes (+ trailing bytes), exact-capacity writes; fixed-shape frames over full field domains, payload-carrying frames bounded (payload <= 4 bytes, stated per harness); agreement of the real decoders with the reference parser on arbitrary inputs (bounded by length); packet-header decode totality on arbitrary datagrams (bounded). Discharged by Kani/CBMC; the VarInt range arithmetic is additionally verified by Verus on the extracted bodies. Packet-number expansion (RFC A.3) and transport-parameter encodings are shared with C08 / C14.",
        "note": "Quick tier = varint, packet numbers, MAX_DATA, MAX_STREAMS, PING/HANDSHAKE_DONE; all other frames are thorough tier (a full thorough pass is hours). The ACK range iterator (AckRangesIter::next: RFC 9000 19.3.1 arithmetic, negative packet number => None, totality) is under a one-step contract from an arbitrary state. NOT decided: whole-frame ACK decoding and its reference agreement (timeouts), the FrameMut tag dispatch as a whole (each arm's decoder is covered, the dispatch table is not), full-domain mixing of all integer fields of ACK / NEW_CONNECTION_ID (length-class shapes instead). Per-frame decoders are called through decode_parameterized(tag) as the dispatch arm does.",
        "design": "5/C05",
    },
    "C11": {
        "text": "The anti-amplification counter of Path (on_bytes_received credits exactly 3x, on_bytes_transmitted debits, at_amplification_limit / transmission_constraint / clamp_datagram_size, validation only via handshake packet or matching PATH_RESPONSE, no other mutator credits or validates), a bounded history harness on the real Path, stateless_reset::encode_packet (strictly smaller than the trigger, unpredictable bits, token placement, None iff impossible; buffer <= 64 bytes) the close sender's accounting of close packets are under contract, discharged by Kani/CBMC, and the Version-Negotiation size gate (Err for payloads < 1200) is verified by Verus on the statement extracted verbatim from Negotiator::on_packet; Verus derives for every history what the contracts give (allowance >= 3*rx - tx; the stated bound under the hypothesis that no datagram exceeded the remaining allowance). The stated bound itself ('never starts a datagram once sent >= 3x received') FAILS on the pinned code -- the saturating counter forgets overshoot -- and is recorded as a known finding with residual obligations in force.",
        "note": "NOT decided: the rest of the server side of version negotiation (queueing, never in reply to VN: Negotiator::on_packet is beyond CBMC's memory/time), client Initial padding, PTO arming while limited (recovery::Manager), whether the close sender is only invoked when not limited (ConnectionImpl). The multiplier is concrete per harness.",
        "design": "5/C11",
    },
    "C12": {
        "text": "StreamId::{initial, nth, next_of_type} (Kani full domain and Verus on the extracted bodies), the CloseSender / Limiter state machine (only the stored close packet is copied; re-armed only by an incoming datagram through the debounce timeout; Closed terminal), the DataSender FIN state machine (finish freezes the length, FIN only at total_len, stop_sending leaves nothing to transmit), PeriodicSync::stop_sync and StreamFlowController::finish (no STREAM_DATA_BLOCKED can follow a reset), SendStream::init_reset (final size never changes, data sender stopped) are under contract on the real code; buffer/View byte identity under retransmission and Transmissions::transmit_interval are bounded thorough-tier harnesses. Verus proves per stream, for every sequence of push / finish / reset / transmit / ack / loss, that wire bytes equal pushed bytes, nothing is sent at or after the final size, the final size is constant and >= the highest sent end, and stream ids strictly increase per type.",
        "note": "Glue unverified: SendStream::on_transmit ordering of RESET vs data, stream-id allocation in stream/manager.rs (see the stream-manager harnesses where registered), ConnectionImpl switching to the close sender. A-loc: panic::Location::caller() stubbed by a compile-time constant. Time domains in the close-sender harnesses are concrete instants.",
        "design": "5/C12",
    },
    "C16": {
        "text": "Duplicate window (SlidingWindow: pointwise set model with symbolic witness, full domain), Cursors::handle_reader_fin (the four RFC 9000 4.5 cases, full), Interval algebra (full), Reassembler allocation helpers (full), Slot operations (bounded 8-byte buffers), and -- as one-step inductive obligations from arbitrary well-formed states of concrete shape -- IntervalSet::{insert, insert_front, remove, pop_min, observers} (K <= 2, thorough), the modular Reassembler pop / skip / observers (K <= 2; K = 0 quick), the packet-number map remove (K <= 3, thorough) and insert_or_update (ring of 8 with 2 entries, one quick shape) are discharged on the real code by Kani/CBMC. Deviations found on the pinned code (Interval::from_range_bounds with an excluded start bound; IntervalSet::remove off-by-one at the limit) are strict obligations with residuals (known findings).",
        "note": "Bounded obligations cover histories in which the container never exceeds the stated K. NOT discharged: Reassembler write path, ack::Ranges::insert_packet_number_range, packet-number map insert / remove_range (CBMC time/crash); IntervalSet's dev self-check is stubbed and its content asserted by the harness.",
        "design": "5/C16",
    },
    "C13": {
        "text": "LocalIdRegistry::{register_connection_id, set_active_connection_id_limit, connection_id_interest, on_retire_connection_id, on_packet_ack, on_packet_loss, on_handshake_confirmed} are under contract on the real registry built through the real ConnectionIdMapper (SmallVec, Memo caches and the crate's own check_consistency() run unchanged): consecutive sequence numbers, duplicate id rejected with the state unchanged, never more ids requested than min(peer limit, 3), RETIRE_CONNECTION_ID for a never-issued sequence number or for the packet's own destination id rejected, frame conditions and invariant preservation -- discharged by Kani/CBMC as bounded one-step obligations (K = 1 registered id, thorough tier). Verus proves for every history of register / retire / expire / ack / loss that sequence numbers are consecutive, ids and tokens pairwise distinct and the active count within the peer's limit (quick tier).",
        "note": "Bounded (K = 1) and modular: the shared hash-map operations (LocalIdMap::try_insert/remove, InitialIdMap::remove) are replaced by contract stubs with a ghost log -- hashbrown/SipHash routing ('every datagram addressed to an unretired id reaches its connection') is TRUSTED, not proved. NOT discharged on the code (CBMC memory/time): LocalIdRegistry::on_timeout and on_transmit, all of PeerIdRegistry; the lemma steps for those operations show what the contract would give. The quick tier is the lemma layer only.",
        "design": "5/C13",
    },
    "C09": {
        "text": "Core kernels of RFC 9002 are under contract on the real code: loss::detect (sound up to the timer granularity: Lost => distance >= 3 or now + 1 ms > sent + threshold; now >= sent + threshold => Lost; distance >= 3 => Lost; the strict statement of the property is kept as an obligation and is a recorded known finding with its residual), Timestamp::has_elapsed, RttEstimator::{loss_time_threshold, update_rtt, weighted_average, pto_period, persistent_congestion_threshold} against exact integer formulas, Pto::{on_timeout, update, cancel, transmissions} with the frame condition that a PTO expiry touches no sent-packet state, and three private functions of recovery::Manager on the state process_acks hands them (process_new_acked_packets: every newly acked packet reaches the congestion controller exactly once whether or not the ACK is a new largest; detect_lost_packets: the time threshold is that of the path the packet was sent on; on_retry_packet: exactly the sent Initial bytes are discarded; bounded scenarios); discharged by Kani/CBMC (full domain where no Duration arithmetic is symbolic, otherwise bounded to RTT quantities < 4 s and labelled). Verus proves for every history of sent/acked/lost/discarded/PTO events that each packet is resolved exactly once, bytes_in_flight == sum of unresolved >= 0, and the PTO backoff doubles.",
        "note": "Timestamp + Duration inside loss::detect is replaced (kani::stub) by its contract, which is checked only on a table of concrete instants (symbolic Duration round trips are SAT-hard): assumed dependency contract, listed. recovery::Manager as a whole (process_acks end to end: the glue between process_ack_range, update_congestion_control and the contracted functions, PTO arming) is NOT under contract -- the whole-scenario harnesses gave no result in 45-50 min (niche-encoded Option in the boxed ring makes every map walk symbolic). The sent-packet map is bounded (K <= 3, thorough tier; insert could not be executed by CBMC).",
        "design": "5/C09",
    },
    "C10": {
        "text": "Every CongestionController method of CUBIC is under contract on the real f32 code (CBMC floating point is bit-precise): window floor 2*mds after every method, no wrap of the u32 window, bytes_in_flight exact on send/ack/loss/discard, no increase on loss/ECN, at most one reduction per recovery period, no growth while application-limited, persistent congestion collapses to the minimum, multiplicative_decrease within [2*mds, cwnd], on_mtu_update keeps the floor; BBRv2: minimum_window == 4*mds and the cwnd floor after set_cwnd; Path::transmission_constraint composition (amplification limit first, then the controller's verdict). Discharged by Kani/CBMC; f32 domains are partly bounded in the quick tier (window <= 2^30 bytes), full domain in the thorough tier.",
        "note": "A-libm: cbrtf is a nondeterministic model; A-env: use_hystart_parameter() stubbed; CUBIC congestion-avoidance growth assumes the W_max >= 2 invariant stated in the harness; the BBRv2 state machine, the pacer and recovery::Manager's calls into the controller are not under contract; Path uses the crate's mock controller (composition only). Known finding: on_mtu_update saturates a window >= 2^32*old/new.",
        "design": "5/C10",
    },
    "C14": {
        "text": "Every TransportParameterValidator::validate impl is compared with an independent table transcribed from RFC 9000 18.2 / 7.4 over the full value domain (Ok <=> spec-valid, value unchanged, default == RFC default, id == RFC id), the role gating of the four server-only parameters is checked at the type level, the mapping of declared values into the connection's limits/ack settings is exact, and decode_parameters is put under bounded contracts (concrete ids and lengths, symbolic values, <= 2 parameters: duplicates rejected, server-only from client rejected, unknown ids ignored, defaults for absent parameters, encoder == independent TLV oracle). Discharged by Kani/CBMC. Deviations of the pinned code from the RFC table are kept as strict obligations with residuals (known findings) or were repaired (fix: commit for max_ack_delay).",
        "note": "Glue unverified: SessionContext::on_transport_parameters (connection-id authentication against the handshake, mapping of decode errors to TRANSPORT_PARAMETER_ERROR). Millisecond -> Duration conversions are bounded to < 2^16 ms (64-bit division is SAT-hard). The block decoder is bounded (concrete shape per harness).",
        "design": "5/C14",
    },
    "C15": {
        "text": "limited::Key (expired / needs_update / counters) and KeySet::{new, encryption_phase, encrypt_packet, decrypt_packet, on_timeout} are under contract on the real code with an instrumented key (symbolic confidentiality / integrity limits, generation-tagged derivation, nondeterministic decrypt result): a key is never used beyond its confidentiality limit (Err(AEAD_LIMIT_REACHED) and nothing counted), every authentication failure is counted and the integrity limit closes the connection, a key update derives exactly one next generation. Discharged by Kani/CBMC (full domain; decrypt_packet bounded to one fixed-shape short-header packet); Verus lifts the contracts to every interleaving of encrypt / decrypt / timeout events. Three strict obligations taken from the property fail on the pinned tree and are recorded as known findings with residuals (an old-phase packet during the key-update window rolls the send keys back; encryption_phase can select the previous key; u16 generation overflow).",
        "note": "A-aead: the AEAD is replaced by the instrumented key; the real cipher-suite limits in s2n-quic-crypto are not covered; ApplicationSpace calling encrypt_packet for every 1-RTT packet is glue. The 'never an older key' lemmas hold for the contract; the code violates two of their premises (known findings).",
        "design": "5/C15",
    },
    "C18": {
        "text": "Secret-control packets (StaleKey, ReplayDetected, UnknownPathSecret): decode agrees with an independent wire-layout oracle on every input up to 64 bytes (total, exact), encode produces the oracle's wire image, and authenticate returns Some iff the verify call succeeded, calls it exactly once and over exactly the packet minus its tag; control and datagram decoders are total on arbitrary inputs up to 48 bytes; the stream packet decoder is total on arbitrary inputs (<= 40 bytes quick, <= 64 bytes with exact field agreement against a wire-layout oracle in the thorough tier); key::open::Application::{decrypt, decrypt_in_place}: a packet whose AEAD open or dedup check fails changes nothing (no key update is scheduled), the AEAD is called once over exactly (header, payload, tag). Discharged by Kani/CBMC on the real dc crate, bounded as stated. The property's 'any byte change is rejected' fails for UnknownPathSecret (header not authenticated): known finding with residual.",
        "note": "A-aead: seal/open/HMAC are harness-side stand-ins; verify_slices_are_equal (FFI) stubbed by an equality model. NOT under contract: the stream packet encoder, control/datagram encoders (round trips did not finish), stream::recv::State (forged packet beyond max_data: no result in 16 min), path::secret::map reaction to control packets (concurrent maps, sockets). aws-lc AEAD calls, Dedup::check, tracing macros and zeroize's barrier are stubbed at the FFI boundary. Most C18 harnesses are thorough tier.",
        "design": "5/C18",
    },
    "C19": {
        "text": "sender::State::{new, next_key_id, update_for_stale_key} (returns and increments, max with the stale-key minimum, never re-issues) over the full domain, and receiver::State::post_authentication as a one-step contract from an arbitrary window state (symbolic max_seen, all 896 window bits, symbolic key id and witness id; three harnesses form a complete case split): Ok iff unseen, inside the window and not MAX; AlreadyExists iff marked; Unknown iff outside or MAX; accepted' == accepted + {k}; errors leave the state unchanged. Discharged by Kani/CBMC on the real dc crate; Verus proves for every packet/call sequence that each id is accepted at most once, every unseen id in the window is accepted, and issued ids strictly increase.",
        "note": "A-bitvec-shift_end: the one dependency function BitSlice::shift_end is replaced by a word-level model (assumed contract; compared with the real function natively only). A-atomics: Mutex / fetch_update / fetch_max linearizability assumed; the sequential contract is what is proved. 'next_key_id panics instead of issuing 2^62-1' is not expressible (should-panic).",
        "design": "5/C19",
    },
    "C04": {
        "text": "Function contracts on the receiver-side flow controllers (connection and stream), the window synchroniser, the peer-initiated stream-count controller, the final-size cursor logic and the MAX_STREAMS decoder / RFC 9000 error-code constants are discharged on the real crates by Kani/CBMC over full value domains (loop-free: complete); the same predicates are verified a second time by Verus directly on the verbatim-extracted bodies of IncomingConnectionFlowControllerImpl, ReceiveStreamFlowController and RemoteInitiated (layer X, unbounded); Verus history lemmas derive the credit bound (advertised <= consumed + window, buffered <= window) and 'Err leaves the state unchanged' for every history. Proof level fits because each clause decomposes into per-call contracts over integers.",
        "note": "Not decided (glue, stated): per-space frame gating (PROTOCOL_VIOLATION), STREAM_STATE_ERROR for unopened / wrong-direction streams, the ReceiveStream::on_data / on_reset error mapping (Kani cannot execute ReceiveStream within the budget), turning a transport::Error into CONNECTION_CLOSE. LocalInitiated/RemoteInitiated with parked wakers > 0 is bounded out. Trusted: Kani/CBMC/Verus/Z3, dev-profile semantics, harness builders, layer-X dependency stubs listed in the evidence.",
        "design": "5/C04",
    },
    "C06": {
        "text": "Claimed narrowly: the duplicate-detection window (check / insert against a pointwise set model with a symbolic witness, error leaves state unchanged, eviction report exact), the header-protection algebra (remove o apply == id, only the RFC 9001 5.4.1 bits change) and the AEAD nonce construction (iv XOR padded packet number) are discharged on the real core/crypto crates by Kani/CBMC for all inputs; a Verus lemma shows by induction over any sequence of check/insert events that a packet number is accepted at most once and nothing unseen inside the window is rejected. Authenticity itself is a cryptographic assumption.",
        "note": "A-aead: AEAD unforgeability (aws-lc/ring through FFI) is assumed. Glue unverified: that every datagram passes unprotect -> decrypt -> duplicate check before frame handling (ApplicationSpace::validate_and_decrypt_packet), stateless-reset matching. Header-protection harnesses are bounded to 8-byte packets; the 129-iteration dev self-check loop of the public insert wrapper is stubbed in the quick tier and covered only for the first insert in the thorough tier.",
        "design": "5/C06",
    },
    "C08": {
        "text": "Packet-number truncation/expansion (three full-domain 62-bit symbols: expand(truncate(pn, la), r) == pn for every admissible receiver state, minimal length per RFC 9000 A.2), decode_packet_number against an independent transcription of the RFC 9000 A.3 pseudocode, wire bytes of truncated numbers, and TxPacketNumbers (strictly increasing, ACK of an unsent packet rejected, largest-acked monotone) are discharged on the real code by Kani/CBMC (loop-free, complete); Verus proves the RFC A.3 reconstruction lemma independently and the history lemmas (wire numbers strictly increase; ACK ranges are a subset of processed packets given the one-step contracts).",
        "note": "The ACK-range one-step contracts (ack::Ranges::insert_packet_number_range, AckManager::on_processed_packet/on_transmit) could NOT be discharged on the real code: every bounded harness timed out in CBMC (VecDeque<Interval> symbolic execution), drafts are kept under probes/. The lemma part 'ACKs name only processed packets' is therefore conditional on undischarged contracts, and the ack-delay / prompt-acknowledgement clause is not decided. Glue unverified: packet spaces call on_processed_packet only after successful processing.",
        "design": "5/C08",
    },
    "C03": {
        "text": "Function contracts (pre/post over the whole abstract state, frame, representation invariant) on the sender-side flow controllers and the stream-count controller are discharged on the real transport crate by Kani/CBMC for all argument values (loop-free, full 62-bit domains: complete, not sampled); Verus then proves by induction over arbitrary-length histories, for any number of streams, that those contracts imply the stated limits. Proof level is right because the property is a safety invariant over integers that decomposes into per-call contracts.",
        "note": "Trusted: the glue between the contracted controllers and the wire (SendStream::on_transmit wiring, manager dispatch of MAX_* frames, transport-parameter plumbing), Kani/CBMC/Verus/Z3, dev-profile semantics, harness state builders generate every state satisfying the invariant.",
        "design": "5/C03",
    },
}

NOT_APPLICABLE = [
    {"property_id": "C02", "reason": "liveness/termination and a whole-connection timer+waker invariant; no pre/post-condition of a function reachable by Kani or Verus expresses it (the only function-sized kernel is a method of ConnectionImpl<Config>, which cannot be instantiated in a verifier)"},
    {"property_id": "C07", "reason": "the oracle is an independent implementation (quiche); not a contract on this code. Wire layout, nonce construction and parameter encoding are decided under C05/C06/C14 against independent RFC spec functions"},
    {"property_id": "C17", "reason": "quantifies over thread interleavings and C11 memory orderings: Kani has no threads and runs atomics sequentially; Verus would need a rewrite into its permission types, i.e. a model rather than the code"},
    {"property_id": "C20", "reason": "end-to-end behaviour of dc stream workers inside the bach simulation under drop/duplicate/reorder plus an idle-timeout liveness clause; not expressible as a contract of a reachable function (the shared Reassembler is covered under C16)"},
]

PENDING_REASON = "claimed in DESIGN.md but its check is not registered yet in this commit (framework under construction); see DESIGN.md section 5"
ALL = ["C%02d" % i for i in range(1, 21)]


def main():
    checks = []
    for pid in sorted(CHECKS):
        c = CHECKS[pid]
        checks.append({
            "property_id": pid,
            "quick_cmd": "bin/check %s --tier quick" % pid,
            "thorough_cmd": "bin/check %s --tier thorough" % pid,
            "evidence_file": "/verif/evidence/%s.json" % pid,
            "replay_cmd_template": "bin/check replay {path}",
            "engine": "contracts",
            "level_claimed": {"category": "proof", "text": c["text"], "design_ref": "DESIGN.md " + c["design"]},
            "level_note": c["note"],
            "technique": TECH,
        })
    na = list(NOT_APPLICABLE)
    na_ids = {x["property_id"] for x in na}
    for pid in ALL:
        if pid not in CHECKS and pid not in na_ids:
            na.append({"property_id": pid, "reason": PENDING_REASON})
    na.sort(key=lambda x: x["property_id"])
    m = {
        "version": 1,
        "setup_cmd": "bin/setup",
        "hooks": {
            "guard": "aws_s2n_quic_verif",
            "enable": "no source hooks in /repo: every check synchronises /repo's working tree into a scratch directory (/var/tmp/aws_s2n_quic_verif) and appends `#[cfg(kani)] #[path] mod ...;` lines there (DESIGN.md 2.1); the native replay builds the same scratch tree with --cfg aws_s2n_quic_verif_replay",
            "baseline_off_cmd": "cd /repo && cargo nextest run --workspace --no-fail-fast --tool-config-file pb:/w/lib/nextest.toml --profile pb --test-threads 8 --offline",
            "source_commits": [],
            "add_only": True,
        },
        "engines": [
            {"name": "contracts", "path": "bin/check", "serves_properties": sorted(CHECKS),
             "kind_free_text": "contract-based deductive verification: Kani 0.68/CBMC 6.11 contract harnesses on the real crates (layer F), Verus history lemmas over the same contract predicates (layer L), Verus on verbatim-extracted functions (layer X)"},
        ],
        "checks": checks,
        "notes": "Exit codes of bin/check: 0 all obligations discharged, 1 VIOLATION (failed named obligation or safety check of the real code, with native replay), 2 UNDECIDED (timeout, lost anchor, unsupported construct, vacuity guard). Known findings: known_findings.json.",
        "not_applicable": na,
    }
    with open(os.path.join(VERIF, "MANIFEST.json"), "w") as f:
        json.dump(m, f, indent=2)
        f.write("\n")


if __name__ == "__main__":
    main()
