//@ verus props=C13,C14 tier=quick kind=X spec=conn_ids.rs timeout=300
// Layer X for C13 on the REAL TEXT of quic/s2n-quic-transport/src/connection/local_id_registry.rs.
//
// LocalIdRegistry walks a SmallVec with iterator adapters (`iter_mut().filter(..)`), which neither CBMC (11 GB on
// on_timeout, no result on on_transmit) nor Verus (no iterator adapters) can execute as a whole.  What carries the
// property is the per-entry step of each loop and a handful of straight-line statements; these are extracted
// verbatim (statement level, `splice-stmts`) together with the whole helper methods of LocalIdInfo (`splice-fn`), and
// verified against the SAME predicates (contracts/spec/conn_ids.rs) that the Kani harnesses of
// contracts/kani/transport/lidr.rs assert and that the history lemmas of verus/lemmas/C13.rs assume:
//   * LocalIdInfo::{is_retired, counts_towards_limit, transmission_interest, retire}            whole functions
//   * on_timeout: body of `for id_info in ..filter(is_retire_ready)`   -> lid_timeout_entry_post(.., true, ..) and
//        retire_prior_to' == max(retire_prior_to, seq + 1)  (the premise of lemma_timeout_post_is_step /
//        step_timeout_retire_keeps_discipline, so far an undischarged assumption of the lemma layer)
//   * on_transmit: body of `for id_info in ..filter(can_transmit)`      -> the NEW_CONNECTION_ID frame handed to the
//        writer carries exactly the entry's sequence number / id / token and the registry's retire_prior_to
//        (ncid_frame_is_entry, ncid_frame_rpt_is_registry) and the entry becomes PendingAcknowledgement iff the
//        frame was written (lid_transmit_entry_post)
//   * on_packet_ack / on_packet_loss: loop bodies (lid_ack_entry_post / lid_loss_entry_post: the reset token is
//        forgotten only on acknowledgement, a lost frame is re-issued unchanged)
//   * retire_handshake_connection_id: body of the `if let Some(handshake_id_info) = ..find(seq == 0 && !retired)`
//   * register_connection_id: the statements from `let sequence_number = self.next_sequence_number;` to
//        `self.next_sequence_number += 1;`   -> consecutive sequence numbers, entry pushed as PendingIssuance
//   * on_retire_connection_id: the guard `if sequence_number >= self.next_sequence_number { return Err(..) }`
//   * set_active_connection_id_limit: whole function (limit' == min(3, peer limit))
// Extraction drops (echoed into the evidence): the loop / `if let` HEADERS (the element selection by iterator
// adapters) -- the bodies are verified for an ARBITRARY element satisfying what the header's filter establishes,
// which is stated as the precondition and proved for `is_retire_ready` / `transmission_interest` on the real helper
// text; `.into()` (u32 -> VarInt) is renamed to the model conversion `.to_varint()`; `frame::NewConnectionId` to
// the model frame.  NOT decided here: that the loops visit every element (iterator semantics), unregister_expired_ids
// (SmallVec::retain with the mapper lock), the Memo caches.

// ---- model of the types the extracted text mentions ------------------------------------------------------------
#[derive(Clone, Copy)]
pub struct Timestamp { pub us: u64 }
#[derive(Clone, Copy)]
pub struct PacketNumber { pub v: u64 }
pub struct DurationX { pub us: u64 }
impl DurationX {
    #[verifier::external_body]
    pub fn mul_u32(self, k: u32) -> (r: DurationX) { unimplemented!() }
}
pub const RTT_MULTIPLIER: u32 = 3;
pub const EXPIRATION_BUFFER: DurationX = DurationX { us: 30_000_000 };

// `time + EXPIRATION_BUFFER` inside LocalIdInfo::retire: Timestamp + Duration (core; C09 timestamp harness)
impl Timestamp {
    #[verifier::external_body]
    pub fn add(self, d: DurationX) -> (r: Timestamp) { unimplemented!() }
}

//@ splice-item quic/s2n-quic-transport/src/connection/local_id_registry.rs "pub enum LocalIdStatus"
use LocalIdStatus::*;

#[derive(Clone, Copy, PartialEq, Eq, Structural)]
pub struct LocalId { pub len: u8, pub a: u64, pub b: u64 }
impl LocalId {
    #[verifier::external_body]
    pub fn as_bytes(&self) -> (r: IdBytes) ensures r.len == self.len, r.a == self.a, r.b == self.b { unimplemented!() }
}
pub struct IdBytes { pub len: u8, pub a: u64, pub b: u64 }
#[derive(Clone, Copy)]
pub struct Token { pub a: u64, pub b: u64 }
pub struct TokenRef { pub a: u64, pub b: u64 }
pub struct TokenArr { pub a: u64, pub b: u64 }
pub mod stateless_reset { pub type Token = super::Token; }
impl Token {
    pub const ZEROED: Token = Token { a: 0, b: 0 };
    // `<Token as AsRef<[u8]>>::as_ref` then `<&[u8] as TryInto<&[u8; 16]>>::try_into` (std; always Ok for a 16-byte token)
    #[verifier::external_body]
    pub fn as_ref(&self) -> (r: TokenRef) ensures r.a == self.a, r.b == self.b { unimplemented!() }
}
impl TokenRef {
    #[verifier::external_body]
    pub fn try_into(self) -> (r: Result<TokenArr, ()>) ensures r is Ok, r->Ok_0.a == self.a, r->Ok_0.b == self.b { unimplemented!() }
}

pub struct VarIntX { pub v: u64 }
pub trait ToVarInt { spec fn as_int(self) -> int; fn to_varint(self) -> (r: VarIntX) ensures r.v as int == self.as_int(); }
// `u32: Into<VarInt>` is lossless (s2n-quic-core varint `impl From<u32> for VarInt`, C05 varint harnesses)
impl ToVarInt for u32 {
    open spec fn as_int(self) -> int { self as int }
    fn to_varint(self) -> (r: VarIntX) { VarIntX { v: self as u64 } }
}

pub struct NewConnectionIdX { pub sequence_number: VarIntX, pub retire_prior_to: VarIntX, pub connection_id: IdBytes, pub stateless_reset_token: TokenArr }

#[derive(Clone, Copy, PartialEq, Eq, Structural)]
pub enum Interest { None, NewData, LostData, Forced }
pub mod transmission { pub use super::Interest; }

pub enum ConnIdInterest { None, New(u8) }
pub struct CountMemo { pub value: Ghost<u8> }
impl CountMemo {
    #[verifier::external_body]
    pub fn get(&self, ids: &Vec<LocalIdInfo>) -> (r: u8) ensures r == self.value@ { unimplemented!() }
    #[verifier::external_body]
    pub fn clear(&self) { unimplemented!() }
}
pub struct Memo { pub dummy: u8 }
impl Memo {
    // Memo::clear only drops the cached value (s2n-quic-core memo.rs); no access to the registry fields
    #[verifier::external_body]
    pub fn clear(&self) { unimplemented!() }
}

/// the writer: records the last frame it was handed (ghost) and whether it accepted it
pub struct WriteContextX { pub last: Ghost<NcidFrame>, pub wrote: Ghost<bool> }
impl WriteContextX {
    #[verifier::external_body]
    pub fn write_frame(&mut self, f: &NewConnectionIdX) -> (r: Option<PacketNumber>)
        ensures
            final(self).last@ == (NcidFrame { seq: f.sequence_number.v as int, retire_prior_to: f.retire_prior_to.v as int,
                id_len: f.connection_id.len as int, id_a: f.connection_id.a as int, id_b: f.connection_id.b as int,
                tok_a: f.stateless_reset_token.a as int, tok_b: f.stateless_reset_token.b as int }),
            final(self).wrote@ == r is Some,
    { unimplemented!() }
}

pub struct AckSetX { pub set: Ghost<Set<int>> }
impl AckSetX {
    #[verifier::external_body]
    pub fn contains(&self, pn: PacketNumber) -> (r: bool) ensures r == self.set@.contains(pn.v as int) { unimplemented!() }
}

pub struct LocalIdInfo {
    pub id: LocalId,
    pub sequence_number: u32,
    pub retirement_time: Option<Timestamp>,
    pub stateless_reset_token: Token,
    pub status: LocalIdStatus,
}

pub open spec fn st_code(s: LocalIdStatus) -> int {
    match s {
        PendingIssuance => lst_pending_issuance(),
        PendingReissue => lst_pending_reissue(),
        PendingAcknowledgement(_) => lst_pending_ack(),
        Active => lst_active(),
        PendingRetirementConfirmation(_) => lst_pending_retirement_confirmation(),
        PendingRemoval(_) => lst_pending_removal(),
    }
}

pub open spec fn abs_e(e: LocalIdInfo) -> LidEntry {
    LidEntry { seq: e.sequence_number as int, id_len: e.id.len as int, id_a: e.id.a as int, id_b: e.id.b as int,
        tok_a: e.stateless_reset_token.a as int, tok_b: e.stateless_reset_token.b as int, status: st_code(e.status),
        retire_at: match e.retirement_time { Some(t) => t.us as int, None => -1 } }
}

impl LocalIdInfo {
//@ splice-fn quic/s2n-quic-transport/src/connection/local_id_registry.rs "LocalIdInfo" is_retired vis=strip
//@| ensures ret == !lid_counts(abs_e(*self)),

//@ splice-fn quic/s2n-quic-transport/src/connection/local_id_registry.rs "LocalIdInfo" counts_towards_limit vis=strip
//@| ensures ret == lid_counts(abs_e(*self)),

//@ splice-fn quic/s2n-quic-transport/src/connection/local_id_registry.rs "LocalIdInfo" transmission_interest vis=strip
//@| ensures (ret != Interest::None) == lid_wants_transmit(abs_e(*self)),

//@ splice-fn quic/s2n-quic-transport/src/connection/local_id_registry.rs "LocalIdInfo" retire vis=strip drop=debug_assert "subst=time + EXPIRATION_BUFFER=>time.add(EXPIRATION_BUFFER)"
//@| ensures lid_timeout_entry_post(abs_e(*old(self)), true, abs_e(*final(self))),
}

pub struct LocalIdRegistry {
    pub registered_ids: Vec<LocalIdInfo>,
    pub next_sequence_number: u32,
    pub retire_prior_to: u32,
    pub active_connection_id_limit: u8,
    pub next_expiration: Memo,
    pub ack_interest: Memo,
    pub transmission_interest: Memo,
    pub active_id_count: CountMemo,
}

pub const MAX_ACTIVE_CONNECTION_ID_LIMIT: u64 = 3;

pub enum LocalIdRegistrationError { ConnectionIdInUse, InvalidSequenceNumber }

pub open spec fn abs_r(r: LocalIdRegistry) -> Lidr {
    Lidr { next_seq: r.next_sequence_number as int, retire_prior_to: r.retire_prior_to as int, limit: r.active_connection_id_limit as int,
        len: r.registered_ids.len() as int, active: 0 }
}

impl LocalIdRegistry {
    // ---- on_timeout: one element selected by `.filter(|id_info| id_info.is_retire_ready(timestamp))` ------------
    fn on_timeout_loop_body(&mut self, id_info: &mut LocalIdInfo, timestamp: Timestamp)
        requires
            // established by the dropped header: is_retire_ready => !is_retired (first conjunct of is_retire_ready)
            lid_counts(abs_e(*old(id_info))),
            // registry invariant lid_entry_inv (every registered sequence number is below next_sequence_number <= u32::MAX)
            (old(id_info).sequence_number as int) < old(self).next_sequence_number as int,
        ensures
            lid_timeout_entry_post(abs_e(*old(id_info)), true, abs_e(*final(id_info))),
            // the peer is asked to retire every id this endpoint stops counting: Retire Prior To covers it
            final(self).retire_prior_to as int == imax2(old(self).retire_prior_to as int, lid_timeout_rpt_of(abs_e(*old(id_info)), true)),
            final(self).retire_prior_to as int > old(id_info).sequence_number as int,
            final(self).next_sequence_number == old(self).next_sequence_number,
            final(self).active_connection_id_limit == old(self).active_connection_id_limit,
            final(self).registered_ids == old(self).registered_ids,
    {
//@ splice-stmts quic/s2n-quic-transport/src/connection/local_id_registry.rs "LocalIdRegistry" on_timeout "from=for id_info in self" inner=1
    }

    // ---- retire_handshake_connection_id: the entry found by `.find(|i| i.sequence_number == 0 && !i.is_retired())` --
    fn retire_handshake_loop_body(&mut self, handshake_id_info: &mut LocalIdInfo)
        requires
            lid_rotate_target(abs_e(*old(handshake_id_info))),
        ensures
            lid_rotate_entry_post(abs_e(*old(handshake_id_info)), true, abs_e(*final(handshake_id_info))),
            final(self).retire_prior_to as int == imax2(old(self).retire_prior_to as int, 1),
            final(self).next_sequence_number == old(self).next_sequence_number,
            final(self).active_connection_id_limit == old(self).active_connection_id_limit,
            final(self).registered_ids == old(self).registered_ids,
    {
//@ splice-stmts quic/s2n-quic-transport/src/connection/local_id_registry.rs "LocalIdRegistry" retire_handshake_connection_id "from=if let Some(handshake_id_info) = self" inner=1
    }

    // ---- on_transmit: one element selected by `.filter(|id_info| id_info.transmission_interest().can_transmit(..))` --
    fn on_transmit_loop_body(&mut self, id_info: &mut LocalIdInfo, context: &mut WriteContextX)
        requires
            lid_wants_transmit(abs_e(*old(id_info))),
        ensures
            // RFC 9000 19.15: the frame announces exactly this entry and the registry's Retire Prior To
            ncid_frame_is_entry(final(context).last@, abs_e(*old(id_info))),
            ncid_frame_rpt_is_registry(final(context).last@, abs_r(*old(self))),
            lid_transmit_entry_post(abs_e(*old(id_info)), final(context).wrote@, abs_e(*final(id_info))),
            final(self).retire_prior_to == old(self).retire_prior_to,
            final(self).next_sequence_number == old(self).next_sequence_number,
            final(self).active_connection_id_limit == old(self).active_connection_id_limit,
            final(self).registered_ids == old(self).registered_ids,
    {
//@ splice-stmts quic/s2n-quic-transport/src/connection/local_id_registry.rs "LocalIdRegistry" on_transmit "from=for id_info in self" inner=1 "subst=frame::NewConnectionId=>NewConnectionIdX@@.into()=>.to_varint()"
    }

    // ---- on_packet_ack / on_packet_loss: one element of `for id_info in self.registered_ids.iter_mut()` ------------------
    fn on_packet_ack_loop_body(&mut self, id_info: &mut LocalIdInfo, ack_set: &AckSetX)
        ensures
            // only an id whose NEW_CONNECTION_ID frame was acknowledged becomes Active and forgets its reset token
            lid_ack_entry_post(abs_e(*old(id_info)), match old(id_info).status { PendingAcknowledgement(pn) => ack_set.set@.contains(pn.v as int), _ => false }, abs_e(*final(id_info))),
            final(self).retire_prior_to == old(self).retire_prior_to,
            final(self).next_sequence_number == old(self).next_sequence_number,
            final(self).active_connection_id_limit == old(self).active_connection_id_limit,
            final(self).registered_ids == old(self).registered_ids,
    {
//@ splice-stmts quic/s2n-quic-transport/src/connection/local_id_registry.rs "LocalIdRegistry" on_packet_ack "from=for id_info in self" inner=1
    }

    fn on_packet_loss_loop_body(&mut self, id_info: &mut LocalIdInfo, ack_set: &AckSetX)
        ensures
            // a lost NEW_CONNECTION_ID frame is re-issued with the SAME id, sequence number and token
            lid_loss_entry_post(abs_e(*old(id_info)), match old(id_info).status { PendingAcknowledgement(pn) => ack_set.set@.contains(pn.v as int), _ => false }, abs_e(*final(id_info))),
            final(self).retire_prior_to == old(self).retire_prior_to,
            final(self).next_sequence_number == old(self).next_sequence_number,
            final(self).active_connection_id_limit == old(self).active_connection_id_limit,
            final(self).registered_ids == old(self).registered_ids,
    {
//@ splice-stmts quic/s2n-quic-transport/src/connection/local_id_registry.rs "LocalIdRegistry" on_packet_loss "from=for id_info in self" inner=1
    }

    // ---- on_retire_connection_id: the entry found for the retired sequence number -------------------------------------------
    // RFC 9000 19.16: "The sequence number specified in a RETIRE_CONNECTION_ID frame MUST NOT refer to the Destination
    // Connection ID field of the packet in which the frame is contained" -- rejected, entry untouched; otherwise exactly that
    // entry stops counting (PendingRemoval) and nothing else changes
    fn on_retire_connection_id_found(&mut self, id_info: Option<&mut LocalIdInfo>, destination_connection_id: &LocalId, rtt: DurationX, timestamp: Timestamp) -> (ret: Result<(), LocalIdRegistrationError>)
        ensures
            id_info is Some && old(id_info->Some_0).id == *destination_connection_id ==> ret is Err && ret->Err_0 is InvalidSequenceNumber && *final(id_info->Some_0) == *old(id_info->Some_0),
            id_info is Some && old(id_info->Some_0).id != *destination_connection_id ==> ret is Ok
                && lid_retire_entry_post(abs_e(*old(id_info->Some_0)), old(id_info->Some_0).sequence_number as int, abs_e(*final(id_info->Some_0))),
            id_info is None ==> ret is Ok,
            final(self).retire_prior_to == old(self).retire_prior_to,
            final(self).next_sequence_number == old(self).next_sequence_number,
            final(self).active_connection_id_limit == old(self).active_connection_id_limit,
            final(self).registered_ids == old(self).registered_ids,
    {
//@ splice-stmts quic/s2n-quic-transport/src/connection/local_id_registry.rs "LocalIdRegistry" on_retire_connection_id "from=if let Some(id_info) = id_info" "subst=timestamp + rtt * RTT_MULTIPLIER=>timestamp.add(rtt.mul_u32(RTT_MULTIPLIER))"
        Ok(())
    }

    // ---- connection_id_interest: how many new ids the endpoint asks its id generator for (WHOLE function) ----------------------
    // RFC 9000 5.1.1 "An endpoint MUST NOT provide more connection IDs than the peer's limit": Interest::New(k) only with
    // unretired + k == the (capped) peer limit; no interest at the limit.  `active_id_count.get(..)` is the memoised number of
    // entries that count towards the limit (Memo::get returns the query's value: s2n-quic-core memo.rs; the query is the
    // counting loop in LocalIdRegistry::new -- ASSUMED to equal the count of `counts_towards_limit` entries)
    fn connection_id_interest_body(&self) -> (ret: ConnIdInterest)
        requires
            // representation invariant (debug self-check check_active_connection_id_limit / lidr_inv): active <= limit
            self.active_id_count.value@ <= self.active_connection_id_limit,
        ensures
            ret is New ==> ret->New_0 > 0 && self.active_id_count.value@ as int + ret->New_0 as int == self.active_connection_id_limit as int,
            ret is None <==> self.active_id_count.value@ == self.active_connection_id_limit,
            lidr_interest_exact(Lidr { next_seq: 0, retire_prior_to: 0, limit: self.active_connection_id_limit as int, len: 0, active: self.active_id_count.value@ as int }, (if ret is New { ret->New_0 as int } else { 0 })),
    {
//@ splice-stmts quic/s2n-quic-transport/src/connection/local_id_registry.rs "LocalIdRegistry" connection_id_interest body=1 dropstmt=self.check_active_connection_id_limit "subst=connection::id::Interest=>ConnIdInterest"
    }

    // ---- register_connection_id: issue the next sequence number ---------------------------------------------------
    fn register_connection_id_issue(&mut self, id: &LocalId, retirement_time: Option<Timestamp>, stateless_reset_token: Token)
        requires
            // C13/lidr.register/inv_preserved + connection_impl call site: fewer than 2^32 - 1 ids are ever issued
            (old(self).next_sequence_number as int) < u32_max(),
        ensures
            final(self).registered_ids@.len() == old(self).registered_ids@.len() + 1,
            final(self).registered_ids@.drop_last() == old(self).registered_ids@,
            // "issues them with consecutive sequence numbers"
            lidr_register_ok_entry(abs_r(*old(self)), abs_e(final(self).registered_ids@.last())),
            final(self).next_sequence_number as int == old(self).next_sequence_number as int + 1,
            final(self).retire_prior_to == old(self).retire_prior_to,
            final(self).active_connection_id_limit == old(self).active_connection_id_limit,
            final(self).registered_ids@.last().id == *id,
            final(self).registered_ids@.last().stateless_reset_token == stateless_reset_token,
            final(self).registered_ids@.last().retirement_time == retirement_time,
    {
//@ splice-stmts quic/s2n-quic-transport/src/connection/local_id_registry.rs "LocalIdRegistry" register_connection_id "from=let sequence_number ="
//@ splice-stmts quic/s2n-quic-transport/src/connection/local_id_registry.rs "LocalIdRegistry" register_connection_id "from=self.registered_ids.push(LocalIdInfo {" "to=self.next_sequence_number"
    }

    // ---- on_retire_connection_id: RFC 9000 19.16 guard -------------------------------------------------------------
    fn on_retire_connection_id_guard(&self, sequence_number: u32) -> (ret: Result<(), LocalIdRegistrationError>)
        ensures
            ret is Err <==> lidr_retire_never_issued(abs_r(*self), sequence_number as int),
            ret is Err ==> ret->Err_0 is InvalidSequenceNumber,
    {
//@ splice-stmts quic/s2n-quic-transport/src/connection/local_id_registry.rs "LocalIdRegistry" on_retire_connection_id "from=if sequence_number"
        Ok(())
    }

//@ splice-fn quic/s2n-quic-transport/src/connection/local_id_registry.rs "LocalIdRegistry" set_active_connection_id_limit vis=strip
//@| ensures
//@|     lidr_set_limit_post(abs_r(*old(self)), active_connection_id_limit as int, abs_r(*final(self))),
//@|     final(self).registered_ids == old(self).registered_ids,
}
