//@ verus props=C04 tier=quick kind=X timeout=300
// Layer X for the per-space frame gating of C04 ("every violation by the peer ... wrong frame for the packet type ... is
// answered with the prescribed connection error"; RFC 9000 12.4 table 3 / 12.5: a frame that is not permitted in the
// packet type it arrived in is a PROTOCOL_VIOLATION).  quic/s2n-quic-transport/src/space/mod.rs: trait PacketSpace gives
// every frame handler a DEFAULT body; InitialSpace and HandshakeSpace override only handle_{crypto,ack,connection_close}_frame,
// so for them the default bodies ARE the gate.  Each default body is extracted verbatim and whole (body=1):
// it must be `Err` with code PROTOCOL_VIOLATION (0x0a), for every frame value.
// Also checked on every run (syntactic obligation, reported as UNDECIDED "contract needed" if it fails, never as a
// violation): space/initial.rs and space/handshake.rs define none of the gated handlers themselves.
// Extraction drops: `transport::Error` renamed, `Self::INVALID_FRAME_ERROR` renamed to a model constant.
// NOT decided: the tag dispatch of handle_cleartext_payload (macro + closures), ApplicationSpace's own handlers.

#[derive(Clone, Copy, PartialEq, Eq, Structural)]
pub struct TransportError { pub code: u64 }
pub struct FrameTypeX { pub v: u64 }
pub struct FrameTagX { pub v: u8 }
impl FrameTagX { pub fn into(self) -> (r: FrameTypeX) { FrameTypeX { v: self.v as u64 } } }
impl TransportError {
    pub const NO_ERROR: TransportError = TransportError { code: 0x0 };
    pub const INTERNAL_ERROR: TransportError = TransportError { code: 0x1 };
    pub const FLOW_CONTROL_ERROR: TransportError = TransportError { code: 0x3 };
    pub const STREAM_STATE_ERROR: TransportError = TransportError { code: 0x5 };
    pub const FRAME_ENCODING_ERROR: TransportError = TransportError { code: 0x7 };
    pub const PROTOCOL_VIOLATION: TransportError = TransportError { code: 0xA };
    pub fn with_reason(self, reason: &'static str) -> (r: TransportError) ensures r == self { self }
    pub fn with_frame_type(self, t: FrameTypeX) -> (r: TransportError) ensures r == self { self }
}
pub const INVALID_FRAME_ERROR: &'static str = "invalid frame";
pub struct FrameX { pub t: u8 }
impl FrameX { pub fn tag(&self) -> (r: FrameTagX) { FrameTagX { v: self.t } } }
pub struct DcFrameX { pub t: u64 }
impl DcFrameX { pub fn tag(&self) -> (r: FrameTypeX) { FrameTypeX { v: self.t } } }

fn default_handle_handshake_done_frame(frame: FrameX) -> (ret: Result<(), TransportError>)
    ensures ret is Err && ret->Err_0.code == 0xA,
{
//@ splice-stmts quic/s2n-quic-transport/src/space/mod.rs - handle_handshake_done_frame body=1 "subst=?transport::Error=>TransportError@@?Self::INVALID_FRAME_ERROR=>INVALID_FRAME_ERROR"
}

fn default_handle_retire_connection_id_frame(frame: FrameX) -> (ret: Result<(), TransportError>)
    ensures ret is Err && ret->Err_0.code == 0xA,
{
//@ splice-stmts quic/s2n-quic-transport/src/space/mod.rs - handle_retire_connection_id_frame body=1 "subst=?transport::Error=>TransportError@@?Self::INVALID_FRAME_ERROR=>INVALID_FRAME_ERROR"
}

fn default_handle_new_connection_id_frame(frame: FrameX) -> (ret: Result<(), TransportError>)
    ensures ret is Err && ret->Err_0.code == 0xA,
{
//@ splice-stmts quic/s2n-quic-transport/src/space/mod.rs - handle_new_connection_id_frame body=1 "subst=?transport::Error=>TransportError@@?Self::INVALID_FRAME_ERROR=>INVALID_FRAME_ERROR"
}

fn default_handle_path_response_frame(frame: FrameX) -> (ret: Result<(), TransportError>)
    ensures ret is Err && ret->Err_0.code == 0xA,
{
//@ splice-stmts quic/s2n-quic-transport/src/space/mod.rs - handle_path_response_frame body=1 "subst=?transport::Error=>TransportError@@?Self::INVALID_FRAME_ERROR=>INVALID_FRAME_ERROR"
}

fn default_handle_path_challenge_frame(frame: FrameX) -> (ret: Result<(), TransportError>)
    ensures ret is Err && ret->Err_0.code == 0xA,
{
//@ splice-stmts quic/s2n-quic-transport/src/space/mod.rs - handle_path_challenge_frame body=1 "subst=?transport::Error=>TransportError@@?Self::INVALID_FRAME_ERROR=>INVALID_FRAME_ERROR"
}

fn default_handle_stream_frame(frame: FrameX) -> (ret: Result<(), TransportError>)
    ensures ret is Err && ret->Err_0.code == 0xA,
{
//@ splice-stmts quic/s2n-quic-transport/src/space/mod.rs - handle_stream_frame body=1 "subst=?transport::Error=>TransportError@@?Self::INVALID_FRAME_ERROR=>INVALID_FRAME_ERROR"
}

fn default_handle_datagram_frame(frame: FrameX) -> (ret: Result<(), TransportError>)
    ensures ret is Err && ret->Err_0.code == 0xA,
{
//@ splice-stmts quic/s2n-quic-transport/src/space/mod.rs - handle_datagram_frame body=1 "subst=?transport::Error=>TransportError@@?Self::INVALID_FRAME_ERROR=>INVALID_FRAME_ERROR"
}

fn default_handle_dc_stateless_reset_tokens_frame(frame: DcFrameX) -> (ret: Result<(), TransportError>)
    ensures ret is Err && ret->Err_0.code == 0xA,
{
//@ splice-stmts quic/s2n-quic-transport/src/space/mod.rs - handle_dc_stateless_reset_tokens_frame body=1 "subst=?transport::Error=>TransportError@@?Self::INVALID_FRAME_ERROR=>INVALID_FRAME_ERROR"
}

// the body of `macro_rules! default_frame_handler` (DataBlocked, MaxData, MaxStreamData, MaxStreams, ResetStream,
// StopSending, StreamDataBlocked, StreamsBlocked, NewToken)
fn default_frame_handler_macro_body(frame: FrameX) -> (ret: Result<(), TransportError>)
    ensures ret is Err && ret->Err_0.code == 0xA,
{
//@ splice-stmts quic/s2n-quic-transport/src/space/mod.rs - $name body=1 "subst=?transport::Error=>TransportError@@?Self::INVALID_FRAME_ERROR=>INVALID_FRAME_ERROR"
}

//@ absent-fn quic/s2n-quic-transport/src/space/initial.rs handle_stream_frame,handle_datagram_frame,handle_handshake_done_frame,handle_retire_connection_id_frame,handle_new_connection_id_frame,handle_path_response_frame,handle_path_challenge_frame,handle_data_blocked_frame,handle_max_data_frame,handle_max_stream_data_frame,handle_max_streams_frame,handle_reset_stream_frame,handle_stop_sending_frame,handle_stream_data_blocked_frame,handle_streams_blocked_frame,handle_new_token_frame,handle_dc_stateless_reset_tokens_frame
//@ absent-fn quic/s2n-quic-transport/src/space/handshake.rs handle_stream_frame,handle_datagram_frame,handle_handshake_done_frame,handle_retire_connection_id_frame,handle_new_connection_id_frame,handle_path_response_frame,handle_path_challenge_frame,handle_data_blocked_frame,handle_max_data_frame,handle_max_stream_data_frame,handle_max_streams_frame,handle_reset_stream_frame,handle_stop_sending_frame,handle_stream_data_blocked_frame,handle_streams_blocked_frame,handle_new_token_frame,handle_dc_stateless_reset_tokens_frame
