//@ verus props=C11 tier=quick kind=X timeout=300
// Layer X for the clause "a client pads every datagram carrying an Initial packet to at least 1200 bytes" (RFC 9000
// 14.1): quic/s2n-quic-transport/src/connection/transmission.rs, ConnectionTransmission::write_payload.  A datagram is
// padded through `min_packet_len` of exactly ONE of the coalesced packets -- the last one that will be written; the
// statement that chooses it (`let mut pn_space_to_pad = { .. };`) is extracted verbatim.  Contract: whenever an
// Initial packet will be transmitted some space is chosen, and the chosen space is either Initial itself or a space
// that HAS something to transmit under the current constraint (so that the packet carrying the padding is really
// written; choosing a space that stays silent would let the Initial leave unpadded).
// Callees: `has_transmission(space, constraint)` (free function, 4 lines: `space.has_transmission_interest() &&
// interest.can_transmit(constraint)`) and `mtu_controller.can_transmit` are uninterpreted predicates of the space;
// that a space with transmission interest really writes a packet is NOT decided here (PacketSpace::on_transmit).
// NOT decided: the rest of write_payload (the per-space `min_packet_len = pn_space_to_pad.filter(..)` wiring, the
// server-side ack-eliciting rule), EncoderBuffer padding itself (C05 frame codecs).

#[derive(Clone, Copy, PartialEq, Eq, Structural)]
pub enum PacketNumberSpace { Initial, Handshake, ApplicationData }
#[derive(Clone, Copy)]
pub struct ConstraintX { pub v: u8 }

pub struct SpaceX { pub wants: Ghost<bool> }
pub uninterp spec fn will_transmit(space: Option<SpaceX>, c: ConstraintX) -> bool;
pub open spec fn deref_opt(space: Option<&SpaceX>) -> Option<SpaceX> { match space { Some(s) => Some(*s), None => None } }
#[verifier::external_body]
pub fn has_transmission(space: Option<&SpaceX>, transmission_constraint: ConstraintX) -> (r: bool)
    ensures r == will_transmit(deref_opt(space), transmission_constraint), space is None ==> !r,
{ unimplemented!() }

pub struct SpaceManagerX { pub i: Option<SpaceX>, pub h: Option<SpaceX>, pub a: Option<SpaceX> }
impl SpaceManagerX {
    pub fn initial(&self) -> (r: Option<&SpaceX>) ensures r is Some == self.i is Some, r is Some ==> *r->Some_0 == self.i->Some_0 { self.i.as_ref() }
    pub fn handshake(&self) -> (r: Option<&SpaceX>) ensures r is Some == self.h is Some, r is Some ==> *r->Some_0 == self.h->Some_0 { self.h.as_ref() }
    pub fn application(&self) -> (r: Option<&SpaceX>) ensures r is Some == self.a is Some, r is Some ==> *r->Some_0 == self.a->Some_0 { self.a.as_ref() }
}
pub struct MtuControllerX { pub can: bool }
impl MtuControllerX { pub fn can_transmit(&self, c: ConstraintX) -> (r: bool) ensures r == self.can { self.can } }
pub struct PathX { pub mtu_controller: MtuControllerX }
pub struct ContextX { pub p: PathX }
impl ContextX { pub fn path(&self) -> (r: &PathX) ensures *r == self.p { &self.p } }
pub struct ConnectionTransmission { pub context: ContextX }


impl ConnectionTransmission {
    fn write_payload_space_to_pad(&self, space_manager: &SpaceManagerX, transmission_constraint: ConstraintX) -> (ret: Option<PacketNumberSpace>)
        ensures
            // a datagram that will carry an Initial packet always gets a padding carrier ...
            will_transmit(space_manager.i, transmission_constraint) ==> ret is Some,
            !will_transmit(space_manager.i, transmission_constraint) ==> ret is None,
            // ... and the carrier is the Initial packet itself or a later packet that has something to send
            ret == Some(PacketNumberSpace::Handshake) ==> will_transmit(space_manager.h, transmission_constraint),
            ret == Some(PacketNumberSpace::ApplicationData) ==> space_manager.a is Some
                && (will_transmit(space_manager.a, transmission_constraint) || self.context.p.mtu_controller.can),
            // the LAST packet of the datagram carries it (ApplicationData after Handshake after Initial)
            ret == Some(PacketNumberSpace::Initial) ==> !will_transmit(space_manager.h, transmission_constraint) && !will_transmit(space_manager.a, transmission_constraint),
            ret == Some(PacketNumberSpace::Handshake) ==> !will_transmit(space_manager.a, transmission_constraint),
    {
//@ splice-stmts quic/s2n-quic-transport/src/connection/transmission.rs "tx::Message for ConnectionTransmission<'_, '_, Config>" write_payload "from=let mut pn_space_to_pad"
        pn_space_to_pad
    }
}
