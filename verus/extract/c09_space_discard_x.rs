//@ verus props=C09,C10 tier=quick kind=X timeout=300
// Layer X for C09 "every sent packet is resolved exactly once - acknowledged, declared lost, or discarded together with
// its keys - and the bytes-in-flight figure always equals the total size of the unresolved congestion-controlled
// packets": recovery::Manager::on_packet_number_space_discarded (quic/s2n-quic-transport/src/recovery/manager.rs),
// RFC 9002 B.9.  The statements from `let mut discarded_bytes = 0;` to the call of
// `congestion_controller.on_packet_discarded(..)` are extracted verbatim, INCLUDING the loop over the sent-packet
// map, and verified for a map of ANY length (loop invariant, no bound): the congestion controller is told to remove
// exactly the sum of the sizes of all packets still outstanding in the discarded space -- no overflow, truncation or
// omission for any number / size of packets (a recovery::Manager cannot be built under Kani beyond 2 packets:
// contracts/kani/transport/recovery_manager.rs).
// Model: `sent_packets` (packet::number::Map<SentPacketInfo>) is its sequence of (packet number, info) entries,
// `iter()` = the slice iterator over them (C16/pn_map.* obligations cover the map itself); the congestion
// controller records the argument it receives (ghost).
// Extraction drops (echoed into the evidence): the `debug_assert_eq!(..)` statement inside the loop,
// `congestion_controller::PathPublisher::new` renamed to the model constructor; ghost insertions: the name of the
// ghost loop iterator, the loop invariant and two lemma calls (proof-only text, erased by Verus).

#[derive(Clone, Copy)]
pub struct PacketNumber { pub v: u64 }
#[derive(Clone, Copy, PartialEq, Eq, Structural)]
pub struct PathId { pub v: u8 }
pub struct SentPacketInfo { pub sent_bytes: u16, pub path_id: PathId }
pub struct PubX { pub dummy: u8 }
pub struct PathPublisherX { pub dummy: u8 }
impl PathPublisherX {
    #[verifier::external_body]
    pub fn new(publisher: &mut PubX, path_id: PathId) -> (r: PathPublisherX) { unimplemented!() }
}

/// the congestion controller: ghost record of what on_packet_discarded was told (layer F: C09/C10 cubic/bbr
/// on_packet_discarded obligations -- bytes_in_flight' == bytes_in_flight - n)
pub struct CongestionControllerX { pub discarded: Ghost<int>, pub calls: Ghost<int> }
impl CongestionControllerX {
    #[verifier::external_body]
    pub fn on_packet_discarded(&mut self, bytes_sent: usize, publisher: &mut PathPublisherX)
        ensures final(self).discarded@ == old(self).discarded@ + bytes_sent as int, final(self).calls@ == old(self).calls@ + 1,
    { unimplemented!() }
}
pub struct PathX { pub congestion_controller: CongestionControllerX }

pub open spec fn outstanding(s: Seq<(PacketNumber, SentPacketInfo)>) -> int decreases s.len() {
    if s.len() == 0 { 0 } else { outstanding(s.drop_last()) + s.last().1.sent_bytes as int }
}
pub proof fn lemma_outstanding_take(s: Seq<(PacketNumber, SentPacketInfo)>, i: int)
    requires 0 <= i < s.len()
    ensures outstanding(s.take(i + 1)) == outstanding(s.take(i)) + s[i].1.sent_bytes as int, outstanding(s.take(i)) >= 0
    decreases i
{
    assert(s.take(i + 1).drop_last() =~= s.take(i));
    if i > 0 { lemma_outstanding_take(s, i - 1); }
}
pub proof fn lemma_outstanding_mono(s: Seq<(PacketNumber, SentPacketInfo)>, i: int)
    requires 0 <= i <= s.len()
    ensures outstanding(s.take(i)) <= outstanding(s), outstanding(s.take(i)) >= 0
    decreases s.len() - i
{
    if i < s.len() { lemma_outstanding_take(s, i); lemma_outstanding_mono(s, i + 1); }
    else { assert(s.take(i) =~= s); if i > 0 { lemma_outstanding_take(s, i - 1); } }
}

#[derive(Clone, Copy)]
pub enum PacketNumberSpace { Initial, Handshake, ApplicationData }
pub struct Manager { pub sent_packets: Vec<(PacketNumber, SentPacketInfo)>, pub space: PacketNumberSpace }

impl Manager {
    fn on_packet_number_space_discarded_bytes(&mut self, path: &mut PathX, path_id: PathId, publisher: &mut PubX)
        requires
            // a sum of u16 sizes over a map that fits into memory fits into usize (64-bit target)
            outstanding(old(self).sent_packets@) <= usize::MAX,
        ensures
            // exactly the bytes of all unresolved packets of the space leave bytes-in-flight, in one call
            final(path).congestion_controller.discarded@ == old(path).congestion_controller.discarded@ + outstanding(old(self).sent_packets@),
            final(path).congestion_controller.calls@ == old(path).congestion_controller.calls@ + 1,
            final(self).sent_packets@ == old(self).sent_packets@,
    {
//@ splice-stmts quic/s2n-quic-transport/src/recovery/manager.rs "Manager<Config>" on_packet_number_space_discarded "from=let mut discarded_bytes" "to=path.congestion_controller.on_packet_discarded(" dropstmt=debug_assert_eq! "subst=congestion_controller::PathPublisher::new=>PathPublisherX::new"
//@^ before "self.sent_packets.iter()" :: it:
//@^ after "self.sent_packets.iter()" :: invariant discarded_bytes as int == outstanding(self.sent_packets@.take(it.index@ as int)), outstanding(self.sent_packets@) <= usize::MAX, it.index@ <= self.sent_packets@.len(), self.sent_packets@ == old(self).sent_packets@,
//@^ before "discarded_bytes +=" :: proof { lemma_outstanding_take(self.sent_packets@, it.index@ as int); lemma_outstanding_mono(self.sent_packets@, it.index@ as int + 1); }
//@^ before "path.congestion_controller.on_packet_discarded(" :: proof { assert(self.sent_packets@.take(self.sent_packets@.len() as int) =~= self.sent_packets@); }
    }

    // recovery::Manager::new(space): an empty manager (constructor; its field initialisers are not under contract)
    #[verifier::external_body]
    fn new(space: PacketNumberSpace) -> (r: Manager) ensures r.sent_packets@.len() == 0 { unimplemented!() }

    // ---- on_retry_packet (client, RFC 9002 6.3 / B.9-style reset): WHOLE function body ---------------------------------
    // every Initial packet sent before the Retry is forgotten AND its bytes leave bytes-in-flight first (in this order:
    // summing after the reset would discard nothing and leak the bytes forever)
    fn on_retry_packet_body(&mut self, path: &mut PathX, path_id: PathId, publisher: &mut PubX)
        requires outstanding(old(self).sent_packets@) <= usize::MAX,
        ensures
            final(path).congestion_controller.discarded@ == old(path).congestion_controller.discarded@ + outstanding(old(self).sent_packets@),
            final(path).congestion_controller.calls@ == old(path).congestion_controller.calls@ + 1,
            final(self).sent_packets@.len() == 0,
    {
//@ splice-stmts quic/s2n-quic-transport/src/recovery/manager.rs "Manager<Config>" on_retry_packet body=1 dropstmt=debug_assert! "subst=congestion_controller::PathPublisher::new=>PathPublisherX::new"
//@^ before "self.sent_packets.iter()" :: it:
//@^ after "self.sent_packets.iter()" :: invariant discarded_bytes as int == outstanding(self.sent_packets@.take(it.index@ as int)), outstanding(self.sent_packets@) <= usize::MAX, it.index@ <= self.sent_packets@.len(), self.sent_packets@ == old(self).sent_packets@,
//@^ before "discarded_bytes +=" :: proof { lemma_outstanding_take(self.sent_packets@, it.index@ as int); lemma_outstanding_mono(self.sent_packets@, it.index@ as int + 1); }
//@^ before "path.congestion_controller.on_packet_discarded(" :: proof { assert(self.sent_packets@.take(self.sent_packets@.len() as int) =~= self.sent_packets@); }
    }
}
