//@ verus props=C04 tier=quick kind=X timeout=300
// Layer X for C04 "the endpoint never buffers more than it advertised": the CRYPTO stream has no flow control, its
// bound is RFC 9000 7.5 -- quic/s2n-quic-transport/src/space/crypto_stream.rs, CryptoStream::on_crypto_frame.  The
// statements from `let end_offset = ..` to the write into the reassembler are extracted verbatim.  Contract: a frame is
// written into the buffer only if it ends at most MAX_CRYPTO_BUFFER_SIZE bytes beyond what the TLS session has
// CONSUMED (the read cursor -- everything between the read cursor and the frame's end may have to be held in memory);
// every other frame is rejected with CRYPTO_BUFFER_EXCEEDED (0x0d) and nothing is written.
// Callee contracts: Reassembler::consumed_len (C01/reassembler.consumed_len/eq_start), VarInt::checked_add_usize
// (C05 varint obligations); `write_at` is a ghost flag (what it stores: layer F, C01 / C16).
// The write statement itself (`self.rx.write_at(..).map_err(|_| ..)?;`, a closure with a `_` parameter that Verus rejects)
// is NOT extracted: the wrapper calls the model's write_at at the point where the extracted text ends, i.e. what is
// proved is the condition under which control reaches the write.
// Extraction drops: `transport::Error` renamed; the constant MAX_CRYPTO_BUFFER_SIZE is spliced (autoconst).
// NOT decided: the `is_finished` guard before these statements, the tx half of CryptoStream.

#[derive(Clone, Copy)]
pub struct VarIntX { pub v: u64 }
impl VarIntX {
    pub fn as_u64(&self) -> (r: u64) ensures r == self.v { self.v }
    #[verifier::external_body]
    pub fn checked_add_usize(self, n: usize) -> (r: Option<VarIntX>)
        ensures r is Some == (self.v + n <= 4611686018427387903), r is Some ==> r->Some_0.v == self.v + n,
    { unimplemented!() }
}
#[derive(Clone, Copy)]
pub struct DataX { pub len: Ghost<int> }
impl DataX {
    #[verifier::external_body]
    pub fn len(&self) -> (r: usize) ensures r as int == self.len@ { unimplemented!() }
}
pub struct BufferError { pub dummy: u8 }
#[derive(Clone, Copy, PartialEq, Eq, Structural)]
pub struct TransportError { pub code: u64 }
impl TransportError {
    pub const CRYPTO_BUFFER_EXCEEDED: TransportError = TransportError { code: 0xd };
}
pub struct CryptoFrameX { pub offset: VarIntX, pub data: DataX }

pub struct ReassemblerX { pub start: Ghost<int>, pub write_attempted: Ghost<bool> }
impl ReassemblerX {
    #[verifier::external_body]
    pub fn consumed_len(&self) -> (r: u64) ensures r as int == self.start@ { unimplemented!() }
    #[verifier::external_body]
    pub fn total_received_len(&self) -> (r: u64) ensures r as int >= self.start@ { unimplemented!() }
    #[verifier::external_body]
    pub fn write_at(&mut self, offset: VarIntX, data: DataX) -> (r: Result<(), BufferError>)
        ensures final(self).write_attempted@, final(self).start@ == old(self).start@,
    { unimplemented!() }
}

pub struct CryptoStream { pub rx: ReassemblerX }
impl CryptoStream {
    fn on_crypto_frame_bound(&mut self, frame: CryptoFrameX) -> (ret: Result<(), TransportError>)
        requires 0 <= old(self).rx.start@ <= u64::MAX, !old(self).rx.write_attempted@,
        ensures
            // nothing is buffered beyond read cursor + MAX_CRYPTO_BUFFER_SIZE
            final(self).rx.write_attempted@ ==> frame.offset.v + frame.data.len@ - old(self).rx.start@ <= MAX_CRYPTO_BUFFER_SIZE,
            // everything else is a CRYPTO_BUFFER_EXCEEDED connection error
            frame.offset.v + frame.data.len@ - old(self).rx.start@ > MAX_CRYPTO_BUFFER_SIZE ==> ret is Err && ret->Err_0.code == 0xd && !final(self).rx.write_attempted@,
            // and a frame within the bound is not rejected by this check
            frame.offset.v + frame.data.len@ <= 4611686018427387903 && frame.offset.v + frame.data.len@ - old(self).rx.start@ <= MAX_CRYPTO_BUFFER_SIZE ==> ret is Ok && final(self).rx.write_attempted@,
    {
//@ splice-stmts quic/s2n-quic-transport/src/space/crypto_stream.rs "CryptoStream" on_crypto_frame "from=let end_offset" "until=self.rx.write_at" autoconst=1 "subst=transport::Error=>TransportError"
        let _ = self.rx.write_at(frame.offset, frame.data);
        Ok(())
    }
}
