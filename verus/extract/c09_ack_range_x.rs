//@ verus props=C09 tier=quick kind=X timeout=300
// Layer X for the ACK-processing link of C09 ("every sent packet is resolved exactly once"): the inner loop of
// recovery::Manager::process_ack_range (quic/s2n-quic-transport/src/recovery/manager.rs) over the entries that
// `self.sent_packets.remove_range(pn_range)` takes out of the sent-packet map.  Extracted verbatim, verified for any number of
// removed entries.  Contract: every entry removed from the map by an ACK range is appended to `newly_acked_packets` exactly once,
// in order, with its recorded size and path (this list is what process_new_acked_packets -- job c09_acked_bytes_x -- hands to
// the congestion controllers); nothing else is appended; `largest_newly_acked` is Some as soon as an entry was removed;
// `includes_ack_eliciting` becomes true iff one of the removed entries was ack-eliciting (or it was true before); no
// congestion controller is told anything here (bytes leave flight only in process_new_acked_packets).
// Model: remove_range(range) yields the removed entries (ASSUMED: packet::number::Map::remove_range, C16 not discharged).
// Extraction drops (echoed into the evidence): `debug_assert!`; `x |= e;` desugared; the iterable is evaluated by the wrapper and
// iterated by reference with shadowing `let`s for the two loop variables (binding-mode adaptation); the closure
// `|(pn, _)| packet_number > pn` is rewritten with a variable parameter; ghost insertions: iterator name, invariant.

#[derive(Clone, Copy, PartialEq, Eq, PartialOrd, Ord, Structural)]
pub struct PacketNumber { pub v: u64 }
use vstd::std_specs::cmp::{OrdSpec, PartialOrdSpec};
impl vstd::std_specs::cmp::PartialOrdSpecImpl for PacketNumber {
    open spec fn obeys_partial_cmp_spec() -> bool { true }
    open spec fn partial_cmp_spec(&self, other: &PacketNumber) -> Option<core::cmp::Ordering> {
        if self.v < other.v { Some(core::cmp::Ordering::Less) } else if self.v == other.v { Some(core::cmp::Ordering::Equal) } else { Some(core::cmp::Ordering::Greater) }
    }
}
impl vstd::std_specs::cmp::OrdSpecImpl for PacketNumber {
    open spec fn obeys_cmp_spec() -> bool { true }
    open spec fn cmp_spec(&self, other: &PacketNumber) -> core::cmp::Ordering {
        if self.v < other.v { core::cmp::Ordering::Less } else if self.v == other.v { core::cmp::Ordering::Equal } else { core::cmp::Ordering::Greater }
    }
}
#[derive(Clone, Copy, PartialEq, Eq, Structural)]
pub struct PathId { pub v: u8 }
#[derive(Clone, Copy, PartialEq, Eq, Structural)]
pub struct Timestamp { pub us: u64 }
#[derive(Clone, Copy, PartialEq, Eq, Structural)]
pub struct EcnX { pub v: u8 }
#[derive(Clone, Copy, PartialEq, Eq, Structural)]
pub struct AckElicitation { pub eliciting: bool }
impl AckElicitation { pub fn is_ack_eliciting(&self) -> (r: bool) ensures r == self.eliciting { self.eliciting } }
#[derive(Clone, Copy, PartialEq, Eq, Structural)]
pub struct SentPacketInfo { pub sent_bytes: u16, pub path_id: PathId, pub time_sent: Timestamp, pub ecn: EcnX, pub ack_elicitation: AckElicitation }
pub struct PubX { pub dummy: u8 }
pub struct CongestionControllerX { pub told: Ghost<int> }
pub struct EcnControllerX { pub dummy: u8 }
impl EcnControllerX {
    #[verifier::external_body]
    pub fn on_packet_ack(&mut self, time_sent: Timestamp, ecn: EcnX) { unimplemented!() }
}
pub enum MtuResult { MtuUpdated(u16), NoChange }
pub struct MtuControllerX { pub dummy: u8 }
impl MtuControllerX {
    #[verifier::external_body]
    pub fn on_packet_ack(&mut self, packet_number: PacketNumber, sent_bytes: u16, congestion_controller: &mut CongestionControllerX, path_id: PathId, publisher: &mut PubX) -> (r: MtuResult)
        ensures final(congestion_controller).told@ == old(congestion_controller).told@,
    { unimplemented!() }
}
pub struct PathX { pub congestion_controller: CongestionControllerX, pub ecn_controller: EcnControllerX, pub mtu_controller: MtuControllerX }
pub struct ContextX { pub paths: Vec<PathX> }
impl ContextX {
    pub fn path_mut_by_id(&mut self, id: PathId) -> (r: &mut PathX)
        requires (id.v as int) < old(self).paths@.len(),
        ensures *r == old(self).paths@[id.v as int], final(self).paths@ == old(self).paths@.update(id.v as int, *final(r)),
    { &mut self.paths[id.v as usize] }
    #[verifier::external_body]
    pub fn on_mtu_update(&mut self, max_datagram_size: u16) ensures final(self).paths@ == old(self).paths@ { unimplemented!() }
}
pub assume_specification<T, F: FnOnce(T) -> bool> [Option::<T>::is_none_or] (o: Option<T>, f: F) -> (r: bool)
    ensures o is None ==> r;

pub open spec fn any_eliciting(s: Seq<(PacketNumber, SentPacketInfo)>, k: int) -> bool {
    exists|j: int| 0 <= j < k && (#[trigger] s[j]).1.ack_elicitation.eliciting
}

pub struct PacketNumberRange { pub dummy: u8 }
pub struct SentPacketsX { pub removed: Vec<(PacketNumber, SentPacketInfo)> }
impl SentPacketsX {
    #[verifier::external_body]
    pub fn remove_range(&mut self, range: PacketNumberRange) -> (r: Vec<(PacketNumber, SentPacketInfo)>)
        ensures r@ == old(self).removed@,
    { unimplemented!() }
}
pub struct Manager { pub sent_packets: SentPacketsX }
impl Manager {
    fn process_ack_range_inner(&mut self, newly_acked_packets: &mut Vec<(PacketNumber, SentPacketInfo)>, pn_range: PacketNumberRange, largest_in: Option<(PacketNumber, SentPacketInfo)>, includes_in: bool, context: &mut ContextX, publisher: &mut PubX) -> (ret: (Option<(PacketNumber, SentPacketInfo)>, bool))
        requires
            forall|j: int| 0 <= j < old(self).sent_packets.removed@.len() ==> (#[trigger] old(self).sent_packets.removed@[j]).1.path_id.v < old(context).paths@.len(),
        ensures
            // every removed entry is appended exactly once, in order; nothing else is appended
            final(newly_acked_packets)@ =~= old(newly_acked_packets)@ + old(self).sent_packets.removed@,
            old(self).sent_packets.removed@.len() > 0 ==> ret.0 is Some,
            old(self).sent_packets.removed@.len() == 0 ==> ret.0 == largest_in,
            ret.1 == (includes_in || any_eliciting(old(self).sent_packets.removed@, old(self).sent_packets.removed@.len() as int)),
            // no congestion controller is told anything while the ranges are walked
            final(context).paths@.len() == old(context).paths@.len(),
            forall|p: int| 0 <= p < old(context).paths@.len() ==> (#[trigger] final(context).paths@[p]).congestion_controller.told@ == old(context).paths@[p].congestion_controller.told@,
    {
        let mut largest_newly_acked = largest_in;
        let mut includes_ack_eliciting = includes_in;
        let mut newly_acked_range: Option<(PacketNumber, PacketNumber)> = None;
        let removed = self.sent_packets.remove_range(pn_range);
        let ghost s = removed@;
//@ splice-stmts quic/s2n-quic-transport/src/recovery/manager.rs "Manager<Config>" process_ack_range "from=for (packet_number, acked_packet_info) in self.sent_packets.remove_range(pn_range)" dropstmt=debug_assert! desugar=bool_assign "subst=self.sent_packets.remove_range(pn_range) {=>removed.iter() { let packet_number = *packet_number; let acked_packet_info = *acked_packet_info;@@|(pn, _)| packet_number > pn=>|e: (PacketNumber, SentPacketInfo)| packet_number > e.0"
//@^ before "removed.iter()" :: it:
//@^ after "removed.iter()" :: invariant removed@ == s, s == old(self).sent_packets.removed@, it.index@ <= s.len(), context.paths@.len() == old(context).paths@.len(), forall|j: int| 0 <= j < s.len() ==> (#[trigger] s[j]).1.path_id.v < old(context).paths@.len(), newly_acked_packets@ =~= old(newly_acked_packets)@ + s.take(it.index@ as int), it.index@ > 0 ==> largest_newly_acked is Some, it.index@ == 0 ==> largest_newly_acked == largest_in, includes_ack_eliciting == (includes_in || any_eliciting(s, it.index@ as int)), forall|p: int| 0 <= p < old(context).paths@.len() ==> (#[trigger] context.paths@[p]).congestion_controller.told@ == old(context).paths@[p].congestion_controller.told@,
//@^ before "newly_acked_packets.push(" :: proof { assert(s.take(it.index@ as int + 1) =~= s.take(it.index@ as int).push(s[it.index@ as int])); }
        proof { assert(s.take(s.len() as int) =~= s); }
        (largest_newly_acked, includes_ack_eliciting)
    }
}
