//@ verus props=C06,C08 tier=quick kind=X spec=sliding_window.rs timeout=300
// Layer X for the C06 glue in the transport crate ("a packet number is acted upon at most once"): the duplicate gate
// of the three packet-number spaces, checked on the REAL TEXT of quic/s2n-quic-transport/src/space/{application,
// handshake,initial}.rs:
//   * `is_duplicate` (whole function, splice-fn): true iff the packet number is recorded in the window OR lies left of
//     it (RFC 9000 12.3: "A receiver MUST discard a newly unprotected packet unless it is certain that it has not
//     processed another packet with the same packet number from the same packet number space"; RFC 4303 3.4.3: numbers
//     below the left edge are rejected) -- and the window is not modified by the lookup (`&self`);
//   * the gate statement `if self.is_duplicate(..) { return Err(ProcessingError::Other); }` of
//     `validate_and_decrypt_packet` (splice-item, brace-matched block): a packet whose number is not fresh is never
//     returned to the caller as a cleartext packet;
//   * `on_processed_packet` (whole function, splice-fn): records exactly the processed packet number (pointwise set
//     contract over every q), so that the same number is a duplicate from then on, and hands exactly that number to the
//     space's AckManager, once (C08: what ACK frames may name; AckManager itself is layer F).
// This is the modular step: the callee `SlidingWindow::{check, insert}` appears only through its contract (the
// predicates of contracts/spec/sliding_window.rs), which layer F discharges on the real SlidingWindow for the full
// 62-bit domain (contracts/kani/core/c06_sliding_window.rs: vq_c06_sliding_window_check /
// vq_c06_sliding_window_insert, obligations C06/sliding_window.check/* and C06/sliding_window.insert/*).
// Why not layer F: an ApplicationSpace<Config> needs a TLS session, key sets, stream manager, recovery manager;
// Kani cannot construct it.
//
// Extraction drops (echoed into the evidence): the `publisher.on_duplicate_packet( .. );` event statement; the generic
// parameter list `<Pub: event::ConnectionPublisher>` and the types `path::Id`, `path::Path<Config>`, `Path<Config>`,
// `Pub`, `transport::Error` are renamed to the model types below; the macro call `path_event!(path, path_id)` is
// renamed to a function call.  NOT decided here: that every received packet of a space passes through
// `validate_and_decrypt_packet` and that `on_processed_packet` is called for every packet that was acted upon (both are
// the shared `PacketSpace::handle_cleartext_payload` default method, read: the call is its last statement).

// ---- model of the types the extracted text mentions ------------------------------------------------------------
#[derive(Clone, Copy)]
pub struct PacketNumber { pub v: u64 }

#[derive(Clone, Copy, Debug)]
pub enum SlidingWindowError { Duplicate, TooOld }

pub open spec fn sw_code(r: Result<(), SlidingWindowError>) -> int {
    match r {
        Ok(_) => sw_ok(),
        Err(SlidingWindowError::Duplicate) => sw_duplicate(),
        Err(SlidingWindowError::TooOld) => sw_too_old(),
    }
}

/// abstract state of packet::number::SlidingWindow: optional right edge and the set of recorded packet numbers
pub struct SlidingWindow {
    pub has_edge: Ghost<bool>,
    pub edge: Ghost<int>,
    pub seen: Ghost<Set<int>>,
}

impl SlidingWindow {
    /// what the window answers for q (contracts/spec/sliding_window.rs)
    pub open spec fn status(&self, q: int) -> int {
        sw_status(self.has_edge@, self.edge@, q, self.seen@.contains(q))
    }

    // ASSUMED contract = C06/sliding_window.check/{ok_iff_unseen_in_window, duplicate_iff_seen,
    // too_old_iff_below_window} (layer F, full domain)
    #[verifier::external_body]
    pub fn check(&self, packet_number: PacketNumber) -> (r: Result<(), SlidingWindowError>)
        ensures
            sw_check_post(self.has_edge@, self.edge@, packet_number.v as int, self.seen@.contains(packet_number.v as int), sw_code(r)),
    { unimplemented!() }

    // ASSUMED contract = C06/sliding_window.insert/{code_is_check, edge_is_max, member_at} (layer F, full domain,
    // member_at with a symbolic witness q = for all q)
    #[verifier::external_body]
    pub fn insert(&mut self, packet_number: PacketNumber) -> (r: Result<(), SlidingWindowError>)
        ensures
            sw_insert_code_is_check(old(self).has_edge@, old(self).edge@, packet_number.v as int, old(self).seen@.contains(packet_number.v as int), sw_code(r)),
            sw_insert_edge_is_max(old(self).has_edge@, old(self).edge@, packet_number.v as int, sw_code(r), final(self).has_edge@, final(self).edge@),
            forall|q: int| sw_insert_member_at(packet_number.v as int, sw_code(r), final(self).has_edge@, final(self).edge@, q,
                old(self).seen@.contains(q), #[trigger] final(self).seen@.contains(q)),
    { unimplemented!() }
}

pub struct PathId { pub id: u8 }
pub struct PathX { pub dummy: u8 }
pub struct PubX { pub dummy: u8 }
pub struct PathEvent { pub dummy: u8 }
pub struct TransportError { pub code: u64 }
pub enum ProcessingError { Other, ConnectionError }
pub struct ProcessedPacket { pub packet_number: PacketNumber, pub ack_eliciting: bool }
impl ProcessedPacket { pub fn is_ack_eliciting(&self) -> (r: bool) ensures r == self.ack_eliciting { self.ack_eliciting } }

// the macro `path_event!(path, path_id)` builds an event value from two shared references
#[verifier::external_body]
pub fn path_event(path: &PathX, path_id: PathId) -> PathEvent { unimplemented!() }

/// `recorded` = the packet numbers handed to AckManager::on_processed_packet (what ACK frames may later name, C08)
pub struct AckManager { pub recorded: Ghost<Seq<int>> }
impl AckManager {
    // AckManager::on_processed_packet is under contract in layer F (C08/ack_manager.on_processed_packet/*); it has
    // no access to the duplicate window (separate field), which is all this job needs: frame by construction
    #[verifier::external_body]
    pub fn on_processed_packet(&mut self, processed_packet: &ProcessedPacket, path: PathEvent, publisher: &mut PubX)
        ensures final(self).recorded@ == old(self).recorded@.push(processed_packet.packet_number.v as int),
    { unimplemented!() }
}

// the property-level statements shared by the three spaces
pub open spec fn fresh(w: SlidingWindow, pn: PacketNumber) -> bool { w.status(pn.v as int) == sw_ok() }

pub open spec fn records_exactly(old_w: SlidingWindow, new_w: SlidingWindow, pn: PacketNumber) -> bool {
    &&& new_w.has_edge@
    &&& new_w.edge@ == (if old_w.has_edge@ && old_w.edge@ > pn.v as int { old_w.edge@ } else { pn.v as int })
    // every number still inside the window is recorded iff it was before or is pn ...
    &&& forall|q: int| sw_in_window(new_w.has_edge@, new_w.edge@, q) ==> (new_w.seen@.contains(q) == (old_w.seen@.contains(q) || q == pn.v as int))
    // ... hence nothing that was not fresh becomes fresh again, and pn itself is not fresh any more
    &&& forall|q: int| #[trigger] old_w.status(q) != sw_ok() ==> new_w.status(q) != sw_ok()
    &&& new_w.status(pn.v as int) != sw_ok()
}

pub proof fn lemma_insert_records_exactly(old_w: SlidingWindow, new_w: SlidingWindow, pn: PacketNumber)
    requires
        fresh(old_w, pn),
        sw_insert_edge_is_max(old_w.has_edge@, old_w.edge@, pn.v as int, sw_ok(), new_w.has_edge@, new_w.edge@),
        forall|q: int| #[trigger] sw_insert_member_at(pn.v as int, sw_ok(), new_w.has_edge@, new_w.edge@, q, old_w.seen@.contains(q), new_w.seen@.contains(q)),
    ensures
        records_exactly(old_w, new_w, pn),
{
    assert forall|q: int| sw_in_window(new_w.has_edge@, new_w.edge@, q) implies (new_w.seen@.contains(q) == (old_w.seen@.contains(q) || q == pn.v as int)) by {
        assert(sw_insert_member_at(pn.v as int, sw_ok(), new_w.has_edge@, new_w.edge@, q, old_w.seen@.contains(q), new_w.seen@.contains(q)));
    }
    assert forall|q: int| #[trigger] old_w.status(q) != sw_ok() implies new_w.status(q) != sw_ok() by {
        assert(sw_insert_member_at(pn.v as int, sw_ok(), new_w.has_edge@, new_w.edge@, q, old_w.seen@.contains(q), new_w.seen@.contains(q)));
    }
    assert(sw_insert_member_at(pn.v as int, sw_ok(), new_w.has_edge@, new_w.edge@, pn.v as int, old_w.seen@.contains(pn.v as int), new_w.seen@.contains(pn.v as int)));
}

// ---- ApplicationSpace (1-RTT) ------------------------------------------------------------------------------------
pub struct ApplicationSpaceX { pub processed_packet_numbers: SlidingWindow, pub ack_manager: AckManager }

impl ApplicationSpaceX {
//@ splice-fn quic/s2n-quic-transport/src/space/application.rs "ApplicationSpace<Config>" is_duplicate vis=strip dropstmt=publisher.on_duplicate_packet "subst=<Pub: event::ConnectionPublisher>=>@@path::Id=>PathId@@&path::Path<Config>=>&PathX@@&mut Pub=>&mut PubX"
//@| ensures
//@| [ref] ret == !fresh(self.processed_packet_numbers, packet_number),
//@| [mut] ret == !fresh(old(self).processed_packet_numbers, packet_number),
//@| [mut] final(self).processed_packet_numbers == old(self).processed_packet_numbers,   // a lookup records nothing

    // the gate statement of ApplicationSpace::validate_and_decrypt_packet: a 1-RTT packet whose number is recorded or
    // lies left of the window never leaves the function as a cleartext packet
    fn validate_and_decrypt_packet_gate(&mut self, packet_number: PacketNumber, path_id: PathId, path: &PathX, publisher: &mut PubX) -> (ret: Result<(), ProcessingError>)
        ensures
            ret is Ok <==> fresh(old(self).processed_packet_numbers, packet_number),
            final(self).processed_packet_numbers == old(self).processed_packet_numbers,   // the gate records nothing
    {
//@ splice-item quic/s2n-quic-transport/src/space/application.rs "if self.is_duplicate(packet_number, path_id, path, publisher)"
        Ok(())
    }

//@ splice-fn quic/s2n-quic-transport/src/space/application.rs "PacketSpace<Config> for ApplicationSpace<Config>" on_processed_packet vis=strip "subst=<Pub: event::ConnectionPublisher>=>@@path::Id=>PathId@@&Path<Config>=>&PathX@@&mut Pub=>&mut PubX@@transport::Error=>TransportError@@path_event!(path, path_id)=>path_event(path, path_id)"
//@| requires
//@|     // call-site fact: the packet passed validate_and_decrypt_packet (gate above) and nothing was recorded since
//@|     fresh(old(self).processed_packet_numbers, processed_packet.packet_number),
//@| ensures
//@|     ret is Ok,
//@|     records_exactly(old(self).processed_packet_numbers, final(self).processed_packet_numbers, processed_packet.packet_number),
//@|     // C08: the ACK manager is told about exactly this packet number, once (ACK frames name only processed packets)
//@|     final(self).ack_manager.recorded@ == old(self).ack_manager.recorded@.push(processed_packet.packet_number.v as int),
}

// ---- HandshakeSpace --------------------------------------------------------------------------------------------
pub struct HandshakeSpaceX { pub processed_packet_numbers: SlidingWindow, pub ack_manager: AckManager }

impl HandshakeSpaceX {
//@ splice-fn quic/s2n-quic-transport/src/space/handshake.rs "HandshakeSpace<Config>" is_duplicate vis=strip dropstmt=publisher.on_duplicate_packet "subst=<Pub: event::ConnectionPublisher>=>@@path::Id=>PathId@@&path::Path<Config>=>&PathX@@&mut Pub=>&mut PubX"
//@| ensures
//@| [ref] ret == !fresh(self.processed_packet_numbers, packet_number),
//@| [mut] ret == !fresh(old(self).processed_packet_numbers, packet_number),
//@| [mut] final(self).processed_packet_numbers == old(self).processed_packet_numbers,   // a lookup records nothing

    fn validate_and_decrypt_packet_gate(&mut self, packet_number: PacketNumber, path_id: PathId, path: &PathX, publisher: &mut PubX) -> (ret: Result<(), ProcessingError>)
        ensures
            ret is Ok <==> fresh(old(self).processed_packet_numbers, packet_number),
            final(self).processed_packet_numbers == old(self).processed_packet_numbers,   // the gate records nothing
    {
//@ splice-item quic/s2n-quic-transport/src/space/handshake.rs "if self.is_duplicate(packet_number, path_id, path, publisher)"
        Ok(())
    }

//@ splice-fn quic/s2n-quic-transport/src/space/handshake.rs "PacketSpace<Config> for HandshakeSpace<Config>" on_processed_packet vis=strip "subst=<Pub: event::ConnectionPublisher>=>@@path::Id=>PathId@@&Path<Config>=>&PathX@@&mut Pub=>&mut PubX@@transport::Error=>TransportError@@path_event!(path, path_id)=>path_event(path, path_id)"
//@| requires
//@|     fresh(old(self).processed_packet_numbers, processed_packet.packet_number),
//@| ensures
//@|     ret is Ok,
//@|     records_exactly(old(self).processed_packet_numbers, final(self).processed_packet_numbers, processed_packet.packet_number),
//@|     // C08: the ACK manager is told about exactly this packet number, once (ACK frames name only processed packets)
//@|     final(self).ack_manager.recorded@ == old(self).ack_manager.recorded@.push(processed_packet.packet_number.v as int),
}

// ---- InitialSpace ----------------------------------------------------------------------------------------------
pub struct InitialSpaceX { pub processed_packet_numbers: SlidingWindow, pub ack_manager: AckManager }

impl InitialSpaceX {
//@ splice-fn quic/s2n-quic-transport/src/space/initial.rs "InitialSpace<Config>" is_duplicate vis=strip dropstmt=publisher.on_duplicate_packet "subst=<Pub: event::ConnectionPublisher>=>@@path::Id=>PathId@@&path::Path<Config>=>&PathX@@&mut Pub=>&mut PubX"
//@| ensures
//@| [ref] ret == !fresh(self.processed_packet_numbers, packet_number),
//@| [mut] ret == !fresh(old(self).processed_packet_numbers, packet_number),
//@| [mut] final(self).processed_packet_numbers == old(self).processed_packet_numbers,   // a lookup records nothing

    fn validate_and_decrypt_packet_gate(&mut self, packet_number: PacketNumber, path_id: PathId, path: &PathX, publisher: &mut PubX) -> (ret: Result<(), ProcessingError>)
        ensures
            ret is Ok <==> fresh(old(self).processed_packet_numbers, packet_number),
            final(self).processed_packet_numbers == old(self).processed_packet_numbers,   // the gate records nothing
    {
//@ splice-item quic/s2n-quic-transport/src/space/initial.rs "if self.is_duplicate(packet_number, path_id, path, publisher)"
        Ok(())
    }

//@ splice-fn quic/s2n-quic-transport/src/space/initial.rs "PacketSpace<Config> for InitialSpace<Config>" on_processed_packet vis=strip "subst=<Pub: event::ConnectionPublisher>=>@@path::Id=>PathId@@&Path<Config>=>&PathX@@&mut Pub=>&mut PubX@@transport::Error=>TransportError@@path_event!(path, path_id)=>path_event(path, path_id)"
//@| requires
//@|     fresh(old(self).processed_packet_numbers, processed_packet.packet_number),
//@| ensures
//@|     ret is Ok,
//@|     records_exactly(old(self).processed_packet_numbers, final(self).processed_packet_numbers, processed_packet.packet_number),
//@|     // C08: the ACK manager is told about exactly this packet number, once (ACK frames name only processed packets)
//@|     final(self).ack_manager.recorded@ == old(self).ack_manager.recorded@.push(processed_packet.packet_number.v as int),
}
