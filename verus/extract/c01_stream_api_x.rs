//@ verus props=C01 tier=quick kind=X timeout=300
// Layer X for the application-facing stream handle (C01 anchor `quic/s2n-quic/src/stream/` -> quic/s2n-quic-transport/
// src/stream/api.rs): the handle caches the last status of each stream half and answers `Finished` from the cache
// without asking the connection.  Property clause: "when the receiver observes a clean end of stream it has read
// exactly the whole byte sequence the sender wrote" -- the handle may report a clean end of the RECEIVING half only
// if the stream itself reported `Finished` for that half, so
//   * TxRequest::poll / RxRequest::poll / Request::poll (whole functions, real text): each cached status is only ever
//     overwritten with the status the stream reported for THAT half; a `Finished` answer that does not come from the
//     stream requires the cached status of that half to be `Finished`;
//   * the result statement of `poll_receive_vectored` (text of the rx_stream_apis! macro body): `is_open == false`
//     (what s2n_quic::stream::ReceiveStream::receive_vectored returns to the application as "no more data") only if the
//     reported status is neither Open nor Finishing (Finishing = final size known, bytes still to be read);
//   * ops::Status::{is_open, is_finishing, is_finished} (text of the impl_status! macro body in s2n-quic-core).
// Callee contract: State::poll_request (connection API -> ReceiveStream / SendStream::poll_request) is an arbitrary
// function of the stream state: nothing assumed except that it does not touch the cache (it takes &mut State in the
// real code but only reads `connection` and `stream_id`: api.rs State::poll_request, 3 lines).
// Extraction drops (echoed into the evidence): `ops::tx::Response` / `ops::rx::Response` / `ops::Response` /
// `ops::Status` are renamed to model types of the same shape; `..Default::default()` is kept (model Default impls
// spliced from s2n-quic-core); `Option<&Context>` renamed.  NOT decided: the rest of the macro-generated API
// (poll_send*, poll_receive, stop_sending, ...), s2n_quic::stream wrappers.

#[derive(Copy, Clone, PartialEq, Eq, Structural)]
pub struct StreamError { pub code: u64 }

#[derive(Copy, Clone, PartialEq, Eq, Structural)]
pub enum Status { Open, Finishing, Finished, Resetting, Reset(StreamError) }

impl Status {
    // impl_status!(|self| *self)
    pub const fn status(&self) -> (r: Status) ensures r == *self { *self }
//@ splice-fn quic/s2n-quic-core/src/stream/ops.rs - is_open
//@| ensures ret == (*self == Status::Open),
//@ splice-fn quic/s2n-quic-core/src/stream/ops.rs - is_finishing
//@| ensures ret == (*self == Status::Finishing),
//@ splice-fn quic/s2n-quic-core/src/stream/ops.rs - is_finished
//@| ensures ret == (*self == Status::Finished),
}

pub struct TxResponse { pub consumed: usize, pub will_wake: bool, pub status: Status }
pub struct RxResponse { pub consumed: usize, pub will_wake: bool, pub status: Status }
impl Default for TxResponse {
    fn default() -> (r: Self) ensures r.status == Status::Open { Self { consumed: 0, will_wake: false, status: Status::Open } }
}
impl Default for RxResponse {
    fn default() -> (r: Self) ensures r.status == Status::Open { Self { consumed: 0, will_wake: false, status: Status::Open } }
}
pub struct Response { pub tx: Option<TxResponse>, pub rx: Option<RxResponse> }
impl Response {
//@ splice-fn quic/s2n-quic-core/src/stream/ops.rs "Response" tx "subst=tx::Response=>TxResponse"
//@| ensures ret is Some == self.tx is Some, ret is Some ==> *ret->Some_0 == self.tx->Some_0,
//@ splice-fn quic/s2n-quic-core/src/stream/ops.rs "Response" rx "subst=rx::Response=>RxResponse"
//@| ensures ret is Some == self.rx is Some, ret is Some ==> *ret->Some_0 == self.rx->Some_0,
}

/// ops::Request: which halves the request addresses (ghost)
pub struct RequestX { pub has_tx: Ghost<bool>, pub has_rx: Ghost<bool> }
pub struct ContextX { pub dummy: u8 }

pub struct State { pub rx: Status, pub tx: Status }
impl State {
    #[verifier::external_body]
    fn poll_request(&mut self, request: &mut RequestX, context: Option<&ContextX>) -> (r: Result<Response, StreamError>)
        ensures final(self).rx == old(self).rx, final(self).tx == old(self).tx,
            // a response carries the halves the request addressed (stream.rs poll_request: `response.tx = Some(..)` / `response.rx = Some(..)`)
            r is Ok && old(request).has_tx@ ==> r->Ok_0.tx is Some,
            r is Ok && old(request).has_rx@ ==> r->Ok_0.rx is Some,
            final(request).has_tx@ == old(request).has_tx@, final(request).has_rx@ == old(request).has_rx@,
    { unimplemented!() }
}

pub struct TxRequest<'state> { pub state: &'state mut State, pub request: RequestX }
impl<'state> TxRequest<'state> {
//@ splice-fn quic/s2n-quic-transport/src/stream/api.rs "TxRequest<'_, 'chunks>" poll "subst=Option<&Context>=>Option<&ContextX>@@ops::tx::Response=>TxResponse@@ops::Status=>Status"
//@| requires old(self).request.has_tx@,   // TxRequest is only built by State::tx_request (a request with a tx half)
//@| ensures
//@|     // the cached status of the RECEIVING half is never touched by a send request
//@|     final(self).state.rx == old(self).state.rx,
//@|     ret is Ok ==> final(self).state.tx == ret->Ok_0.status,
//@|     ret is Err ==> final(self).state.tx == old(self).state.tx,
}

pub struct RxRequest<'state> { pub state: &'state mut State, pub request: RequestX }
impl<'state> RxRequest<'state> {
//@ splice-fn quic/s2n-quic-transport/src/stream/api.rs "RxRequest<'_, 'chunks>" poll "subst=Option<&Context>=>Option<&ContextX>@@ops::rx::Response=>RxResponse@@ops::Status=>Status"
//@| requires old(self).request.has_rx@,   // RxRequest is only built by State::rx_request
//@| ensures
//@|     final(self).state.tx == old(self).state.tx,
//@|     ret is Ok ==> final(self).state.rx == ret->Ok_0.status,
//@|     ret is Err ==> final(self).state.rx == old(self).state.rx,
}

pub struct Request<'state> { pub state: &'state mut State, pub request: RequestX }
impl<'state> Request<'state> {
//@ splice-fn quic/s2n-quic-transport/src/stream/api.rs "Request<'_, 'chunks>" poll "subst=Option<&Context>=>Option<&ContextX>@@ops::tx::Response=>TxResponse@@ops::rx::Response=>RxResponse@@ops::Response=>Response@@ops::Status=>Status"
//@| ensures
//@|     ret is Ok && ret->Ok_0.rx is Some ==> final(self).state.rx == ret->Ok_0.rx->Some_0.status,
//@|     ret is Ok && ret->Ok_0.rx is None ==> final(self).state.rx == old(self).state.rx,
//@|     ret is Ok && ret->Ok_0.tx is Some ==> final(self).state.tx == ret->Ok_0.tx->Some_0.status,
//@|     ret is Ok && ret->Ok_0.tx is None ==> final(self).state.tx == old(self).state.tx,
//@|     ret is Err ==> final(self).state.rx == old(self).state.rx && final(self).state.tx == old(self).state.tx,
}

// ---- rx_stream_apis!: poll_receive_vectored -> (consumed, is_open) ------------------------------------------------
fn poll_receive_vectored_is_open(rx: &RxResponse) -> (ret: bool)
    ensures
        // "no more data" is reported to the application only when the receiving half is Finished (or Reset /
        // Resetting); while the final size is known but bytes remain buffered (Finishing) the stream is still open
        ret == (rx.status == Status::Open || rx.status == Status::Finishing),
{
//@ splice-stmts quic/s2n-quic-transport/src/stream/api.rs - poll_receive_vectored "from=let is_open"
    is_open
}
