//@ verus props=C09,C10 tier=quick kind=X timeout=300
// Layer X for the LOSS side of C09's bookkeeping on recovery::Manager::remove_lost_packets (quic/s2n-quic-transport/src/
// recovery/manager.rs): the loop over the packets removed from the sent-packet map as lost (`for (packet_number, sent_info) in
// self.sent_packets.remove_range(lost_packets) { .. }`), extracted verbatim and verified for ANY number of lost packets on ANY
// number of paths.  Contract: for every path p, exactly the recorded sizes of the lost packets that were SENT ON p leave that
// path's bytes-in-flight -- through on_packet_lost (a congestion event) or, for MTU probes, through on_packet_discarded (no
// congestion reaction, RFC 9000 14.4) -- each packet once; persistent congestion is only ever attributed to the path the ACK
// arrived on.
// Model: `remove_range(range)` yields the removed entries as a Vec (that it removes exactly the entries of the range is
// layer F: C16/pn_map.remove_range is NOT discharged -- assumed, listed); controllers record the bytes they were told (ghost).
// `Option::is_none_or` assumed `None => true`.  Extraction drops (echoed into the evidence): the event statement
// `publisher.on_packet_lost( .. );`, `path_event!(..)` renamed to a model function, `congestion_controller::PathPublisher::new`
// renamed; the loop's iterable `self.sent_packets.remove_range(lost_packets)` is evaluated by the wrapper (same call, bound to
// `lost`) and iterated by reference, with one shadowing `let packet_number = *packet_number;` (binding-mode adaptation);
// ghost insertions: iterator name, loop invariant, one lemma call.
// NOT decided: the ECN / MTU controllers' own reactions, the congestion event published after the loop.

global size_of usize == 8;

#[derive(Clone, Copy, PartialEq, Eq, Structural)]
pub struct PacketNumber { pub v: u64 }
impl PacketNumber {
    #[verifier::external_body]
    pub fn checked_distance(self, rhs: PacketNumber) -> (r: Option<u64>) { unimplemented!() }
}
#[derive(Clone, Copy, PartialEq, Eq, Structural)]
pub struct PathId { pub v: u8 }
#[derive(Clone, Copy)]
pub struct Timestamp { pub us: u64 }
#[derive(Clone, Copy, PartialEq, Eq, PartialOrd, Ord, Structural)]
pub struct Duration { pub ns: u64 }
use vstd::std_specs::cmp::{OrdSpec, PartialOrdSpec};
impl vstd::std_specs::cmp::PartialOrdSpecImpl for Duration {
    open spec fn obeys_partial_cmp_spec() -> bool { true }
    open spec fn partial_cmp_spec(&self, other: &Duration) -> Option<core::cmp::Ordering> {
        if self.ns < other.ns { Some(core::cmp::Ordering::Less) } else if self.ns == other.ns { Some(core::cmp::Ordering::Equal) } else { Some(core::cmp::Ordering::Greater) }
    }
}
impl vstd::std_specs::cmp::OrdSpecImpl for Duration {
    open spec fn obeys_cmp_spec() -> bool { true }
    open spec fn cmp_spec(&self, other: &Duration) -> core::cmp::Ordering {
        if self.ns < other.ns { core::cmp::Ordering::Less } else if self.ns == other.ns { core::cmp::Ordering::Equal } else { core::cmp::Ordering::Greater }
    }
}
#[derive(Clone, Copy)]
pub struct EcnX { pub v: u8 }
#[derive(Clone, Copy)]
pub struct CcPacketInfoX { pub v: u64 }
#[derive(Clone, Copy)]
pub struct ModeX { pub probing: bool }
impl ModeX { pub fn is_mtu_probing(&self) -> (r: bool) ensures r == self.probing { self.probing } }
#[derive(Clone, Copy)]
pub struct SentPacketInfo { pub sent_bytes: u16, pub path_id: PathId, pub time_sent: Timestamp, pub ecn: EcnX, pub cc_packet_info: CcPacketInfoX, pub transmission_mode: ModeX }
pub struct RandomX { pub dummy: u8 }
pub struct PubX { pub dummy: u8 }
pub struct PathEventX { pub dummy: u8 }
pub struct PathPublisherX { pub dummy: u8 }
impl PathPublisherX {
    #[verifier::external_body]
    pub fn new(publisher: &mut PubX, path_id: PathId) -> (r: PathPublisherX) { unimplemented!() }
}
pub struct RttEstimatorX { pub dummy: u8 }
impl RttEstimatorX {
    #[verifier::external_body]
    pub fn persistent_congestion_threshold(&self) -> (r: Duration) { unimplemented!() }
    #[verifier::external_body]
    pub fn on_persistent_congestion(&mut self) { unimplemented!() }
}
/// ghost: bytes removed from bytes-in-flight by loss / discard, and whether persistent congestion was ever signalled
pub struct CongestionControllerX { pub removed: Ghost<int>, pub persistent: Ghost<bool> }
impl CongestionControllerX {
    #[verifier::external_body]
    pub fn on_packet_discarded(&mut self, bytes_sent: usize, publisher: &mut PathPublisherX)
        ensures final(self).removed@ == old(self).removed@ + bytes_sent as int, final(self).persistent@ == old(self).persistent@,
    { unimplemented!() }
    #[verifier::external_body]
    pub fn on_packet_lost(&mut self, lost_bytes: u32, packet_info: CcPacketInfoX, persistent_congestion: bool, new_loss_burst: bool, random_generator: &mut RandomX, timestamp: Timestamp, publisher: &mut PathPublisherX)
        ensures final(self).removed@ == old(self).removed@ + lost_bytes as int, final(self).persistent@ == (old(self).persistent@ || persistent_congestion),
    { unimplemented!() }
}
pub struct EcnControllerX { pub dummy: u8 }
impl EcnControllerX {
    #[verifier::external_body]
    pub fn on_packet_loss(&mut self, time_sent: Timestamp, ecn: EcnX, now: Timestamp, path: PathEventX, publisher: &mut PubX) { unimplemented!() }
}
pub enum MtuResult { MtuUpdated(u16), NoChange }
pub struct MtuControllerX { pub dummy: u8 }
impl MtuControllerX {
    // mtu::Controller::on_packet_loss may shrink the congestion window (on_mtu_update) but never touches bytes-in-flight
    #[verifier::external_body]
    pub fn on_packet_loss(&mut self, packet_number: PacketNumber, lost_bytes: u16, new_loss_burst: bool, now: Timestamp, congestion_controller: &mut CongestionControllerX, path_id: PathId, publisher: &mut PubX) -> (r: MtuResult)
        ensures final(congestion_controller).removed@ == old(congestion_controller).removed@, final(congestion_controller).persistent@ == old(congestion_controller).persistent@,
    { unimplemented!() }
}
pub struct PathX { pub congestion_controller: CongestionControllerX, pub rtt_estimator: RttEstimatorX, pub ecn_controller: EcnControllerX, pub mtu_controller: MtuControllerX }
#[verifier::external_body]
pub fn path_event(path: &PathX, path_id: PathId) -> (r: PathEventX) { unimplemented!() }

pub struct ContextX { pub paths: Vec<PathX>, pub cur: PathId }
impl ContextX {
    pub fn path_id(&self) -> (r: PathId) ensures r == self.cur { self.cur }
    pub fn path_mut_by_id(&mut self, id: PathId) -> (r: &mut PathX)
        requires (id.v as int) < old(self).paths@.len(),
        ensures *r == old(self).paths@[id.v as int], final(self).cur == old(self).cur,
            final(self).paths@ == old(self).paths@.update(id.v as int, *final(r)),
    { &mut self.paths[id.v as usize] }
    #[verifier::external_body]
    pub fn on_mtu_update(&mut self, max_datagram_size: u16)
        ensures final(self).paths@ == old(self).paths@, final(self).cur == old(self).cur,
    { unimplemented!() }
}

pub assume_specification<T, F: FnOnce(T) -> bool> [Option::<T>::is_none_or] (o: Option<T>, f: F) -> (r: bool)
    ensures o is None ==> r;

pub open spec fn sum_by(s: Seq<(PacketNumber, SentPacketInfo)>, p: int) -> int decreases s.len() {
    if s.len() == 0 { 0 } else { sum_by(s.drop_last(), p) + (if s.last().1.path_id.v as int == p { s.last().1.sent_bytes as int } else { 0 }) }
}
pub proof fn lemma_sum_by_take(s: Seq<(PacketNumber, SentPacketInfo)>, i: int)
    requires 0 <= i < s.len()
    ensures forall|p: int| #[trigger] sum_by(s.take(i + 1), p) == sum_by(s.take(i), p) + (if s[i].1.path_id.v as int == p { s[i].1.sent_bytes as int } else { 0 }),
{
    assert(s.take(i + 1).drop_last() =~= s.take(i));
}

pub struct PacketNumberRange { pub dummy: u8 }
pub struct SentPacketsX { pub removed: Vec<(PacketNumber, SentPacketInfo)> }
impl SentPacketsX {
    // packet::number::Map::remove_range: the removed entries, in ascending packet-number order (ASSUMED: C16 pn_map remove_range)
    #[verifier::external_body]
    pub fn remove_range(&mut self, range: PacketNumberRange) -> (r: Vec<(PacketNumber, SentPacketInfo)>)
        ensures r@ == old(self).removed@,
    { unimplemented!() }
}

pub struct Manager { pub sent_packets: SentPacketsX }
impl Manager {
    fn remove_lost_packets_bytes(&mut self, now: Timestamp, persistent_congestion_duration: Duration, lost_packets: PacketNumberRange, random_generator: &mut RandomX, context: &mut ContextX, publisher: &mut PubX)
        requires
            forall|j: int| 0 <= j < old(self).sent_packets.removed@.len() ==> (#[trigger] old(self).sent_packets.removed@[j]).1.path_id.v < old(context).paths@.len(),
            forall|p: int| 0 <= p < old(context).paths@.len() ==> !(#[trigger] old(context).paths@[p]).congestion_controller.persistent@,
        ensures
            final(context).paths@.len() == old(context).paths@.len(),
            // every path loses exactly the bytes of the lost packets that were sent on it
            forall|p: int| 0 <= p < old(context).paths@.len() ==> (#[trigger] final(context).paths@[p]).congestion_controller.removed@
                == old(context).paths@[p].congestion_controller.removed@ + sum_by(old(self).sent_packets.removed@, p),
            // persistent congestion is only ever declared on the path the ACK was received on (RFC 9002 7.6.2)
            forall|p: int| 0 <= p < old(context).paths@.len() && p != old(context).cur.v ==> !(#[trigger] final(context).paths@[p]).congestion_controller.persistent@,
    {
        let current_path_id = context.path_id();
        let mut is_congestion_event = false;
        let mut prev_lost_packet_number = None;
        let lost = self.sent_packets.remove_range(lost_packets);
        let ghost s = lost@;
//@ splice-stmts quic/s2n-quic-transport/src/recovery/manager.rs "Manager<Config>" remove_lost_packets "from=for (packet_number, sent_info) in self.sent_packets.remove_range(lost_packets)" dropstmt=publisher.on_packet_lost "subst=self.sent_packets.remove_range(lost_packets) {=>lost.iter() { let packet_number = *packet_number;@@?path_event!(path, current_path_id)=>path_event(path, current_path_id)@@path_event!(path, path_id)=>path_event(path, path_id)@@congestion_controller::PathPublisher::new=>PathPublisherX::new"
//@^ before "lost.iter()" :: it:
//@^ after "lost.iter()" :: invariant lost@ == s, s == old(self).sent_packets.removed@, context.paths@.len() == old(context).paths@.len(), context.cur == old(context).cur, current_path_id == old(context).cur, it.index@ <= s.len(), forall|j: int| 0 <= j < s.len() ==> (#[trigger] s[j]).1.path_id.v < old(context).paths@.len(), forall|p: int| 0 <= p < old(context).paths@.len() ==> (#[trigger] context.paths@[p]).congestion_controller.removed@ == old(context).paths@[p].congestion_controller.removed@ + sum_by(s.take(it.index@ as int), p), forall|p: int| 0 <= p < old(context).paths@.len() && p != old(context).cur.v ==> !(#[trigger] context.paths@[p]).congestion_controller.persistent@,
//@^ before "let path = context.path_mut_by_id(sent_info.path_id);" :: proof { lemma_sum_by_take(s, it.index@ as int); }
        proof { assert(s.take(s.len() as int) =~= s); }
    }
}
