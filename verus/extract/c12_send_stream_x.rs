//@ verus props=C12,C03 tier=quick kind=X timeout=300
// Layer X for the SendStream glue of C12 / C03 (quic/s2n-quic-transport/src/stream/send_stream.rs):
//   * SendStream::on_transmit (WHOLE function, real text): the three writers run in the order RESET_STREAM, stream data,
//     STREAM_DATA_BLOCKED and each later one runs only if every earlier one returned Ok -- so once a RESET_STREAM is
//     pending and does not fit, neither STREAM data nor STREAM_DATA_BLOCKED of that stream is written into the packet ahead
//     of it (C12 "after RESET_STREAM ... it sends no further STREAM or STREAM_DATA_BLOCKED frames"; that the data sender
//     has nothing left once the stream is reset is layer F: C12/send_stream.init_reset/*, C12/sfc.finish/*);
//   * SendStream::on_max_stream_data (WHOLE function): a MAX_STREAM_DATA frame reaches the stream's flow controller with
//     exactly the frame's value while the stream is Sending and is ignored (no effect at all) after a reset; it never
//     fails (C03: the per-stream limit the sender obeys is the one the peer granted -- monotonicity of the limit itself
//     is layer F/X: C03/sfc.set_max_stream_data/*).
// Callee contracts: ghost call log (which writer ran, with which result) and ghost record of the limit handed over.
// Extraction drops: generic parameter `<W: WriteContext>` and `&mut W`, `transport::Error`, `data_sender::State` renamed
// to model types; `stream_id.into()` goes through a model conversion.

#[derive(Clone, Copy)]
pub struct StreamId { pub v: u64 }
pub struct VarIntX { pub v: u64 }
impl StreamId { pub fn into(self) -> (r: VarIntX) ensures r.v == self.v { VarIntX { v: self.v } } }
#[derive(Clone, Copy)]
pub enum OnTransmitError { CouldNotWriteFrame, CouldNotAcquireEnoughSpace }
#[derive(Clone, Copy, PartialEq, Eq, Structural)]
pub struct TransportError { pub code: u64 }
#[derive(Clone, Copy, PartialEq, Eq, Structural)]
pub struct StreamError { pub code: u64 }
pub struct StreamEvents { pub woken: Ghost<bool> }
#[derive(Clone, Copy)]
pub struct MaxStreamData { pub maximum_stream_data: u64 }

//@ splice-item quic/s2n-quic-transport/src/stream/send_stream.rs "pub(super) enum SendStreamState" derive=PartialEq,Copy,Clone "subst=pub(super) enum=>pub enum"

/// the packet being written carries a ghost log of writer calls: (writer, returned Ok); writers: 1 = reset_sync
/// (RESET_STREAM), 2 = data_sender (STREAM / FIN), 3 = stream flow controller (STREAM_DATA_BLOCKED)
pub struct WriteContextX { pub calls: Ghost<Seq<(int, bool)>> }

pub struct ResetSyncX { pub dummy: u8 }
impl ResetSyncX {
    #[verifier::external_body]
    pub fn on_transmit(&mut self, stream_id: StreamId, context: &mut WriteContextX) -> (r: Result<(), OnTransmitError>)
        ensures final(context).calls@ == old(context).calls@.push((1int, r is Ok)),
    { unimplemented!() }
}
pub struct FlowControllerX { pub max_stream_data_set: Ghost<Seq<u64>> }
impl FlowControllerX {
    #[verifier::external_body]
    pub fn on_transmit(&mut self, stream_id: StreamId, context: &mut WriteContextX) -> (r: Result<(), OnTransmitError>)
        ensures final(context).calls@ == old(context).calls@.push((3int, r is Ok)), final(self).max_stream_data_set@ == old(self).max_stream_data_set@,
    { unimplemented!() }
    #[verifier::external_body]
    pub fn set_max_stream_data(&mut self, max_stream_data: u64)
        ensures final(self).max_stream_data_set@ == old(self).max_stream_data_set@.push(max_stream_data),
    { unimplemented!() }
}
#[derive(Clone, Copy, PartialEq, Eq, Structural)]
pub enum DataSenderState { Sending, Finishing, Finished, Cancelled }
pub struct DataSenderX { pub fc: FlowControllerX, pub st: DataSenderState, pub space: usize }
impl DataSenderX {
    #[verifier::external_body]
    pub fn on_transmit(&mut self, writer_context: VarIntX, context: &mut WriteContextX) -> (r: Result<(), OnTransmitError>)
        ensures final(context).calls@ == old(context).calls@.push((2int, r is Ok)), final(self).fc == old(self).fc,
    { unimplemented!() }
    pub fn flow_controller_mut(&mut self) -> (r: &mut FlowControllerX)
        ensures *r == old(self).fc, final(self).fc == *final(r), final(self).st == old(self).st, final(self).space == old(self).space,
    { &mut self.fc }
    pub fn available_buffer_space(&self) -> (r: usize) ensures r == self.space { self.space }
    pub fn state(&self) -> (r: DataSenderState) ensures r == self.st { self.st }
}

pub struct SendStream { pub state: SendStreamState, pub reset_sync: ResetSyncX, pub data_sender: DataSenderX }

pub open spec fn ok_prefix(calls: Seq<(int, bool)>) -> bool {
    // writers appear in the order 1, 2, 3 and each later one only after the earlier ones returned Ok
    &&& calls.len() >= 1 && calls[0].0 == 1
    &&& (calls.len() >= 2 ==> calls[0].1 && calls[1].0 == 2)
    &&& (calls.len() >= 3 ==> calls[1].1 && calls[2].0 == 3)
    &&& calls.len() <= 3
}

impl SendStream {
    #[verifier::external_body]
    fn wake(&mut self, events: &mut StreamEvents)
        ensures final(self).state == old(self).state, final(self).data_sender == old(self).data_sender,
    { unimplemented!() }

//@ splice-fn quic/s2n-quic-transport/src/stream/send_stream.rs "SendStream" on_transmit vis=strip "subst=<W: WriteContext>=>@@&mut W=>&mut WriteContextX"
//@| requires old(context).calls@.len() == 0,
//@| ensures
//@|     ok_prefix(final(context).calls@),
//@|     // the result is Ok only if all three writers ran and succeeded; an error is the first writer's that failed
//@|     ret is Ok <==> (final(context).calls@.len() == 3 && final(context).calls@[2].1),
//@|     ret is Err ==> !final(context).calls@.last().1,
//@|     final(self).state == old(self).state,

//@ splice-fn quic/s2n-quic-transport/src/stream/send_stream.rs "SendStream" on_max_stream_data vis=strip "subst=transport::Error=>TransportError@@data_sender::State::Sending=>DataSenderState::Sending"
//@| ensures
//@|     ret is Ok,
//@|     // while sending: the flow controller receives exactly the frame's value, once
//@|     old(self).state == SendStreamState::Sending ==> final(self).data_sender.fc.max_stream_data_set@ == old(self).data_sender.fc.max_stream_data_set@.push(frame.maximum_stream_data),
//@|     // after a reset the frame has no effect
//@|     old(self).state != SendStreamState::Sending ==> final(self).data_sender.fc.max_stream_data_set@ == old(self).data_sender.fc.max_stream_data_set@,
//@|     final(self).state == old(self).state,
}
