//@ verus props=C09 tier=quick kind=X timeout=300
// Layer X for C09 "RTT estimates stay within the range of the samples observed" at the point where samples are TAKEN:
// recovery::Manager::update_congestion_control (quic/s2n-quic-transport/src/recovery/manager.rs), WHOLE function body.
// Contract (RFC 9002 5.1, RFC 9000 9.4): an RTT sample is generated iff the ACK newly acknowledges the largest acknowledged
// packet, at least one newly acknowledged packet was ack-eliciting, and that packet was sent on the path the ACK arrived on;
// the sample is exactly `ack receive time - send time of that packet`, and it is fed (with the peer's ack delay) into the
// estimator OF THE PATH THE PACKET WAS SENT ON and nowhere else; otherwise no estimator is touched.
// Callee contracts: RttEstimator::update_rtt (layer F: C09/rtt.update_rtt/*; ghost record of the sample here),
// `Timestamp - Timestamp` (core time; model Sub impl).
// Extraction drops (echoed into the evidence): `should_update_rtt &= e;` desugared to `should_update_rtt = should_update_rtt
// && (e);` (Verus has no non-short-circuit bool operators; the right-hand sides are pure reads);
// `congestion_controller::PathPublisher::new` renamed.

#[derive(Clone, Copy, PartialEq, Eq, Structural)]
pub struct PacketNumber { pub v: u64, pub sp: u8 }
impl PacketNumber { pub fn space(&self) -> (r: u8) ensures r == self.sp { self.sp } }
#[derive(Clone, Copy, PartialEq, Eq, Structural)]
pub struct PathId { pub v: u8 }
#[derive(Clone, Copy, PartialEq, Eq, Structural)]
pub struct Timestamp { pub us: u64 }
#[derive(Clone, Copy, PartialEq, Eq, Structural)]
pub struct Duration { pub us: int }
pub struct DurationX { pub us: u64 }
impl core::ops::Sub<Timestamp> for Timestamp {
    type Output = DurationX;
    #[verifier::external_body]
    fn sub(self, rhs: Timestamp) -> (r: DurationX) ensures r.us as int == self.us - rhs.us || self.us < rhs.us { unimplemented!() }
}
impl vstd::std_specs::ops::SubSpecImpl<Timestamp> for Timestamp {
    open spec fn obeys_sub_spec() -> bool { false }
    open spec fn sub_req(self, rhs: Timestamp) -> bool { true }
    open spec fn sub_spec(self, rhs: Timestamp) -> DurationX { DurationX { us: 0 } }
}
#[derive(Clone, Copy)]
pub struct SentPacketInfo { pub path_id: PathId, pub time_sent: Timestamp }
pub struct PubX { pub dummy: u8 }
pub struct PathPublisherX { pub dummy: u8 }
impl PathPublisherX {
    #[verifier::external_body]
    pub fn new(publisher: &mut PubX, path_id: PathId) -> (r: PathPublisherX) { unimplemented!() }
}
/// ghost record of the samples handed to the estimator: (ack delay, sample in us, space)
pub struct RttEstimatorX { pub samples: Ghost<Seq<(u64, u64, u8)>> }
impl RttEstimatorX {
    #[verifier::external_body]
    pub fn update_rtt(&mut self, ack_delay: DurationX, rtt_sample: DurationX, timestamp: Timestamp, is_handshake_confirmed: bool, space: u8)
        ensures final(self).samples@ == old(self).samples@.push((ack_delay.us, rtt_sample.us, space)),
    { unimplemented!() }
}
pub struct CongestionControllerX { pub dummy: u8 }
impl CongestionControllerX {
    #[verifier::external_body]
    pub fn on_rtt_update(&mut self, time_sent: Timestamp, now: Timestamp, rtt_estimator: &RttEstimatorX, publisher: &mut PathPublisherX) { unimplemented!() }
}
pub struct PathX { pub rtt_estimator: RttEstimatorX, pub congestion_controller: CongestionControllerX }
pub struct ContextX { pub paths: Vec<PathX>, pub cur: PathId, pub confirmed: bool }
impl ContextX {
    pub fn path_id(&self) -> (r: PathId) ensures r == self.cur { self.cur }
    pub fn is_handshake_confirmed(&self) -> (r: bool) ensures r == self.confirmed { self.confirmed }
    pub fn path_mut_by_id(&mut self, id: PathId) -> (r: &mut PathX)
        requires (id.v as int) < old(self).paths@.len(),
        ensures *r == old(self).paths@[id.v as int], final(self).cur == old(self).cur, final(self).confirmed == old(self).confirmed,
            final(self).paths@ == old(self).paths@.update(id.v as int, *final(r)),
    { &mut self.paths[id.v as usize] }
    #[verifier::external_body]
    pub fn on_rtt_update(&mut self, now: Timestamp) ensures final(self).paths@ == old(self).paths@, final(self).cur == old(self).cur { unimplemented!() }
}

pub struct Manager { pub dummy: u8 }
impl Manager {
    fn update_congestion_control_body(&mut self, largest_newly_acked: (PacketNumber, SentPacketInfo), largest_acked_packet_number: PacketNumber, includes_ack_eliciting: bool, timestamp: Timestamp, ack_delay: DurationX, context: &mut ContextX, publisher: &mut PubX)
        requires
            (largest_newly_acked.1.path_id.v as int) < old(context).paths@.len(),
            largest_newly_acked.1.time_sent.us <= timestamp.us,    // a packet is acknowledged after it was sent
        ensures
            final(context).paths@.len() == old(context).paths@.len(),
            ({
                let sample = old(context).cur == largest_newly_acked.1.path_id && largest_newly_acked.0 == largest_acked_packet_number && includes_ack_eliciting;
                let p = largest_newly_acked.1.path_id.v as int;
                // exactly one sample, on the path the packet was sent on, iff the three RFC conditions hold
                &&& final(context).paths@[p].rtt_estimator.samples@ == (if sample {
                        old(context).paths@[p].rtt_estimator.samples@.push((ack_delay.us, (timestamp.us - largest_newly_acked.1.time_sent.us) as u64, largest_acked_packet_number.sp))
                    } else { old(context).paths@[p].rtt_estimator.samples@ })
                // no other path's estimator is touched
                &&& forall|q: int| 0 <= q < old(context).paths@.len() && q != p ==> (#[trigger] final(context).paths@[q]).rtt_estimator.samples@ == old(context).paths@[q].rtt_estimator.samples@
            }),
    {
//@ splice-stmts quic/s2n-quic-transport/src/recovery/manager.rs "Manager<Config>" update_congestion_control body=1 desugar=bool_assign "subst=congestion_controller::PathPublisher::new=>PathPublisherX::new"
    }
}
