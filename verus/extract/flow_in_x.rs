//@ verus props=C04 tier=quick kind=X spec=flow_out.rs,flow_in.rs timeout=300
// Layer X for C04: the real bodies of the receiver-side connection flow controller, extracted verbatim and
// verified by Verus against the predicates of contracts/spec/flow_in.rs (the text layer F asserts and
// the C04 history lemmas assume).
//@ include-job varint_arith.rs

// ---- dependency stubs (TRUSTED, listed in the evidence) -------------------------------------------------
// IncrementalValueSync<VarInt, _>: only `latest_value()` / `update_latest_value(v)` are used here; their
// contract is what layer F proves for the real type (C04/ivs.update/*): latest' == v for v >= latest.
pub struct IncrementalValueSync { pub latest: VarInt }
impl IncrementalValueSync {
    #[verifier::external_body]
    pub fn latest_value(&self) -> (ret: VarInt)
        ensures ret == self.latest,
    { unimplemented!() }
    #[verifier::external_body]
    pub fn update_latest_value(&mut self, value: VarInt)
        requires value.0 >= old(self).latest.0,
        ensures final(self).latest == value,
    { unimplemented!() }
}
// transport::Error: only the FLOW_CONTROL_ERROR constant is used; its code (0x3, RFC 9000 20.1) is asserted
// against the real constant by layer F (C04/error_codes/*).
pub struct TransportError { pub code: u64 }
impl TransportError {
    pub const FLOW_CONTROL_ERROR: TransportError = TransportError { code: 3 };
}

//@ splice-item quic/s2n-quic-transport/src/stream/incoming_connection_flow_controller.rs "struct IncomingConnectionFlowControllerImpl" "subst=IncrementalValueSync<VarInt, MaxDataToFrameWriter>=>IncrementalValueSync@@pub(super) =>pub "

impl IncomingConnectionFlowControllerImpl {
    pub closed spec fn abs(&self) -> Icfc {
        Icfc { advertised: self.read_window_sync.latest.0 as int, acquired: self.acquired_window.0 as int,
               consumed: self.consumed_window.0 as int, window: self.desired_flow_control_window as int }
    }

//@ splice-fn quic/s2n-quic-transport/src/stream/incoming_connection_flow_controller.rs "IncomingConnectionFlowControllerImpl" remaining_window vis=strip "subst=self.read_window_sync.latest_value() - self.acquired_window=>self.read_window_sync.latest_value().sub(self.acquired_window)"
//@| requires icfc_inv(self.abs()),
//@| ensures ret.0 as int == self.abs().advertised - self.abs().acquired,

//@ splice-fn quic/s2n-quic-transport/src/stream/incoming_connection_flow_controller.rs "IncomingConnectionFlowControllerImpl" acquire_window vis=strip "subst=transport::Error=>TransportError" desugar=assign_ops
//@| requires icfc_inv(old(self).abs()), desired.wf(),
//@| ensures
//@|     icfc_acquire_post(old(self).abs(), desired.0 as int, final(self).abs(), ret is Ok, (if ret is Err { ret->Err_0.code as int } else { 0int })),
//@|     icfc_inv(final(self).abs()),

//@ splice-fn quic/s2n-quic-transport/src/stream/incoming_connection_flow_controller.rs "IncomingConnectionFlowControllerImpl" release_window vis=strip drop=debug_assert desugar=assign_ops
//@| requires icfc_inv(old(self).abs()), icfc_release_pre(old(self).abs(), amount.0 as int),
//@| ensures
//@|     icfc_release_post(old(self).abs(), amount.0 as int, final(self).abs()),
//@|     icfc_inv(final(self).abs()),
}

// ---- ReceiveStreamFlowController ------------------------------------------------------------------------
// The connection controller is reached through an Rc<RefCell<..>> handle; here the handle carries the state
// of the implementation as a ghost-visible field and its two methods carry exactly the contracts proved
// above for IncomingConnectionFlowControllerImpl.  TRUSTED: the handle forwards to that implementation.
pub struct IncomingConnectionFlowController { pub inner: IncomingConnectionFlowControllerImpl }
impl IncomingConnectionFlowController {
    #[verifier::external_body]
    pub fn acquire_window(&mut self, desired: VarInt) -> (ret: Result<(), TransportError>)
        requires icfc_inv(old(self).inner.abs()), desired.wf(),
        ensures
            icfc_acquire_post(old(self).inner.abs(), desired.0 as int, final(self).inner.abs(), ret is Ok, (if ret is Err { ret->Err_0.code as int } else { 0int })),
            icfc_inv(final(self).inner.abs()),
    { unimplemented!() }
    #[verifier::external_body]
    pub fn release_window(&mut self, amount: VarInt)
        requires icfc_inv(old(self).inner.abs()), icfc_release_pre(old(self).inner.abs(), amount.0 as int),
        ensures icfc_release_post(old(self).inner.abs(), amount.0 as int, final(self).inner.abs()), icfc_inv(final(self).inner.abs()),
    { unimplemented!() }
}
impl TransportError {
    // builder methods that only attach diagnostics (reason string, frame type); the code is unchanged
    #[verifier::external_body]
    pub fn with_reason(self, reason: &'static str) -> (ret: TransportError) ensures ret.code == self.code, { unimplemented!() }
    #[verifier::external_body]
    pub fn with_frame_type(self, frame_type: VarInt) -> (ret: TransportError) ensures ret.code == self.code, { unimplemented!() }
}

//@ splice-item quic/s2n-quic-transport/src/stream/receive_stream.rs "pub(super) struct ReceiveStreamFlowController" "subst=IncrementalValueSync<VarInt, MaxStreamDataToFrameWriter>=>IncrementalValueSync@@pub(super) =>pub "

impl ReceiveStreamFlowController {
    pub closed spec fn abs(&self) -> Rsfc {
        Rsfc { advertised: self.read_window_sync.latest.0 as int, acquired: self.acquired_connection_window.0 as int,
               released: self.released_connection_window.0 as int, window: self.desired_flow_control_window as int }
    }
    pub closed spec fn conn(&self) -> Icfc { self.connection_flow_controller.inner.abs() }

//@ splice-fn quic/s2n-quic-transport/src/stream/receive_stream.rs "ReceiveStreamFlowController" release_window vis=strip desugar=assign_ops
//@| requires rsfc_inv(old(self).abs()), icfc_inv(old(self).conn()), rsfc_release_pre(old(self).abs(), amount.0 as int),
//@|     icfc_release_pre(old(self).conn(), amount.0 as int),
//@| ensures
//@|     rsfc_release_post(old(self).abs(), amount.0 as int, final(self).abs(), old(self).conn(), final(self).conn()),
//@|     rsfc_inv(final(self).abs()), icfc_inv(final(self).conn()),

//@ splice-fn quic/s2n-quic-transport/src/stream/receive_stream.rs "ReceiveStreamFlowController" acquire_window_up_to vis=strip "subst=transport::Error=>TransportError@@source_frame_type.unwrap_or_default().into()=>VarInt::from_u8(source_frame_type.unwrap_or_default())" desugar=assign_ops
//@| requires rsfc_inv(old(self).abs()), icfc_inv(old(self).conn()), offset.wf(),
//@| ensures
//@|     rsfc_acquire_over_stream_limit_rejected(old(self).abs(), offset.0 as int, ret is Ok),
//@|     rsfc_acquire_ok_iff_within_both_limits(old(self).abs(), old(self).conn(), offset.0 as int, ret is Ok),
//@|     rsfc_acquire_ok_acquired_is_max(old(self).abs(), offset.0 as int, final(self).abs(), ret is Ok),
//@|     rsfc_acquire_delegation_exact(old(self).abs(), offset.0 as int, final(self).abs(), old(self).conn(), final(self).conn(), ret is Ok),
//@|     rsfc_acquire_err_unchanged(old(self).abs(), final(self).abs(), old(self).conn(), final(self).conn(), ret is Ok),
//@|     // error code: on the stream-limit path only -- on the connection-limit path the error passes through a
//@|     // `map_err` closure that the verbatim text cannot annotate; that path's code is decided by layer F
//@|     // (C04/rsfc.acquire/error_code)
//@|     offset.0 > old(self).abs().advertised ==> ret is Err && ret->Err_0.code == 3,
//@|     rsfc_inv(final(self).abs()) && icfc_inv(final(self).conn()),

//@ splice-fn quic/s2n-quic-transport/src/stream/receive_stream.rs "ReceiveStreamFlowController" release_outstanding_window vis=strip "subst=self.acquired_connection_window - self.released_connection_window=>self.acquired_connection_window.sub(self.released_connection_window)"
//@| requires rsfc_inv(old(self).abs()), icfc_inv(old(self).conn()), rsfc_share_of_connection(old(self).abs(), old(self).conn()),
//@| ensures
//@|     rsfc_release_post(old(self).abs(), rsfc_outstanding(old(self).abs()), final(self).abs(), old(self).conn(), final(self).conn()),
//@|     final(self).abs().released == final(self).abs().acquired,
//@|     rsfc_inv(final(self).abs()), icfc_inv(final(self).conn()),
}
