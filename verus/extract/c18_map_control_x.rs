//@ verus props=C18 tier=quick kind=X timeout=300
// Layer X for the last clause of C18 -- "forged control packets can never evict a path secret, advance a sender's key ID
// or trigger a handshake" -- on the three secret-control handlers of the path-secret map,
// dc/s2n-quic-dc/src/path/secret/map/state.rs: handle_stale_key_packet, handle_replay_detected_packet,
// handle_unknown_path_secret_packet (WHOLE functions, real text).  The map itself (concurrent hash maps, sockets, clocks)
// is out of CBMC's reach; the handlers are verified as callers.  The state-changing callees are `&self` methods
// (atomics / locks inside), so the effect cannot be a ghost post-state; instead each of them carries a CAPABILITY
// PRECONDITION that only a successful `authenticate` can establish:
//   * sender::State::update_for_stale_key(min_key_id)  requires  "min_key_id came out of a StaleKey packet authenticated
//     under the control key of THIS entry";
//   * request_handshake(peer, Remote) and evict(entry, ..)  require  "a control packet naming this entry's credential id
//     was authenticated under this entry's key".
// Verus proves every call site satisfies the precondition, i.e. no path from the function entry reaches a state change
// without the tag having verified under the secret the packet names, and a rejected packet returns None.
// Callee contracts: stale_key / replay_detected / unknown_path_secret Packet::authenticate -- layer F (dc_sc_*.rs:
// Some iff the verify call succeeded, over exactly the packet minus its tag); `verified` is the A-aead ghost.
// Known finding KF-C18-unknown-path-secret-header-unauthenticated concerns WHAT authenticate covers, not the order.
// Extraction drops (echoed into the evidence): every `self.subscriber().on_*( .. );` event statement; the two
// `peer_address` event-conversion statements are kept (model conversions).  NOT decided: get_by_id_untracked / ids.get,
// request_handshake, evict themselves; should_evict's age rule is kept as in the text.

#[derive(Clone, Copy, PartialEq, Eq, Structural)]
pub struct CredentialId { pub v: u128 }
#[derive(Clone, Copy)]
pub struct SocketAddr { pub v: u64 }
#[derive(Clone, Copy)]
pub struct SocketAddress { pub v: u64 }
#[derive(Clone, Copy)]
pub struct PeerAddrEvent { pub v: u64 }
impl SocketAddress {
    pub fn from(a: SocketAddr) -> (r: SocketAddress) { SocketAddress { v: a.v } }
    pub fn into_event(self) -> (r: PeerAddrEvent) { PeerAddrEvent { v: self.v } }
}
#[derive(Clone, Copy, PartialEq, Eq, Structural)]
pub struct VarIntX { pub v: u64 }
pub struct Duration { pub s: u64 }
impl Duration { pub fn from_secs(s: u64) -> (r: Duration) ensures r.s == s { Duration { s } } }
pub enum HandshakeReason { User, Remote }
pub mod event { pub mod builder { pub enum EvictionReason { UnknownPathSecret, Other } } }

/// "a tag over this packet verified under the key / reset secret of the entry with this credential id" (A-aead ghost)
pub uninterp spec fn verified(kind: int, credential_id: CredentialId, key_owner: CredentialId, payload: VarIntX) -> bool;

pub struct ControlKeyX { pub owner: CredentialId }
pub struct ResetSecretX { pub owner: CredentialId }
pub struct SenderX { pub owner: CredentialId, pub stateless_reset: ResetSecretX }
impl SenderX {
    // CAPABILITY: only a min_key_id taken from a StaleKey packet that authenticated under this entry's control key
    #[verifier::external_body]
    pub fn update_for_stale_key(&self, min_key_id: VarIntX)
        requires exists|cid: CredentialId| verified(1, cid, self.owner, min_key_id) && cid == self.owner,
    { unimplemented!() }
}
pub struct EntryX { pub id: CredentialId, pub s: SenderX, pub peer_addr: SocketAddr, pub age_s: u64 }
impl EntryX {
    pub open spec fn wf(&self) -> bool { self.s.owner == self.id && self.s.stateless_reset.owner == self.id }
    pub fn sender(&self) -> (r: &SenderX) ensures *r == self.s { &self.s }
    #[verifier::external_body]
    pub fn control_opener(&self) -> (r: ControlKeyX) ensures r.owner == self.id { unimplemented!() }
    pub fn peer(&self) -> (r: &SocketAddr) { &self.peer_addr }
    pub fn age(&self) -> (r: Duration) ensures r.s == self.age_s { Duration { s: self.age_s } }
}
impl PartialEq for Duration { #[verifier::external_body] fn eq(&self, o: &Duration) -> bool { unimplemented!() } }
impl PartialOrd for Duration { #[verifier::external_body] fn partial_cmp(&self, o: &Duration) -> Option<core::cmp::Ordering> { unimplemented!() } }
impl vstd::std_specs::cmp::PartialEqSpecImpl for Duration {
    open spec fn obeys_eq_spec() -> bool { false }
    open spec fn eq_spec(&self, other: &Duration) -> bool { self.s == other.s }
}
impl vstd::std_specs::cmp::PartialOrdSpecImpl for Duration {
    open spec fn obeys_partial_cmp_spec() -> bool { false }
    open spec fn partial_cmp_spec(&self, other: &Duration) -> Option<core::cmp::Ordering> { None }
}

pub struct StaleKeyX { pub credential_id: CredentialId, pub min_key_id: VarIntX }
pub struct StaleKeyPacket { pub cid: CredentialId, pub inner: StaleKeyX }
impl StaleKeyPacket {
    pub fn credential_id(&self) -> (r: &CredentialId) ensures *r == self.cid { &self.cid }
    // layer F: C18/stale_key.authenticate/* (Some iff the HMAC over the packet minus its tag verifies under `key`)
    #[verifier::external_body]
    pub fn authenticate(&self, key: &ControlKeyX) -> (r: Option<&StaleKeyX>)
        ensures r is Some ==> verified(1, self.cid, key.owner, r->Some_0.min_key_id) && r->Some_0.credential_id == self.cid && *r->Some_0 == self.inner,
    { unimplemented!() }
}
pub struct ReplayDetectedX { pub credential_id: CredentialId, pub rejected_key_id: VarIntX }
pub struct ReplayDetectedPacket { pub cid: CredentialId, pub inner: ReplayDetectedX }
impl ReplayDetectedPacket {
    pub fn credential_id(&self) -> (r: &CredentialId) ensures *r == self.cid { &self.cid }
    #[verifier::external_body]
    pub fn authenticate(&self, key: &ControlKeyX) -> (r: Option<&ReplayDetectedX>)
        ensures r is Some ==> verified(2, self.cid, key.owner, r->Some_0.rejected_key_id) && r->Some_0.credential_id == self.cid,
    { unimplemented!() }
}
pub struct UnknownPathSecretX { pub credential_id: CredentialId }
pub struct UnknownPathSecretPacket { pub cid: CredentialId, pub inner: UnknownPathSecretX }
impl UnknownPathSecretPacket {
    pub fn credential_id(&self) -> (r: &CredentialId) ensures *r == self.cid { &self.cid }
    #[verifier::external_body]
    pub fn authenticate(&self, secret: &ResetSecretX) -> (r: Option<&UnknownPathSecretX>)
        ensures r is Some ==> verified(3, self.cid, secret.owner, VarIntX { v: 0 }) && r->Some_0.credential_id == self.cid,
    { unimplemented!() }
}

pub struct IdsX { pub dummy: u8 }
impl IdsX {
    // map lookup by credential id: an entry found under id X is the entry OF id X (map invariant; C18 trusted: hash map)
    #[verifier::external_body]
    pub fn get(&self, id: CredentialId) -> (r: Option<&EntryX>) ensures r is Some ==> r->Some_0.id == id && r->Some_0.wf() { unimplemented!() }
}

/// ghost token for "some control packet naming `id` authenticated under the entry's own key"
pub open spec fn authenticated_for(id: CredentialId) -> bool {
    exists|kind: int, payload: VarIntX| #[trigger] verified(kind, id, id, payload)
}

pub struct State { pub ids: IdsX, pub evict_enabled: bool }
impl State {
    #[verifier::external_body]
    fn get_by_id_untracked(&self, id: &CredentialId) -> (r: Option<&EntryX>) ensures r is Some ==> r->Some_0.id == *id && r->Some_0.wf() { unimplemented!() }
    pub fn should_evict_on_unknown_path_secret(&self) -> (r: bool) { self.evict_enabled }
    // CAPABILITY: a handshake on behalf of a REMOTE request only after a control packet authenticated for that entry
    #[verifier::external_body]
    fn request_handshake_for(&self, entry: &EntryX, peer: SocketAddr, reason: HandshakeReason) -> (r: Option<u8>)
        requires authenticated_for(entry.id),
    { unimplemented!() }
    // CAPABILITY: evict only an entry for which a control packet authenticated
    #[verifier::external_body]
    fn evict(&self, entry: &EntryX, reason: event::builder::EvictionReason)
        requires authenticated_for(entry.id),
    { unimplemented!() }

//@ splice-fn dc/s2n-quic-dc/src/path/secret/map/state.rs "Store for State<C, S> where C: time::Clock + Sync + Send, S: event::Subscriber," handle_stale_key_packet vis=strip dropstmt=self.subscriber() "subst=control::stale_key::Packet=>StaleKeyPacket@@control::StaleKey=>StaleKeyX"
//@| ensures
//@|     // a packet that does not authenticate is dropped
//@|     ret is Some ==> exists|e: CredentialId| verified(1, packet.cid, e, ret->Some_0.min_key_id) && e == packet.cid,

//@ splice-fn dc/s2n-quic-dc/src/path/secret/map/state.rs "Store for State<C, S> where C: time::Clock + Sync + Send, S: event::Subscriber," handle_replay_detected_packet vis=strip dropstmt=self.subscriber() "subst=control::replay_detected::Packet=>ReplayDetectedPacket@@control::ReplayDetected=>ReplayDetectedX@@self.request_handshake(*entry.peer(),=>self.request_handshake_for(entry, *entry.peer(),"
//@| ensures
//@|     ret is Some ==> exists|e: CredentialId| verified(2, packet.cid, e, ret->Some_0.rejected_key_id) && e == packet.cid,

//@ splice-fn dc/s2n-quic-dc/src/path/secret/map/state.rs "Store for State<C, S> where C: time::Clock + Sync + Send, S: event::Subscriber," handle_unknown_path_secret_packet vis=strip dropstmt=self.subscriber() "subst=control::unknown_path_secret::Packet=>UnknownPathSecretPacket@@control::UnknownPathSecret=>UnknownPathSecretX@@.request_handshake(*entry.peer(),=>.request_handshake_for(entry, *entry.peer(),@@cfg!(test)=>false"
//@| ensures
//@|     ret is Some ==> authenticated_for(packet.cid),
}
