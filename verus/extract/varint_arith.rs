//@ verus props=C03,C04,C05,C12 tier=quick kind=X timeout=300
// Layer X: the integer kernel every flow-control / stream-id computation rests on, extracted verbatim
// from /repo on every run (lib/extract.py) and verified by Verus against explicit contracts.
// Visibility is stripped (`vis=strip`) so that contracts may mention the private field `.0`.

//@ splice-item quic/s2n-quic-core/src/varint/mod.rs "pub const MAX_VARINT_VALUE: u64"

//@ splice-item quic/s2n-quic-core/src/varint/mod.rs "pub struct VarIntError;"
//@ splice-item quic/s2n-quic-core/src/varint/mod.rs "pub struct VarInt("

// Assumed contract on a std function Verus has no specification for (listed in the evidence as trusted):
pub assume_specification<T, E> [core::result::Result::<T, E>::unwrap_or] (r: Result<T, E>, d: T) -> (o: T)
    ensures o == (match r { Ok(v) => v, Err(_) => d });

impl Clone for VarInt { fn clone(&self) -> Self { VarInt(self.0) } }
impl Copy for VarInt {}
impl Clone for VarIntError { fn clone(&self) -> Self { VarIntError } }
impl Copy for VarIntError {}

impl VarInt {
    spec fn wf(self) -> bool { self.0 <= MAX_VARINT_VALUE }

//@ splice-item quic/s2n-quic-core/src/varint/mod.rs "pub const MAX: Self" vis=strip

//@ splice-fn quic/s2n-quic-core/src/varint/mod.rs "VarInt" new vis=strip
//@| ensures
//@|     v <= MAX_VARINT_VALUE ==> ret is Ok && ret->Ok_0.0 == v,
//@|     v > MAX_VARINT_VALUE ==> ret is Err,

//@ splice-fn quic/s2n-quic-core/src/varint/mod.rs "VarInt" from_u8 vis=strip
//@| ensures ret.0 == v, ret.wf(),

//@ splice-fn quic/s2n-quic-core/src/varint/mod.rs "VarInt" from_u16 vis=strip
//@| ensures ret.0 == v, ret.wf(),

//@ splice-fn quic/s2n-quic-core/src/varint/mod.rs "VarInt" from_u32 vis=strip
//@| ensures ret.0 == v, ret.wf(),

//@ splice-fn quic/s2n-quic-core/src/varint/mod.rs "VarInt" as_u64 vis=strip
//@| ensures ret == self.0,

//@ splice-fn quic/s2n-quic-core/src/varint/mod.rs "VarInt" checked_add vis=strip
//@| ensures
//@|     self.0 + value.0 <= MAX_VARINT_VALUE ==> ret == Some(VarInt((self.0 + value.0) as u64)),
//@|     self.0 + value.0 > MAX_VARINT_VALUE ==> ret is None,

//@ splice-fn quic/s2n-quic-core/src/varint/mod.rs "VarInt" saturating_add vis=strip
//@| ensures
//@|     ret.0 == (if self.0 + value.0 <= MAX_VARINT_VALUE { (self.0 + value.0) as u64 } else { MAX_VARINT_VALUE }),
//@|     ret.wf(),

//@ splice-fn quic/s2n-quic-core/src/varint/mod.rs "VarInt" checked_sub vis=strip
//@| ensures
//@|     self.0 >= value.0 ==> ret == Some(VarInt((self.0 - value.0) as u64)),
//@|     self.0 < value.0 ==> ret is None,

//@ splice-fn quic/s2n-quic-core/src/varint/mod.rs "VarInt" saturating_sub vis=strip
//@| ensures
//@|     ret.0 == (if self.0 >= value.0 { (self.0 - value.0) as u64 } else { 0u64 }),
//@|     self.wf() ==> ret.wf(),

//@ splice-fn quic/s2n-quic-core/src/varint/mod.rs "VarInt" checked_mul vis=strip
//@| ensures
//@|     self.0 * value.0 <= MAX_VARINT_VALUE ==> ret == Some(VarInt((self.0 * value.0) as u64)),
//@|     self.0 * value.0 > MAX_VARINT_VALUE ==> ret is None,
}
