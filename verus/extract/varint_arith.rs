//@ verus props=C03,C04,C05,C12 tier=quick kind=X timeout=300
// Layer X: the integer kernel every flow-control / stream-id computation rests on, extracted verbatim
// from /repo on every run (lib/extract.py) and verified by Verus against explicit contracts.
// Visibility is stripped (`vis=strip`) so that contracts may mention the private field `.0`.

//@ splice-item quic/s2n-quic-core/src/varint/mod.rs "pub const MAX_VARINT_VALUE: u64"

//@ splice-item quic/s2n-quic-core/src/varint/mod.rs "pub struct VarIntError;" derive=Debug
//@ splice-item quic/s2n-quic-core/src/varint/mod.rs "pub struct VarInt(" derive=Clone,Copy,PartialEq,Eq,PartialOrd,Ord,Structural "subst=( u64)=>(pub u64)"

use vstd::std_specs::cmp::{OrdSpec, PartialOrdSpec};

// TRUSTED (language semantics): `#[derive(PartialOrd, Ord)]` on the single-field tuple struct VarInt(u64) is
// the order of the field.  vstd's PartialOrdSpecImpl/OrdSpecImpl are the hooks through which Verus is told.
impl vstd::std_specs::cmp::PartialOrdSpecImpl for VarInt {
    open spec fn obeys_partial_cmp_spec() -> bool { true }
    open spec fn partial_cmp_spec(&self, other: &VarInt) -> Option<core::cmp::Ordering> {
        if self.0 < other.0 { Some(core::cmp::Ordering::Less) } else if self.0 == other.0 { Some(core::cmp::Ordering::Equal) } else { Some(core::cmp::Ordering::Greater) }
    }
}
impl vstd::std_specs::cmp::OrdSpecImpl for VarInt {
    open spec fn obeys_cmp_spec() -> bool { true }
    open spec fn cmp_spec(&self, other: &VarInt) -> core::cmp::Ordering {
        if self.0 < other.0 { core::cmp::Ordering::Less } else if self.0 == other.0 { core::cmp::Ordering::Equal } else { core::cmp::Ordering::Greater }
    }
}
// Assumed contracts on std functions Verus has no specification for (listed in the evidence as trusted):
pub assume_specification<T: Ord> [core::cmp::min] (a: T, b: T) -> (r: T)
    ensures T::obeys_cmp_spec() ==> r == (if a.cmp_spec(&b) == core::cmp::Ordering::Greater { b } else { a });
pub assume_specification<T: Ord> [core::cmp::max] (a: T, b: T) -> (r: T)
    ensures T::obeys_cmp_spec() ==> r == (if a.cmp_spec(&b) == core::cmp::Ordering::Greater { a } else { b });

pub assume_specification<T, E> [core::result::Result::<T, E>::unwrap_or] (r: Result<T, E>, d: T) -> (o: T)
    ensures o == (match r { Ok(v) => v, Err(_) => d });


impl VarInt {
    pub open spec fn wf(self) -> bool { self.0 <= MAX_VARINT_VALUE }

//@ splice-item quic/s2n-quic-core/src/varint/mod.rs "pub const MAX: Self" vis=strip

//@ splice-fn quic/s2n-quic-core/src/varint/mod.rs "VarInt" new vis=strip
//@| ensures
//@|     v <= MAX_VARINT_VALUE ==> ret is Ok && ret->Ok_0.0 == v,
//@|     v > MAX_VARINT_VALUE ==> ret is Err,

//@ splice-fn quic/s2n-quic-core/src/varint/mod.rs "VarInt" from_u8 vis=strip
//@| ensures ret.0 == v, ret.wf(),

//@ splice-fn quic/s2n-quic-core/src/varint/mod.rs "VarInt" from_u16 vis=strip
//@| ensures ret.0 == v, ret.wf(),

//@ splice-fn quic/s2n-quic-core/src/varint/mod.rs "VarInt" from_u32 vis=strip
//@| ensures ret.0 == v, ret.wf(),

//@ splice-fn quic/s2n-quic-core/src/varint/mod.rs "VarInt" as_u64 vis=strip
//@| ensures ret == self.0,

//@ splice-fn quic/s2n-quic-core/src/varint/mod.rs "VarInt" checked_add vis=strip
//@| ensures
//@|     self.0 + value.0 <= MAX_VARINT_VALUE ==> ret == Some(VarInt((self.0 + value.0) as u64)),
//@|     self.0 + value.0 > MAX_VARINT_VALUE ==> ret is None,

//@ splice-fn quic/s2n-quic-core/src/varint/mod.rs "VarInt" saturating_add vis=strip
//@| ensures
//@|     ret.0 == (if self.0 + value.0 <= MAX_VARINT_VALUE { (self.0 + value.0) as u64 } else { MAX_VARINT_VALUE }),
//@|     ret.wf(),

//@ splice-fn quic/s2n-quic-core/src/varint/mod.rs "VarInt" checked_sub vis=strip
//@| ensures
//@|     self.0 >= value.0 ==> ret == Some(VarInt((self.0 - value.0) as u64)),
//@|     self.0 < value.0 ==> ret is None,

//@ splice-fn quic/s2n-quic-core/src/varint/mod.rs "VarInt" saturating_sub vis=strip
//@| ensures
//@|     ret.0 == (if self.0 >= value.0 { (self.0 - value.0) as u64 } else { 0u64 }),
//@|     self.wf() ==> ret.wf(),

//@ splice-fn quic/s2n-quic-core/src/varint/mod.rs "VarInt" checked_mul vis=strip
//@| ensures
//@|     self.0 * value.0 <= MAX_VARINT_VALUE ==> ret == Some(VarInt((self.0 * value.0) as u64)),
//@|     self.0 * value.0 > MAX_VARINT_VALUE ==> ret is None,

// Operator impls of VarInt, spliced from the `impl core::ops::* for VarInt` blocks and placed here as
// inherent functions (Verus attaches its own fixed specs to the operator traits); callers are desugared
// (`a -= b` => `a.sub_assign(b)`) by stated substitutions.
//@ splice-fn quic/s2n-quic-core/src/varint/mod.rs "core::ops::SubAssign<Self> for VarInt" sub_assign vis=strip
//@| requires old(self).0 >= rhs.0,
//@| ensures final(self).0 == old(self).0 - rhs.0,

//@ splice-fn quic/s2n-quic-core/src/varint/mod.rs "core::ops::AddAssign<Self> for VarInt" add_assign vis=strip
//@| requires old(self).0 + rhs.0 <= MAX_VARINT_VALUE,
//@| ensures final(self).0 == old(self).0 + rhs.0,

//@ splice-fn quic/s2n-quic-core/src/varint/mod.rs "core::ops::Sub for VarInt" sub vis=strip
//@| requires self.0 >= rhs.0,
//@| ensures ret.0 == self.0 - rhs.0,

//@ splice-fn quic/s2n-quic-core/src/varint/mod.rs "core::ops::Add for VarInt" add vis=strip
//@| requires self.0 + rhs.0 <= MAX_VARINT_VALUE,
//@| ensures ret.0 == self.0 + rhs.0,
}
