//@ verus props=C04 tier=quick kind=X spec=flow_out.rs,flow_in.rs timeout=300
// Layer X for C04 (stream-count limit): RemoteInitiated::{on_remote_open_stream, on_open_stream,
// on_close_stream, open_stream_count, synced_closed_streams} extracted verbatim; contracts are the `ri_*`
// predicates of contracts/spec/flow_in.rs.
//@ include-job stream_id.rs
//@ include-job flow_in_x.rs

impl TransportError {
    // RFC 9000 20.1: STREAM_LIMIT_ERROR = 0x4 (value asserted against the real constant by layer F)
    pub const STREAM_LIMIT_ERROR: TransportError = TransportError { code: 4 };
}
// token bucket that paces MAX_STREAMS updates: a separate field, not touched by the functions below
pub struct TokenBucket { _p: u8 }

impl VarInt {
//@ splice-fn quic/s2n-quic-core/src/varint/mod.rs "core::ops::AddAssign<usize> for VarInt" add_assign vis=strip "subst=fn add_assign=>fn add_assign_usize"
//@| requires old(self).0 + rhs <= MAX_VARINT_VALUE,
//@| ensures final(self).0 == old(self).0 + rhs,
}

//@ splice-item quic/s2n-quic-transport/src/stream/controller/remote_initiated.rs "pub(super) struct RemoteInitiated" vis=strip "subst=IncrementalValueSync<VarInt, MaxStreamsToFrameWriter>=>IncrementalValueSync"

impl RemoteInitiated {
    pub closed spec fn abs(&self) -> Ri {
        Ri { advertised: self.max_streams_sync.latest.0 as int, opened: self.opened_streams.0 as int,
             closed: self.closed_streams.0 as int, local_limit: self.max_local_limit.0 as int }
    }

    // check_integrity() is the crate's own dev-profile self check; its body is extracted too, so the
    // assertions in it become proof obligations of the callers
//@ splice-fn quic/s2n-quic-transport/src/stream/controller/remote_initiated.rs "RemoteInitiated" open_stream_count vis=strip "subst=self.opened_streams - self.closed_streams=>self.opened_streams.sub(self.closed_streams)"
//@| requires self.closed_streams.0 <= self.opened_streams.0,
//@| ensures ret.0 == self.opened_streams.0 - self.closed_streams.0,

//@ splice-fn quic/s2n-quic-transport/src/stream/controller/remote_initiated.rs "RemoteInitiated" check_integrity vis=strip
//@| requires self.closed_streams.0 <= self.opened_streams.0, self.opened_streams.0 - self.closed_streams.0 <= self.max_local_limit.0,

//@ splice-fn quic/s2n-quic-transport/src/stream/controller/remote_initiated.rs "RemoteInitiated" synced_closed_streams vis=strip "subst=self.max_streams_sync.latest_value() - self.max_local_limit=>self.max_streams_sync.latest_value().sub(self.max_local_limit)"
//@| requires ri_inv(self.abs()),
//@| ensures ret.0 as int == self.abs().advertised - self.abs().local_limit,

//@ splice-fn quic/s2n-quic-transport/src/stream/controller/remote_initiated.rs "RemoteInitiated" on_open_stream vis=strip desugar=assign_ops
//@| requires ri_inv(old(self).abs()), old(self).abs().opened < old(self).abs().advertised,
//@|     old(self).abs().opened - old(self).abs().closed < old(self).abs().local_limit,
//@| ensures ri_open_counts(old(self).abs(), final(self).abs()), ri_inv(final(self).abs()),

//@ splice-fn quic/s2n-quic-transport/src/stream/controller/remote_initiated.rs "RemoteInitiated" on_close_stream vis=strip desugar=assign_ops
//@| requires ri_inv(old(self).abs()), old(self).abs().closed < old(self).abs().opened,
//@|     old(self).abs().opened - old(self).abs().closed <= old(self).abs().local_limit,
//@| ensures ri_close_counts(old(self).abs(), final(self).abs()),

//@ splice-fn quic/s2n-quic-transport/src/stream/controller/remote_initiated.rs "RemoteInitiated" on_remote_open_stream vis=strip "subst=transport::Error=>TransportError"
//@| requires ri_inv(old(self).abs()), stream_id.0.wf(),
//@| ensures
//@|     ri_remote_open_err_iff_at_or_over_limit(old(self).abs(), (stream_id.0.0 / 4) as int, ret is Ok),
//@|     ri_remote_open_err_code(ret is Ok, (if ret is Err { ret->Err_0.code as int } else { 0int })),
//@|     ri_remote_open_state_unchanged(old(self).abs(), final(self).abs()),
}
