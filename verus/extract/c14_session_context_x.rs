//@ verus props=C14 tier=quick kind=X timeout=300
// Layer X for the C14 glue in the transport crate: the connection-id authentication of RFC 9000 section 7.3 in
// quic/s2n-quic-transport/src/space/session_context.rs (SessionContext::on_server_params /
// validate_initial_source_connection_id), checked on the REAL TEXT of the source file:
//   * `validate_initial_source_connection_id` is extracted as a whole function (splice-fn);
//   * the `match (self.retry_cid, peer_parameters.retry_source_connection_id) { .. }` expression and the
//     `if let Some(peer_value) = peer_parameters.original_destination_connection_id { .. } else { .. }` statement of
//     `on_server_params` are extracted verbatim as brace-matched blocks (splice-item) and wrapped into functions
//     whose parameters are exactly the values the blocks read (self.retry_cid / self.initial_cid /
//     peer_parameters.<field>).  If an anchor is lost the job is UNDECIDED, never silently green.
// Why not layer F: `on_server_params` starts with `ServerTransportParameters::decode`; Kani does not get through the
// block decoder on blocks that contain connection-id parameters (see contracts/kani/core/c14_tp.rs,
// vq_c14_tp_block_server_only_from_client_wellformed) and a `SessionContext` needs path::Manager + both id
// registries (hash maps).  Attempts are recorded in contracts/STRENGTH-c14c15.md.
//
// Trusted model (A-ct): `a.as_bytes().ct_eq(b.as_bytes()).not().into()` of the `subtle` crate is `a != b` on the
// byte strings; `transport::Error::with_reason` keeps the error code.  Everything else is the extracted text.

// ---- model of the types the extracted text mentions ------------------------------------------------------------
#[derive(Clone, Copy)]
pub struct Cid { pub bytes: [u8; 20], pub len: u8 }
pub type PeerId = Cid;
pub type InitialId = Cid;
pub type InitialSourceConnectionId = Cid;

pub struct BytesRef { pub v: Ghost<Seq<u8>> }
pub struct Choice { pub b: bool }

impl Cid {
    pub open spec fn view(&self) -> Seq<u8> { self.bytes@.subrange(0, self.len as int) }
    #[verifier::external_body]
    pub fn as_bytes(&self) -> (r: BytesRef)
        ensures r.v@ == self.view(),
    { unimplemented!() }
}
impl BytesRef {
    // subtle::ConstantTimeEq for [u8]: Choice(1) iff same length and same bytes
    #[verifier::external_body]
    pub fn ct_eq(&self, other: BytesRef) -> (r: Choice)
        ensures r.b == (self.v@ == other.v@),
    { unimplemented!() }
}
impl Choice {
    pub fn not(self) -> (r: Choice) ensures r.b == !self.b { Choice { b: !self.b } }
    pub fn into(self) -> (r: bool) ensures r == self.b { self.b }
}

pub struct TransportError { pub code: u64 }
impl TransportError {
    // RFC 9000 20.1: TRANSPORT_PARAMETER_ERROR (0x08)
    pub const TRANSPORT_PARAMETER_ERROR: TransportError = TransportError { code: 8 };
    pub fn with_reason(self, _reason: &'static str) -> (r: TransportError) ensures r.code == self.code { self }
}

/// the three connection-id parameters of the server's transport parameters
pub struct PeerParameters {
    pub original_destination_connection_id: Option<Cid>,
    pub initial_source_connection_id: Option<Cid>,
    pub retry_source_connection_id: Option<Cid>,
}

/// the fields of SessionContext the extracted text reads
pub struct SessionContextX<'a> {
    pub initial_cid: &'a InitialId,
    pub retry_cid: Option<&'a PeerId>,
}

pub open spec fn is_tp_error(r: Result<(), TransportError>) -> bool {
    r is Err && r->Err_0.code == 8
}

impl<'a> SessionContextX<'a> {
    // 7.3: "An endpoint MUST treat the absence of the initial_source_connection_id transport parameter from
    // either endpoint ... as a connection error of type TRANSPORT_PARAMETER_ERROR"; "a mismatch between values
    // received from a peer in these transport parameters and the value sent in the corresponding Destination or
    // Source Connection ID fields of Initial packets" likewise
//@ splice-fn quic/s2n-quic-transport/src/space/session_context.rs "SessionContext<'_, Config, Pub>" validate_initial_source_connection_id vis=strip "subst=expected_value: &[u8]=>expected_value: BytesRef@@transport::Error=>TransportError"
//@| ensures
//@|     ret is Ok <==> (peer_value is Some && peer_value->Some_0.view() == expected_value.v@),
//@|     ret is Ok || is_tp_error(ret),

    // 7.3: retry_source_connection_id -- "absence of the retry_source_connection_id transport parameter from the
    // server after receiving a Retry packet", "presence of the retry_source_connection_id transport parameter when
    // no Retry packet was received", and a value different from the Retry packet's Source Connection ID are
    // connection errors of type TRANSPORT_PARAMETER_ERROR
    pub fn on_server_params_retry_source_connection_id(&self, peer_parameters: PeerParameters) -> (ret: Result<(), TransportError>)
        ensures
            ret is Ok <==> ((self.retry_cid is None && peer_parameters.retry_source_connection_id is None)
                || (self.retry_cid is Some && peer_parameters.retry_source_connection_id is Some
                    && self.retry_cid->Some_0.view() == peer_parameters.retry_source_connection_id->Some_0.view())),
            ret is Ok || is_tp_error(ret),
    {
//@ splice-item quic/s2n-quic-transport/src/space/session_context.rs "match (self.retry_cid, peer_parameters.retry_source_connection_id) {" "subst=transport::Error=>TransportError"
        Ok(())
    }

    // 7.3: original_destination_connection_id must be present in the server's parameters and equal the
    // Destination Connection ID of the client's first Initial packet
    pub fn on_server_params_original_destination_connection_id(&self, peer_parameters: PeerParameters) -> (ret: Result<(), TransportError>)
        ensures
            ret is Ok <==> (peer_parameters.original_destination_connection_id is Some
                && peer_parameters.original_destination_connection_id->Some_0.view() == self.initial_cid.view()),
            ret is Ok || is_tp_error(ret),
    {
//@ splice-item quic/s2n-quic-transport/src/space/session_context.rs "if let Some(peer_value) = peer_parameters.original_destination_connection_id {" else=1 "subst=transport::Error=>TransportError"
        Ok(())
    }
}
