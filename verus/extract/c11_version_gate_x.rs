//@ verus props=C11 tier=quick kind=X timeout=300
// Layer X for one clause of C11 ("Version Negotiation is sent only for datagrams of at least 1200 bytes"): the
// size gate of version::Negotiator::on_packet, checked on the REAL TEXT of quic/s2n-quic-transport/src/endpoint/
// version.rs.  Layer F could not execute Negotiator::on_packet for the server (Transmission::new + a VecDeque of
// 1224-byte elements: out of memory / CBMC error, see contracts/kani/transport/version_negotiator.rs), so the
// statement that implements the gate is extracted verbatim as a brace-matched block and wrapped into a function whose
// only parameter is the value it reads.  NOT decided here: that the block is reached for every unsupported-version
// Initial and that nothing is queued before it (reading the function: the only `push_back` follows the gate).

//@ splice-item quic/s2n-quic-core/src/path/mtu.rs "pub const MINIMUM_MAX_DATAGRAM_SIZE: u16"

pub struct Error;

// the datagram carrying an unsupported-version Initial is answered (falls through to the queueing code) only if
// its UDP payload is at least 1200 bytes (RFC 9000 5.2.2 / 6; property C11); smaller ones are dropped
fn version_negotiation_size_gate(payload_len: usize) -> (ret: Result<(), Error>)
    ensures
        payload_len < 1200 ==> ret is Err,
        payload_len >= 1200 ==> ret is Ok,
{
//@ splice-item quic/s2n-quic-transport/src/endpoint/version.rs "if payload_len" autoconst=1
    Ok(())
}
