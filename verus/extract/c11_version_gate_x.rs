//@ verus props=C11 tier=quick kind=X timeout=300
// Layer X for one clause of C11 ("Version Negotiation is sent only for datagrams of at least 1200 bytes"): the
// size gate of version::Negotiator::on_packet, checked on the REAL TEXT of quic/s2n-quic-transport/src/endpoint/
// version.rs.  Layer F could not execute Negotiator::on_packet for the server (Transmission::new + a VecDeque of
// 1224-byte elements: out of memory / CBMC error, see contracts/kani/transport/version_negotiator.rs), so the
// statement that implements the gate is extracted verbatim as a brace-matched block and wrapped into a function whose
// only parameter is the value it reads.  NOT decided here: that the block is reached for every unsupported-version
// Initial and that nothing is queued before it (reading the function: the only `push_back` follows the gate).

//@ splice-item quic/s2n-quic-core/src/path/mtu.rs "pub const MINIMUM_MAX_DATAGRAM_SIZE: u16"

pub struct Error;

// the datagram carrying an unsupported-version Initial is answered (falls through to the queueing code) only if
// its UDP payload is at least 1200 bytes (RFC 9000 5.2.2 / 6; property C11); smaller ones are dropped
fn version_negotiation_size_gate(payload_len: usize) -> (ret: Result<(), Error>)
    ensures
        payload_len < 1200 ==> ret is Err,
        payload_len >= 1200 ==> ret is Ok,
{
//@ splice-item quic/s2n-quic-transport/src/endpoint/version.rs "if payload_len" autoconst=1
    Ok(())
}

// ---- which packets can reach the Version Negotiation transmission code at all ------------------------------------------
// the `let packet = match packet { .. };` statement of Negotiator::on_packet, extracted verbatim: control falls through to
// the size gate / queueing code only for an INITIAL packet whose version is not supported -- never for a Version
// Negotiation packet ("never in reply to Version Negotiation", RFC 9000 6.1), a 0-RTT packet (dropped with Err) or any other
// packet type (forwarded with Ok).  `is_supported!(packet, publisher)` (a macro over SUPPORTED_VERSIONS) is an
// uninterpreted predicate of the packet here.
pub struct VersionedPacketX { pub version: u32 }
pub enum ProtectedPacket { Initial(VersionedPacketX), ZeroRtt(VersionedPacketX), VersionNegotiation(VersionedPacketX), Handshake(VersionedPacketX), Retry(VersionedPacketX), Short(u8) }
pub struct PubX { pub dummy: u8 }
pub uninterp spec fn supported(v: u32) -> bool;
#[verifier::external_body]
fn is_supported(packet: &VersionedPacketX, publisher: &mut PubX) -> (r: bool) ensures r == supported(packet.version) { unimplemented!() }

pub struct NegotiatorX { pub reached_vn_code: Ghost<bool> }
impl NegotiatorX {
    fn on_packet_type_gate(&mut self, packet: &ProtectedPacket, publisher: &mut PubX) -> (ret: Result<(), Error>)
        requires !old(self).reached_vn_code@,
        ensures
            final(self).reached_vn_code@ <==> (packet is Initial && !supported(packet->Initial_0.version)),
            packet is VersionNegotiation ==> ret is Ok && !final(self).reached_vn_code@,
            packet is ZeroRtt && !supported(packet->ZeroRtt_0.version) ==> ret is Err,
    {
//@ splice-stmts quic/s2n-quic-transport/src/endpoint/version.rs "Negotiator<Config>" on_packet "from=let packet = match packet" "subst=is_supported!(packet, publisher)=>is_supported(packet, publisher)"
        proof { self.reached_vn_code = Ghost(true); }
        Ok(())
    }
}
