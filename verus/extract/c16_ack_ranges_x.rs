//@ verus props=C16,C08 tier=quick kind=X timeout=300
// Layer X for ack::Ranges::insert_packet_number_range (quic/s2n-quic-core/src/ack/ranges.rs), WHOLE function, real text --
// the capacity-bounded ACK-range set of C16 ("a capacity-bounded ACK-range set discarding only its lowest ranges") and the
// set AckManager reads ACK frames from (C08 "ACKs name only received packets").  CBMC could not execute it (VecDeque of
// intervals; probes/), so it is verified as a CALLER against the contracts of IntervalSet::{insert, pop_min, insert_front}
// over the abstract set of packet numbers:
//   * Ok                         => the set is exactly old ∪ [start, end];
//   * Err(LowestRangeDropped{a,b}) => the set is exactly (old \ [a, b]) ∪ [start, end], and [a, b] was the LOWEST range of the
//     old set and lies entirely below `start`;
//   * Err(RangeInsertionFailed)  => the set is unchanged;
//   * in every case nothing but [start, end] is ever added (an ACK can only name packet numbers handed to this function).
// Callee contracts (IntervalSet, layer F one-step obligations for K <= 2 intervals: C16/interval_set.insert/*,
// C16/interval_set.pop_min/*, C16/interval_set.insert_front/* -- bounded there, ASSUMED here for every size): insert adds the
// closed interval or fails leaving the contents; it cannot fail below the limit; pop_min removes and returns the lowest
// interval; insert_front re-inserts an interval that lies below every element.
// Extraction drops (echoed into the evidence): `debug_assert!` statements; the closure parameter `|_|` is renamed `|_e|`
// (Verus rejects `_` parameters); `self.0` is the model field; `min < pn_range.start()` goes through a PartialOrd<PacketNumber>
// impl of the model interval whose spec transcribes `impl PartialOrd<T> for Interval<T>`.  The error VALUE built inside the
// `map_err` closure is not decided (that path is proved unreachable: the insert after pop_min cannot fail).

#[derive(Clone, Copy, PartialEq, Eq, Structural)]
pub struct PacketNumber { pub v: u64 }
pub struct PacketNumberRange { pub s: PacketNumber, pub e: PacketNumber }
impl PacketNumberRange {
    pub open spec fn valid(&self) -> bool { self.s.v <= self.e.v }
    pub fn start(&self) -> (r: PacketNumber) ensures r == self.s { self.s }
    pub fn end(&self) -> (r: PacketNumber) ensures r == self.e { self.e }
}
#[derive(Clone, Copy)]
pub enum Bound<T> { Included(T), Excluded(T), Unbounded }
pub enum Error { RangeInsertionFailed { min: PacketNumber, max: PacketNumber }, LowestRangeDropped { min: PacketNumber, max: PacketNumber } }
pub struct IntervalSetError { pub dummy: u8 }

#[derive(Clone, Copy)]
pub struct IntervalX { pub start: PacketNumber, pub end: PacketNumber }
impl IntervalX {
    pub fn start_inclusive(&self) -> (r: PacketNumber) ensures r == self.start { self.start }
    pub fn end_inclusive(&self) -> (r: PacketNumber) ensures r == self.end { self.end }
}
// `impl PartialOrd<T> for Interval<T>` (interval_set/interval.rs:131-144: Less iff the interval ends below the value, Greater iff it
// starts above it, otherwise Equal) -- TRUSTED transcription through vstd's spec hooks
impl PartialEq<PacketNumber> for IntervalX {
    #[verifier::external_body]
    fn eq(&self, other: &PacketNumber) -> bool { unimplemented!() }
}
impl PartialOrd<PacketNumber> for IntervalX {
    #[verifier::external_body]
    fn partial_cmp(&self, other: &PacketNumber) -> Option<core::cmp::Ordering> { unimplemented!() }
}
impl vstd::std_specs::cmp::PartialEqSpecImpl<PacketNumber> for IntervalX {
    open spec fn obeys_eq_spec() -> bool { false }
    open spec fn eq_spec(&self, other: &PacketNumber) -> bool { false }
}
impl vstd::std_specs::cmp::PartialOrdSpecImpl<PacketNumber> for IntervalX {
    open spec fn obeys_partial_cmp_spec() -> bool { true }
    open spec fn partial_cmp_spec(&self, other: &PacketNumber) -> Option<core::cmp::Ordering> {
        if self.end.v < other.v { Some(core::cmp::Ordering::Less) } else if self.start.v > other.v { Some(core::cmp::Ordering::Greater) } else { Some(core::cmp::Ordering::Equal) }
    }
}

pub open spec fn range_set(a: int, b: int) -> Set<int> { vstd::set_lib::set_int_range(a, b + 1) }

/// IntervalSet<PacketNumber> with a limit: the set of contained packet numbers, the number of intervals, the limit
pub struct IntervalSetX { pub elems: Ghost<Set<int>>, pub count: Ghost<int>, pub limit: Ghost<int> }
impl IntervalSetX {
    pub open spec fn inv(&self) -> bool { 0 <= self.count@ <= self.limit@ && 1 <= self.limit@ && (self.count@ == 0 <==> self.elems@ =~= Set::<int>::empty()) }
    #[verifier::external_body]
    pub fn insert(&mut self, interval: (Bound<PacketNumber>, Bound<PacketNumber>)) -> (r: Result<(), IntervalSetError>)
        requires old(self).inv(), interval.0 is Included, interval.1 is Included, interval.0->Included_0.v <= interval.1->Included_0.v,
        ensures
            final(self).inv(), final(self).limit@ == old(self).limit@,
            r is Ok ==> final(self).elems@ =~= old(self).elems@.union(range_set(interval.0->Included_0.v as int, interval.1->Included_0.v as int)),
            r is Err ==> final(self).elems@ =~= old(self).elems@ && final(self).count@ == old(self).count@,
            old(self).count@ < old(self).limit@ ==> r is Ok,
            r is Ok ==> final(self).count@ <= old(self).count@ + 1,
    { unimplemented!() }
    #[verifier::external_body]
    pub fn pop_min(&mut self) -> (r: Option<IntervalX>)
        requires old(self).inv(),
        ensures
            final(self).inv(), final(self).limit@ == old(self).limit@,
            r is None <==> old(self).count@ == 0,
            r is None ==> final(self).elems@ =~= old(self).elems@ && final(self).count@ == old(self).count@,
            r is Some ==> ({
                let m = r->Some_0;
                &&& m.start.v <= m.end.v
                &&& range_set(m.start.v as int, m.end.v as int).subset_of(old(self).elems@)
                &&& final(self).elems@ =~= old(self).elems@.difference(range_set(m.start.v as int, m.end.v as int))
                &&& forall|x: int| #[trigger] final(self).elems@.contains(x) ==> x > m.end.v
                &&& final(self).count@ == old(self).count@ - 1
            }),
    { unimplemented!() }
    #[verifier::external_body]
    pub fn insert_front(&mut self, interval: IntervalX) -> (r: Result<(), IntervalSetError>)
        requires old(self).inv(), interval.start.v <= interval.end.v, forall|x: int| #[trigger] old(self).elems@.contains(x) ==> x > interval.end.v,
            old(self).count@ < old(self).limit@,
        ensures
            final(self).inv(), final(self).limit@ == old(self).limit@, r is Ok,
            final(self).elems@ =~= old(self).elems@.union(range_set(interval.start.v as int, interval.end.v as int)),
    { unimplemented!() }
}

pub open spec fn dropped_post(old_s: Set<int>, new_s: Set<int>, a: int, b: int, s: int, e: int) -> bool {
    &&& range_set(a, b).subset_of(old_s)
    &&& b < s
    &&& forall|x: int| #[trigger] old_s.contains(x) && !(a <= x <= b) ==> x > b
    &&& new_s =~= old_s.difference(range_set(a, b)).union(range_set(s, e))
}

pub struct Ranges { pub set: IntervalSetX }
impl Ranges {
//@ splice-fn quic/s2n-quic-core/src/ack/ranges.rs "Ranges" insert_packet_number_range vis=strip dropstmt=debug_assert! "subst=self.0=>self.set@@|_|=>|_e|"
//@| requires old(self).set.inv(), pn_range.valid(),
//@| ensures
//@|     final(self).set.inv(),
//@|     ret is Ok ==> final(self).set.elems@ =~= old(self).set.elems@.union(range_set(pn_range.s.v as int, pn_range.e.v as int)),
//@|     // only the lowest range is ever discarded, and only to make room for a higher one
//@|     ret is Err && ret->Err_0 is LowestRangeDropped ==> dropped_post(old(self).set.elems@, final(self).set.elems@, ret->Err_0->LowestRangeDropped_min.v as int, ret->Err_0->LowestRangeDropped_max.v as int, pn_range.s.v as int, pn_range.e.v as int),
//@|     ret is Err && ret->Err_0 is RangeInsertionFailed ==> final(self).set.elems@ =~= old(self).set.elems@,
//@|     // nothing but the given range is ever added
//@|     forall|x: int| #[trigger] final(self).set.elems@.contains(x) ==> old(self).set.elems@.contains(x) || pn_range.s.v <= x <= pn_range.e.v,
//@^ before "Err(Error::LowestRangeDropped" :: proof { let a = min.start.v as int; let b = min.end.v as int; assert forall|x: int| #[trigger] old(self).set.elems@.contains(x) && !(a <= x <= b) implies x > b by { assert(old(self).set.elems@.difference(range_set(a, b)).contains(x)); } }
}
