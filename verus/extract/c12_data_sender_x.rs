//@ verus props=C12 tier=quick kind=X timeout=300
// Layer X for the C12 glue in quic/s2n-quic-transport/src/sync/data_sender.rs: WHEN DataSender::on_transmit_impl lets
// the end of the stream (FIN, final size = total_len) go out for the first time.  Property clause: "the final size it
// announces never changes and no data is sent beyond it" -- a RESET_STREAM sent later announces the credit the
// stream has booked (layer F: C03/C12 init_reset obligations), and credit is booked by `transmit_interval` only, so a
// first-transmission FIN must not overtake stream data that has never been handed to the transmitter.
// Contract (wrapper `on_transmit_impl_new_data_and_fin`, statements from `let is_blocked = ..` up to the probe
// retransmission logic, extracted verbatim):
//   * a FIN in state Finishing(Pending) is attempted only if every byte before it was transmitted earlier
//     (transmission_offset == total_len at entry) or the data transmission of this very call succeeded;
//   * an error of the data transmission ends the call (no FIN, Err returned);
//   * new data / a pending FIN are attempted only when the constraint allows NEW data and the stream is not blocked;
//   * transmission_offset only moves forward, and only to the end of what transmit_interval reports as transmitted.
// Whole functions spliced: data_sender::State::can_transmit_fin, transmission::Constraint::{can_transmit,
// can_retransmit, is_none, is_retransmission_only} (s2n-quic-core).
// Callee contracts: Transmissions::{transmit_interval, transmit_fin} appear through ghost flags (attempted / result);
// what they write is layer F (C12 transmit_interval harness, data_sender FIN machine).
// Extraction drops (echoed into the evidence): `(a..b).into()` (Range<VarInt> -> Interval<VarInt>) is renamed to the
// model constructor `interval_from(a, b)`, `Writer::WRITES_FIN` to the stream writer's constant `WRITES_FIN` (true;
// writer.rs `impl FrameWriter for stream::Writer`).  NOT decided: the lost-range retransmission before and the probe
// retransmission after these statements, Transmissions itself, SendStream::on_transmit.

//@ include-job varint_arith.rs

#[derive(Clone, Copy, PartialEq, Eq, Structural)]
pub struct PacketNumber { pub v: u64 }
#[derive(Clone, Copy, PartialEq, Eq, Structural)]
pub struct StreamError { pub code: u64 }

//@ splice-item quic/s2n-quic-transport/src/sync/data_sender.rs "pub enum State" derive=Copy,Clone,PartialEq,Eq,Structural
//@ splice-item quic/s2n-quic-transport/src/sync/data_sender.rs "pub enum FinState" derive=Copy,Clone,PartialEq,Eq,Structural

//@ splice-item quic/s2n-quic-core/src/transmission/constraint.rs "pub enum Constraint" derive=Clone,Copy,PartialEq,Eq,Structural

impl Constraint {
//@ splice-fn quic/s2n-quic-core/src/transmission/constraint.rs "Constraint" is_retransmission_only
//@| ensures ret == (self is RetransmissionOnly),
//@ splice-fn quic/s2n-quic-core/src/transmission/constraint.rs "Constraint" is_none vis=strip
//@| ensures ret == (self is None),
//@ splice-fn quic/s2n-quic-core/src/transmission/constraint.rs "Constraint" can_transmit
//@| ensures ret == (self is None),
//@ splice-fn quic/s2n-quic-core/src/transmission/constraint.rs "Constraint" can_retransmit
//@| ensures ret == (self is None || self is RetransmissionOnly),
}

impl State {
//@ splice-fn quic/s2n-quic-transport/src/sync/data_sender.rs "State" can_transmit_fin vis=strip "subst=transmission::Constraint=>Constraint"
//@| ensures
//@|     // a FIN that was never sent is new data: it needs an unconstrained, unblocked transmission
//@|     ret && *self == State::Finishing(FinState::Pending) ==> !is_blocked && constraint is None,
//@|     // a lost FIN is a retransmission
//@|     ret && *self == State::Finishing(FinState::Lost) ==> (constraint is None || constraint is RetransmissionOnly),
//@|     ret ==> (*self == State::Finishing(FinState::Pending) || *self == State::Finishing(FinState::Lost)),
//@|     *self == State::Finishing(FinState::Pending) && !is_blocked && constraint is None ==> ret,
//@|     *self == State::Finishing(FinState::Lost) && (constraint is None || constraint is RetransmissionOnly) ==> ret,
}

#[derive(Clone, Copy)]
pub enum OnTransmitError { CouldNotWriteFrame, CouldNotAcquireEnoughSpace }

pub const WRITES_FIN: bool = true;

pub struct IntervalX { pub start: VarInt, pub end: VarInt }
impl IntervalX {
    pub fn end_exclusive(&self) -> (r: VarInt) ensures r == self.end { self.end }
}
pub fn interval_from(a: VarInt, b: VarInt) -> (r: IntervalX) ensures r.start == a, r.end == b { IntervalX { start: a, end: b } }

pub struct BufferX { pub total: VarInt }
pub struct ViewerX { pub dummy: u8 }
impl BufferX {
    pub fn total_len(&self) -> (r: VarInt) ensures r == self.total { self.total }
    #[verifier::external_body]
    pub fn viewer(&self) -> (r: ViewerX) { unimplemented!() }
}
pub struct FlowControllerX { pub blocked: bool }
impl FlowControllerX { pub fn is_blocked(&self) -> (r: bool) ensures r == self.blocked { self.blocked } }
pub struct WriterContextX { pub dummy: u8 }
pub struct WriteContextX { pub dummy: u8 }

pub struct Transmissions {
    pub data_attempted: Ghost<bool>, pub data_ok: Ghost<bool>, pub data_requested: Ghost<(int, int)>,
    pub fin_attempted: Ghost<bool>, pub fin_state_at_attempt: Ghost<State>,
}
impl Transmissions {
    // Transmissions::transmit_interval: transmits a non-empty prefix of the requested interval or fails
    // (transmissions.rs:110-190; C12 transmit_interval harness: C12/transmit_interval/*)
    #[verifier::external_body]
    pub fn transmit_interval(&mut self, viewer: &mut ViewerX, interval: IntervalX, state: &mut State, writer_context: &WriterContextX, context: &mut WriteContextX) -> (r: Result<IntervalX, OnTransmitError>)
        ensures
            final(self).data_attempted@, final(self).data_ok@ == r is Ok,
            final(self).data_requested@ == (interval.start.0 as int, interval.end.0 as int),
            final(self).fin_attempted@ == old(self).fin_attempted@, final(self).fin_state_at_attempt@ == old(self).fin_state_at_attempt@,
            r is Ok ==> r->Ok_0.start == interval.start && interval.start.0 < r->Ok_0.end.0 <= interval.end.0,
            // the FIN may be piggybacked (Pending/Lost -> InFlight); otherwise the state is untouched
            *final(state) == *old(state) || (*old(state) is Finishing && *final(state) is Finishing),
    { unimplemented!() }

    #[verifier::external_body]
    pub fn transmit_fin(&mut self, buffer: &BufferX, state: &mut State, writer_context: &WriterContextX, context: &mut WriteContextX) -> (r: Result<(), OnTransmitError>)
        ensures
            final(self).fin_attempted@, final(self).fin_state_at_attempt@ == *old(state),
            final(self).data_attempted@ == old(self).data_attempted@, final(self).data_ok@ == old(self).data_ok@,
            final(self).data_requested@ == old(self).data_requested@,
    { unimplemented!() }
}

pub struct DataSender {
    pub state: State,
    pub buffer: BufferX,
    pub transmissions: Transmissions,
    pub transmission_offset: VarInt,
    pub fc: FlowControllerX,
}

impl DataSender {
    pub fn flow_controller(&self) -> (r: &FlowControllerX) ensures *r == self.fc { &self.fc }

    fn on_transmit_impl_new_data_and_fin(&mut self, constraint: Constraint, writer_context: &WriterContextX, context: &mut WriteContextX) -> (ret: Result<(), OnTransmitError>)
        requires
            !old(self).transmissions.data_attempted@ && !old(self).transmissions.fin_attempted@,
            // representation invariant (DataSender::check_integrity / C12 data_sender harness): nothing beyond the buffer was sent
            old(self).transmission_offset.0 <= old(self).buffer.total.0,
        ensures
            // a first-transmission FIN never overtakes stream data that was never handed to the transmitter
            final(self).transmissions.fin_attempted@ && final(self).transmissions.fin_state_at_attempt@ == State::Finishing(FinState::Pending)
                ==> (old(self).transmission_offset == old(self).buffer.total || final(self).transmissions.data_ok@),
            // an error of the data transmission ends the call
            final(self).transmissions.data_attempted@ && !final(self).transmissions.data_ok@ ==> ret is Err && !final(self).transmissions.fin_attempted@,
            // new data needs an unconstrained, unblocked transmission and is requested from the first unsent byte to the end
            final(self).transmissions.data_attempted@ ==> constraint is None && !old(self).fc.blocked
                && final(self).transmissions.data_requested@ == (old(self).transmission_offset.0 as int, old(self).buffer.total.0 as int),
            constraint is None && !old(self).fc.blocked && old(self).transmission_offset.0 < old(self).buffer.total.0 ==> final(self).transmissions.data_attempted@,
            // a pending FIN likewise; a lost FIN may also go out under RetransmissionOnly
            final(self).transmissions.fin_attempted@ ==> (final(self).transmissions.fin_state_at_attempt@ == State::Finishing(FinState::Pending) && constraint is None && !old(self).fc.blocked)
                || (final(self).transmissions.fin_state_at_attempt@ == State::Finishing(FinState::Lost) && (constraint is None || constraint is RetransmissionOnly)),
            // the send offset only moves forward, within the buffer
            old(self).transmission_offset.0 <= final(self).transmission_offset.0 <= old(self).buffer.total.0,
            !final(self).transmissions.data_ok@ ==> final(self).transmission_offset == old(self).transmission_offset,
            final(self).buffer.total == old(self).buffer.total,
    {
//@ splice-stmts quic/s2n-quic-transport/src/sync/data_sender.rs "DataSender<FlowController, Writer>" on_transmit_impl "from=let is_blocked" "until=let retransmit_unacked_data_in_probe" "subst=(self.transmission_offset..total_len).into()=>interval_from(self.transmission_offset, total_len)@@Writer::WRITES_FIN=>WRITES_FIN"
        Ok(())
    }
}
