//@ verus props=C06 tier=quick kind=X timeout=300
// Layer X for C06 "a packet that fails authentication ... causes no observable change to connection state": a
// datagram from an unknown address makes path::Manager allocate a TEMPORARY path slot
// (`pending_packet_authentication = Some(id)`), which is reused by the next unknown address unless a packet on that very
// path authenticates.  quic/s2n-quic-transport/src/path/manager.rs, Manager::on_processed_packet (called only after
// a packet was decrypted and processed): the statement that makes the slot permanent is extracted verbatim.
// Contract: the temporary marker is cleared only by a processed (= authenticated) packet on THE SAME path; a packet
// processed on any other path leaves it in place -- so a spoofed-address datagram that never authenticates never
// becomes a lasting path entry, whatever genuine traffic is interleaved.
// Callee: Manager::set_challenge (arms path validation; does not touch the marker: reads as `self[path_id].set_challenge(..)`).
// NOT decided: handle_connection_migration (where the slot is allocated / reused), the rest of on_processed_packet.

#[derive(Clone, Copy, PartialEq, Eq, Structural)]
pub struct Id { pub v: u8 }
impl Id { pub fn as_u8(&self) -> (r: u8) ensures r == self.v { self.v } }
pub struct RandomX { pub dummy: u8 }

pub struct Manager { pub pending_packet_authentication: Option<u8>, pub challenges_armed: Ghost<Set<int>> }
impl Manager {
    #[verifier::external_body]
    fn set_challenge(&mut self, path_id: Id, random_generator: &mut RandomX)
        ensures
            final(self).pending_packet_authentication == old(self).pending_packet_authentication,
            final(self).challenges_armed@ == old(self).challenges_armed@.insert(path_id.v as int),
    { unimplemented!() }

    fn on_processed_packet_confirm_path(&mut self, path_id: Id, random_generator: &mut RandomX)
        ensures
            // only a packet processed on the pending path itself makes it permanent
            old(self).pending_packet_authentication == Some(path_id.v) ==> final(self).pending_packet_authentication is None,
            old(self).pending_packet_authentication != Some(path_id.v) ==> final(self).pending_packet_authentication == old(self).pending_packet_authentication,
            // the path challenge is armed exactly then
            old(self).pending_packet_authentication == Some(path_id.v) ==> final(self).challenges_armed@ == old(self).challenges_armed@.insert(path_id.v as int),
            old(self).pending_packet_authentication != Some(path_id.v) ==> final(self).challenges_armed@ == old(self).challenges_armed@,
    {
//@ splice-stmts quic/s2n-quic-transport/src/path/manager.rs "Manager<Config>" on_processed_packet "from=if self.pending_packet_authentication"
    }
}
