//@ verus props=C01,C04 tier=quick kind=X timeout=300
// Layer X for the receive-side glue of C01 / C04: quic/s2n-quic-transport/src/stream/receive_stream.rs,
// ReceiveStream::on_data, `Receiving` arm (CBMC cannot execute ReceiveStream within the budget, see
// contracts/kani/transport/_not_achieved_rs_on_data.rs).  Statement-level extraction of the two decisions that
// carry the properties:
//   * C01 "when the receiver observes a clean end of stream it has read exactly the whole byte sequence the sender
//     wrote": the `if let Some(total_size) = self.receive_buffer.final_size() { .. }` statement is the only place
//     where on_data moves the stream to `DataRead` (= end of stream reported to the application without further
//     reads).  Contract: DataRead is entered only if the final size is known AND every byte up to it has been
//     consumed by the application; otherwise the state is unchanged and the buffer is not reset (no buffered byte
//     is thrown away); STOP_SENDING is only cancelled once everything up to the final size was received.
//   * C04 "peer violations rejected ... leaving its contents unchanged": the statements from `let data_end = ..` to the
//     write into the reassembly buffer: while the final size is unknown, no byte is accepted beyond the advertised
//     window -- the flow controller's verdict (layer F + X: C04/rsfc.acquire_window_up_to/*) is propagated as the
//     frame's error and the write into the buffer happens only AFTER a positive verdict.
// Callee contracts (each names the layer-F obligation that discharges it on the real callee):
//   * Reassembler::{final_size, consumed_len, total_received_len}: C01/reassembler.final_size/{some_iff_known,eq_fin},
//     C01/reassembler.consumed_len/eq_start, C01/reassembler.total_received_len/eq_start_plus_len (modular harness);
//   * Reassembler::reset: sets every cursor to its initial value (buffer/reassembler.rs; not under contract: trusted);
//   * StreamFlowController / OnceSync / PeriodicSync stop_sync: frame only.
// Extraction drops: none besides comments.  The wrapper parameters are exactly the values the statements read
// (`frame.is_fin`, `data_end`, `should_wake`).  NOT decided: the error mapping closure of `write_result.map_err`,
// the waker logic, the Stopping / Reset arms, ReceiveStream::poll_request (the application read path).

#[derive(Clone, Copy)]
pub struct VarIntX { pub v: u64 }
impl VarIntX {
    pub fn as_u64(&self) -> (r: u64) ensures r == self.v { self.v }
    // VarInt::checked_add_usize (s2n-quic-core varint; C05/X varint obligations): None iff the sum exceeds 2^62 - 1
    #[verifier::external_body]
    pub fn checked_add_usize(self, n: usize) -> (r: Option<VarIntX>)
        ensures r is Some == (self.v + n <= 4611686018427387903), r is Some ==> r->Some_0.v == self.v + n,
    { unimplemented!() }
}
#[derive(Clone, Copy)]
pub struct DataX { pub len: Ghost<int> }
impl DataX {
    #[verifier::external_body]
    pub fn len(&self) -> (r: usize) ensures r as int == self.len@ { unimplemented!() }
}
pub enum BufferError { OutOfRange, InvalidFin }

#[derive(Clone, Copy, PartialEq, Eq, Structural)]
pub struct TransportError { pub code: u64 }
impl TransportError {
    pub const FLOW_CONTROL_ERROR: TransportError = TransportError { code: 0x3 };
    pub fn with_reason(self, reason: &'static str) -> (r: TransportError) ensures r == self { self }
    pub fn with_frame_type(self, t: FrameTypeX) -> (r: TransportError) ensures r == self { self }
}
pub struct FrameTagX { pub v: u8 }
pub struct FrameTypeX { pub v: u64 }
impl FrameTagX { pub fn into(self) -> (r: FrameTypeX) { FrameTypeX { v: self.v as u64 } } }

pub struct StreamFrameX { pub offset: VarIntX, pub is_fin: bool, pub tag_v: u8, pub data: DataX }
impl StreamFrameX { pub fn tag(&self) -> (r: FrameTagX) { FrameTagX { v: self.tag_v } } }

/// abstract view of buffer::Reassembler (contracts/spec/reassembly.rs cursors): consumed prefix, contiguous bytes
/// received, optional final size
pub struct ReceiveBufferX { pub start: Ghost<int>, pub received: Ghost<int>, pub fin: Ghost<Option<int>>, pub was_reset: Ghost<bool>, pub write_attempted: Ghost<bool>, pub write_fin: Ghost<bool> }
impl ReceiveBufferX {
    pub open spec fn inv(&self) -> bool {
        &&& 0 <= self.start@ <= self.received@ <= u64::MAX
        &&& (self.fin@ is Some ==> self.received@ <= self.fin@->Some_0 <= u64::MAX)
    }
    #[verifier::external_body]
    pub fn final_size(&self) -> (r: Option<u64>)
        ensures r is Some == self.fin@ is Some, r is Some ==> r->Some_0 as int == self.fin@->Some_0,
    { unimplemented!() }
    #[verifier::external_body]
    pub fn consumed_len(&self) -> (r: u64) ensures r as int == self.start@ { unimplemented!() }
    #[verifier::external_body]
    pub fn total_received_len(&self) -> (r: u64) ensures r as int == self.received@ { unimplemented!() }
    #[verifier::external_body]
    pub fn reset(&mut self) ensures final(self).was_reset@ { unimplemented!() }
    // Reassembler::write_at / write_at_fin: ghost record THAT a write was attempted (what it stores: layer F, C01 / C16)
    #[verifier::external_body]
    pub fn write_at(&mut self, offset: VarIntX, data: DataX) -> (r: Result<(), BufferError>)
        ensures final(self).write_attempted@, final(self).write_fin@ == false, final(self).fin@ == old(self).fin@ || r is Ok,
    { unimplemented!() }
    #[verifier::external_body]
    pub fn write_at_fin(&mut self, offset: VarIntX, data: DataX) -> (r: Result<(), BufferError>)
        ensures final(self).write_attempted@, final(self).write_fin@ == true,
    { unimplemented!() }
}

pub struct SyncX { pub stopped: Ghost<bool> }
impl SyncX {
    #[verifier::external_body]
    pub fn stop_sync(&mut self) ensures final(self).stopped@ { unimplemented!() }
}

pub struct FlowControllerX { pub limit: Ghost<int>, pub stopped: Ghost<bool> }
impl FlowControllerX {
    // C04/rsfc.acquire_window_up_to/{err_iff_beyond_window, err_is_flow_control_error, err_leaves_state}: Err iff the
    // frame ends beyond what was advertised
    #[verifier::external_body]
    pub fn acquire_window_up_to(&mut self, data_end: VarIntX, frame_type: FrameTypeX) -> (r: Result<(), TransportError>)
        ensures
            r is Err <==> data_end.v as int > old(self).limit@,
            r is Err ==> r->Err_0.code == 0x3,
            final(self).limit@ == old(self).limit@, final(self).stopped@ == old(self).stopped@,
    { unimplemented!() }
}

#[derive(PartialEq, Eq, Structural)]
pub enum ReceiveStreamState { Receiving, DataRead, Other }

pub struct ReceiveStream {
    pub state: ReceiveStreamState,
    pub receive_buffer: ReceiveBufferX,
    pub flow_controller: FlowControllerX,
    pub stop_sending_sync: SyncX,
}

impl ReceiveStream {
    // ---- nothing is written into the reassembly buffer before the flow-control verdict -----------------------------------
    // statements from `let data_end = ..` up to (excluding) the error mapping of the write result
    fn on_data_check_then_write(&mut self, frame: &StreamFrameX) -> (ret: Result<Result<(), BufferError>, TransportError>)
        requires old(self).receive_buffer.inv(), !old(self).receive_buffer.write_attempted@,
        ensures
            // a frame whose end is not representable (offset + len > 2^62 - 1) is a FLOW_CONTROL_ERROR (RFC 9000 4.1 / 19.8)
            // (rejected; the error CODE on this path is built inside a closure, `ok_or_else(|| ..)`, whose result Verus does
            // not specify -- not decided here)
            frame.offset.v + frame.data.len@ > 4611686018427387903 ==> ret is Err,
            // a frame that ends beyond the advertised stream window is rejected with FLOW_CONTROL_ERROR while the final
            // size is unknown (with a known final size the buffer's own final-size check decides)
            old(self).receive_buffer.fin@ is None && frame.offset.v + frame.data.len@ > old(self).flow_controller.limit@
                ==> ret is Err && (frame.offset.v + frame.data.len@ <= 4611686018427387903 ==> ret->Err_0.code == 0x3),
            ret is Err ==> frame.offset.v + frame.data.len@ > 4611686018427387903
                || (old(self).receive_buffer.fin@ is None && frame.offset.v + frame.data.len@ > old(self).flow_controller.limit@),
            // ... and NOT A BYTE of it reaches the buffer: the write happens only after the verdict
            ret is Err ==> !final(self).receive_buffer.write_attempted@,
            final(self).receive_buffer.write_attempted@ ==> ret is Ok
                && (old(self).receive_buffer.fin@ is Some || frame.offset.v + frame.data.len@ <= old(self).flow_controller.limit@),
            ret is Ok ==> final(self).receive_buffer.write_attempted@ && final(self).receive_buffer.write_fin@ == frame.is_fin,
            final(self).state == old(self).state,
    {
//@ splice-stmts quic/s2n-quic-transport/src/stream/receive_stream.rs "ReceiveStream" on_data "from=let data_end" "until=write_result.map_err" "subst=?transport::Error=>TransportError@@?buffer::Error=>BufferError"
        Ok(write_result)
    }

    // ---- the only transition of on_data into DataRead ------------------------------------------------------------------
    fn on_data_final_size_known(&mut self, frame: &StreamFrameX, data_end: VarIntX, should_wake: bool) -> (ret: bool)
        requires
            old(self).receive_buffer.inv(),
            old(self).state == ReceiveStreamState::Receiving,
        ensures
            // clean end of stream only when the application has consumed every byte up to the final size
            final(self).state == ReceiveStreamState::DataRead ==>
                old(self).receive_buffer.fin@ is Some && old(self).receive_buffer.start@ == old(self).receive_buffer.fin@->Some_0,
            final(self).state != ReceiveStreamState::DataRead ==> final(self).state == old(self).state,
            // buffered bytes are dropped only together with that transition
            final(self).receive_buffer.was_reset@ && !old(self).receive_buffer.was_reset@ ==> final(self).state == ReceiveStreamState::DataRead,
            // STOP_SENDING is withdrawn only once the whole stream has been received
            final(self).stop_sending_sync.stopped@ && !old(self).stop_sending_sync.stopped@ ==>
                old(self).receive_buffer.fin@ is Some && old(self).receive_buffer.received@ == old(self).receive_buffer.fin@->Some_0,
            // the reader is woken when the stream is complete
            old(self).receive_buffer.fin@ is Some && old(self).receive_buffer.received@ == old(self).receive_buffer.fin@->Some_0 ==> ret,
            !ret ==> !should_wake,
    {
        let mut should_wake = should_wake;
//@ splice-stmts quic/s2n-quic-transport/src/stream/receive_stream.rs "ReceiveStream" on_data "from=if let Some(total_size) = self.receive_buffer.final_size()"
        should_wake
    }
}

// ---- ReceiveStream::init_reset (RESET_STREAM received / internal reset): the `match self.state { .. }` gate ---------------
// C04: "a RESET_STREAM whose final size contradicts the established one is FINAL_SIZE_ERROR, one that exceeds the
// advertised window is FLOW_CONTROL_ERROR, and a rejected frame leaves the stream untouched"; C01: a reset that arrives
// after the whole stream was received (or read) is ignored, so data already complete is still delivered.
pub enum ResetStreamState { Receiving, DataRead, Reset(u64), Stopping { missing: u64 } }
pub struct OptTagX { pub t: Option<u8> }
pub struct ResetFlowControllerX { pub limit: Ghost<int> }
impl ResetFlowControllerX {
    #[verifier::external_body]
    pub fn acquire_window_up_to(&mut self, data_end: VarIntX, frame_type: Option<u8>) -> (r: Result<(), TransportError>)
        ensures r is Err <==> data_end.v as int > old(self).limit@, r is Err ==> r->Err_0.code == 0x3, final(self).limit@ == old(self).limit@,
    { unimplemented!() }
}
pub fn u64_from_varint(v: VarIntX) -> (r: u64) ensures r == v.v { v.v }
impl TransportError { pub const FINAL_SIZE_ERROR: TransportError = TransportError { code: 0x6 }; }
impl From<u8> for FrameTypeX { fn from(v: u8) -> (r: FrameTypeX) { FrameTypeX { v: v as u64 } } }
impl vstd::std_specs::convert::FromSpecImpl<u8> for FrameTypeX {
    open spec fn obeys_from_spec() -> bool { false }
    open spec fn from_spec(v: u8) -> FrameTypeX { FrameTypeX { v: v as u64 } }
}

pub struct ReceiveStreamR { pub state: ResetStreamState, pub receive_buffer: ReceiveBufferX, pub flow_controller: ResetFlowControllerX, pub proceed: Ghost<bool> }
impl ReceiveStreamR {
    fn init_reset_gate(&mut self, actual_size: Option<VarIntX>, frame_tag: Option<u8>) -> (ret: Result<(), TransportError>)
        requires old(self).receive_buffer.inv(), !old(self).proceed@,
        ensures
            // nothing is reset unless control reaches the reset code, and it never does for a rejected frame
            final(self).receive_buffer == old(self).receive_buffer,
            ret is Err ==> !final(self).proceed@,
            // already reset or completely read: ignored
            (old(self).state is Reset || old(self).state is DataRead) ==> ret is Ok && !final(self).proceed@,
            // established final size contradicted => FINAL_SIZE_ERROR
            old(self).state is Receiving && old(self).receive_buffer.fin@ is Some && actual_size is Some
                && actual_size->Some_0.v as int != old(self).receive_buffer.fin@->Some_0 ==> ret is Err && ret->Err_0.code == 0x6,
            // the whole stream was already received: the reset is ignored (data stays deliverable)
            old(self).state is Receiving && old(self).receive_buffer.fin@ is Some && old(self).receive_buffer.received@ == old(self).receive_buffer.fin@->Some_0
                && (actual_size is None || actual_size->Some_0.v as int == old(self).receive_buffer.fin@->Some_0) ==> ret is Ok && !final(self).proceed@,
            // final size unknown: the announced final size must fit the advertised window
            (old(self).state is Stopping || (old(self).state is Receiving && old(self).receive_buffer.fin@ is None)) && actual_size is Some
                && actual_size->Some_0.v as int > old(self).flow_controller.limit@ ==> ret is Err && ret->Err_0.code == 0x3,
            ret is Err ==> (ret->Err_0.code == 0x6 || ret->Err_0.code == 0x3),
    {
//@ splice-stmts quic/s2n-quic-transport/src/stream/receive_stream.rs "ReceiveStream" init_reset "from=match self.state" "subst=ReceiveStreamState::=>ResetStreamState::@@Into::<u64>::into(actual_size)=>u64_from_varint(actual_size)@@?transport::Error=>TransportError"
        proof { self.proceed = Ghost(true); }
        Ok(())
    }
}

// ---- ReceiveStream::poll_request (the application's read call): the end-of-stream statement ------------------------------
// C01 "when the receiver observes a clean end of stream it has read exactly the whole byte sequence the sender wrote": the
// status handed back to the application is `Finished` (and the stream moves to DataRead, the buffer is dropped) only if the
// final size was known when the call started reading AND the application has now consumed every byte up to it; `Finishing`
// ("no more data will arrive") only if everything up to the final size has been received.
#[derive(Clone, Copy, PartialEq, Eq, Structural)]
pub enum OpsStatus { Open, Finishing, Finished, Resetting, Reset(u64) }
pub mod ops { pub use super::OpsStatus as Status; }
pub struct RxResponseX { pub status: OpsStatus }
pub struct WaiterX { pub dummy: u8 }
pub struct PollStream {
    pub state: ReceiveStreamState,
    pub receive_buffer: ReceiveBufferX,
    pub read_waiter: Option<WaiterX>,
    pub final_state_observed: bool,
}
impl PollStream {
    fn poll_request_end_of_stream(&mut self, total_size: Option<u64>, response: &mut RxResponseX)
        requires
            old(self).receive_buffer.inv(), old(self).state == ReceiveStreamState::Receiving,
            old(response).status == OpsStatus::Open,
            // `total_size` is what `self.receive_buffer.final_size()` returned a few statements earlier in the same call
            total_size is Some ==> old(self).receive_buffer.fin@ is Some && total_size->Some_0 as int == old(self).receive_buffer.fin@->Some_0,
        ensures
            // clean end reported / DataRead entered  <=>  final size known and fully consumed
            final(response).status == OpsStatus::Finished <==> total_size is Some && old(self).receive_buffer.start@ == total_size->Some_0 as int,
            final(self).state == ReceiveStreamState::DataRead <==> final(response).status == OpsStatus::Finished,
            final(self).state != ReceiveStreamState::DataRead ==> final(self).state == old(self).state,
            final(self).receive_buffer.was_reset@ && !old(self).receive_buffer.was_reset@ ==> final(response).status == OpsStatus::Finished,
            // "will not grow" only once everything up to the final size was received
            final(response).status == OpsStatus::Finishing ==> total_size is Some && old(self).receive_buffer.received@ == total_size->Some_0 as int
                && old(self).receive_buffer.start@ < total_size->Some_0 as int,
            final(response).status == OpsStatus::Open || final(response).status == OpsStatus::Finishing || final(response).status == OpsStatus::Finished,
    {
//@ splice-stmts quic/s2n-quic-transport/src/stream/receive_stream.rs "ReceiveStream" poll_request "from=if let Some(total_size) = total_size" dropstmt=debug_assert!
    }
}

// ---- ReceiveStream::poll_request: what happens to one chunk popped for the application ---------------------------------------
// C04 "buffered bytes never exceed the advertised window": the flow-control credit released for a chunk that is handed to the
// application is exactly the chunk's length (so that advertised <= consumed + window stays an equality of bookkeeping), and
// the byte / chunk counters reported to the application advance by exactly that chunk.  Statements from `let data_len = ..` to
// `*high_watermark = ..` and the two counter updates, extracted verbatim (the `mem::replace` of the placeholder chunk between
// them is not: Bytes).
pub struct ChunkX { pub n: usize }
impl ChunkX { pub fn len(&self) -> (r: usize) ensures r == self.n { self.n } }
#[derive(Debug)]
pub struct VarIntErr { pub dummy: u8 }
pub struct VarInt { pub v: u64 }
impl VarInt {
    // VarInt::try_from(usize): Ok iff the value is at most 2^62 - 1 (layer F/X varint obligations)
    #[verifier::external_body]
    pub fn try_from(n: usize) -> (r: Result<VarInt, VarIntErr>)
        ensures r is Ok == (n as int <= 4611686018427387903), r is Ok ==> r->Ok_0.v as int == n as int,
    { unimplemented!() }
}
pub struct ReleaseFcX { pub released: Ghost<int> }
impl ReleaseFcX {
    #[verifier::external_body]
    pub fn release_window(&mut self, amount: VarInt) ensures final(self).released@ == old(self).released@ + amount.v as int { unimplemented!() }
}
pub struct CountersX { pub consumed: usize }
pub struct ResponseCountersX { pub bytes: CountersX, pub chunks: CountersX }
pub struct PollStream2 { pub flow_controller: ReleaseFcX }
impl PollStream2 {
    fn poll_request_chunk_accounting(&mut self, data: ChunkX, low_watermark: &mut usize, high_watermark: &mut usize, response: &mut ResponseCountersX)
        requires
            data.n <= 0x4000_0000,          // a reassembler slot is at most 1 GiB (allocation_size, layer F)
            old(response).bytes.consumed + data.n <= usize::MAX, old(response).chunks.consumed < usize::MAX,
        ensures
            final(self).flow_controller.released@ == old(self).flow_controller.released@ + data.n as int,
            final(response).bytes.consumed == old(response).bytes.consumed + data.n,
            final(response).chunks.consumed == old(response).chunks.consumed + 1,
            *final(low_watermark) as int == (if *old(low_watermark) >= data.n { *old(low_watermark) - data.n } else { 0 }),
            *final(high_watermark) as int == (if *old(high_watermark) >= data.n { *old(high_watermark) - data.n } else { 0 }),
    {
//@ splice-stmts quic/s2n-quic-transport/src/stream/receive_stream.rs "ReceiveStream" poll_request "from=let data_len = data.len();" "to=*high_watermark = (*high_watermark)"
//@ splice-stmts quic/s2n-quic-transport/src/stream/receive_stream.rs "ReceiveStream" poll_request "from=response.bytes.consumed += data_len;" "to=response.chunks.consumed += 1;"
    }
}

// ---- ReceiveStream::on_reset (RESET_STREAM frame received), WHOLE function body ---------------------------------------------------
// C04: a RESET_STREAM that init_reset rejects (final-size contradiction / beyond the window: gate above) has NO effect: the
// error is returned before STOP_SENDING synchronisation is cancelled and before the application is woken; an accepted one
// cancels a pending STOP_SENDING (the peer has already reset) and wakes the reader exactly once.
pub struct ResetStreamFrameX { pub application_error_code: u64, pub final_size: VarIntX, pub tag_v: u8 }
impl ResetStreamFrameX { pub fn tag(&self) -> (r: u8) ensures r == self.tag_v { self.tag_v } }
pub struct StreamError { pub code: u64 }
pub struct AppErrX { pub code: u64 }
impl From<u64> for AppErrX { fn from(v: u64) -> (r: AppErrX) { AppErrX { code: v } } }
impl vstd::std_specs::convert::FromSpecImpl<u64> for AppErrX {
    open spec fn obeys_from_spec() -> bool { false }
    open spec fn from_spec(v: u64) -> AppErrX { AppErrX { code: v } }
}
impl StreamError { pub fn stream_reset(e: AppErrX) -> (r: StreamError) { StreamError { code: e.code } } }
pub struct StreamEventsX { pub dummy: u8 }
pub struct OnResetStream { pub stop_sending_sync: SyncX, pub reset_result: Ghost<Result<(), TransportError>>, pub resets: Ghost<int>, pub wakes: Ghost<int> }
impl OnResetStream {
    // ReceiveStream::init_reset: gate proved above (init_reset_gate); here an arbitrary verdict recorded as ghost input
    #[verifier::external_body]
    fn init_reset(&mut self, error: StreamError, actual_size: Option<VarIntX>, frame_tag: Option<u8>) -> (r: Result<(), TransportError>)
        ensures r == old(self).reset_result@, final(self).resets@ == old(self).resets@ + 1, final(self).stop_sending_sync == old(self).stop_sending_sync,
            final(self).wakes@ == old(self).wakes@, final(self).reset_result@ == old(self).reset_result@,
    { unimplemented!() }
    #[verifier::external_body]
    fn wake(&mut self, events: &mut StreamEventsX)
        ensures final(self).wakes@ == old(self).wakes@ + 1, final(self).stop_sending_sync == old(self).stop_sending_sync, final(self).resets@ == old(self).resets@,
    { unimplemented!() }

    fn on_reset_body(&mut self, frame: &ResetStreamFrameX, events: &mut StreamEventsX) -> (ret: Result<(), TransportError>)
        requires !old(self).stop_sending_sync.stopped@,
        ensures
            (ret is Ok) == (old(self).reset_result@ is Ok),
            // a rejected RESET_STREAM has no effect
            ret is Err ==> ret->Err_0 == old(self).reset_result@->Err_0 && !final(self).stop_sending_sync.stopped@ && final(self).wakes@ == old(self).wakes@,
            // an accepted one: STOP_SENDING is withdrawn, the reader is woken once
            ret is Ok ==> final(self).stop_sending_sync.stopped@ && final(self).wakes@ == old(self).wakes@ + 1,
            final(self).resets@ == old(self).resets@ + 1,
    {
//@ splice-stmts quic/s2n-quic-transport/src/stream/receive_stream.rs "ReceiveStream" on_reset body=1
    }
}
