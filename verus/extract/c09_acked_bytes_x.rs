//@ verus props=C09,C10 tier=quick kind=X timeout=300
// Layer X for the ACK side of C09's bookkeeping ("every sent packet is resolved exactly once ... the bytes-in-flight figure
// always equals the total size of the unresolved congestion-controlled packets") on recovery::Manager::
// process_new_acked_packets (quic/s2n-quic-transport/src/recovery/manager.rs): the loop over the newly acknowledged packets
// (statements from `let current_path_id = ..` up to the PTO-timer update) and the final `if current_path_acked_bytes > 0 { .. }`
// statement are extracted verbatim into ONE wrapper (the statements between them -- update_pto_timer, the ECN validation --
// do not touch the locals that flow from the first run into the second) and verified for ANY number of newly acknowledged
// packets on ANY number of paths (loop invariant).  Contract: for every path p, the congestion controller of p is told
// (on_ack) about exactly the sum of the recorded sizes of the newly acknowledged packets that were SENT ON p -- packets of
// other paths one by one, packets of the path the ACK arrived on as one aggregated call -- whatever `new_largest_packet` is
// (layer F decides this for two packets: C09/manager.process_new_acked_packets/*).
// Callee contracts: CongestionController::on_ack (layer F: bytes_in_flight -= bytes; ghost sum here),
// Context::path_mut_by_id / path_mut (index by path id).  `Option::is_none_or` has no vstd specification: assumed `None => true`
// (std semantics, listed as trusted).
// Extraction drops (echoed into the evidence): the closure `|(pn, _)| packet_number > pn` is rewritten `|e: (&PacketNumber, &SentPacketInfo)| packet_number > e.0` (Verus supports only variable closure parameters),
// `congestion_controller::PathPublisher::new` renamed; ghost insertions: iterator name, loop invariant, one lemma call.

global size_of usize == 8;

#[derive(Clone, Copy, PartialEq, Eq, PartialOrd, Ord, Structural)]
pub struct PacketNumber { pub v: u64 }
use vstd::std_specs::cmp::{OrdSpec, PartialOrdSpec};
impl vstd::std_specs::cmp::PartialOrdSpecImpl for PacketNumber {
    open spec fn obeys_partial_cmp_spec() -> bool { true }
    open spec fn partial_cmp_spec(&self, other: &PacketNumber) -> Option<core::cmp::Ordering> {
        if self.v < other.v { Some(core::cmp::Ordering::Less) } else if self.v == other.v { Some(core::cmp::Ordering::Equal) } else { Some(core::cmp::Ordering::Greater) }
    }
}
impl vstd::std_specs::cmp::OrdSpecImpl for PacketNumber {
    open spec fn obeys_cmp_spec() -> bool { true }
    open spec fn cmp_spec(&self, other: &PacketNumber) -> core::cmp::Ordering {
        if self.v < other.v { core::cmp::Ordering::Less } else if self.v == other.v { core::cmp::Ordering::Equal } else { core::cmp::Ordering::Greater }
    }
}
#[derive(Clone, Copy, PartialEq, Eq, Structural)]
pub struct PathId { pub v: u8 }
#[derive(Clone, Copy)]
pub struct Timestamp { pub us: u64 }
#[derive(Clone, Copy)]
pub struct EcnX { pub v: u8 }
#[derive(Clone, Copy)]
pub struct CcPacketInfoX { pub v: u64 }
pub struct SentPacketInfo { pub sent_bytes: u16, pub path_id: PathId, pub time_sent: Timestamp, pub ecn: EcnX, pub cc_packet_info: CcPacketInfoX }
pub struct EcnCounts { pub dummy: u8 }
impl EcnCounts {
    #[verifier::external_body]
    pub fn default() -> (r: EcnCounts) { unimplemented!() }
    #[verifier::external_body]
    pub fn increment(&mut self, ecn: EcnX) { unimplemented!() }
}
pub struct RandomX { pub dummy: u8 }
pub struct PubX { pub dummy: u8 }
pub struct PathPublisherX { pub dummy: u8 }
impl PathPublisherX {
    #[verifier::external_body]
    pub fn new(publisher: &mut PubX, path_id: PathId) -> (r: PathPublisherX) { unimplemented!() }
}
pub struct RttEstimatorX { pub dummy: u8 }
pub struct CongestionControllerX { pub acked: Ghost<int> }
impl CongestionControllerX {
    #[verifier::external_body]
    pub fn on_ack(&mut self, newest_acked_time_sent: Timestamp, bytes_acknowledged: usize, newest_acked_packet_info: CcPacketInfoX, rtt_estimator: &RttEstimatorX, random_generator: &mut RandomX, ack_receive_time: Timestamp, publisher: &mut PathPublisherX)
        ensures final(self).acked@ == old(self).acked@ + bytes_acknowledged as int,
    { unimplemented!() }
}
pub struct PathX { pub congestion_controller: CongestionControllerX, pub rtt_estimator: RttEstimatorX, pub validated: bool, pub backoff: u32 }
impl PathX {
    pub fn is_peer_validated(&self) -> (r: bool) ensures r == self.validated { self.validated }
    pub fn reset_pto_backoff(&mut self) ensures final(self).congestion_controller == old(self).congestion_controller { self.backoff = 1; }
}
pub struct ContextX { pub paths: Vec<PathX>, pub cur: PathId, pub confirmed: bool }
impl ContextX {
    pub fn path_id(&self) -> (r: PathId) ensures r == self.cur { self.cur }
    pub fn is_handshake_confirmed(&self) -> (r: bool) { self.confirmed }
    pub fn path_mut_by_id(&mut self, id: PathId) -> (r: &mut PathX)
        requires (id.v as int) < old(self).paths@.len(),
        ensures *r == old(self).paths@[id.v as int], final(self).cur == old(self).cur, final(self).confirmed == old(self).confirmed,
            final(self).paths@ == old(self).paths@.update(id.v as int, *final(r)),
    { &mut self.paths[id.v as usize] }
    pub fn path_mut(&mut self) -> (r: &mut PathX)
        requires (old(self).cur.v as int) < old(self).paths@.len(),
        ensures *r == old(self).paths@[old(self).cur.v as int], final(self).cur == old(self).cur, final(self).confirmed == old(self).confirmed,
            final(self).paths@ == old(self).paths@.update(old(self).cur.v as int, *final(r)),
    { &mut self.paths[self.cur.v as usize] }
}

// TRUSTED (std semantics): Option::is_none_or returns true for None (its answer for Some is the closure's, unspecified here)
pub assume_specification<T, F: FnOnce(T) -> bool> [Option::<T>::is_none_or] (o: Option<T>, f: F) -> (r: bool)
    ensures o is None ==> r;

pub open spec fn sum_by(s: Seq<(PacketNumber, SentPacketInfo)>, p: int) -> int decreases s.len() {
    if s.len() == 0 { 0 } else { sum_by(s.drop_last(), p) + (if s.last().1.path_id.v as int == p { s.last().1.sent_bytes as int } else { 0 }) }
}
pub proof fn lemma_sum_by_take(s: Seq<(PacketNumber, SentPacketInfo)>, i: int)
    requires 0 <= i < s.len()
    ensures forall|p: int| #[trigger] sum_by(s.take(i + 1), p) == sum_by(s.take(i), p) + (if s[i].1.path_id.v as int == p { s[i].1.sent_bytes as int } else { 0 }),
{
    assert(s.take(i + 1).drop_last() =~= s.take(i));
}

pub struct Manager { pub dummy: u8 }
impl Manager {
    fn process_new_acked_packets_bytes(&mut self, newly_acked_packets: &Vec<(PacketNumber, SentPacketInfo)>, new_largest_packet: bool, timestamp: Timestamp, random_generator: &mut RandomX, context: &mut ContextX, publisher: &mut PubX)
        requires
            // every sent-packet entry carries the id of an existing path (path ids index path::Manager's array)
            forall|j: int| 0 <= j < newly_acked_packets@.len() ==> (#[trigger] newly_acked_packets@[j]).1.path_id.v < old(context).paths@.len(),
            (old(context).cur.v as int) < old(context).paths@.len(),
            newly_acked_packets@.len() < 0x1_0000_0000,
        ensures
            final(context).paths@.len() == old(context).paths@.len(),
            // every path's controller is told exactly the bytes of the newly acknowledged packets that were sent on it
            forall|p: int| 0 <= p < old(context).paths@.len() ==> (#[trigger] final(context).paths@[p]).congestion_controller.acked@
                == old(context).paths@[p].congestion_controller.acked@ + sum_by(newly_acked_packets@, p),
    {
//@ splice-stmts quic/s2n-quic-transport/src/recovery/manager.rs "Manager<Config>" process_new_acked_packets "from=let current_path_id = context.path_id();" "until=self.update_pto_timer(" "subst=|(pn, _)| packet_number > pn=>|e: (&PacketNumber, &SentPacketInfo)| packet_number > e.0@@congestion_controller::PathPublisher::new=>PathPublisherX::new"
//@^ before "newly_acked_packets {" :: it:
//@^ after "newly_acked_packets" :: invariant context.paths@.len() == old(context).paths@.len(), context.cur == old(context).cur, current_path_id == old(context).cur, (old(context).cur.v as int) < old(context).paths@.len(), forall|j: int| 0 <= j < newly_acked_packets@.len() ==> (#[trigger] newly_acked_packets@[j]).1.path_id.v < old(context).paths@.len(), newly_acked_packets@.len() < 0x1_0000_0000, it.index@ <= newly_acked_packets@.len(), current_path_acked_bytes as int == sum_by(newly_acked_packets@.take(it.index@ as int), old(context).cur.v as int), current_path_acked_bytes <= 65535 * it.index@, current_path_acked_bytes > 0 ==> current_path_largest_newly_acked is Some, forall|p: int| 0 <= p < old(context).paths@.len() && p != old(context).cur.v ==> (#[trigger] context.paths@[p]).congestion_controller.acked@ == old(context).paths@[p].congestion_controller.acked@ + sum_by(newly_acked_packets@.take(it.index@ as int), p), context.paths@[old(context).cur.v as int].congestion_controller.acked@ == old(context).paths@[old(context).cur.v as int].congestion_controller.acked@,
//@^ before "let path = context.path_mut_by_id(acked_packet_info.path_id);" :: proof { lemma_sum_by_take(newly_acked_packets@, it.index@ as int); }
        proof { assert(newly_acked_packets@.take(newly_acked_packets@.len() as int) =~= newly_acked_packets@); }
//@ splice-stmts quic/s2n-quic-transport/src/recovery/manager.rs "Manager<Config>" process_new_acked_packets "from=if current_path_acked_bytes > 0" "subst=congestion_controller::PathPublisher::new=>PathPublisherX::new"
    }
}
