//@ verus props=C06,C15 tier=quick kind=X spec=sliding_window.rs timeout=300
// Layer X for the central clause of C06 at the packet-space layer -- "a packet is delivered to frame handling only if it
// authenticates, and at most once" -- on quic/s2n-quic-transport/src/space/application.rs,
// ApplicationSpace::validate_and_decrypt_packet: the statements from `let decrypted = self.key_set.decrypt_packet(..)`
// to the end of the function (the function's result included) are extracted verbatim.  Contract:
//   * the function returns a cleartext packet only if KeySet::decrypt_packet returned Ok (= the AEAD tag verified, A-aead)
//     AND the packet number is fresh in the duplicate window; in every other case it returns Err;
//   * the decryption is attempted exactly once per packet and BEFORE the duplicate verdict is used (RFC 9001 9.5);
//   * the keep-alive timer is touched only for an authentic, fresh packet; the duplicate window is not modified here
//     (it is updated by on_processed_packet after frame handling: job c06_space_dedup_x);
//   * a decryption failure is reported as the error decrypt_packet returned (C15: AEAD_LIMIT_REACHED reaches the caller).
// Callee contracts: KeySet::decrypt_packet -- layer F, C15/keyset.decrypt_packet/* (full domain with an instrumented key);
// SlidingWindow::check -- layer F, C06/sliding_window.check/*; `is_duplicate` -- proved on the real text by job
// c06_space_dedup_x (C06/X/ApplicationSpaceX::is_duplicate), restated here as an assumed contract.
// Extraction drops (echoed into the evidence): event publication statements `publisher.on_key_update( .. );`,
// `publisher.on_packet_dropped( .. );`; `Timestamp + Duration` goes through the model's Add impl.
// NOT decided: the header-protection removal before these statements (C06/short.* layer F), frame handling after.

#[derive(Clone, Copy)]
pub struct PacketNumber { pub v: u64 }
#[derive(Clone, Copy)]
pub struct Timestamp { pub us: u64 }
#[derive(Clone, Copy)]
pub struct Duration { pub ns: u64 }
impl core::ops::Add<Duration> for Timestamp {
    type Output = Timestamp;
    #[verifier::external_body]
    fn add(self, rhs: Duration) -> (r: Timestamp) { unimplemented!() }
}
impl vstd::std_specs::ops::AddSpecImpl<Duration> for Timestamp {
    open spec fn obeys_add_spec() -> bool { false }
    open spec fn add_req(self, rhs: Duration) -> bool { true }
    open spec fn add_spec(self, rhs: Duration) -> Timestamp { self }
}
#[derive(Clone, Copy)]
pub enum PacketNumberSpace { Initial, Handshake, ApplicationData }
pub struct PathId { pub id: u8 }
pub struct RttEstimatorX { pub dummy: u8 }
impl RttEstimatorX {
    #[verifier::external_body]
    pub fn pto_period(&self, backoff: u32, space: PacketNumberSpace) -> (r: Duration) { unimplemented!() }
}
pub struct PathX { pub rtt_estimator: RttEstimatorX }
pub struct PubX { pub dummy: u8 }
pub struct DatagramInfo { pub timestamp: Timestamp }

/// the protected packet after header-protection removal; `genuine` = its AEAD tag verifies under the key it selects
pub struct EncryptedShortX { pub packet_number: PacketNumber, pub genuine: Ghost<bool> }
pub struct CleartextShortX { pub packet_number: PacketNumber }
#[derive(Clone, Copy, PartialEq, Eq, Structural)]
pub enum ProcessingError { Other, DecryptError, AeadLimitReached }

pub struct KeySetX { pub calls: Ghost<int> }
impl KeySetX {
    // C15/keyset.decrypt_packet/{delivered_iff_authentic_under_selected_key, aead_limit_reached_iff_failures_at_integrity_limit}
    #[verifier::external_body]
    pub fn decrypt_packet(&mut self, packet: EncryptedShortX, largest_acked: PacketNumber, pto: Timestamp) -> (r: Result<(CleartextShortX, Option<u16>), ProcessingError>)
        ensures
            r is Ok == packet.genuine@,
            r is Ok ==> r->Ok_0.0.packet_number == packet.packet_number,
            r is Err ==> r->Err_0 != ProcessingError::Other,
            final(self).calls@ == old(self).calls@ + 1,
    { unimplemented!() }
}
pub struct KeepAliveX { pub resets: Ghost<int> }
impl KeepAliveX {
    #[verifier::external_body]
    pub fn reset(&mut self, t: Timestamp) ensures final(self).resets@ == old(self).resets@ + 1 { unimplemented!() }
}

pub struct WindowX { pub has_edge: Ghost<bool>, pub edge: Ghost<int>, pub seen: Ghost<Set<int>> }
pub open spec fn fresh(w: WindowX, pn: PacketNumber) -> bool {
    sw_status(w.has_edge@, w.edge@, pn.v as int, w.seen@.contains(pn.v as int)) == sw_ok()
}

pub struct ApplicationSpace { pub key_set: KeySetX, pub keep_alive: KeepAliveX, pub processed_packet_numbers: WindowX }
impl ApplicationSpace {
    // proved on the real text: C06/X/ApplicationSpaceX::is_duplicate (job c06_space_dedup_x)
    #[verifier::external_body]
    fn is_duplicate(&self, packet_number: PacketNumber, path_id: PathId, path: &PathX, publisher: &mut PubX) -> (r: bool)
        ensures r == !fresh(self.processed_packet_numbers, packet_number),
    { unimplemented!() }

    fn validate_and_decrypt_packet_after_unprotect(&mut self, packet: EncryptedShortX, largest_acked: PacketNumber, datagram: &DatagramInfo, path_id: PathId, path: &PathX, publisher: &mut PubX) -> (ret: Result<CleartextShortX, ProcessingError>)
        ensures
            // only an authentic packet with a fresh packet number reaches frame handling
            ret is Ok <==> packet.genuine@ && fresh(old(self).processed_packet_numbers, packet.packet_number),
            // (WHICH cleartext is returned -- `decrypted.map(|x| x.0)` -- is a closure result Verus does not specify: not decided)
            // a duplicate is `Other` (dropped silently) whether or not it authenticates; a forgery is the decrypt error
            !fresh(old(self).processed_packet_numbers, packet.packet_number) ==> ret == Err::<CleartextShortX, ProcessingError>(ProcessingError::Other),
            fresh(old(self).processed_packet_numbers, packet.packet_number) && !packet.genuine@ ==> ret is Err && ret->Err_0 != ProcessingError::Other,
            // exactly one decryption attempt, also for duplicates (constant-time rule of RFC 9001 9.5)
            final(self).key_set.calls@ == old(self).key_set.calls@ + 1,
            // no other state is touched unless the packet is authentic and fresh
            final(self).keep_alive.resets@ == old(self).keep_alive.resets@ + (if ret is Ok { 1int } else { 0int }),
            final(self).processed_packet_numbers == old(self).processed_packet_numbers,
    {
        let packet_number = packet.packet_number;
//@ splice-stmts quic/s2n-quic-transport/src/space/application.rs "ApplicationSpace<Config>" validate_and_decrypt_packet "from=let decrypted = self.key_set.decrypt_packet(" "to=decrypted.map(" dropstmt=publisher.on_key_update@@publisher.on_packet_dropped
    }
}

// ---- HandshakeSpace / InitialSpace::validate_and_decrypt_packet: the delivery rule after decryption ------------------
// statements from the duplicate gate to the end of the function (the `packet.decrypt(&self.key).inspect_err(..)` call
// before them carries an event-publishing closure and is not extracted: `decrypted` is the wrapper's parameter)
pub struct CleartextX { pub packet_number: PacketNumber, pub tag: u64 }
pub struct HandshakeSpace { pub processed_packet_numbers: WindowX }
impl HandshakeSpace {
    #[verifier::external_body]
    fn is_duplicate(&self, packet_number: PacketNumber, path_id: PathId, path: &PathX, publisher: &mut PubX) -> (r: bool)
        ensures r == !fresh(self.processed_packet_numbers, packet_number),   // C06/X/HandshakeSpaceX::is_duplicate
    { unimplemented!() }
    fn validate_and_decrypt_packet_delivery(&self, decrypted: Result<CleartextX, ProcessingError>, packet_number: PacketNumber, path_id: PathId, path: &PathX, publisher: &mut PubX) -> (ret: Result<CleartextX, ProcessingError>)
        ensures
            ret is Ok <==> decrypted is Ok && fresh(self.processed_packet_numbers, packet_number),
            ret is Ok ==> ret->Ok_0 == decrypted->Ok_0,
            !fresh(self.processed_packet_numbers, packet_number) ==> ret == Err::<CleartextX, ProcessingError>(ProcessingError::Other),
            fresh(self.processed_packet_numbers, packet_number) && decrypted is Err ==> ret == decrypted,
    {
//@ splice-stmts quic/s2n-quic-transport/src/space/handshake.rs "HandshakeSpace<Config>" validate_and_decrypt_packet "from=if self.is_duplicate(" "to=Ok(decrypted)"
    }
}
pub struct InitialSpace { pub processed_packet_numbers: WindowX }
impl InitialSpace {
    #[verifier::external_body]
    fn is_duplicate(&self, packet_number: PacketNumber, path_id: PathId, path: &PathX, publisher: &mut PubX) -> (r: bool)
        ensures r == !fresh(self.processed_packet_numbers, packet_number),   // C06/X/InitialSpaceX::is_duplicate
    { unimplemented!() }
    fn initial_validate_and_decrypt_packet_delivery(&self, decrypted: Result<CleartextX, ProcessingError>, packet_number: PacketNumber, path_id: PathId, path: &PathX, publisher: &mut PubX) -> (ret: Result<CleartextX, ProcessingError>)
        ensures
            ret is Ok <==> decrypted is Ok && fresh(self.processed_packet_numbers, packet_number),
            ret is Ok ==> ret->Ok_0 == decrypted->Ok_0,
            !fresh(self.processed_packet_numbers, packet_number) ==> ret == Err::<CleartextX, ProcessingError>(ProcessingError::Other),
            fresh(self.processed_packet_numbers, packet_number) && decrypted is Err ==> ret == decrypted,
    {
//@ splice-stmts quic/s2n-quic-transport/src/space/initial.rs "InitialSpace<Config>" validate_and_decrypt_packet "from=if self.is_duplicate(" "to=let decrypted = decrypted"
        // (the client-side retry-token check that follows in the real function is not extracted)
        Ok(decrypted)
    }
}
