//@ verus props=C09 tier=quick kind=X timeout=300
// Layer X for the core clause of C09 -- "a sent packet is declared lost only if a packet sent after it has been
// acknowledged and it is either at least three packet numbers older than the largest acknowledged packet or was sent
// more than 9/8 of the current RTT estimate earlier" -- on the WHOLE real function recovery::Manager::detect_lost_packets
// (quic/s2n-quic-transport/src/recovery/manager.rs), including its loop over the sent-packet map with both `break`s,
// for a map of ANY length (loop invariant; CBMC gave no result on this loop in 50 min, layer F covers it for one or two
// packets only).  Proved:
//   * every packet reported to the congestion controller / stream layer as lost (`context.on_packet_loss`) is an
//     entry of the sent-packet map with a packet number below the largest acknowledged one for which loss::detect,
//     called with the time threshold of THE PATH THE PACKET WAS SENT ON (rtt_estimator.loss_time_threshold()), its own
//     send time, kPacketThreshold (3), the largest acknowledged packet number and `now`, answered Lost;
//   * they are reported once each, in map order, and form a PREFIX of the map; the returned range (which
//     remove_lost_packets deletes from the map) is exactly [first reported, last reported] -- so no packet is
//     removed as lost that was not declared lost;
//   * the loss timer is armed and the PTO timer cancelled only when some packet is NotLostYet.
// Callee contract: loss::detect is an uninterpreted function of its six arguments here; what it computes is layer F
// (C09/loss.detect/* on the real function, full domain, strict form = known finding).  RttEstimator::loss_time_threshold:
// C09/rtt.loss_time_threshold/*.  persistent_congestion::Calculator, timers: frame only.
// Extraction drops (echoed into the evidence): generic parameter list and parameter types renamed to the model types;
// the `debug_assert!` statement; the model iterator yields `&(PacketNumber, SentPacketInfo)` where the real map iterator
// yields `(PacketNumber, &SentPacketInfo)`: one shadowing `let unacked_packet_number = *unacked_packet_number;` is
// inserted at the top of the loop body (binding-mode adaptation); ghost insertions: iterator name, loop invariants.
// NOT decided: remove_lost_packets, process_acks, the PTO logic, that sent_packets is ordered (C16 pn_map obligations).

#[derive(Clone, Copy, PartialEq, Eq, PartialOrd, Ord, Structural)]
pub struct PacketNumber { pub v: u64 }
use vstd::std_specs::cmp::{OrdSpec, PartialOrdSpec};
// TRUSTED (language semantics): derive(PartialOrd, Ord) on a single-field struct is the order of the field
impl vstd::std_specs::cmp::PartialOrdSpecImpl for PacketNumber {
    open spec fn obeys_partial_cmp_spec() -> bool { true }
    open spec fn partial_cmp_spec(&self, other: &PacketNumber) -> Option<core::cmp::Ordering> {
        if self.v < other.v { Some(core::cmp::Ordering::Less) } else if self.v == other.v { Some(core::cmp::Ordering::Equal) } else { Some(core::cmp::Ordering::Greater) }
    }
}
impl vstd::std_specs::cmp::OrdSpecImpl for PacketNumber {
    open spec fn obeys_cmp_spec() -> bool { true }
    open spec fn cmp_spec(&self, other: &PacketNumber) -> core::cmp::Ordering {
        if self.v < other.v { core::cmp::Ordering::Less } else if self.v == other.v { core::cmp::Ordering::Equal } else { core::cmp::Ordering::Greater }
    }
}

#[derive(Clone, Copy, PartialEq, Eq, Structural)]
pub struct Timestamp { pub us: u64 }
#[derive(Clone, Copy, PartialEq, Eq, Structural)]
pub struct Duration { pub ns: u64 }
#[derive(Clone, Copy, PartialEq, Eq, Structural)]
pub struct PathId { pub v: u8 }
pub struct SentPacketInfo { pub time_sent: Timestamp, pub path_id: PathId, pub sent_bytes: u16 }
pub struct PubX { pub dummy: u8 }

#[derive(Clone, Copy, PartialEq, Eq, Structural)]
pub struct PacketNumberRange { pub start: PacketNumber, pub end: PacketNumber }
impl PacketNumberRange {
    pub fn new(start: PacketNumber, end: PacketNumber) -> (r: PacketNumberRange) ensures r.start == start, r.end == end { PacketNumberRange { start, end } }
}

/// RFC 9002 6.1 decision, as computed by s2n_quic_core::recovery::loss::detect (layer F: C09/loss.detect/*)
pub uninterp spec fn rfc9002_lost(time_threshold: Duration, time_sent: Timestamp, packet_threshold: u64, pn: PacketNumber, largest_acked: PacketNumber, now: Timestamp) -> bool;

pub mod loss {
    use vstd::prelude::*;
    use super::*;
    pub enum Outcome { NotLostYet { lost_time: Timestamp }, Lost }
    pub const K_PACKET_THRESHOLD: u64 = 3;
    #[verifier::external_body]
    pub fn detect(time_threshold: Duration, time_sent: Timestamp, packet_number_threshold: u64, packet_number: PacketNumber, largest_acked_packet_number: PacketNumber, now: Timestamp) -> (r: Outcome)
        requires packet_number.v < largest_acked_packet_number.v,   // the function's own debug_assert!
        ensures (r is Lost) == rfc9002_lost(time_threshold, time_sent, packet_number_threshold, packet_number, largest_acked_packet_number, now),
    { unimplemented!() }
}

pub struct RttEstimatorX { pub threshold: Duration }
impl RttEstimatorX {
    #[verifier::external_body]
    pub fn first_rtt_sample(&self) -> (r: Option<Timestamp>) { unimplemented!() }
    #[verifier::external_body]
    pub fn loss_time_threshold(&self) -> (r: Duration) ensures r == self.threshold { unimplemented!() }
}
pub struct PathX { pub rtt_estimator: RttEstimatorX }

pub mod persistent_congestion {
    use vstd::prelude::*;
    use super::*;
    pub struct Calculator { pub dummy: u8 }
    impl Calculator {
        #[verifier::external_body]
        pub fn new(first_rtt_sample: Option<Timestamp>, path_id: PathId) -> (r: Calculator) { unimplemented!() }
        #[verifier::external_body]
        pub fn on_lost_packet(&mut self, packet_number: PacketNumber, info: &SentPacketInfo) { unimplemented!() }
        #[verifier::external_body]
        pub fn persistent_congestion_duration(&self) -> (r: Duration) { unimplemented!() }
    }
}

/// recovery::Context: the paths (by id) and a ghost log of the packet-number ranges reported lost
pub struct ContextX { pub paths: Ghost<Map<int, PathX>>, pub lost_log: Ghost<Seq<PacketNumberRange>> }
impl ContextX {
    #[verifier::external_body]
    pub fn path(&self) -> (r: &PathX) { unimplemented!() }
    #[verifier::external_body]
    pub fn path_id(&self) -> (r: PathId) { unimplemented!() }
    #[verifier::external_body]
    pub fn path_by_id(&self, path_id: PathId) -> (r: &PathX) ensures *r == self.paths@[path_id.v as int] { unimplemented!() }
    #[verifier::external_body]
    pub fn on_packet_loss(&mut self, range: &PacketNumberRange, publisher: &mut PubX)
        ensures final(self).lost_log@ == old(self).lost_log@.push(*range), final(self).paths@ == old(self).paths@,
    { unimplemented!() }
}

pub struct TimerX { pub armed: Ghost<bool> }
impl TimerX {
    #[verifier::external_body]
    pub fn set(&mut self, t: Timestamp) ensures final(self).armed@ { unimplemented!() }
}
pub struct PtoX { pub cancelled: Ghost<bool> }
impl PtoX {
    #[verifier::external_body]
    pub fn cancel(&mut self) ensures final(self).cancelled@ { unimplemented!() }
}

pub struct Manager {
    pub sent_packets: Vec<(PacketNumber, SentPacketInfo)>,
    pub largest_acked_packet: Option<PacketNumber>,
    pub loss_timer: TimerX,
    pub pto: PtoX,
}

/// the RFC 9002 6.1 condition for entry j of the sent-packet map, with the threshold of the path it was sent on
pub open spec fn entry_lost(s: Seq<(PacketNumber, SentPacketInfo)>, j: int, paths: Map<int, PathX>, largest: PacketNumber, now: Timestamp) -> bool {
    &&& s[j].0.v < largest.v
    &&& rfc9002_lost(paths[s[j].1.path_id.v as int].rtt_estimator.threshold, s[j].1.time_sent, 3, s[j].0, largest, now)
}
pub open spec fn prefix_lost(s: Seq<(PacketNumber, SentPacketInfo)>, k: int, paths: Map<int, PathX>, largest: PacketNumber, now: Timestamp) -> bool {
    forall|j: int| 0 <= j < k ==> #[trigger] entry_lost(s, j, paths, largest, now)
}
pub open spec fn log_is_prefix(log: Seq<PacketNumberRange>, base: int, s: Seq<(PacketNumber, SentPacketInfo)>) -> bool {
    forall|j: int| 0 <= j < log.len() - base ==> #[trigger] log[base + j] == (PacketNumberRange { start: s[j].0, end: s[j].0 })
}

pub open spec fn detect_post(s: Seq<(PacketNumber, SentPacketInfo)>, old_log: Seq<PacketNumberRange>, new_log: Seq<PacketNumberRange>, paths: Map<int, PathX>,
    largest: PacketNumber, now: Timestamp, range: Option<PacketNumberRange>) -> bool {
    let base = old_log.len() as int;
    let k = new_log.len() - base;
    &&& 0 <= k <= s.len()
    &&& new_log.take(base) =~= old_log
    // every reported packet satisfies the RFC 9002 6.1 condition with the threshold of its own path
    &&& prefix_lost(s, k, paths, largest, now)
    // reported once each, in map order: the k first entries of the map
    &&& log_is_prefix(new_log, base, s)
    // the range to be removed from the map is exactly [first reported, last reported]
    &&& (range is Some) == (k > 0)
    &&& (k > 0 ==> range->Some_0 == (PacketNumberRange { start: s[0].0, end: s[k - 1].0 }))
}

impl Manager {
//@ splice-fn quic/s2n-quic-transport/src/recovery/manager.rs "Manager<Config>" detect_lost_packets vis=strip dropstmt=debug_assert! "subst=<Ctx: Context<Config>, Pub: event::ConnectionPublisher>=>@@&mut Ctx=>&mut ContextX@@&mut Pub=>&mut PubX@@self.sent_packets.iter() {=>self.sent_packets.iter() { let unacked_packet_number = *unacked_packet_number;"
//@| requires
//@|     old(self).largest_acked_packet is Some,
//@|     // the largest acknowledged packet was removed from the map when it was acknowledged (process_ack_range)
//@|     forall|j: int| 0 <= j < old(self).sent_packets@.len() ==> (#[trigger] old(self).sent_packets@[j]).0 != old(self).largest_acked_packet->Some_0,
//@| ensures
//@|     detect_post(old(self).sent_packets@, old(context).lost_log@, final(context).lost_log@, old(context).paths@, old(self).largest_acked_packet->Some_0, now, ret.1),
//@|     final(self).sent_packets@ == old(self).sent_packets@,
//@|     final(self).largest_acked_packet == old(self).largest_acked_packet,
//@|     final(context).paths@ == old(context).paths@,
//@^ before "self.sent_packets.iter()" :: it:
//@^ after "self.sent_packets.iter()" :: invariant_except_break context.lost_log@.len() - old(context).lost_log@.len() == it.index@, invariant 0 <= context.lost_log@.len() - old(context).lost_log@.len() <= it.index@, it.index@ <= self.sent_packets@.len(), self.sent_packets@ == old(self).sent_packets@, self.largest_acked_packet == old(self).largest_acked_packet, largest_acked_packet == old(self).largest_acked_packet->Some_0, context.paths@ == old(context).paths@, context.lost_log@.take(old(context).lost_log@.len() as int) =~= old(context).lost_log@, forall|j: int| 0 <= j < old(self).sent_packets@.len() ==> (#[trigger] old(self).sent_packets@[j]).0 != old(self).largest_acked_packet->Some_0, prefix_lost(self.sent_packets@, context.lost_log@.len() - old(context).lost_log@.len(), context.paths@, largest_acked_packet, now), log_is_prefix(context.lost_log@, old(context).lost_log@.len() as int, self.sent_packets@), smallest_lost_packet is Some == (context.lost_log@.len() > old(context).lost_log@.len()), largest_lost_packet is Some == (context.lost_log@.len() > old(context).lost_log@.len()), context.lost_log@.len() > old(context).lost_log@.len() ==> smallest_lost_packet->Some_0 == self.sent_packets@[0].0 && largest_lost_packet->Some_0 == self.sent_packets@[context.lost_log@.len() - old(context).lost_log@.len() - 1].0,
}
