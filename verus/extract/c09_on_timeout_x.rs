//@ verus props=C09 tier=quick kind=X timeout=300
// Layer X for two clauses of C09 -- "a probe-timeout expiry alone never marks packets lost" and "the probe timeout ...
// doubles with each consecutive expiry" -- on recovery::Manager::on_timeout (quic/s2n-quic-transport/src/recovery/
// manager.rs): the `if self.loss_timer.is_armed() { .. } else { .. }` statement is extracted verbatim.  Contract:
//   * loss detection (detect_and_remove_lost_packets, the only function that declares packets lost: job
//     c09_detect_lost_x) runs only if the LOSS timer was armed and has expired -- never on the PTO branch
//     (RFC 9002 6.2: "A PTO timer expiration event does not indicate packet loss and MUST NOT cause prior
//     unacknowledged packets to be marked as lost");
//   * when the PTO timer expires the active path's backoff becomes min(2 * backoff, max_pto_backoff); otherwise it is
//     unchanged; the PTO timer is re-armed (update_pto_timer) exactly after a loss-timer expiry or a PTO expiry.
// Callee contracts: Timer::{is_armed, poll_expiration}, Pto::on_timeout (layer F: C09/pto.on_timeout/*) are
// uninterpreted answers recorded as ghost inputs; detect_and_remove_lost_packets / update_pto_timer are ghost flags.
// Precondition (call-site fact, space/mod.rs PacketSpaceManager::on_timeout): pto_backoff <= max_pto_backoff, and
// pto_backoff < 2^31 so that `pto_backoff * 2` cannot overflow -- NOT enforced by the code for backoffs >= 2^31 (an
// observation recorded in DESIGN.md: unreachable, a connection idles out long before 31 consecutive PTO expiries).
// Extraction drops: generic parameter types renamed through the wrapper's signature only (no substitution in the text).

#[derive(Clone, Copy)]
pub struct Timestamp { pub us: u64 }
pub struct PollX { pub ready: bool }
impl PollX { pub fn is_ready(&self) -> (r: bool) ensures r == self.ready { self.ready } }
pub struct RandomX { pub dummy: u8 }
pub struct PubX { pub dummy: u8 }

pub struct TimerX { pub armed: bool, pub expired_now: bool }
impl TimerX {
    pub fn is_armed(&self) -> (r: bool) ensures r == self.armed { self.armed }
    #[verifier::external_body]
    pub fn poll_expiration(&mut self, now: Timestamp) -> (r: PollX)
        ensures r.ready == (old(self).armed && old(self).expired_now), final(self).expired_now == old(self).expired_now,
    { unimplemented!() }
}
pub struct PtoX { pub will_expire: bool, pub asked_with_packets: Ghost<Option<bool>> }
impl PtoX {
    #[verifier::external_body]
    pub fn on_timeout(&mut self, packets_in_flight: bool, timestamp: Timestamp) -> (r: PollX)
        ensures r.ready == old(self).will_expire, final(self).asked_with_packets@ == Some(packets_in_flight), final(self).will_expire == old(self).will_expire,
    { unimplemented!() }
}
pub struct SentPacketsX { pub empty: bool }
impl SentPacketsX { pub fn is_empty(&self) -> (r: bool) ensures r == self.empty { self.empty } }

pub struct PathX { pub pto_backoff: u32 }
pub struct ContextX { pub path: PathX, pub confirmed: bool }
impl ContextX {
    pub fn active_path(&self) -> (r: &PathX) ensures *r == self.path { &self.path }
    pub fn active_path_mut(&mut self) -> (r: &mut PathX)
        ensures *r == old(self).path, final(self).path == *final(r), final(self).confirmed == old(self).confirmed,
    { &mut self.path }
    pub fn is_handshake_confirmed(&self) -> (r: bool) ensures r == self.confirmed { self.confirmed }
}

pub struct Manager {
    pub loss_timer: TimerX,
    pub pto: PtoX,
    pub sent_packets: SentPacketsX,
    pub loss_detection_runs: Ghost<int>,
    pub pto_rearmed: Ghost<int>,
}
impl Manager {
    #[verifier::external_body]
    fn detect_and_remove_lost_packets(&mut self, now: Timestamp, random_generator: &mut RandomX, context: &mut ContextX, publisher: &mut PubX)
        ensures
            final(self).loss_detection_runs@ == old(self).loss_detection_runs@ + 1, final(self).pto_rearmed@ == old(self).pto_rearmed@,
            final(context).path.pto_backoff == old(context).path.pto_backoff, final(context).confirmed == old(context).confirmed,
            final(self).pto == old(self).pto, final(self).sent_packets == old(self).sent_packets,
    { unimplemented!() }
    #[verifier::external_body]
    fn update_pto_timer(&mut self, path: &PathX, now: Timestamp, is_handshake_confirmed: bool, random_generator: &mut RandomX)
        ensures
            final(self).pto_rearmed@ == old(self).pto_rearmed@ + 1, final(self).loss_detection_runs@ == old(self).loss_detection_runs@,
            final(self).pto.asked_with_packets@ == old(self).pto.asked_with_packets@,
    { unimplemented!() }

    fn on_timeout_timers(&mut self, timestamp: Timestamp, random_generator: &mut RandomX, max_pto_backoff: u32, context: &mut ContextX, publisher: &mut PubX)
        requires
            old(context).path.pto_backoff <= max_pto_backoff,
            old(context).path.pto_backoff < 0x8000_0000,
        ensures
            // packets are declared lost only on a loss-timer expiry
            final(self).loss_detection_runs@ == old(self).loss_detection_runs@ + (if old(self).loss_timer.armed && old(self).loss_timer.expired_now { 1int } else { 0int }),
            // a PTO expiry (possible only while no loss timer is armed) doubles the backoff, capped
            !old(self).loss_timer.armed && old(self).pto.will_expire
                ==> final(context).path.pto_backoff as int == (if 2 * old(context).path.pto_backoff <= max_pto_backoff { 2 * old(context).path.pto_backoff } else { max_pto_backoff as int }),
            old(self).loss_timer.armed || !old(self).pto.will_expire ==> final(context).path.pto_backoff == old(context).path.pto_backoff,
            // the PTO timer is told whether ack-eliciting data can still be outstanding (RFC 9002 6.2.1)
            !old(self).loss_timer.armed ==> final(self).pto.asked_with_packets@ == Some(!old(self).sent_packets.empty),
            final(self).pto_rearmed@ == old(self).pto_rearmed@ + (if (old(self).loss_timer.armed && old(self).loss_timer.expired_now) || (!old(self).loss_timer.armed && old(self).pto.will_expire) { 1int } else { 0int }),
    {
//@ splice-stmts quic/s2n-quic-transport/src/recovery/manager.rs "Manager<Config>" on_timeout "from=if self.loss_timer.is_armed()"
    }
}
