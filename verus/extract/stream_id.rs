//@ verus props=C12,C03 tier=quick kind=X timeout=300
// Layer X: StreamId arithmetic (RFC 9000 2.1: ids of one type are spaced by 4, the two low bits carry
// the type), extracted verbatim and verified on top of the VarInt kernel of varint_arith.rs.
//@ include-job varint_arith.rs

// `EndpointType` is renamed to `EndpointType` (a nested module triggers an internal Verus error)
//@ splice-item quic/s2n-quic-core/src/endpoint/mod.rs "pub enum Type" derive=Clone,Copy,PartialEq,Eq,Structural "subst=pub enum Type=>pub enum EndpointType"
//@ splice-item quic/s2n-quic-core/src/stream/type_.rs "pub enum StreamType" derive=Clone,Copy,PartialEq,Eq,Structural
//@ splice-item quic/s2n-quic-core/src/stream/id.rs "pub struct StreamId(" derive=PartialEq,Eq,PartialOrd,Ord,Copy,Clone,Structural "subst=(VarInt)=>(pub VarInt)"

// TRUSTED (language semantics): derived PartialOrd/Ord on the single-field tuple struct StreamId(VarInt) is the
// order of the field, i.e. of the u64 inside.
impl vstd::std_specs::cmp::PartialOrdSpecImpl for StreamId {
    open spec fn obeys_partial_cmp_spec() -> bool { true }
    open spec fn partial_cmp_spec(&self, other: &StreamId) -> Option<core::cmp::Ordering> {
        if self.0.0 < other.0.0 { Some(core::cmp::Ordering::Less) } else if self.0.0 == other.0.0 { Some(core::cmp::Ordering::Equal) } else { Some(core::cmp::Ordering::Greater) }
    }
}
impl vstd::std_specs::cmp::OrdSpecImpl for StreamId {
    open spec fn obeys_cmp_spec() -> bool { true }
    open spec fn cmp_spec(&self, other: &StreamId) -> core::cmp::Ordering {
        if self.0.0 < other.0.0 { core::cmp::Ordering::Less } else if self.0.0 == other.0.0 { core::cmp::Ordering::Equal } else { core::cmp::Ordering::Greater }
    }
}

// ambient bit-vector facts for the two type bits (proved by Z3's bit-vector theory, made available to the
// verbatim bodies, which cannot carry proof annotations)
mod bits {
use vstd::prelude::*;
pub broadcast proof fn lemma_bit0(x: u64)
    ensures #[trigger] (x & 1u64) == x % 2,
{
    assert((x & 1u64) == x % 2) by (bit_vector);
}
pub broadcast proof fn lemma_bit1(x: u64)
    ensures #[trigger] (x & 2u64) == 2 * ((x / 2) % 2),
{
    assert((x & 2u64) == 2 * ((x / 2) % 2)) by (bit_vector);
}
}
broadcast use {bits::lemma_bit0, bits::lemma_bit1};

pub open spec fn type_bits(initiator: EndpointType, stream_type: StreamType) -> int {
    (if stream_type == StreamType::Bidirectional { 0int } else { 2int }) + (if initiator == EndpointType::Client { 0int } else { 1int })
}

impl StreamId {
//@ splice-fn quic/s2n-quic-core/src/stream/id.rs "StreamId" from_varint vis=strip
//@| ensures ret.0 == id,

//@ splice-fn quic/s2n-quic-core/src/stream/id.rs "StreamId" as_varint vis=strip
//@| ensures ret == self.0,

//@ splice-fn quic/s2n-quic-core/src/stream/id.rs "StreamId" initial vis=strip "subst=endpoint::Type=>EndpointType"
//@| ensures ret.0.0 == type_bits(initiator, stream_type),

//@ splice-fn quic/s2n-quic-core/src/stream/id.rs "StreamId" nth vis=strip "subst=initial.into()=>initial.0.as_u64()@@endpoint::Type=>EndpointType"
//@| ensures
//@|     4 * n + type_bits(initiator, stream_type) <= MAX_VARINT_VALUE ==> ret is Some && ret->Some_0.0.0 == 4 * n + type_bits(initiator, stream_type),
//@|     4 * n + type_bits(initiator, stream_type) > MAX_VARINT_VALUE ==> ret is None,

//@ splice-fn quic/s2n-quic-core/src/stream/id.rs "StreamId" next_of_type vis=strip
//@| ensures
//@|     self.0.0 + 4 <= MAX_VARINT_VALUE ==> ret is Some && ret->Some_0.0.0 == self.0.0 + 4,
//@|     self.0.0 + 4 > MAX_VARINT_VALUE ==> ret is None,

//@ splice-fn quic/s2n-quic-core/src/stream/id.rs "StreamId" initiator vis=strip "subst=endpoint::Type=>EndpointType@@Into::<u64>::into(self.0)=>self.0.as_u64()"
//@| ensures ret == (if self.0.0 % 2 == 0 { EndpointType::Client } else { EndpointType::Server }),

//@ splice-fn quic/s2n-quic-core/src/stream/id.rs "StreamId" stream_type vis=strip "subst=Into::<u64>::into(self.0)=>self.0.as_u64()"
//@| ensures ret == (if (self.0.0 / 2) % 2 == 0 { StreamType::Bidirectional } else { StreamType::Unidirectional }),
}

// the type bits recovered from an id are its two low bits: id == 4 * (id / 4) + type_bits(initiator(id), stream_type(id))
proof fn lemma_type_bits_of_id(id: u64)
    ensures type_bits(if id % 2 == 0 { EndpointType::Client } else { EndpointType::Server },
                      if (id / 2) % 2 == 0 { StreamType::Bidirectional } else { StreamType::Unidirectional }) == id % 4,
{
}
