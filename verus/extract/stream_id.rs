//@ verus props=C12,C03 tier=quick kind=X timeout=300
// Layer X: StreamId arithmetic (RFC 9000 2.1: ids of one type are spaced by 4, the two low bits carry
// the type), extracted verbatim and verified on top of the VarInt kernel of varint_arith.rs.
//@ include-job varint_arith.rs

// `EndpointType` is renamed to `EndpointType` (a nested module triggers an internal Verus error)
//@ splice-item quic/s2n-quic-core/src/endpoint/mod.rs "pub enum Type" derive=Clone,Copy,PartialEq,Eq,Structural "subst=pub enum Type=>pub enum EndpointType"
//@ splice-item quic/s2n-quic-core/src/stream/type_.rs "pub enum StreamType" derive=Clone,Copy,PartialEq,Eq,Structural
//@ splice-item quic/s2n-quic-core/src/stream/id.rs "pub struct StreamId("

impl Clone for StreamId { fn clone(&self) -> Self { StreamId(self.0) } }
impl Copy for StreamId {}

spec fn type_bits(initiator: EndpointType, stream_type: StreamType) -> int {
    (if stream_type == StreamType::Bidirectional { 0int } else { 2int }) + (if initiator == EndpointType::Client { 0int } else { 1int })
}

impl StreamId {
//@ splice-fn quic/s2n-quic-core/src/stream/id.rs "StreamId" from_varint vis=strip
//@| ensures ret.0 == id,

//@ splice-fn quic/s2n-quic-core/src/stream/id.rs "StreamId" as_varint vis=strip
//@| ensures ret == self.0,

//@ splice-fn quic/s2n-quic-core/src/stream/id.rs "StreamId" initial vis=strip "subst=endpoint::Type=>EndpointType"
//@| ensures ret.0.0 == type_bits(initiator, stream_type),

//@ splice-fn quic/s2n-quic-core/src/stream/id.rs "StreamId" nth vis=strip "subst=initial.into()=>initial.0.as_u64()@@endpoint::Type=>EndpointType"
//@| ensures
//@|     4 * n + type_bits(initiator, stream_type) <= MAX_VARINT_VALUE ==> ret is Some && ret->Some_0.0.0 == 4 * n + type_bits(initiator, stream_type),
//@|     4 * n + type_bits(initiator, stream_type) > MAX_VARINT_VALUE ==> ret is None,

//@ splice-fn quic/s2n-quic-core/src/stream/id.rs "StreamId" next_of_type vis=strip
//@| ensures
//@|     self.0.0 + 4 <= MAX_VARINT_VALUE ==> ret is Some && ret->Some_0.0.0 == self.0.0 + 4,
//@|     self.0.0 + 4 > MAX_VARINT_VALUE ==> ret is None,
}
