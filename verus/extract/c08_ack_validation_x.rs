//@ verus props=C08,C09 tier=quick kind=X timeout=300
// Layer X for "an ACK that names a packet number the endpoint never sent is a connection error, and is noticed BEFORE the ACK
// has any effect" (RFC 9000 13.1: "An endpoint SHOULD treat receipt of an acknowledgment for a packet it did not send as a
// connection error of type PROTOCOL_VIOLATION"; C08 'TxPacketNumbers: ACK of an unsent packet rejected', C09 'resolved exactly
// once'): the two statements at the top of the per-range loop of recovery::Manager::process_ack_range
// (quic/s2n-quic-transport/src/recovery/manager.rs) and the pass-through ApplicationSpace's RecoveryContext::
// validate_packet_ack (space/application.rs, WHOLE function), extracted verbatim.  Contract: the range is validated against the
// transmitted packet numbers first; if that fails the function returns the error at once -- no component is told about the
// ACK (`on_packet_ack`) and no entry is taken out of the sent-packet map (`remove_range` comes after these statements).
// Callee: TxPacketNumbers::on_packet_ack -- layer F, full domain (C08/tx_packet_numbers.on_packet_ack/*): Err(PROTOCOL_VIOLATION)
// iff the range ends above the largest transmitted packet number.
// Extraction drops: `transport::Error` renamed; the event statement `publisher.on_ack_range_received( .. );`.

#[derive(Clone, Copy)]
pub struct PacketNumber { pub v: u64 }
pub struct PacketNumberRange { pub s: PacketNumber, pub e: PacketNumber }
impl PacketNumberRange { pub fn start(&self) -> (r: PacketNumber) ensures r == self.s { self.s } }
#[derive(Clone, Copy)]
pub struct Timestamp { pub us: u64 }
#[derive(Clone, Copy, PartialEq, Eq, Structural)]
pub struct TransportError { pub code: u64 }

pub struct TxPacketNumbersX { pub largest_sent: Ghost<int> }
impl TxPacketNumbersX {
    #[verifier::external_body]
    pub fn on_packet_ack(&mut self, timestamp: Timestamp, packet_number_range: &PacketNumberRange, lowest_tracking_packet_number: PacketNumber) -> (r: Result<(), TransportError>)
        ensures
            r is Err <==> packet_number_range.e.v as int > old(self).largest_sent@,
            r is Err ==> r->Err_0.code == 0xA,
            final(self).largest_sent@ == old(self).largest_sent@,
    { unimplemented!() }
}
pub struct PathX { pub dummy: u8 }
pub struct PubX { pub dummy: u8 }
pub struct RecoveryContextX { pub tx_packet_numbers: TxPacketNumbersX, pub told: Ghost<Seq<int>>, pub p: PathX }
impl RecoveryContextX {
    pub fn path_id(&self) -> (r: u8) { 0 }
    pub fn path_mut(&mut self) -> (r: &mut PathX) ensures final(self).told@ == old(self).told@, final(self).tx_packet_numbers == old(self).tx_packet_numbers { &mut self.p }
//@ splice-fn quic/s2n-quic-transport/src/space/application.rs "recovery::Context<Config> for RecoveryContext<'_, Config>" validate_packet_ack "subst=transport::Error=>TransportError"
//@| ensures
//@|     ret is Err <==> packet_number_range.e.v as int > old(self).tx_packet_numbers.largest_sent@,
//@|     ret is Err ==> ret->Err_0.code == 0xA,
//@|     final(self).told@ == old(self).told@,
//@|     final(self).tx_packet_numbers.largest_sent@ == old(self).tx_packet_numbers.largest_sent@,

    #[verifier::external_body]
    fn on_packet_ack(&mut self, timestamp: Timestamp, packet_number_range: &PacketNumberRange)
        ensures final(self).told@ == old(self).told@.push(packet_number_range.e.v as int), final(self).tx_packet_numbers == old(self).tx_packet_numbers,
    { unimplemented!() }
}
pub struct SentPacketsX { pub lowest: PacketNumber }
impl SentPacketsX {
    pub fn get_range(&self) -> (r: PacketNumberRange) { PacketNumberRange { s: self.lowest, e: self.lowest } }
}

pub struct Manager { pub sent_packets: SentPacketsX, pub reached_removal: Ghost<bool> }
impl Manager {
    fn process_ack_range_validate_first(&mut self, timestamp: Timestamp, packet_number: PacketNumber, pn_range: PacketNumberRange, context: &mut RecoveryContextX, publisher: &mut PubX) -> (ret: Result<(), TransportError>)
        requires !old(self).reached_removal@,
        ensures
            // an ACK for a packet that was never sent: PROTOCOL_VIOLATION, nobody is told, nothing is removed
            pn_range.e.v as int > old(context).tx_packet_numbers.largest_sent@ ==> ret is Err && ret->Err_0.code == 0xA
                && final(context).told@ == old(context).told@ && !final(self).reached_removal@,
            pn_range.e.v as int <= old(context).tx_packet_numbers.largest_sent@ ==> ret is Ok && final(self).reached_removal@
                && final(context).told@ == old(context).told@.push(pn_range.e.v as int),
    {
//@ splice-stmts quic/s2n-quic-transport/src/recovery/manager.rs "Manager<Config>" process_ack_range "from=let rx_path_id = context.path_id();" "until=let mut newly_acked_range" dropstmt=publisher.on_ack_range_received
        proof { self.reached_removal = Ghost(true); }
        Ok(())
    }
}
