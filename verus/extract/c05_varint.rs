//@ verus props=C05 tier=quick kind=X timeout=300
// Layer X for C05: the real bodies of the VarInt range arithmetic that every codec length/offset computation
// goes through, spliced verbatim from quic/s2n-quic-core/src/varint/mod.rs, against contracts over mathematical
// integers.  They state that a VarInt never leaves the RFC 9000 section 16 range 0..=2^62-1 (the precondition of
// the table-driven encoder, `Formatted::new`'s `assume!(x <= MAX_VARINT_VALUE)`), and that the checked/saturating
// operations compute exactly the mathematical result or report the overflow.
// Declared differences to the source: the tuple struct field is public here (it is private in the crate);
// derives, attributes and doc/compliance comments are dropped by the extractor.

//@ splice-item quic/s2n-quic-core/src/varint/mod.rs "pub const MAX_VARINT_VALUE"

pub struct VarIntError;

#[derive(Clone, Copy)]
pub struct VarInt(pub u64);

impl VarInt {
    /// representation invariant
    pub open spec fn wf(self) -> bool {
        self.0 <= MAX_VARINT_VALUE
    }

//@ splice-fn quic/s2n-quic-core/src/varint/mod.rs - new ret=r
//@| ensures
//@|     v <= MAX_VARINT_VALUE ==> r is Ok && r->Ok_0.0 == v && r->Ok_0.wf(),
//@|     v > MAX_VARINT_VALUE ==> r is Err,

//@ splice-fn quic/s2n-quic-core/src/varint/mod.rs - checked_add ret=r
//@| requires self.wf(), value.wf(),
//@| ensures
//@|     self.0 + value.0 <= MAX_VARINT_VALUE ==> r == Some(VarInt((self.0 + value.0) as u64)),
//@|     self.0 + value.0 > MAX_VARINT_VALUE ==> r is None,
//@|     r is Some ==> r->Some_0.wf(),

//@ splice-fn quic/s2n-quic-core/src/varint/mod.rs - checked_sub ret=r
//@| requires self.wf(), value.wf(),
//@| ensures
//@|     self.0 >= value.0 ==> r == Some(VarInt((self.0 - value.0) as u64)),
//@|     self.0 < value.0 ==> r is None,
//@|     r is Some ==> r->Some_0.wf(),

//@ splice-fn quic/s2n-quic-core/src/varint/mod.rs - saturating_sub ret=r
//@| requires self.wf(), value.wf(),
//@| ensures
//@|     r.0 == (if self.0 >= value.0 { self.0 - value.0 } else { 0 }),
//@|     r.wf(),

// not extracted: `saturating_add` / `saturating_mul` (`Result::unwrap_or` has no Verus specification in this vstd:
// "core::result::impl&%0::unwrap_or is not supported"); their range property is implied by `new` returning Err
// above the maximum and `Self::MAX` being the maximum.
}
