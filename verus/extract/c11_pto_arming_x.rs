//@ verus props=C11,C09 tier=quick kind=X timeout=300
// Layer X for the C11 mechanism "PTO timer not armed while amplification limited" (RFC 9002 6.2.2.1: "If no additional
// data can be sent, the server's PTO timer MUST NOT be armed until datagrams have been received from the client, because
// packets sent on PTO count against the anti-amplification limit") and two C09 timer rules, on
// recovery::Manager::update_pto_timer (quic/s2n-quic-transport/src/recovery/manager.rs): the three guards at the top
// of the function's closure body -- from `if self.loss_timer.is_armed()` up to the computation of
// `ack_eliciting_packets_in_flight` -- are extracted verbatim.  Contract: control reaches the arming code only if no
// loss timer is armed, the active path is not at its amplification limit and (for the application space) the handshake
// is confirmed; in each of the other cases the PTO timer is cancelled and nothing is armed.
// Callees: Path::at_amplification_limit (layer F, full: C11/path.at_amplification_limit/*), Timer::is_armed,
// Pto::cancel (C09/pto.cancel/*) -- answers / ghost flags.
// NOT decided: the arming code after the guards (`ack_eliciting_packets_in_flight`, pto.update with jitter).

pub struct TimerX { pub armed: bool }
impl TimerX { pub fn is_armed(&self) -> (r: bool) ensures r == self.armed { self.armed } }
pub struct PtoX { pub cancelled: Ghost<bool> }
impl PtoX {
    #[verifier::external_body]
    pub fn cancel(&mut self) ensures final(self).cancelled@ { unimplemented!() }
}
pub struct PathX { pub at_limit: bool }
impl PathX { pub fn at_amplification_limit(&self) -> (r: bool) ensures r == self.at_limit { self.at_limit } }
#[derive(Clone, Copy, PartialEq, Eq, Structural)]
pub enum PacketNumberSpace { Initial, Handshake, ApplicationData }
impl PacketNumberSpace {
    pub fn is_application_data(&self) -> (r: bool) ensures r == (*self == PacketNumberSpace::ApplicationData) { matches!(self, PacketNumberSpace::ApplicationData) }
}

pub struct Manager { pub loss_timer: TimerX, pub pto: PtoX, pub space: PacketNumberSpace, pub reached_arming: Ghost<bool> }
impl Manager {
    fn update_pto_timer_guards(&mut self, active_path: &PathX, is_handshake_confirmed: bool)
        requires !old(self).reached_arming@, !old(self).pto.cancelled@,
        ensures
            // the arming code is reached only when arming is allowed
            final(self).reached_arming@ <==> !old(self).loss_timer.armed && !active_path.at_limit
                && !(old(self).space == PacketNumberSpace::ApplicationData && !is_handshake_confirmed),
            // otherwise the PTO timer is cancelled
            !final(self).reached_arming@ ==> final(self).pto.cancelled@,
            final(self).reached_arming@ ==> !final(self).pto.cancelled@,
    {
//@ splice-stmts quic/s2n-quic-transport/src/recovery/manager.rs "Manager<Config>" update_pto_timer "from=if self.loss_timer.is_armed()" "until=let ack_eliciting_packets_in_flight"
        proof { self.reached_arming = Ghost(true); }
    }
}
