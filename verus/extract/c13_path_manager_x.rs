//@ verus props=C13 tier=quick kind=X timeout=300
// Layer X for the C13 glue in quic/s2n-quic-transport/src/path/manager.rs: which peer connection ID a path is
// addressed with after (a) a migration to an existing path (`update_active_path`) and (b) a NEW_CONNECTION_ID frame
// that retires IDs (`on_new_connection_id`).  Property clauses carried: "it only retires peer IDs the peer actually
// issued, and never sends a RETIRE_CONNECTION_ID frame inside a packet addressed with the very ID being retired" --
// a packet is addressed with `path.peer_connection_id`, so after either operation succeeded the path that is (or
// becomes) active must hold an ID the registry reports active (unretired), no other path may be touched, and if no
// replacement ID is available the operation must fail (connection error) rather than keep sending with a retired ID
// (RFC 9000 5.1.2: "the peer MUST stop using the corresponding connection IDs").
//
// path::Manager<Config> needs a full endpoint Config, Path<Config> holds congestion controller / RTT / MTU state: not
// constructible under Kani.  The statements that decide the clause are extracted verbatim (statement level); the
// callees appear through contracts:
//   * Manager::{active_path, active_path_mut, active_path_id} and the Index/IndexMut impls: whole functions spliced;
//   * PeerIdRegistry::is_active / consume_new_id_for_existing_path: ASSUMED contracts over the abstract set of active
//     IDs (`New | InUse | InUsePendingNewConnectionId`, PeerIdInfo::is_active is spliced and verified below); the
//     PeerIdRegistry Kani harnesses did not finish (probes/kani_injected_c13_*.rs), so these two contracts are read
//     off the code (peer_id_registry.rs:532-585: `consume_new_id_inner` turns one `New` entry into `InUse` -- both
//     active statuses -- and returns its id) and are listed as trusted.
// Extraction drops (echoed into the evidence): `self[new_path_id]` is rewritten to the Index impl's own body text
// `self.paths[new_path_id.as_u8() as usize]` (the impls are two lines, spliced below for comparison), the generic
// `publisher` argument type and `transport::Error` are renamed to model types, `.with_reason(..)` keeps the code.
// NOT decided: the rest of update_active_path (challenge, activate_path, amplification outcome), on_timeout,
// handle_connection_migration, PeerIdRegistry internals.

#[derive(Clone, Copy, PartialEq, Eq, Structural)]
pub struct PeerId { pub len: u8, pub a: u64, pub b: u64 }

#[derive(Clone, Copy, PartialEq, Eq, Structural)]
pub struct Id { pub v: u8 }
impl Id {
    pub fn as_u8(&self) -> (r: u8) ensures r == self.v { self.v }
}
pub fn path_id(id: u8) -> (r: Id) ensures r.v == id { Id { v: id } }

pub struct PubX { pub dummy: u8 }

#[derive(Clone, Copy, PartialEq, Eq, Structural)]
pub struct TransportError { pub code: u64 }
impl TransportError {
    pub const INTERNAL_ERROR: TransportError = TransportError { code: 0x1 };
    pub const PROTOCOL_VIOLATION: TransportError = TransportError { code: 0xA };
    pub fn with_reason(self, reason: &'static str) -> (r: TransportError) ensures r == self { self }
}

pub struct PathX { pub peer_connection_id: PeerId, pub other: u64 }

#[derive(Clone, Copy, PartialEq, Eq, Structural)]
pub enum PeerIdStatus { New, InUse, InUsePendingNewConnectionId, PendingRetirement, PendingRetirementRetransmission, PendingAcknowledgement }
use PeerIdStatus::*;
pub struct PeerIdInfo { pub status: PeerIdStatus }
impl PeerIdInfo {
//@ splice-fn quic/s2n-quic-transport/src/connection/peer_id_registry.rs "PeerIdInfo" is_active vis=strip
//@| ensures ret == (self.status == New || self.status == InUse || self.status == InUsePendingNewConnectionId),
}

/// abstract state of PeerIdRegistry: the set of peer IDs whose status is active (may be used to address packets)
pub struct PeerIdRegistry { pub active: Ghost<Set<PeerId>> }
impl PeerIdRegistry {
    #[verifier::external_body]
    pub fn is_active(&self, peer_id: &PeerId) -> (r: bool)
        ensures r == self.active@.contains(*peer_id),
    { unimplemented!() }

    // consumes one `New` id (-> `InUse`): the set of active ids is unchanged, the result is one of them and differs
    // from the id it replaces (debug_assert_ne! in the real body)
    #[verifier::external_body]
    pub fn consume_new_id_for_existing_path(&mut self, path_id: Id, current_peer_connection_id: PeerId, publisher: &mut PubX) -> (r: Option<PeerId>)
        ensures
            final(self).active@ == old(self).active@,
            r is Some ==> final(self).active@.contains(r->Some_0),
    { unimplemented!() }
}

pub struct Manager {
    pub paths: Vec<PathX>,
    pub peer_id_registry: PeerIdRegistry,
    pub active: u8,
}

pub open spec fn others_unchanged(old_m: Manager, new_m: Manager, i: int) -> bool {
    &&& new_m.paths@.len() == old_m.paths@.len()
    &&& new_m.active == old_m.active
    &&& forall|k: int| 0 <= k < old_m.paths@.len() && k != i ==> #[trigger] new_m.paths@[k] == old_m.paths@[k]
    &&& new_m.paths@[i].other == old_m.paths@[i].other
}

impl Manager {
//@ splice-fn quic/s2n-quic-transport/src/path/manager.rs "Manager<Config>" active_path vis=strip "subst=&Path<Config>=>&PathX"
//@| requires (self.active as int) < self.paths@.len(),
//@| ensures *ret == self.paths@[self.active as int],

//@ splice-fn quic/s2n-quic-transport/src/path/manager.rs "Manager<Config>" active_path_mut vis=strip "subst=&mut Path<Config>=>&mut PathX"
//@| requires (old(self).active as int) < old(self).paths@.len(),
//@| ensures
//@|     *ret == old(self).paths@[old(self).active as int],
//@|     final(self).active == old(self).active,
//@|     final(self).peer_id_registry == old(self).peer_id_registry,
//@|     final(self).paths@ == old(self).paths@.update(old(self).active as int, *final(ret)),

//@ splice-fn quic/s2n-quic-transport/src/path/manager.rs "Manager<Config>" active_path_id vis=strip
//@| ensures ret.v == self.active,

    // ---- update_active_path: the connection ID the newly activated path is addressed with -------------------------
    fn update_active_path_peer_cid(&mut self, new_path_id: Id, publisher: &mut PubX) -> (ret: Result<(), TransportError>)
        requires
            (new_path_id.v as int) < old(self).paths@.len(),
            (old(self).active as int) < old(self).paths@.len(),
        ensures
            // the path being activated ends up with an id the peer issued and has not retired
            ret is Ok ==> final(self).peer_id_registry.active@.contains(final(self).paths@[new_path_id.v as int].peer_connection_id),
            // ... its own id if that is still active (no id is consumed needlessly)
            ret is Ok && old(self).peer_id_registry.active@.contains(old(self).paths@[new_path_id.v as int].peer_connection_id)
                ==> final(self).paths@[new_path_id.v as int].peer_connection_id == old(self).paths@[new_path_id.v as int].peer_connection_id,
            // no other path (in particular not the currently active one) is re-addressed
            ret is Ok ==> others_unchanged(*old(self), *final(self), new_path_id.v as int),
            ret is Err ==> final(self).paths@ == old(self).paths@ && final(self).active == old(self).active,
            ret is Err ==> !old(self).peer_id_registry.active@.contains(old(self).paths@[new_path_id.v as int].peer_connection_id),
    {
//@ splice-stmts quic/s2n-quic-transport/src/path/manager.rs "Manager<Config>" update_active_path "from=let prev_path_id = self.active_path_id();" "until=if self.active_path().is_validated()" "subst=self[new_path_id]=>self.paths[new_path_id.as_u8() as usize]@@transport::Error=>TransportError"
        Ok(())
    }

    // ---- on_new_connection_id: after the registry processed the frame (retirements included) ------------------------
    fn on_new_connection_id_active_path_cid(&mut self, publisher: &mut PubX) -> (ret: Result<(), TransportError>)
        requires
            (old(self).active as int) < old(self).paths@.len(),
        ensures
            // the active path is never left addressed with an id that the frame retired
            ret is Ok ==> final(self).peer_id_registry.active@.contains(final(self).paths@[final(self).active as int].peer_connection_id),
            ret is Ok && old(self).peer_id_registry.active@.contains(old(self).paths@[old(self).active as int].peer_connection_id)
                ==> final(self).paths@ == old(self).paths@,
            ret is Ok ==> others_unchanged(*old(self), *final(self), old(self).active as int),
            // no replacement available: connection error PROTOCOL_VIOLATION, nothing re-addressed
            ret is Err ==> ret->Err_0.code == 0xA && final(self).paths@ == old(self).paths@ && final(self).active == old(self).active,
            ret is Err ==> !old(self).peer_id_registry.active@.contains(old(self).paths@[old(self).active as int].peer_connection_id),
    {
//@ splice-stmts quic/s2n-quic-transport/src/path/manager.rs "Manager<Config>" on_new_connection_id "from=let active_path_connection_id" "until=Ok(())" "subst=?transport::Error=>TransportError"
        Ok(())
    }
}

// ---- PeerIdRegistry::consume_new_id_inner (peer_id_registry.rs): the loop body for one registered id ---------------------
// backs the ASSUMED contract of `consume_new_id_for_existing_path` above: an id is handed out only if its status is
// `New`, it becomes `InUse` (both statuses are active, so the set of active ids does not change), and the id returned
// is that entry's id.  The loop header (`for id_info in self.registered_ids.iter_mut()`) is a declared drop; `is_active`
// of the registry (`iter().any(..)`) is still an assumed contract.
#[derive(Clone, Copy)]
pub struct TokenX { pub a: u64, pub b: u64 }
#[derive(Clone, Copy)]
pub struct InternalIdX { pub v: u64 }
pub struct ResetMapX { pub inserted: Ghost<int> }
impl ResetMapX {
    #[verifier::external_body]
    pub fn insert(&mut self, token: TokenX, id: InternalIdX) ensures final(self).inserted@ == old(self).inserted@ + 1 { unimplemented!() }
}
pub struct GuardX { pub stateless_reset_map: ResetMapX }
pub struct LockResultX { pub dummy: u8 }
impl LockResultX {
    #[verifier::external_body]
    pub fn expect(self, msg: &'static str) -> (r: GuardX) { unimplemented!() }
}
pub struct SharedStateX { pub dummy: u8 }
impl SharedStateX {
    #[verifier::external_body]
    pub fn lock(&self) -> (r: LockResultX) { unimplemented!() }
}
pub struct PeerIdInfoFull { pub id: PeerId, pub status: PeerIdStatus, pub stateless_reset_token: Option<TokenX> }
pub struct PeerIdRegistryFull { pub state: SharedStateX, pub internal_id: InternalIdX }
impl PeerIdRegistryFull {
    fn consume_new_id_inner_loop_body(&mut self, id_info: &mut PeerIdInfoFull) -> (ret: Option<PeerId>)
        ensures
            // only an unused id is consumed, it becomes InUse, and it is the id that is returned
            ret is Some <==> old(id_info).status == PeerIdStatus::New,
            ret is Some ==> final(id_info).status == PeerIdStatus::InUse && ret->Some_0 == old(id_info).id,
            ret is None ==> final(id_info).status == old(id_info).status,
            final(id_info).id == old(id_info).id,
            // the entry's activity does not change (New and InUse are both active)
            (final(id_info).status == New || final(id_info).status == InUse || final(id_info).status == InUsePendingNewConnectionId)
                == (old(id_info).status == New || old(id_info).status == InUse || old(id_info).status == InUsePendingNewConnectionId),
    {
//@ splice-stmts quic/s2n-quic-transport/src/connection/peer_id_registry.rs "PeerIdRegistry" consume_new_id_inner "from=for id_info in self" inner=1
        None
    }
}

// ---- PeerIdRegistry::on_transmit: one entry selected by `.filter(|i| i.transmission_interest().can_transmit(..))` -------
// "it only retires peer IDs the peer actually issued, and never sends a RETIRE_CONNECTION_ID frame inside a packet addressed
// with the very ID being retired": the frame names exactly the entry's sequence number (an id the peer issued: it is
// registered), the entry was pending retirement -- i.e. NOT active, while packets are addressed with active ids only
// (statements above) -- and it becomes PendingAcknowledgement iff the frame was written.
#[derive(Clone, Copy)]
pub struct PacketNumberX { pub v: u64 }
pub struct VarIntX { pub v: u64 }
pub trait ToVarInt { spec fn as_int(self) -> int; fn to_varint(self) -> (r: VarIntX) ensures r.v as int == self.as_int(); }
impl ToVarInt for u32 {
    open spec fn as_int(self) -> int { self as int }
    fn to_varint(self) -> (r: VarIntX) { VarIntX { v: self as u64 } }
}
pub struct RetireConnectionIdX { pub sequence_number: VarIntX }
pub struct WriteContextX { pub last_seq: Ghost<int>, pub wrote: Ghost<bool> }
impl WriteContextX {
    #[verifier::external_body]
    pub fn write_frame(&mut self, f: &RetireConnectionIdX) -> (r: Option<PacketNumberX>)
        ensures final(self).last_seq@ == f.sequence_number.v as int, final(self).wrote@ == r is Some,
    { unimplemented!() }
}
pub struct MemoX { pub dummy: u8 }
impl MemoX {
    #[verifier::external_body]
    pub fn clear(&self) { unimplemented!() }
}
pub enum PeerIdStatusFull { New, InUse, InUsePendingNewConnectionId, PendingRetirement, PendingRetirementRetransmission, PendingAcknowledgement(PacketNumberX) }
pub struct PeerIdInfoTx { pub sequence_number: u32, pub status: PeerIdStatusFull }
pub struct PeerIdRegistryTx { pub transmission_interest: MemoX, pub ack_interest: MemoX, pub retire_prior_to: u32 }
impl PeerIdRegistryTx {
    fn peer_on_transmit_loop_body(&mut self, id_info: &mut PeerIdInfoTx, context: &mut WriteContextX)
        requires
            // established by the dropped header: transmission_interest() != None <=> PendingRetirement / ..Retransmission
            old(id_info).status is PendingRetirement || old(id_info).status is PendingRetirementRetransmission,
        ensures
            final(context).last_seq@ == old(id_info).sequence_number as int,
            final(id_info).sequence_number == old(id_info).sequence_number,
            final(context).wrote@ ==> final(id_info).status is PendingAcknowledgement,
            !final(context).wrote@ ==> (final(id_info).status is PendingRetirement) == (old(id_info).status is PendingRetirement)
                && (final(id_info).status is PendingRetirementRetransmission) == (old(id_info).status is PendingRetirementRetransmission),
    {
        use PeerIdStatusFull::PendingAcknowledgement;
//@ splice-stmts quic/s2n-quic-transport/src/connection/peer_id_registry.rs "PeerIdRegistry" on_transmit "from=for id_info in self" inner=1 "subst=frame::RetireConnectionId=>RetireConnectionIdX@@.into()=>.to_varint()"
    }
}
