//@ verus props=C09,C10 tier=quick kind=X timeout=300
// Layer X for the first link of C09's bookkeeping chain ("the bytes-in-flight figure always equals the total size of the
// unresolved congestion-controlled packets"): recovery::Manager::on_packet_sent, quic/s2n-quic-transport/src/recovery/
// manager.rs.  The statements from `let congestion_controlled_bytes = ..` to `self.sent_packets.insert( .. );` are
// extracted verbatim.  Contract: the size RECORDED for the packet in the sent-packet map is exactly the number of bytes
// the congestion controller of the current path was TOLD to add to bytes-in-flight (RFC 9002 7 / B.4: the packet's
// size if it is congestion controlled, 0 for ACK-only packets), under the packet's own number, send time and the id of
// the path it was sent on -- so that acknowledging, losing or discarding the entry later (jobs c09_space_discard_x,
// c09_detect_lost_x; layer F process_new_acked_packets / on_retry_packet) removes what was added.
// Callee contracts: CongestionController::on_packet_sent -- layer F (C10/cubic.on_packet_sent/*, bbr): bytes_in_flight +=
// sent_bytes; packet::number::Map::insert -- layer F (C16/pn_map.insert*); both appear as ghost records here.
// Extraction drops: `congestion_controller::PathPublisher::new` renamed to the model constructor.

#[derive(Clone, Copy, PartialEq, Eq, Structural)]
pub struct PacketNumber { pub v: u64 }
#[derive(Clone, Copy, PartialEq, Eq, Structural)]
pub struct Timestamp { pub us: u64 }
#[derive(Clone, Copy, PartialEq, Eq, Structural)]
pub struct PathId { pub v: u8 }
#[derive(Clone, Copy)]
pub struct AckElicitation { pub eliciting: bool }
#[derive(Clone, Copy)]
pub struct EcnX { pub v: u8 }
#[derive(Clone, Copy)]
pub struct ModeX { pub v: u8 }
#[derive(Clone, Copy)]
pub struct CcPacketInfoX { pub v: u64 }
pub struct OutcomeX { pub is_congestion_controlled: bool, pub bytes_sent: usize, pub ack_elicitation: AckElicitation }
pub struct PubX { pub dummy: u8 }
pub struct PathPublisherX { pub dummy: u8 }
impl PathPublisherX {
    #[verifier::external_body]
    pub fn new(publisher: &mut PubX, path_id: PathId) -> (r: PathPublisherX) { unimplemented!() }
}
pub struct RttEstimatorX { pub dummy: u8 }

pub struct CongestionControllerX { pub told: Ghost<Seq<(Timestamp, int)>> }
impl CongestionControllerX {
    #[verifier::external_body]
    pub fn on_packet_sent(&mut self, time_sent: Timestamp, sent_bytes: usize, app_limited: Option<bool>, rtt_estimator: &RttEstimatorX, publisher: &mut PathPublisherX) -> (r: CcPacketInfoX)
        ensures final(self).told@ == old(self).told@.push((time_sent, sent_bytes as int)),
    { unimplemented!() }
}
pub struct PathX { pub congestion_controller: CongestionControllerX, pub rtt_estimator: RttEstimatorX }
pub struct ContextX { pub p: PathX, pub id: PathId }
impl ContextX {
    pub fn path_id(&self) -> (r: PathId) ensures r == self.id { self.id }
    pub fn path_mut(&mut self) -> (r: &mut PathX) ensures *r == old(self).p, final(self).p == *final(r), final(self).id == old(self).id { &mut self.p }
}

pub struct SentPacketInfo { pub congestion_controlled: bool, pub sent_bytes: u16, pub time_sent: Timestamp, pub path_id: PathId }
impl SentPacketInfo {
    // sent_packets.rs SentPacketInfo::new: `sent_bytes: sent_bytes.try_into().expect(..)` (u16) -- the datagram size is
    // bounded by the MTU (<= 65527), stated as the precondition
    #[verifier::external_body]
    pub fn new(congestion_controlled: bool, sent_bytes: usize, time_sent: Timestamp, ack_elicitation: AckElicitation, path_id: PathId, ecn: EcnX, transmission_mode: ModeX, cc_packet_info: CcPacketInfoX) -> (r: SentPacketInfo)
        requires sent_bytes <= u16::MAX,
        ensures r.congestion_controlled == congestion_controlled, r.sent_bytes as int == sent_bytes as int, r.time_sent == time_sent, r.path_id == path_id,
    { unimplemented!() }
}
pub struct SentPacketsX { pub entries: Ghost<Seq<(PacketNumber, SentPacketInfo)>> }
impl SentPacketsX {
    #[verifier::external_body]
    pub fn insert(&mut self, packet_number: PacketNumber, info: SentPacketInfo)
        ensures final(self).entries@ == old(self).entries@.push((packet_number, info)),
    { unimplemented!() }
}

pub struct Manager { pub sent_packets: SentPacketsX }
impl Manager {
    fn on_packet_sent_bookkeeping(&mut self, packet_number: PacketNumber, outcome: OutcomeX, time_sent: Timestamp, ecn: EcnX, transmission_mode: ModeX, app_limited: Option<bool>, context: &mut ContextX, publisher: &mut PubX)
        requires outcome.bytes_sent <= u16::MAX,   // a datagram never exceeds the path MTU (<= 65527 bytes)
        ensures
            ({
                let counted: int = if outcome.is_congestion_controlled { outcome.bytes_sent as int } else { 0 };
                // one entry is added, for this packet number, and it records what the controller was told
                &&& final(self).sent_packets.entries@.len() == old(self).sent_packets.entries@.len() + 1
                &&& final(self).sent_packets.entries@.drop_last() =~= old(self).sent_packets.entries@
                &&& final(self).sent_packets.entries@.last().0 == packet_number
                &&& final(self).sent_packets.entries@.last().1.sent_bytes as int == counted
                &&& final(self).sent_packets.entries@.last().1.congestion_controlled == outcome.is_congestion_controlled
                &&& final(self).sent_packets.entries@.last().1.time_sent == time_sent
                &&& final(self).sent_packets.entries@.last().1.path_id == old(context).id
                // the controller of the CURRENT path is told exactly once, the same number of bytes
                &&& final(context).p.congestion_controller.told@ == old(context).p.congestion_controller.told@.push((time_sent, counted))
                &&& final(context).id == old(context).id
            }),
    {
//@ splice-stmts quic/s2n-quic-transport/src/recovery/manager.rs "Manager<Config>" on_packet_sent "from=let congestion_controlled_bytes" "to=self.sent_packets.insert(" "subst=congestion_controller::PathPublisher::new=>PathPublisherX::new"
    }
}
