//@ verus props=C09 tier=quick kind=X timeout=300
// Layer X for the orchestration of recovery::Manager::process_acks (quic/s2n-quic-transport/src/recovery/manager.rs): the
// statements after the ACK ranges were walked (job c09_ack_range_x) up to the metrics event, extracted verbatim.  They tie the
// other C09 jobs together.  Contract:
//   * `largest_acked_packet` -- the basis of the packet and time thresholds of loss detection -- never decreases: it becomes
//     max(old, Largest Acknowledged of this frame); `acked_new_largest_packet` is true iff the frame's value is >= the old one
//     (a reordered, older ACK frame does not move it and is not treated as a new largest);
//   * update_congestion_control (RTT sample rule: job c09_rtt_sample_x) and then process_new_acked_packets (bytes leave flight,
//     loss detection: jobs c09_acked_bytes_x, c09_detect_lost_x) are called, in this order, exactly once each, iff the frame newly
//     acknowledged at least one packet -- with the list of newly acknowledged packets that process_ack_range built, the frame's
//     Largest Acknowledged and the flags computed above; an ACK frame that acknowledges nothing new calls neither.
// Callees are ghost call records.  Extraction drops: none besides comments.

#[derive(Clone, Copy, PartialEq, Eq, PartialOrd, Ord, Structural)]
pub struct PacketNumber { pub v: u64 }
use vstd::std_specs::cmp::{OrdSpec, PartialOrdSpec};
impl vstd::std_specs::cmp::PartialOrdSpecImpl for PacketNumber {
    open spec fn obeys_partial_cmp_spec() -> bool { true }
    open spec fn partial_cmp_spec(&self, other: &PacketNumber) -> Option<core::cmp::Ordering> {
        if self.v < other.v { Some(core::cmp::Ordering::Less) } else if self.v == other.v { Some(core::cmp::Ordering::Equal) } else { Some(core::cmp::Ordering::Greater) }
    }
}
impl vstd::std_specs::cmp::OrdSpecImpl for PacketNumber {
    open spec fn obeys_cmp_spec() -> bool { true }
    open spec fn cmp_spec(&self, other: &PacketNumber) -> core::cmp::Ordering {
        if self.v < other.v { core::cmp::Ordering::Less } else if self.v == other.v { core::cmp::Ordering::Equal } else { core::cmp::Ordering::Greater }
    }
}
#[derive(Clone, Copy, PartialEq, Eq, Structural)]
pub struct SentPacketInfo { pub id: u64 }
#[derive(Clone, Copy, PartialEq, Eq, Structural)]
pub struct Timestamp { pub us: u64 }
#[derive(Clone, Copy, PartialEq, Eq, Structural)]
pub struct Duration { pub us: u64 }
#[derive(Clone, Copy, PartialEq, Eq, Structural)]
pub struct EcnCounts { pub v: u64 }
pub struct RandomX { pub dummy: u8 }
pub struct ContextX { pub dummy: u8 }
pub struct PubX { pub dummy: u8 }

/// ghost call record: 1 = update_congestion_control(largest newly acked, largest acked, includes_ack_eliciting), 2 =
/// process_new_acked_packets(list, new_largest flag)
pub enum Call { Ucc((PacketNumber, SentPacketInfo), PacketNumber, bool), Pnap(Seq<(PacketNumber, SentPacketInfo)>, bool) }

pub open spec fn new_largest(old_l: Option<PacketNumber>, acked: PacketNumber) -> int {
    if old_l is Some && old_l->Some_0.v > acked.v { old_l->Some_0.v as int } else { acked.v as int }
}

pub struct Manager { pub largest_acked_packet: Option<PacketNumber>, pub calls: Ghost<Seq<Call>> }
impl Manager {
    #[verifier::external_body]
    fn update_congestion_control(&mut self, largest_newly_acked: (PacketNumber, SentPacketInfo), largest_acked_packet_number: PacketNumber, includes_ack_eliciting: bool, timestamp: Timestamp, ack_delay: Duration, context: &mut ContextX, publisher: &mut PubX)
        ensures final(self).calls@ == old(self).calls@.push(Call::Ucc(largest_newly_acked, largest_acked_packet_number, includes_ack_eliciting)), final(self).largest_acked_packet == old(self).largest_acked_packet,
    { unimplemented!() }
    #[verifier::external_body]
    fn process_new_acked_packets(&mut self, newly_acked_packets: &Vec<(PacketNumber, SentPacketInfo)>, new_largest_packet: bool, timestamp: Timestamp, ecn_counts: Option<EcnCounts>, random_generator: &mut RandomX, context: &mut ContextX, publisher: &mut PubX)
        ensures final(self).calls@ == old(self).calls@.push(Call::Pnap(newly_acked_packets@, new_largest_packet)), final(self).largest_acked_packet == old(self).largest_acked_packet,
    { unimplemented!() }

    fn process_acks_after_ranges(&mut self, newly_acked_packets: Vec<(PacketNumber, SentPacketInfo)>, largest_newly_acked: Option<(PacketNumber, SentPacketInfo)>, includes_ack_eliciting: bool, largest_acked_packet_number: PacketNumber, timestamp: Timestamp, ack_delay: Duration, ecn_counts: Option<EcnCounts>, random_generator: &mut RandomX, context: &mut ContextX, publisher: &mut PubX)
        requires old(self).calls@.len() == 0,
        ensures
            // the basis of the loss thresholds is monotone
            final(self).largest_acked_packet is Some,
            final(self).largest_acked_packet->Some_0.v as int == new_largest(old(self).largest_acked_packet, largest_acked_packet_number),
            // RTT update, then byte accounting + loss detection, iff something was newly acknowledged
            largest_newly_acked is None ==> final(self).calls@.len() == 0,
            largest_newly_acked is Some ==> final(self).calls@.len() == 2
                && final(self).calls@[0] == Call::Ucc(largest_newly_acked->Some_0, largest_acked_packet_number, includes_ack_eliciting)
                && final(self).calls@[1] == Call::Pnap(newly_acked_packets@,
                    !(old(self).largest_acked_packet is Some && old(self).largest_acked_packet->Some_0.v > largest_acked_packet_number.v)),
    {
//@ splice-stmts quic/s2n-quic-transport/src/recovery/manager.rs "Manager<Config>" process_acks "from=let acked_new_largest_packet = match self.largest_acked_packet" "until=let path_id = context.path_id().as_u8();"
    }
}
