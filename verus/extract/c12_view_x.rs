//@ verus props=C12,C01 tier=quick kind=X timeout=300
// Layer X for the FIN decision of the send side (C12 "the final size it announces never changes", C01 "a clean end
// means the whole stream"): data_sender::buffer::View::new, quic/s2n-quic-transport/src/sync/data_sender/buffer.rs.
// The constructor's result expression is extracted verbatim (tail expression of the function): a STREAM frame
// built from the view carries the FIN bit exactly if the stream is finishing AND the view ends at the last buffered
// byte -- so the final size a FIN frame announces (offset + len) is always total_len.  (Layer F covers View / Buffer
// only for bounded chunk shapes in the thorough tier: contracts/kani/transport/data_sender_buffer.rs.)
// Extraction drops (echoed into the evidence): `Self` renamed to the model struct, `(buffer.total_len() - 1)`
// desugared to the spliced `impl Sub<usize> for VarInt` (operator impls are spliced as inherent functions).
// NOT decided: the chunk search loop of View::new, trim_off, the ViewIter.

//@ include-job varint_arith.rs

impl VarInt {
//@ splice-fn quic/s2n-quic-core/src/varint/mod.rs "core::ops::Sub<usize> for VarInt" sub vis=strip "subst=fn sub(=>fn sub_usize("
//@| requires self.0 >= rhs as u64,
//@| ensures ret.0 == self.0 - rhs as u64,
}

/// interval_set::Interval<VarInt>: closed interval [start, end] (C16/interval.* obligations, layer F full)
pub struct IntervalX { pub start: VarInt, pub end: VarInt }
impl IntervalX {
    pub open spec fn valid(&self) -> bool { self.start.0 <= self.end.0 }
    pub fn end_inclusive(&self) -> (r: VarInt) ensures r == self.end { self.end }
    #[verifier::external_body]
    pub fn end_exclusive(&self) -> (r: VarInt) ensures self.end.0 < MAX_VARINT_VALUE ==> r.0 == self.end.0 + 1 { unimplemented!() }
    #[verifier::external_body]
    pub fn start_inclusive(&self) -> (r: VarInt) ensures r == self.start { unimplemented!() }
    #[verifier::external_body]
    pub fn len(&self) -> (r: usize) requires self.valid() ensures r as int == self.end.0 - self.start.0 + 1 { unimplemented!() }
}

pub struct BufferX { pub total: VarInt }
impl BufferX { pub fn total_len(&self) -> (r: VarInt) ensures r == self.total { self.total } }

pub struct ViewX<'a> { pub buffer: &'a BufferX, pub chunk_index: usize, pub offset: usize, pub len: usize, pub is_fin: bool }

fn view_new_result<'a>(buffer: &'a BufferX, range: IntervalX, has_fin: bool, chunk_index: &mut usize, offset: usize) -> (ret: ViewX<'a>)
    requires
        range.valid(),
        // debug_assert!(range.end_exclusive() <= buffer.total_len()) of View::new / DataSender invariant: only buffered bytes are viewed
        range.end.0 < buffer.total.0,
        range.end.0 - range.start.0 < usize::MAX,
    ensures
        // FIN exactly on the view that ends with the last byte of a finishing stream
        ret.is_fin == (has_fin && range.end.0 + 1 == buffer.total.0),
        ret.len as int == range.end.0 - range.start.0 + 1,
        ret.chunk_index == *old(chunk_index), ret.offset == offset,
{
//@ splice-stmts quic/s2n-quic-transport/src/sync/data_sender/buffer.rs "View<'a>" new "from=Self {" "subst=Self {=>ViewX {@@(buffer.total_len() - 1)=>buffer.total_len().sub_usize(1)"
}
