//@ verus props=C09 tier=quick kind=X timeout=300
// Layer X for the RTT / PTO formulas of C09 on the REAL bodies of s2n_quic_core::recovery::RttEstimator
// (quic/s2n-quic-core/src/recovery/rtt_estimator.rs), whole functions, for ALL durations -- layer F decides the same
// formulas only for RTT quantities below 4 s (symbolic `Duration` round trips are SAT-hard for CBMC); here
// core::time::Duration is a model type over its nanosecond count, and the functions' own u64 arithmetic (the code
// converts to nanos / micros first) is verified as written, overflow checks included:
//   * loss_time_threshold == max(9/8 * max(smoothed_rtt, latest_rtt), kGranularity)  in nanoseconds, integer division as
//     in the code (t + t/8), "never less than 1 ms";
//   * calculate_base_pto_micros / pto_period == max((smoothed_rtt + max(4*rttvar, kGranularity) [+ max_ack_delay in the
//     application space]) * backoff, kGranularity) in microseconds: never below the timer granularity, doubles when the
//     backoff doubles;
//   * weighted_average(a, b, w) == a/w*(w-1) + b/w  (<= the larger of a and b: "RTT estimates stay within the range of the
//     samples observed"); rttvar_4x.
// Preconditions are the value ranges under which the u64 arithmetic cannot overflow (stated per function; RTTs below
// 2^60 ns = 36 years, backoff * period < 2^64 us), discharged for every value in those ranges.
// Model (TRUSTED, std semantics): Duration::{as_nanos, as_micros, from_nanos, from_micros} over a nanosecond count;
// K_GRANULARITY = 1 ms is spliced from the source.  Extraction drops: none besides attributes / comments.

pub struct Duration { pub ns: u128 }
impl Duration {
    pub const fn from_millis(ms: u64) -> (r: Duration) ensures r.ns == ms as u128 * 1_000_000 { Duration { ns: ms as u128 * 1_000_000 } }
    #[verifier::external_body]
    pub const fn as_nanos(&self) -> (r: u128) ensures r == self.ns { unimplemented!() }
    #[verifier::external_body]
    pub const fn as_micros(&self) -> (r: u128) ensures r == self.ns / 1000 { unimplemented!() }
    #[verifier::external_body]
    pub const fn from_nanos(n: u64) -> (r: Duration) ensures r.ns == n as u128 { unimplemented!() }
    #[verifier::external_body]
    pub const fn from_micros(us: u64) -> (r: Duration) ensures r.ns == us as u128 * 1000 { unimplemented!() }
}
#[derive(Clone, Copy, PartialEq, Eq, Structural)]
pub enum PacketNumberSpace { Initial, Handshake, ApplicationData }
impl PacketNumberSpace {
    pub fn is_application_data(&self) -> (r: bool) ensures r == (*self == PacketNumberSpace::ApplicationData) { matches!(self, PacketNumberSpace::ApplicationData) }
}
use vstd::std_specs::cmp::{OrdSpec, PartialOrdSpec};
// assumed contract on a std function Verus has no specification for (same text as in varint_arith.rs; listed as trusted)
pub assume_specification<T: Ord> [core::cmp::max] (a: T, b: T) -> (r: T)
    ensures T::obeys_cmp_spec() ==> r == (if a.cmp_spec(&b) == core::cmp::Ordering::Greater { a } else { b });
pub assume_specification<T: Ord> [core::cmp::min] (a: T, b: T) -> (r: T)
    ensures T::obeys_cmp_spec() ==> r == (if a.cmp_spec(&b) == core::cmp::Ordering::Greater { b } else { a });
use core::cmp::{max, min};

pub const K_GRANULARITY: Duration = Duration { ns: 1_000_000 };

pub struct RttEstimator { pub latest_rtt: Duration, pub smoothed_rtt: Duration, pub rttvar: Duration, pub max_ack_delay: Duration }

pub open spec fn imax(a: int, b: int) -> int { if a >= b { a } else { b } }
pub open spec fn small(d: Duration) -> bool { d.ns < 0x1000_0000_0000_0000 }

impl RttEstimator {
//@ splice-fn quic/s2n-quic-core/src/recovery/rtt_estimator.rs "RttEstimator" latest_rtt vis=strip "subst=self.latest_rtt=>Duration { ns: self.latest_rtt.ns }"
//@| ensures ret.ns == self.latest_rtt.ns,
//@ splice-fn quic/s2n-quic-core/src/recovery/rtt_estimator.rs "RttEstimator" smoothed_rtt vis=strip "subst=self.smoothed_rtt=>Duration { ns: self.smoothed_rtt.ns }"
//@| ensures ret.ns == self.smoothed_rtt.ns,

//@ splice-fn quic/s2n-quic-core/src/recovery/rtt_estimator.rs "RttEstimator" loss_time_threshold vis=strip
//@| requires small(self.smoothed_rtt), small(self.latest_rtt),
//@| ensures
//@|     ({ let t = imax(self.smoothed_rtt.ns as int, self.latest_rtt.ns as int);
//@|        ret.ns as int == imax(t + t / 8, 1_000_000) }),
//@|     ret.ns >= 1_000_000,

//@ splice-fn quic/s2n-quic-core/src/recovery/rtt_estimator.rs "RttEstimator" rttvar_4x vis=strip
//@| requires small(self.rttvar),
//@| ensures ret.ns as int == 4 * (self.rttvar.ns as int / 1000) * 1000,

//@ splice-fn quic/s2n-quic-core/src/recovery/rtt_estimator.rs "RttEstimator" calculate_base_pto_micros vis=strip
//@| requires
//@|     small(self.smoothed_rtt), small(self.rttvar), small(self.max_ack_delay),
//@|     (self.smoothed_rtt.ns / 1000 + imax(4 * (self.rttvar.ns as int / 1000), 1000) + self.max_ack_delay.ns / 1000) * pto_backoff <= u64::MAX,
//@| ensures
//@|     ret as int == (self.smoothed_rtt.ns as int / 1000 + imax(4 * (self.rttvar.ns as int / 1000), 1000)
//@|         + (if space == PacketNumberSpace::ApplicationData { self.max_ack_delay.ns as int / 1000 } else { 0 })) * pto_backoff,
//@^ before "pto_period *=" :: proof { let full = self.smoothed_rtt.ns as int / 1000 + imax(4 * (self.rttvar.ns as int / 1000), 1000) + self.max_ack_delay.ns as int / 1000; assert(pto_period as int * pto_backoff as int <= full * pto_backoff as int) by (nonlinear_arith) requires 0 <= pto_period as int <= full, pto_backoff as int >= 0; }

//@ splice-fn quic/s2n-quic-core/src/recovery/rtt_estimator.rs "RttEstimator" pto_period vis=strip
//@| requires
//@|     small(self.smoothed_rtt), small(self.rttvar), small(self.max_ack_delay),
//@|     (self.smoothed_rtt.ns / 1000 + imax(4 * (self.rttvar.ns as int / 1000), 1000) + self.max_ack_delay.ns / 1000) * pto_backoff <= u64::MAX / 1000,
//@| ensures
//@|     // never below the timer granularity
//@|     ret.ns >= 1_000_000,
//@|     ret.ns as int == 1000 * imax((self.smoothed_rtt.ns as int / 1000 + imax(4 * (self.rttvar.ns as int / 1000), 1000)
//@|         + (if space == PacketNumberSpace::ApplicationData { self.max_ack_delay.ns as int / 1000 } else { 0 })) * pto_backoff, 1000),
}

//@ splice-fn quic/s2n-quic-core/src/recovery/rtt_estimator.rs - weighted_average
//@| requires weight >= 1, small(a), small(b),
//@| ensures
//@|     ret.ns as int == (a.ns as int / weight as int) * (weight as int - 1) + b.ns as int / weight as int,
//@|     // within the range of the two inputs (upper side)
//@|     ret.ns as int <= imax(a.ns as int, b.ns as int),
//@^ after "let mut a = a.as_nanos() as u64;" :: let ghost a0 = a as int;
//@^ after "let mut b = b.as_nanos() as u64;" :: let ghost b0 = b as int;
//@^ before "a *= weight" :: proof { let w = weight as int; assert((a0 / w) * (w - 1) <= a0) by (nonlinear_arith) requires a0 >= 0, w >= 1; }
//@^ before "Duration::from_nanos(a + b)" :: proof { let w = weight as int; let m = imax(a0, b0); assert(a0 / w <= m / w) by (nonlinear_arith) requires 0 <= a0 <= m, w >= 1; assert(b0 / w <= m / w) by (nonlinear_arith) requires 0 <= b0 <= m, w >= 1; assert((m / w) * w <= m) by (nonlinear_arith) requires m >= 0, w >= 1; assert((a0 / w) * (w - 1) <= (m / w) * (w - 1)) by (nonlinear_arith) requires 0 <= a0 / w <= m / w, w >= 1; assert((m / w) * (w - 1) + m / w == (m / w) * w) by (nonlinear_arith); }
