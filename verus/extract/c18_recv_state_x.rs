//@ verus props=C18 tier=quick kind=X timeout=300
// Layer X for the C18 glue in dc/s2n-quic-dc/src/stream/recv/{state.rs,packet.rs}: "a packet is acted upon only if its
// authentication tag verifies ... changing any header, payload or tag byte gets it rejected and leaves stream data
// [and] key state ... untouched".  The dc stream receiver cannot be executed by CBMC (no result in 16 min, STRENGTH-dc.md);
// the ORDER "authenticate, then act" is decided here on the real text, with the callees replaced by contracts:
//   * State::on_stream_packet_in_place (whole function): the cleartext handler runs only after decrypt_in_place
//     returned Ok;
//   * the `if !is_max_data_ok { .. }` statement of State::on_stream_packet_impl: a flow-control violation claimed by
//     a packet header resets the stream (State::on_error) only after the packet authenticated;
//   * the `if let Err(e) = out_buf.read_from(&mut packet) { .. }` statement: a buffer error (e.g. an invalid FIN
//     claimed by the header) is only reported after the packet authenticated -- otherwise the decrypt error is;
//   * the `if !self.is_decrypted_in_place { .. }` statement of packet::Packet::read_chunk: a chunk is handed out only
//     after on_stream_packet_in_place returned Ok, and at most one decryption happens per packet.
// Callee contracts:
//   * stream::decoder::Packet::decrypt_in_place -> key::open::Application::decrypt_in_place: `Ok ==> genuine` is the
//     AEAD assumption A-aead plus layer F (C18/key.open/forged_packet_never_schedules_key_update, dc_key_open.rs);
//   * State::on_error / on_cleartext_stream_packet: ghost flags record THAT they ran (frame only).
// Extraction drops (echoed into the evidence): `tracing::error!( .. );` statement, the generic parameter list and
// `where` clause of on_stream_packet_in_place (types renamed to the model types), `error::Kind::MaxDataExceeded.err()`
// is renamed to a model constructor.  NOT decided: precheck_stream_packet_impl / ensure_max_data (pure reads of the
// header before authentication, by design), on_cleartext_stream_packet itself, the datagram / control receive paths.

#[derive(Clone, Copy, PartialEq, Eq, Structural)]
pub enum Error { Crypto, MaxDataExceeded, Buffer }
pub struct KindX { pub dummy: u8 }
pub fn kind_max_data_exceeded_err() -> (r: Error) ensures r == Error::MaxDataExceeded { Error::MaxDataExceeded }

#[derive(Clone, Copy)]
pub enum Location { Local, Remote }
pub struct OpenerX { pub dummy: u8 }
pub struct ControlX { pub dummy: u8 }
pub struct ClockX { pub dummy: u8 }
pub struct PubX { pub dummy: u8 }
#[derive(Clone, Copy)]
pub struct ExplicitCongestionNotification { pub v: u8 }

/// stream::decoder::Packet: `genuine` = the bytes carry a tag that verifies under the key the packet names
pub struct DecoderPacket { pub genuine: Ghost<bool>, pub decrypt_calls: Ghost<int> }
impl DecoderPacket {
    #[verifier::external_body]
    pub fn decrypt_in_place(&mut self, crypto: &OpenerX, control: &ControlX) -> (r: Result<(), Error>)
        ensures
            r is Ok ==> old(self).genuine@,
            r is Err ==> r->Err_0 == Error::Crypto,
            final(self).genuine@ == old(self).genuine@,
            final(self).decrypt_calls@ == old(self).decrypt_calls@ + 1,
    { unimplemented!() }
}

/// stream::recv::State: ghost flags for "a cleartext handler ran" and "the stream was reset with an error"
pub struct State { pub acted: Ghost<bool>, pub errored: Ghost<bool> }
impl State {
    #[verifier::external_body]
    pub fn on_cleartext_stream_packet(&mut self, packet: &mut DecoderPacket, ecn: ExplicitCongestionNotification, clock: &ClockX, publisher: &PubX) -> (r: Result<(), Error>)
        ensures
            final(self).acted@,
            final(self).errored@ == old(self).errored@,
            final(packet).genuine@ == old(packet).genuine@,
            final(packet).decrypt_calls@ == old(packet).decrypt_calls@,
    { unimplemented!() }

    #[verifier::external_body]
    pub fn on_error(&mut self, error: Error, source: Location, publisher: &PubX)
        ensures final(self).errored@, final(self).acted@ == old(self).acted@,
    { unimplemented!() }

//@ splice-fn dc/s2n-quic-dc/src/stream/recv/state.rs "State" on_stream_packet_in_place vis=strip "subst=<D, C, Clk, Pub>=>@@where D: crypto::open::Application, C: crypto::open::control::Stream, Clk: Clock + ?Sized, Pub: event::ConnectionPublisher,=>@@&D=>&OpenerX@@&Clk=>&ClockX@@&C,=>&ControlX,@@&Pub=>&PubX@@&mut stream::decoder::Packet=>&mut DecoderPacket"
//@| ensures
//@|     // nothing is acted upon unless the packet authenticated
//@|     final(self).acted@ && !old(self).acted@ ==> old(packet).genuine@,
//@|     ret is Ok ==> old(packet).genuine@,
//@|     !old(packet).genuine@ ==> ret is Err && ret->Err_0 == Error::Crypto,
//@|     final(self).errored@ == old(self).errored@,
//@|     final(packet).genuine@ == old(packet).genuine@,
//@|     final(packet).decrypt_calls@ == old(packet).decrypt_calls@ + 1,
}

/// stream::recv::packet::Packet (the reader wrapped around a parsed packet); contract of read_chunk = what
/// `read_chunk_authenticates_first` below proves on the real guard statement
pub struct PacketReaderX { pub genuine: Ghost<bool>, pub authenticated: Ghost<bool> }
impl PacketReaderX {
    #[verifier::external_body]
    pub fn read_chunk(&mut self, watermark: usize) -> (r: Result<usize, Error>)
        ensures
            r is Ok ==> old(self).genuine@,
            !old(self).genuine@ ==> r is Err && r->Err_0 == Error::Crypto,
            final(self).genuine@ == old(self).genuine@,
    { unimplemented!() }
}

#[derive(Clone, Copy)]
pub struct BufErr { pub dummy: u8 }
impl BufErr {
    pub fn into(self) -> (r: Error) ensures r == Error::Buffer { Error::Buffer }
}
pub struct OutBufX { pub dummy: u8 }
impl OutBufX {
    #[verifier::external_body]
    pub fn read_from(&mut self, p: &mut PacketReaderX) -> (r: Result<(), BufErr>)
        ensures final(p).genuine@ == old(p).genuine@,
    { unimplemented!() }
}

impl State {
    // ---- on_stream_packet_impl: header claims more than max_data ---------------------------------------------------
    fn on_stream_packet_impl_max_data_gate(&mut self, mut packet: PacketReaderX, is_max_data_ok: bool, publisher: &PubX) -> (ret: Result<(), Error>)
        ensures
            // the stream is reset only on behalf of an authentic packet
            final(self).errored@ && !old(self).errored@ ==> packet.genuine@,
            // a forged packet is only ever a crypto error, whatever its header claims
            !is_max_data_ok && !packet.genuine@ ==> ret is Err && ret->Err_0 == Error::Crypto,
            // the violation is never silently accepted, and it is reported (and the stream reset) only for an authentic packet
            !is_max_data_ok ==> ret is Err,
            ret is Err && ret->Err_0 != Error::Crypto ==> packet.genuine@,
            is_max_data_ok ==> ret is Ok && final(self).errored@ == old(self).errored@,
            final(self).acted@ == old(self).acted@,
    {
//@ splice-stmts dc/s2n-quic-dc/src/stream/recv/state.rs "State" on_stream_packet_impl "from=if !is_max_data_ok" dropstmt=tracing::error! "subst=error::Kind::MaxDataExceeded.err()=>kind_max_data_exceeded_err()"
        Ok(())
    }

    // ---- on_stream_packet_impl: the buffer rejected the payload (e.g. FIN contradiction claimed by the header) --------
    fn on_stream_packet_impl_read_from(&mut self, mut packet: PacketReaderX, out_buf: &mut OutBufX) -> (ret: Result<(), Error>)
        ensures
            !packet.genuine@ && ret is Err ==> ret->Err_0 == Error::Crypto,
            ret is Err && ret->Err_0 == Error::Buffer ==> packet.genuine@,
            final(self).errored@ == old(self).errored@ && final(self).acted@ == old(self).acted@,
    {
//@ splice-stmts dc/s2n-quic-dc/src/stream/recv/state.rs "State" on_stream_packet_impl "from=if let Err(e) = out_buf.read_from(&mut packet)"
        Ok(())
    }
}

// ---- packet::Packet::read_chunk (dc/s2n-quic-dc/src/stream/recv/packet.rs): decrypt exactly once, before any byte is
// handed out -- this is the contract assumed for `PacketReaderX::read_chunk` above ---------------------------------
pub struct Packet<'a> {
    pub packet: &'a mut DecoderPacket,
    pub is_decrypted_in_place: bool,
    pub ecn: ExplicitCongestionNotification,
    pub clock: &'a ClockX,
    pub opener: &'a OpenerX,
    pub control: &'a ControlX,
    pub receiver: &'a mut State,
    pub publisher: &'a PubX,
}

impl<'a> Packet<'a> {
    fn read_chunk_authenticates_first(&mut self) -> (ret: Result<(), Error>)
        requires
            // representation invariant of the reader: the flag is set only by this statement, after a successful decryption
            old(self).is_decrypted_in_place ==> old(self).packet.genuine@,
        ensures
            ret is Ok ==> final(self).packet.genuine@ && final(self).is_decrypted_in_place,
            !old(self).packet.genuine@ ==> ret is Err && ret->Err_0 == Error::Crypto,
            final(self).packet.genuine@ == old(self).packet.genuine@,
            // at most one decryption per packet (a second in-place decryption would corrupt the payload)
            old(self).is_decrypted_in_place ==> final(self).packet.decrypt_calls@ == old(self).packet.decrypt_calls@,
            !old(self).is_decrypted_in_place ==> final(self).packet.decrypt_calls@ == old(self).packet.decrypt_calls@ + 1,
            final(self).is_decrypted_in_place ==> final(self).packet.genuine@,
            final(self).receiver.errored@ == old(self).receiver.errored@,
            final(self).receiver.acted@ && !old(self).receiver.acted@ ==> old(self).packet.genuine@,
    {
//@ splice-stmts dc/s2n-quic-dc/src/stream/recv/packet.rs "reader::Storage for Packet<'_, '_, D, K, C, Pub> where D: crypto::open::Application, K: crypto::open::control::Stream, C: Clock + ?Sized, Pub: event::ConnectionPublisher," read_chunk "from=if "
        Ok(())
    }
}

// ---- which receive errors reset the stream (dc/s2n-quic-dc/src/stream/recv/error.rs, Error::is_fatal, WHOLE function) ------
// C18 "changing any header, payload or tag byte gets it rejected and leaves stream data ... untouched": on a DATAGRAM transport
// (`!features.is_stream()`: every packet can be forged by an off-path sender) a packet that fails to decode, fails
// authentication, is a replayed duplicate or names other credentials / another stream is NEVER fatal -- the receiver keeps its
// state (State::on_stream_packet calls on_error only `if err.is_fatal(..)`, statement below).  On a stream transport (TCP/TLS
// framing) every error is fatal by design.
#[derive(Clone, Copy, PartialEq, Eq, Structural)]
pub struct TransportFeaturesX { pub stream: bool }
impl TransportFeaturesX { pub fn is_stream(&self) -> (r: bool) ensures r == self.stream { self.stream } }
pub enum Kind {
    Decode, Crypto(u8), Duplicate, CredentialMismatch { expected: u64, actual: u64 }, StreamMismatch { expected: u64, actual: u64 },
    OutOfOrder { expected: u64, actual: u64 }, MaxDataExceeded, InvalidFin, OutOfRange, UnexpectedRetransmission, TruncatedTransport,
    IdleTimeout, KeyReplayPrevented, KeyReplayMaybePrevented { gap: Option<u64> }, UnknownPathSecret, TransportError { code: u64 },
    ApplicationError { error: u64 }, UnexpectedPacket { packet: u8 },
}
pub struct RecvError { pub kind: Kind }
pub open spec fn pre_authentication_kind(k: Kind) -> bool {
    k is Decode || k is Crypto || k is Duplicate || k is CredentialMismatch || k is StreamMismatch
}
impl RecvError {
    pub fn kind(&self) -> (r: &Kind) ensures *r == self.kind { &self.kind }
//@ splice-fn dc/s2n-quic-dc/src/stream/recv/error.rs "Error" is_fatal vis=strip "subst=&TransportFeatures=>&TransportFeaturesX"
//@| ensures
//@|     features.stream ==> ret,
//@|     !features.stream ==> ret == !pre_authentication_kind(self.kind),
}

pub struct StateF { pub features: TransportFeaturesX, pub errored: Ghost<bool>, pub next: Ghost<Result<(), RecvError2>> }
impl StateF {
    #[verifier::external_body]
    pub fn on_error(&mut self, error: RecvError2, source: Location, publisher: &PubX) ensures final(self).errored@ { unimplemented!() }
}
#[derive(Clone, Copy, PartialEq, Eq, Structural)]
pub struct RecvError2 { pub fatal_on_datagram: bool }
impl RecvError2 {
    // Error::is_fatal, contract proved above on the real text
    pub fn is_fatal(&self, features: &TransportFeaturesX) -> (r: bool) ensures r == (features.stream || self.fatal_on_datagram) { features.stream || self.fatal_on_datagram }
}
impl StateF {
    // State::on_stream_packet_impl: here an arbitrary result that does not itself reset the stream (its own ordering is decided above)
    #[verifier::external_body]
    fn on_stream_packet_impl(&mut self, opener: &OpenerX, control: &ControlX, credentials: &u8, packet: &mut DecoderPacket, ecn: ExplicitCongestionNotification, accept_state: u8, clock: &ClockX, out_buf: &mut OutBufX, publisher: &PubX) -> (r: Result<(), RecvError2>)
        ensures r == old(self).next@, final(self).errored@ == old(self).errored@, final(self).features == old(self).features,
    { unimplemented!() }

    // the result handling of State::on_stream_packet (the `match self.on_stream_packet_impl(..) { .. }` statement, real text)
    fn on_stream_packet_result(&mut self, opener: &OpenerX, control: &ControlX, credentials: &u8, packet: &mut DecoderPacket, ecn: ExplicitCongestionNotification, accept_state: u8, clock: &ClockX, out_buf: &mut OutBufX, publisher: &PubX) -> (ret: Result<(), RecvError2>)
        requires !old(self).errored@,
        ensures
            // the stream is reset only for an error that is fatal for this transport; a non-fatal one leaves the state alone
            final(self).errored@ <==> (old(self).next@ is Err && (old(self).features.stream || old(self).next@->Err_0.fatal_on_datagram)),
            (ret is Ok) == (old(self).next@ is Ok), ret is Err ==> ret->Err_0 == old(self).next@->Err_0,
    {
//@ splice-stmts dc/s2n-quic-dc/src/stream/recv/state.rs "State" on_stream_packet "from=match self.on_stream_packet_impl(" dropstmt=tracing::debug!
    }
}
