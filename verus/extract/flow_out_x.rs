//@ verus props=C03 tier=quick kind=X spec=flow_out.rs timeout=300
// Layer X for C03: the real bodies of the sender-side flow controllers, extracted verbatim and verified
// by Verus function by function (callers against callee contracts) on top of the VarInt kernel.
// Postconditions are the predicates of contracts/spec/flow_out.rs (transliterated above the job body),
// i.e. the very same text the Kani harnesses assert and the history lemmas assume.
//@ include-job varint_arith.rs

// ---- dependency stubs (TRUSTED, listed in the evidence): the BLOCKED-frame synchronisers are separate
// fields; their methods take `&mut self` of *that field only*, so they cannot touch the flow-control
// counters.  Their own behaviour is not part of C03.
pub struct PeriodicSync { _p: u8 }
impl PeriodicSync {
    #[verifier::external_body]
    pub fn request_delivery(&mut self, value: VarInt) {}
    #[verifier::external_body]
    pub fn stop_sync(&mut self) {}
}

//@ splice-item quic/s2n-quic-transport/src/stream/outgoing_connection_flow_controller.rs "struct OutgoingConnectionFlowControllerImpl" "subst=PeriodicSync<VarInt, DataBlockedToFrameWriter>=>PeriodicSync"

//@ splice-item quic/s2n-quic-core/src/frame/max_data.rs "pub struct MaxData" "subst=pub maximum_data: VarInt=>pub maximum_data: VarInt"

impl OutgoingConnectionFlowControllerImpl {
    pub closed spec fn abs(&self) -> Ocfc {
        Ocfc { total: self.total_available_window.0 as int, avail: self.available_window.0 as int }
    }

//@ splice-fn quic/s2n-quic-transport/src/stream/outgoing_connection_flow_controller.rs "OutgoingConnectionFlowControllerImpl" acquire_window vis=strip desugar=assign_ops
//@| requires ocfc_inv(old(self).abs()), desired.wf(),
//@| ensures
//@|     ocfc_acquire_post(old(self).abs(), desired.0 as int, final(self).abs(), ret.0 as int),
//@|     ocfc_inv(final(self).abs()),

//@ splice-fn quic/s2n-quic-transport/src/stream/outgoing_connection_flow_controller.rs "OutgoingConnectionFlowControllerImpl" on_max_data vis=strip "subst=frame.maximum_data - self.total_available_window=>frame.maximum_data.sub(self.total_available_window)" desugar=assign_ops
//@| requires ocfc_inv(old(self).abs()), frame.maximum_data.wf(),
//@| ensures
//@|     ocfc_max_data_post(old(self).abs(), frame.maximum_data.0 as int, final(self).abs()),
//@|     ocfc_inv(final(self).abs()),
}

// ---- StreamFlowController -------------------------------------------------------------------------
// The connection-level controller is reached through an Rc<RefCell<..>> handle; here it is an opaque
// handle whose one relevant method carries the contract proved above for
// OutgoingConnectionFlowControllerImpl::acquire_window (grant <= desired).  TRUSTED: the handle forwards
// to that implementation (checked by layer F: C03/ocfc.handle/*).
pub struct OutgoingConnectionFlowController { _p: u8 }
impl OutgoingConnectionFlowController {
    #[verifier::external_body]
    pub fn acquire_window(&mut self, desired: VarInt) -> (ret: VarInt)
        ensures ret.0 <= desired.0,
    { unimplemented!() }
}

//@ splice-item quic/s2n-quic-transport/src/stream/send_stream.rs "pub(super) enum StreamFlowControllerState" derive=Copy,Clone,PartialEq,Eq,Structural vis=strip
//@ splice-item quic/s2n-quic-transport/src/stream/send_stream.rs "pub(super) struct StreamFlowController" vis=strip "subst=PeriodicSync<VarInt, StreamDataBlockedToFrameWriter>=>PeriodicSync"

impl StreamFlowController {
    pub closed spec fn abs(&self) -> Sfc {
        Sfc { msd: self.max_stream_data.0 as int, acquired: self.acquired_connection_flow_controller_window.0 as int,
              requested: self.highest_requested_connection_flow_control_window.0 as int,
              finished: self.state == StreamFlowControllerState::Finished }
    }

//@ splice-fn quic/s2n-quic-transport/src/stream/send_stream.rs "StreamFlowController" set_max_stream_data vis=strip
//@| requires sfc_inv(old(self).abs()), max_stream_data.wf(),
//@| ensures
//@|     sfc_set_msd_is_max(old(self).abs(), max_stream_data.0 as int, final(self).abs()),
//@|     sfc_set_msd_frame(old(self).abs(), max_stream_data.0 as int, final(self).abs()),
//@|     sfc_inv(final(self).abs()),

//@ splice-fn quic/s2n-quic-transport/src/stream/send_stream.rs "StreamFlowController" try_acquire_connection_window vis=strip desugar=assign_ops
//@| requires sfc_inv(old(self).abs()),
//@| ensures
//@|     sfc_inv(final(self).abs()),
//@|     final(self).abs().acquired >= old(self).abs().acquired,
//@|     final(self).abs().acquired <= final(self).abs().requested,
//@|     final(self).abs().msd == old(self).abs().msd, final(self).abs().requested == old(self).abs().requested,
//@|     final(self).abs().finished == old(self).abs().finished,
//@|     old(self).abs().finished ==> final(self).abs().acquired == old(self).abs().acquired,

//@ splice-fn quic/s2n-quic-transport/src/stream/send_stream.rs "StreamFlowController" available_window vis=strip
//@| ensures ret.0 as int == sfc_window(self.abs()),

//@ splice-fn quic/s2n-quic-transport/src/stream/send_stream.rs "OutgoingDataFlowController for StreamFlowController" acquire_flow_control_window vis=strip drop=debug_assert
//@| requires sfc_inv(old(self).abs()), end_offset.wf(),
//@| ensures
//@|     sfc_acquire_result_is_window(old(self).abs(), end_offset.0 as int, final(self).abs(), ret.0 as int),
//@|     sfc_acquire_requested_is_max(old(self).abs(), end_offset.0 as int, final(self).abs(), ret.0 as int),
//@|     sfc_acquire_never_more_than_requested(old(self).abs(), end_offset.0 as int, final(self).abs(), ret.0 as int),
//@|     sfc_acquire_msd_unchanged(old(self).abs(), end_offset.0 as int, final(self).abs(), ret.0 as int),
//@|     final(self).abs().acquired >= old(self).abs().acquired,
//@|     sfc_inv(final(self).abs()),
}
