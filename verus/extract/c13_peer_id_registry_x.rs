//@ verus props=C13 tier=quick kind=X timeout=300
// Layer X for the receiving side of C13 -- "it only retires peer IDs the peer actually issued" and the RFC 9000 5.1.1 / 19.15
// validation of NEW_CONNECTION_ID frames -- on quic/s2n-quic-transport/src/connection/peer_id_registry.rs,
// PeerIdRegistry::on_new_connection_id (the Kani harnesses for PeerIdRegistry did not finish: probes/kani_injected_c13_*):
//   * PeerIdInfo::{validate_new_connection_id, is_retire_ready, is_active}: WHOLE functions -- a frame that repeats a known id
//     with a different sequence number or reset token, or reuses a sequence number / reset token for a different id, is an
//     error (RFC 9000 19.15: "a connection error of type PROTOCOL_VIOLATION"); an exact repeat is a duplicate (Ok(true));
//   * the body of the loop over the registered ids, for one entry: an entry is moved to PendingRetirement iff it is active and
//     its sequence number is below the (new) Retire Prior To -- only ids that ARE registered (= that the peer issued) are ever
//     retired; the active count counts exactly the entries still active; an error leaves the entry untouched;
//   * the `if !is_duplicate { .. }` statement: the new id is registered with the frame's id / sequence number / token, as New or
//     -- if the frame itself already retires it -- PendingRetirement; an id that was InUsePendingNewConnectionId is retired in
//     exchange; more than ACTIVE_CONNECTION_ID_LIMIT (3) active ids is CONNECTION_ID_LIMIT_ERROR (RFC 9000 5.1.1);
//   * check_active_connection_id_limit / check_retired_connection_id_limit: WHOLE functions (debug self-check dropped).
// Extraction drops (echoed into the evidence): loop header (iterator), `debug_assert_eq!` self-checks, `x |= e?;` desugared with
// the right side evaluated first; `connection::PeerId` / `stateless_reset::Token` renamed to model types; constants spliced.

#[derive(Clone, Copy, PartialEq, Eq, Structural)]
pub struct PeerId { pub len: u8, pub a: u64, pub b: u64 }
#[derive(Clone, Copy, PartialEq, Eq, Structural)]
pub struct Token { pub a: u64, pub b: u64 }
#[derive(Clone, Copy, PartialEq, Eq, Structural)]
pub enum PeerIdStatus { New, InUse, InUsePendingNewConnectionId, PendingRetirement, PendingRetirementRetransmission, PendingAcknowledgement(u64) }
use PeerIdStatus::*;
#[derive(Clone, Copy, PartialEq, Eq, Structural)]
pub enum PeerIdRegistrationError { InvalidNewConnectionId, ExceededActiveConnectionIdLimit, ExceededRetiredConnectionIdLimit }
use PeerIdRegistrationError::*;
pub struct MemoX { pub dummy: u8 }
impl MemoX {
    #[verifier::external_body]
    pub fn clear(&self) { unimplemented!() }
}
//@ splice-item quic/s2n-quic-transport/src/connection/peer_id_registry.rs "pub const ACTIVE_CONNECTION_ID_LIMIT: u8"
//@ splice-item quic/s2n-quic-transport/src/connection/peer_id_registry.rs "const RETIRED_CONNECTION_ID_LIMIT: u8"

pub struct PeerIdInfo { pub id: PeerId, pub sequence_number: u32, pub stateless_reset_token: Option<Token>, pub status: PeerIdStatus }
pub open spec fn active(s: PeerIdStatus) -> bool { s == New || s == InUse || s == InUsePendingNewConnectionId }

impl PeerIdInfo {
//@ splice-fn quic/s2n-quic-transport/src/connection/peer_id_registry.rs "PeerIdInfo" is_active vis=strip
//@| ensures ret == active(self.status),
//@ splice-fn quic/s2n-quic-transport/src/connection/peer_id_registry.rs "PeerIdInfo" is_retire_ready vis=strip
//@| ensures ret == (active(self.status) && self.sequence_number < retire_prior_to),
//@ splice-fn quic/s2n-quic-transport/src/connection/peer_id_registry.rs "PeerIdInfo" validate_new_connection_id vis=strip "subst=connection::PeerId=>PeerId@@stateless_reset::Token=>Token"
//@| ensures
//@|     ({ let same_id = self.id == *new_id; let same_seq = self.sequence_number == sequence_number; let same_tok = self.stateless_reset_token == Some(*stateless_reset_token);
//@|        &&& (ret is Ok && ret->Ok_0) == (same_id && same_seq && same_tok)           // exact retransmission of a known frame
//@|        &&& (ret is Ok && !ret->Ok_0) == (!same_id && !same_seq && !same_tok)         // unrelated to this entry
//@|        &&& ret is Err ==> ret->Err_0 == InvalidNewConnectionId }),
}

pub struct AckSetX { pub set: Ghost<Set<int>> }
impl AckSetX {
    #[verifier::external_body]
    pub fn contains(&self, pn: u64) -> (r: bool) ensures r == self.set@.contains(pn as int) { unimplemented!() }
}
pub struct PeerIdRegistry { pub registered_ids: Vec<PeerIdInfo>, pub retire_prior_to: u32, pub transmission_interest: MemoX, pub ack_interest: MemoX }
impl PeerIdRegistry {
//@ splice-fn quic/s2n-quic-transport/src/connection/peer_id_registry.rs "PeerIdRegistry" check_active_connection_id_limit vis=strip dropstmt=debug_assert_eq!
//@| ensures ret is Err <==> active_id_count > 3, ret is Err ==> ret->Err_0 == ExceededActiveConnectionIdLimit,
//@ splice-fn quic/s2n-quic-transport/src/connection/peer_id_registry.rs "PeerIdRegistry" check_retired_connection_id_limit vis=strip dropstmt=debug_assert_eq!
//@| ensures ret is Err <==> retired_id_count > 6, ret is Err ==> ret->Err_0 == ExceededRetiredConnectionIdLimit,

    // ---- one registered entry of the loop ----------------------------------------------------------------------------------
    fn on_new_connection_id_loop_body(&mut self, id_info: &mut PeerIdInfo, new_id: &PeerId, stateless_reset_token: &Token, sequence_number: u32, is_duplicate_in: bool, active_in: usize) -> (ret: Result<(bool, usize), PeerIdRegistrationError>)
        requires active_in < usize::MAX,
        ensures
            // a conflicting frame is rejected and the entry is untouched
            ret is Err ==> ret->Err_0 == InvalidNewConnectionId && *final(id_info) == *old(id_info),
            ret is Ok ==> ({
                let retire = active(old(id_info).status) && old(id_info).sequence_number < old(self).retire_prior_to;
                // retired iff active and below Retire Prior To; nothing else about the entry changes
                &&& final(id_info).status == (if retire { PendingRetirement } else { old(id_info).status })
                &&& final(id_info).id == old(id_info).id && final(id_info).sequence_number == old(id_info).sequence_number
                &&& final(id_info).stateless_reset_token == old(id_info).stateless_reset_token
                &&& ret->Ok_0.1 == active_in + (if active(final(id_info).status) { 1int } else { 0int })
                &&& ret->Ok_0.0 == (is_duplicate_in || (old(id_info).id == *new_id))
            }),
            final(self).retire_prior_to == old(self).retire_prior_to,
            final(self).registered_ids == old(self).registered_ids,
    {
        let mut is_duplicate = is_duplicate_in;
        let mut active_id_count = active_in;
//@ splice-stmts quic/s2n-quic-transport/src/connection/peer_id_registry.rs "PeerIdRegistry" on_new_connection_id "from=is_duplicate |=" "to=if id_info.is_active()" desugar=bool_assign
        Ok((is_duplicate, active_id_count))
    }

    // ---- the new id itself -----------------------------------------------------------------------------------------------------
    fn on_new_connection_id_register(&mut self, new_id: &PeerId, sequence_number: u32, stateless_reset_token: &Token, is_duplicate: bool, active_in: usize, id_pending_new_connection_id: Option<&mut PeerIdInfo>) -> (ret: Result<usize, PeerIdRegistrationError>)
        // (no precondition may mention the value behind `id_pending_new_connection_id`: Verus reads a by-value `Option<&mut T>` in a
        // `requires` as the reference's FINAL value, which contradicts the assignment in the body and makes the clause vacuous --
        // found by a mutation that stayed green; see AUTHORING.md)
        requires 0 < active_in < usize::MAX,
        ensures
            is_duplicate ==> ret is Ok && final(self).registered_ids@ == old(self).registered_ids@,
            !is_duplicate ==> ({
                let n = final(self).registered_ids@.last();
                let retired_at_once = sequence_number < old(self).retire_prior_to;
                &&& final(self).registered_ids@.len() == old(self).registered_ids@.len() + 1
                &&& final(self).registered_ids@.drop_last() =~= old(self).registered_ids@
                // exactly what the frame announced
                &&& n.id == *new_id && n.sequence_number == sequence_number && n.stateless_reset_token == Some(*stateless_reset_token)
                &&& n.status == (if retired_at_once { PendingRetirement } else { New })
                // an id in use that was waiting for a replacement is retired in exchange for an active new one
                &&& (id_pending_new_connection_id is Some && !retired_at_once ==> final(id_pending_new_connection_id->Some_0).status == PendingRetirement)
                // RFC 9000 5.1.1: more active ids than our limit is an error
                &&& ({ let count = active_in + (if retired_at_once { 0int } else if id_pending_new_connection_id is Some { 0int } else { 1int });
                       (ret is Err <==> count > 3) && (ret is Err ==> ret->Err_0 == ExceededActiveConnectionIdLimit) && (ret is Ok ==> ret->Ok_0 == count) })
            }),
            final(self).retire_prior_to == old(self).retire_prior_to,
    {
        let mut active_id_count = active_in;
//@ splice-stmts quic/s2n-quic-transport/src/connection/peer_id_registry.rs "PeerIdRegistry" on_new_connection_id "from=if !is_duplicate"
        Ok(active_id_count)
    }

    // ---- on_packet_loss: one registered entry -- a lost RETIRE_CONNECTION_ID is sent again, for the same sequence number ---------
    fn on_packet_loss_loop_body(&mut self, id_info: &mut PeerIdInfo, ack_set: &AckSetX)
        ensures
            final(id_info).id == old(id_info).id && final(id_info).sequence_number == old(id_info).sequence_number
                && final(id_info).stateless_reset_token == old(id_info).stateless_reset_token,
            final(id_info).status == (match old(id_info).status {
                PendingAcknowledgement(pn) => if ack_set.set@.contains(pn as int) { PendingRetirementRetransmission } else { old(id_info).status },
                _ => old(id_info).status,
            }),
            // a retired id never becomes active again
            active(final(id_info).status) == active(old(id_info).status),
            final(self).retire_prior_to == old(self).retire_prior_to, final(self).registered_ids == old(self).registered_ids,
    {
//@ splice-stmts quic/s2n-quic-transport/src/connection/peer_id_registry.rs "PeerIdRegistry" on_packet_loss "from=for id_info in self" inner=1
    }
}
