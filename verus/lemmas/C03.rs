//@ verus props=C03 tier=quick kind=L spec=flow_out.rs timeout=300
// History lemmas for C03: from the function contracts asserted by layer F (contracts/spec/flow_out.rs,
// transliterated above) to "a sender never exceeds the limits its peer granted", for every sequence of
// {MAX_DATA, MAX_STREAM_DATA, acquire+transmit, finish, MAX_STREAMS, open} of any length, in any order, for
// any number of streams.

// ---- ghost state ---------------------------------------------------------------------------------
pub struct Conn {
    pub c: Ocfc,                  // abstraction of the connection flow controller
    pub streams: Seq<Sfc>,        // abstraction of every stream flow controller
    pub sent_end: Seq<int>,       // ghost: highest end offset ever put on the wire per stream
    pub max_data_seen: int,       // ghost: largest MAX_DATA / initial_max_data received
    pub msd_seen: Seq<int>,       // ghost: largest MAX_STREAM_DATA / initial limit received per stream
}

pub open spec fn sum_acquired(s: Seq<Sfc>) -> int
    decreases s.len()
{
    if s.len() == 0 { 0 } else { sum_acquired(s.drop_last()) + s.last().acquired }
}

pub open spec fn sum_seq(s: Seq<int>) -> int
    decreases s.len()
{
    if s.len() == 0 { 0 } else { sum_seq(s.drop_last()) + s.last() }
}

pub open spec fn inv(g: Conn) -> bool {
    &&& ocfc_inv(g.c)
    &&& g.sent_end.len() == g.streams.len()
    &&& g.msd_seen.len() == g.streams.len()
    &&& g.c.total <= g.max_data_seen
    &&& sum_acquired(g.streams) == ocfc_granted(g.c)
    &&& forall|i: int| 0 <= i < g.streams.len() ==> #[trigger] sfc_inv(g.streams[i])
    &&& forall|i: int| 0 <= i < g.streams.len() ==> (#[trigger] g.streams[i]).msd <= g.msd_seen[i]
    &&& forall|i: int| 0 <= i < g.streams.len() ==> 0 <= #[trigger] g.sent_end[i] <= sfc_window(g.streams[i])
}

// ---- auxiliary: updating one element changes the sum by that element's delta ----------------------
proof fn lemma_sum_update(s: Seq<Sfc>, i: int, n: Sfc)
    requires 0 <= i < s.len(),
    ensures sum_acquired(s.update(i, n)) == sum_acquired(s) - s[i].acquired + n.acquired,
    decreases s.len(),
{
    let u = s.update(i, n);
    if i == s.len() - 1 {
        assert(u.drop_last() =~= s.drop_last());
    } else {
        assert(u.drop_last() =~= s.drop_last().update(i, n));
        lemma_sum_update(s.drop_last(), i, n);
        assert(s.drop_last()[i] == s[i]);
    }
}

proof fn lemma_sum_push(s: Seq<Sfc>, n: Sfc)
    ensures sum_acquired(s.push(n)) == sum_acquired(s) + n.acquired,
{
    assert(s.push(n).drop_last() =~= s);
}

proof fn lemma_sum_le(a: Seq<int>, b: Seq<Sfc>)
    requires a.len() == b.len(), forall|i: int| 0 <= i < a.len() ==> a[i] <= #[trigger] b[i].acquired,
    ensures sum_seq(a) <= sum_acquired(b),
    decreases a.len(),
{
    if a.len() > 0 {
        lemma_sum_le(a.drop_last(), b.drop_last());
    }
}

// ---- the property, as a consequence of the invariant ---------------------------------------------
proof fn c03_limits_hold(g: Conn)
    requires inv(g),
    ensures
        // connection-wide sum of stream lengths on the wire never exceeds the largest MAX_DATA received
        sum_seq(g.sent_end) <= g.max_data_seen,
        // no stream's data end exceeds the largest MAX_STREAM_DATA received for it
        forall|i: int| 0 <= i < g.streams.len() ==> g.sent_end[i] <= g.msd_seen[i],
{
    assert forall|i: int| 0 <= i < g.sent_end.len() implies g.sent_end[i] <= #[trigger] g.streams[i].acquired by {
        assert(sfc_inv(g.streams[i]));
    }
    lemma_sum_le(g.sent_end, g.streams);
    assert forall|i: int| 0 <= i < g.streams.len() implies g.sent_end[i] <= g.msd_seen[i] by {
        assert(sfc_inv(g.streams[i]));
        assert(g.streams[i].msd <= g.msd_seen[i]);
    }
}

// ---- every contracted operation preserves the invariant -----------------------------------------
proof fn step_initial(initial_max_data: int) -> (g: Conn)
    requires 0 <= initial_max_data <= varint_max(),
    ensures inv(g),
{
    Conn { c: Ocfc { total: initial_max_data, avail: initial_max_data }, streams: Seq::empty(), sent_end: Seq::empty(),
           max_data_seen: initial_max_data, msd_seen: Seq::empty() }
}

proof fn step_open_stream(g: Conn, initial_msd: int) -> (h: Conn)
    requires inv(g), 0 <= initial_msd <= varint_max(),
    ensures inv(h), h.streams.len() == g.streams.len() + 1,
{
    let n = Sfc { msd: initial_msd, acquired: 0, requested: 0, finished: false };
    lemma_sum_push(g.streams, n);
    let h = Conn { streams: g.streams.push(n), sent_end: g.sent_end.push(0), msd_seen: g.msd_seen.push(initial_msd), ..g };
    h
}

proof fn step_max_data(g: Conn, m: int, c_new: Ocfc) -> (h: Conn)
    requires inv(g), 0 <= m <= varint_max(), ocfc_max_data_post(g.c, m, c_new), ocfc_inv(c_new),
    ensures inv(h), h.max_data_seen == imax(g.max_data_seen, m),
{
    Conn { c: c_new, max_data_seen: imax(g.max_data_seen, m), ..g }
}

proof fn step_max_stream_data(g: Conn, i: int, m: int, s_new: Sfc) -> (h: Conn)
    requires inv(g), 0 <= i < g.streams.len(), 0 <= m <= varint_max(),
        sfc_set_msd_is_max(g.streams[i], m, s_new), sfc_set_msd_frame(g.streams[i], m, s_new), sfc_inv(s_new),
    ensures inv(h),
{
    lemma_sum_update(g.streams, i, s_new);
    assert(sfc_inv(g.streams[i]));
    let h = Conn { streams: g.streams.update(i, s_new), msd_seen: g.msd_seen.update(i, imax(g.msd_seen[i], m)), ..g };
    assert forall|j: int| 0 <= j < h.streams.len() implies 0 <= #[trigger] h.sent_end[j] <= sfc_window(h.streams[j]) by {
        assert(sfc_inv(g.streams[j]));
        assert(0 <= g.sent_end[j] <= sfc_window(g.streams[j]));
    }
    assert forall|j: int| 0 <= j < h.streams.len() implies (#[trigger] h.streams[j]).msd <= h.msd_seen[j] by {
        assert(g.streams[j].msd <= g.msd_seen[j]);
    }
    assert forall|j: int| 0 <= j < h.streams.len() implies #[trigger] sfc_inv(h.streams[j]) by {
        assert(sfc_inv(g.streams[j]));
    }
    h
}

// acquire_flow_control_window(end) on stream i followed by putting any data with end offset <= r on the wire
proof fn step_acquire_and_transmit(g: Conn, i: int, end: int, s_new: Sfc, c_new: Ocfc, r: int, wire_end: int) -> (h: Conn)
    requires inv(g), 0 <= i < g.streams.len(), 0 <= end <= varint_max(),
        sfc_acquire_post(g.streams[i], end, s_new, r, g.c, c_new), sfc_inv(s_new), ocfc_inv(c_new),
        0 <= wire_end <= r,     // Transmissions::transmit_interval: interval end <= window returned by the controller
    ensures inv(h), h.sent_end[i] == imax(g.sent_end[i], wire_end), h.max_data_seen == g.max_data_seen,
{
    lemma_sum_update(g.streams, i, s_new);
    assert(sfc_inv(g.streams[i]));
    assert(0 <= g.sent_end[i] <= sfc_window(g.streams[i]));
    let h = Conn { c: c_new, streams: g.streams.update(i, s_new), sent_end: g.sent_end.update(i, imax(g.sent_end[i], wire_end)), ..g };
    assert forall|j: int| 0 <= j < h.streams.len() implies 0 <= #[trigger] h.sent_end[j] <= sfc_window(h.streams[j]) by {
        assert(0 <= g.sent_end[j] <= sfc_window(g.streams[j]));
    }
    assert forall|j: int| 0 <= j < h.streams.len() implies (#[trigger] h.streams[j]).msd <= h.msd_seen[j] by {
        assert(g.streams[j].msd <= g.msd_seen[j]);
    }
    assert forall|j: int| 0 <= j < h.streams.len() implies #[trigger] sfc_inv(h.streams[j]) by {
        assert(sfc_inv(g.streams[j]));
    }
    h
}

// RESET_STREAM: SendStream::init_reset announces final_size == acquired (layer F:
// C03/send_stream.init_reset/final_size_is_booked_connection_credit).  Consequences for every history:
//  * it is never below what was sent on the stream (C12: final size >= data already sent);
//  * all final sizes / stream lengths together stay within the largest MAX_DATA received (connection clause);
//  * the per-stream clause holds whenever the booked credit is within the stream limit -- the complement is
//    the known finding KF-C03-reset-final-size (credit is booked up to the highest *requested* offset).
proof fn step_reset_final_size(g: Conn, i: int) -> (final_size: int)
    requires inv(g), 0 <= i < g.streams.len(),
    ensures
        final_size == g.streams[i].acquired,
        final_size >= g.sent_end[i],
        sum_acquired(g.streams) <= g.max_data_seen,
        g.streams[i].acquired <= g.streams[i].msd ==> final_size <= g.msd_seen[i],
{
    assert(sfc_inv(g.streams[i]));
    assert(0 <= g.sent_end[i] <= sfc_window(g.streams[i]));
    assert(g.streams[i].msd <= g.msd_seen[i]);
    g.streams[i].acquired
}

// ---- stream-count limit -----------------------------------------------------------------------
pub struct Streams { pub s: Lic, pub max_streams_seen: int }
pub open spec fn inv_streams(g: Streams) -> bool { lic_inv(g.s) && g.s.peer_max <= g.max_streams_seen }

proof fn step_max_streams(g: Streams, m: int, n: Lic) -> (h: Streams)
    requires inv_streams(g), 0 <= m <= 1152921504606846976, lic_on_max_streams_is_max(g.s, m, n), n.local_max_open == g.s.local_max_open,
    ensures inv_streams(h), h.max_streams_seen == imax(g.max_streams_seen, m),
{
    Streams { s: n, max_streams_seen: imax(g.max_streams_seen, m) }
}

// poll_open_stream returned Ready (contract: lic_open_allowed) and on_open_stream was called
proof fn step_open(g: Streams, n: Lic) -> (h: Streams)
    requires inv_streams(g), lic_open_allowed(g.s), lic_on_open_counts(g.s, n), n.local_max_open == g.s.local_max_open,
    ensures inv_streams(h), h.s.opened <= h.max_streams_seen,
{
    Streams { s: n, max_streams_seen: g.max_streams_seen }
}

// on_close_stream (contract: lic_on_close_counts); frees one slot of the local concurrency limit only
proof fn step_close(g: Streams, n: Lic) -> (h: Streams)
    requires inv_streams(g), g.s.closed < g.s.opened, lic_on_close_counts(g.s, n), n.local_max_open == g.s.local_max_open,
    ensures inv_streams(h), h.s.opened == g.s.opened, h.max_streams_seen == g.max_streams_seen,
{
    Streams { s: n, max_streams_seen: g.max_streams_seen }
}

// available_stream_capacity() (contract: result == lic_capacity) is positive exactly when poll_open_stream may
// return Ready, and opening that many streams stays within the largest MAX_STREAMS received
proof fn lemma_capacity(g: Streams)
    requires inv_streams(g),
    ensures (lic_capacity(g.s) >= 1) == lic_open_allowed(g.s), g.s.opened + lic_capacity(g.s) <= g.max_streams_seen,
{
}
