//@ verus props=C09 tier=quick kind=L spec=recovery.rs timeout=300
// History lemmas for C09: from the per-call contracts asserted by layer F (contracts/spec/recovery.rs,
// transliterated above) to
//   (1) every sent packet is resolved exactly once (acknowledged | declared lost | discarded with its keys) and
//       bytes_in_flight == sum of the sizes of the unresolved congestion-controlled packets, hence >= 0 and no leak,
//       over every history of {sent, acked, lost, discarded, PTO expiry} of any length;
//   (2) a PTO expiry alone resolves nothing and sets backoff' == min(2 * backoff, max); after k consecutive
//       expiries the backoff is min(2^k, max);
//   (3) loss::detect is sound up to the 1 ms timer granularity; the strict statement holds outside the recorded class;
//   (4) weighted_average stays within its inputs up to the (w - 1) ns divide-first slack, so smoothed_rtt stays
//       within the range of the samples observed.

// ---- ghost state ---------------------------------------------------------------------------------
pub struct Pkt { pub pn: int, pub bytes: int }

pub struct Rec {
    pub unresolved: Seq<Pkt>,          // sent packets not yet acknowledged / lost / discarded (recovery::Manager.sent_packets)
    pub bif: int,                      // abstraction of the congestion controller's bytes_in_flight
    pub sent_ever: Set<int>,           // ghost: packet numbers handed to on_packet_sent so far
    pub resolutions: Map<int, int>,    // ghost: how many times each packet number has left `unresolved`
    pub backoff: int,                  // Path.pto_backoff
    pub max_backoff: int,              // connection limit max_pto_backoff
}

pub open spec fn sum_bytes(s: Seq<Pkt>) -> int
    decreases s.len()
{
    if s.len() == 0 { 0 } else { sum_bytes(s.drop_last()) + s.last().bytes }
}

pub open spec fn has_pn(s: Seq<Pkt>, pn: int) -> bool {
    exists|i: int| 0 <= i < s.len() && (#[trigger] s[i]).pn == pn
}

pub open spec fn distinct(s: Seq<Pkt>) -> bool {
    forall|i: int, j: int| 0 <= i < s.len() && 0 <= j < s.len() && i != j ==> (#[trigger] s[i]).pn != (#[trigger] s[j]).pn
}

pub open spec fn inv(g: Rec) -> bool {
    &&& distinct(g.unresolved)
    &&& forall|i: int| 0 <= i < g.unresolved.len() ==> (#[trigger] g.unresolved[i]).bytes >= 0
    &&& forall|i: int| 0 <= i < g.unresolved.len() ==> g.sent_ever.contains((#[trigger] g.unresolved[i]).pn)
    &&& g.bif == sum_bytes(g.unresolved)
    // exactly-once resolution: a packet number that was sent is either still unresolved and has never been
    // resolved, or is no longer unresolved and has been resolved exactly once
    &&& forall|pn: int| #[trigger] g.sent_ever.contains(pn) ==> g.resolutions.dom().contains(pn)
    &&& forall|pn: int| #[trigger] g.sent_ever.contains(pn) ==>
            (has_pn(g.unresolved, pn) && g.resolutions[pn] == 0) || (!has_pn(g.unresolved, pn) && g.resolutions[pn] == 1)
    &&& 1 <= g.backoff <= g.max_backoff
}

// ---- auxiliary sum lemmas ----------------------------------------------------------------------------
proof fn lemma_sum_push(s: Seq<Pkt>, p: Pkt)
    ensures sum_bytes(s.push(p)) == sum_bytes(s) + p.bytes,
{
    assert(s.push(p).drop_last() =~= s);
}

proof fn lemma_sum_remove(s: Seq<Pkt>, i: int)
    requires 0 <= i < s.len(),
    ensures sum_bytes(s.remove(i)) == sum_bytes(s) - s[i].bytes,
    decreases s.len(),
{
    if i == s.len() - 1 {
        assert(s.remove(i) =~= s.drop_last());
    } else {
        assert(s.remove(i).drop_last() =~= s.drop_last().remove(i));
        assert(s.remove(i).last() == s.last());
        lemma_sum_remove(s.drop_last(), i);
        assert(s.drop_last()[i] == s[i]);
    }
}

proof fn lemma_sum_nonneg(s: Seq<Pkt>)
    requires forall|i: int| 0 <= i < s.len() ==> (#[trigger] s[i]).bytes >= 0,
    ensures sum_bytes(s) >= 0,
    decreases s.len(),
{
    if s.len() > 0 {
        assert forall|i: int| 0 <= i < s.drop_last().len() implies (#[trigger] s.drop_last()[i]).bytes >= 0 by {
            assert(s.drop_last()[i] == s[i]);
        }
        lemma_sum_nonneg(s.drop_last());
    }
}

proof fn lemma_sum_ge_element(s: Seq<Pkt>, i: int)
    requires 0 <= i < s.len(), forall|j: int| 0 <= j < s.len() ==> (#[trigger] s[j]).bytes >= 0,
    ensures s[i].bytes <= sum_bytes(s),
{
    lemma_sum_remove(s, i);
    assert forall|j: int| 0 <= j < s.remove(i).len() implies (#[trigger] s.remove(i)[j]).bytes >= 0 by {
        if j < i { assert(s.remove(i)[j] == s[j]); } else { assert(s.remove(i)[j] == s[j + 1]); }
    }
    lemma_sum_nonneg(s.remove(i));
}

// ---- the property, as a consequence of the invariant ---------------------------------------------
proof fn c09_in_flight_exact_and_resolved_once(g: Rec)
    requires inv(g),
    ensures
        g.bif == sum_bytes(g.unresolved),
        g.bif >= 0,
        forall|pn: int| #[trigger] g.sent_ever.contains(pn) ==> 0 <= g.resolutions[pn] <= 1,
        forall|pn: int| #[trigger] g.sent_ever.contains(pn) ==> (g.resolutions[pn] == 1 <==> !has_pn(g.unresolved, pn)),
{
    lemma_sum_nonneg(g.unresolved);
}

// the call-site precondition of on_ack / on_packet_lost / on_packet_discarded that layer F assumes
// ("the bytes were counted in flight") follows from the invariant
proof fn c09_resolution_precondition_holds(g: Rec, i: int)
    requires inv(g), 0 <= i < g.unresolved.len(),
    ensures g.unresolved[i].bytes <= g.bif,
{
    lemma_sum_ge_element(g.unresolved, i);
}

// ---- every operation of the history preserves the invariant ----------------------------------------
proof fn step_initial(max_backoff: int) -> (g: Rec)
    requires 1 <= max_backoff,
    ensures inv(g), g.bif == 0,
{
    Rec { unresolved: Seq::empty(), bif: 0, sent_ever: Set::empty(), resolutions: Map::empty(), backoff: 1, max_backoff: max_backoff }
}

// on_packet_sent: a fresh packet number (C08: tx packet numbers strictly increase) with n congestion-controlled bytes
proof fn step_sent(g: Rec, pn: int, n: int, new_bif: int) -> (h: Rec)
    requires inv(g), !g.sent_ever.contains(pn), n >= 0, cc_sent_bif(g.bif, n, new_bif),
    ensures inv(h), has_pn(h.unresolved, pn), h.resolutions[pn] == 0,
{
    let p = Pkt { pn: pn, bytes: n };
    let h = Rec { unresolved: g.unresolved.push(p), bif: new_bif, sent_ever: g.sent_ever.insert(pn),
                  resolutions: g.resolutions.insert(pn, 0), ..g };
    lemma_sum_push(g.unresolved, p);
    assert(h.unresolved[g.unresolved.len() as int] == p);
    assert forall|i: int, j: int| 0 <= i < h.unresolved.len() && 0 <= j < h.unresolved.len() && i != j
        implies (#[trigger] h.unresolved[i]).pn != (#[trigger] h.unresolved[j]).pn by {
        if i < g.unresolved.len() && j < g.unresolved.len() {
            assert(h.unresolved[i] == g.unresolved[i] && h.unresolved[j] == g.unresolved[j]);
        } else if i < g.unresolved.len() {
            assert(h.unresolved[i] == g.unresolved[i]);
            assert(g.sent_ever.contains(g.unresolved[i].pn));
        } else {
            assert(h.unresolved[j] == g.unresolved[j]);
            assert(g.sent_ever.contains(g.unresolved[j].pn));
        }
    }
    assert forall|q: int| #[trigger] h.sent_ever.contains(q) implies
        (has_pn(h.unresolved, q) && h.resolutions[q] == 0) || (!has_pn(h.unresolved, q) && h.resolutions[q] == 1) by {
        if q == pn {
            assert(h.unresolved[g.unresolved.len() as int].pn == pn);
        } else {
            assert(g.sent_ever.contains(q));
            if has_pn(g.unresolved, q) {
                let i = choose|i: int| 0 <= i < g.unresolved.len() && (#[trigger] g.unresolved[i]).pn == q;
                assert(h.unresolved[i] == g.unresolved[i]);
            } else {
                assert forall|i: int| 0 <= i < h.unresolved.len() implies (#[trigger] h.unresolved[i]).pn != q by {
                    if i < g.unresolved.len() { assert(h.unresolved[i] == g.unresolved[i]); }
                }
            }
        }
    }
    assert forall|i: int| 0 <= i < h.unresolved.len() implies h.sent_ever.contains((#[trigger] h.unresolved[i]).pn) by {
        if i < g.unresolved.len() { assert(h.unresolved[i] == g.unresolved[i]); }
    }
    assert forall|i: int| 0 <= i < h.unresolved.len() implies (#[trigger] h.unresolved[i]).bytes >= 0 by {
        if i < g.unresolved.len() { assert(h.unresolved[i] == g.unresolved[i]); }
    }
    h
}

// on_ack / on_packet_lost / on_packet_discarded of the packet at index i: the three ways a packet is resolved.
// `requires` = the F predicate cc_resolved_bif for the bytes recorded when the packet was sent.
proof fn step_resolved(g: Rec, i: int, new_bif: int) -> (h: Rec)
    requires inv(g), 0 <= i < g.unresolved.len(), cc_resolved_bif(g.bif, g.unresolved[i].bytes, new_bif),
    ensures inv(h), !has_pn(h.unresolved, g.unresolved[i].pn), h.resolutions[g.unresolved[i].pn] == 1,
        h.unresolved.len() == g.unresolved.len() - 1,
{
    let p = g.unresolved[i];
    let h = Rec { unresolved: g.unresolved.remove(i), bif: new_bif, resolutions: g.resolutions.insert(p.pn, 1), ..g };
    lemma_sum_remove(g.unresolved, i);
    assert forall|j: int| 0 <= j < h.unresolved.len() implies
        #[trigger] h.unresolved[j] == (if j < i { g.unresolved[j] } else { g.unresolved[j + 1] }) by {}
    assert forall|j: int| 0 <= j < h.unresolved.len() implies (#[trigger] h.unresolved[j]).pn != p.pn by {
        if j < i { assert(h.unresolved[j] == g.unresolved[j]); } else { assert(h.unresolved[j] == g.unresolved[j + 1]); }
    }
    assert(g.sent_ever.contains(p.pn));
    assert forall|a: int, b: int| 0 <= a < h.unresolved.len() && 0 <= b < h.unresolved.len() && a != b
        implies (#[trigger] h.unresolved[a]).pn != (#[trigger] h.unresolved[b]).pn by {
        let a2 = if a < i { a } else { a + 1 };
        let b2 = if b < i { b } else { b + 1 };
        assert(h.unresolved[a] == g.unresolved[a2] && h.unresolved[b] == g.unresolved[b2]);
    }
    assert forall|q: int| #[trigger] h.sent_ever.contains(q) implies
        (has_pn(h.unresolved, q) && h.resolutions[q] == 0) || (!has_pn(h.unresolved, q) && h.resolutions[q] == 1) by {
        if q != p.pn {
            if has_pn(g.unresolved, q) {
                let j = choose|j: int| 0 <= j < g.unresolved.len() && (#[trigger] g.unresolved[j]).pn == q;
                let j2 = if j < i { j } else { j - 1 };
                assert(h.unresolved[j2] == g.unresolved[j]);
            } else {
                assert forall|j: int| 0 <= j < h.unresolved.len() implies (#[trigger] h.unresolved[j]).pn != q by {
                    let j2 = if j < i { j } else { j + 1 };
                    assert(h.unresolved[j] == g.unresolved[j2]);
                }
            }
        } else {
            assert(has_pn(g.unresolved, q));
        }
    }
    assert forall|j: int| 0 <= j < h.unresolved.len() implies h.sent_ever.contains((#[trigger] h.unresolved[j]).pn) by {
        let j2 = if j < i { j } else { j + 1 };
        assert(h.unresolved[j] == g.unresolved[j2]);
    }
    assert forall|j: int| 0 <= j < h.unresolved.len() implies (#[trigger] h.unresolved[j]).bytes >= 0 by {
        let j2 = if j < i { j } else { j + 1 };
        assert(h.unresolved[j] == g.unresolved[j2]);
    }
    h
}

// a packet that has been resolved can never be resolved again: it is not in `unresolved`, so no later
// step_resolved can name it, and step_sent requires a fresh packet number
proof fn c09_no_second_resolution(g: Rec, pn: int, i: int)
    requires inv(g), g.sent_ever.contains(pn), g.resolutions[pn] == 1, 0 <= i < g.unresolved.len(),
    ensures g.unresolved[i].pn != pn,
{
    if g.unresolved[i].pn == pn {
        assert(has_pn(g.unresolved, pn));
    }
}

// PTO expiry (Pto::on_timeout contract: only the Pto's own timer/state change; Manager doubles the backoff):
// nothing is resolved, nothing leaves or enters `unresolved`, bytes_in_flight is untouched
proof fn step_pto_expired(g: Rec) -> (h: Rec)
    requires inv(g),
    ensures inv(h), h.unresolved == g.unresolved, h.bif == g.bif, h.resolutions == g.resolutions,
        h.backoff == pto_backoff_next(g.backoff, g.max_backoff),
        h.backoff == 2 * g.backoff || h.backoff == g.max_backoff,
{
    Rec { backoff: pto_backoff_next(g.backoff, g.max_backoff), ..g }
}

// an acknowledgement of a newly acked ack-eliciting packet resets the backoff
proof fn step_backoff_reset(g: Rec) -> (h: Rec)
    requires inv(g),
    ensures inv(h), h.backoff == 1,
{
    Rec { backoff: 1, ..g }
}

pub open spec fn pow2(k: nat) -> int
    decreases k
{
    if k == 0 { 1 } else { 2 * pow2((k - 1) as nat) }
}

pub open spec fn backoff_after(k: nat, max_backoff: int) -> int
    decreases k
{
    if k == 0 { 1 } else { pto_backoff_next(backoff_after((k - 1) as nat, max_backoff), max_backoff) }
}

// "the probe timeout doubles with each consecutive expiry" (until the configured maximum)
proof fn c09_backoff_doubles(k: nat, max_backoff: int)
    requires 1 <= max_backoff,
    ensures backoff_after(k, max_backoff) == rmin(pow2(k), max_backoff), pow2(k) >= 1,
    decreases k,
{
    if k > 0 {
        c09_backoff_doubles((k - 1) as nat, max_backoff);
    }
}

// PTO period doubles with the backoff while above the granularity floor (F: calculate_base_pto_micros/doubles_with_backoff
// gives base(2b) == 2*base(b) and base >= 1000)
proof fn c09_pto_period_doubles(b: int, base_us: int)
    requires 1 <= b, base_us >= k_granularity_us(),
    ensures rtt_pto_period_us(2 * b, base_us) == 2 * rtt_pto_period_us(b, base_us), rtt_pto_period_us(b, base_us) >= k_granularity_us(),
{
    assert(b * base_us >= base_us) by (nonlinear_arith) requires b >= 1, base_us >= 0;
    assert((2 * b) * base_us == 2 * (b * base_us)) by (nonlinear_arith);
}

// ---- loss::detect ------------------------------------------------------------------------------------
// what layer F proves (lost_iff_rfc_with_granularity) implies soundness up to the timer granularity and the
// strict RFC statement outside the recorded input class
proof fn c09_loss_detect_sound_up_to_granularity(lost: bool, distance: int, sent: int, thr: int, now: int, g: int)
    requires distance > 0, g > 0, loss_lost_iff_with_granularity(lost, distance, sent, thr, now, g),
    ensures
        loss_lost_only_if_threshold_with_slack(lost, distance, sent, thr, now, g),
        loss_time_threshold_implies_lost(lost, distance, sent, thr, now),
        loss_packet_threshold_implies_lost(lost, distance, sent, thr, now),
        loss_lost_iff_rfc_outside_known(lost, distance, sent, thr, now, g),
        // a declared loss is never more than one granularity (1 ms) early
        lost && distance < k_packet_threshold() ==> sent + thr - now < g,
{
}

// The Kani harness evaluates the predicates in whole microseconds (timestamps have 1 us resolution) with the ns
// threshold rounded DOWN for `now + g > sent + thr` and UP for `now >= sent + thr`; this is exact:
proof fn c09_loss_detect_us_evaluation_is_exact(sent_us: int, now_us: int, thr_ns: int, f: int, sub: int)
    requires 0 <= sub < 1000, thr_ns == 1000 * f + sub,
    ensures
        // floor: now + 1 ms > sent + thr  (ns)  <=>  now_us + 1000 > sent_us + floor_us(thr)
        (1000 * now_us + k_granularity_ns() > 1000 * sent_us + thr_ns) <==> (now_us + k_granularity_us() > sent_us + f),
        // ceil: now >= sent + thr (ns)  <=>  now_us >= sent_us + ceil_us(thr)
        (1000 * now_us >= 1000 * sent_us + thr_ns) <==> (now_us >= sent_us + (if sub == 0 { f } else { f + 1 })),
        // ceil: known class 0 < sent + thr - now <= 1 ms (ns)  <=>  0 < sent_us + ceil_us(thr) - now_us <= 1000
        (0 < 1000 * sent_us + thr_ns - 1000 * now_us && 1000 * sent_us + thr_ns - 1000 * now_us <= k_granularity_ns())
            <==> (0 < sent_us + (if sub == 0 { f } else { f + 1 }) - now_us && sent_us + (if sub == 0 { f } else { f + 1 }) - now_us <= k_granularity_us()),
{
}

// ---- RTT estimator -------------------------------------------------------------------------------------
proof fn c09_weighted_average_within_inputs(a: int, b: int, w: int)
    requires 0 <= a, 0 <= b, 2 <= w,
    ensures rtt_weighted_average_within(a, b, w, rtt_weighted_average_ns(a, b, w)),
{
    let qa = a / w;
    let qb = b / w;
    let m = rmin(a, b);
    let mx = rmax(a, b);
    assert(a == w * qa + a % w && 0 <= a % w < w) by (nonlinear_arith) requires w >= 2, a >= 0, qa == a / w;
    assert(b == w * qb + b % w && 0 <= b % w < w) by (nonlinear_arith) requires w >= 2, b >= 0, qb == b / w;
    let r = qa * (w - 1) + qb;
    // upper bound: w*r = (w-1)*(w*qa) + w*qb <= (w-1)*mx + mx = w*mx
    assert(w * r <= w * mx) by (nonlinear_arith)
        requires r == qa * (w - 1) + qb, w * qa <= mx, w * qb <= mx, w >= 2;
    assert(r <= mx) by (nonlinear_arith) requires w * r <= w * mx, w >= 2;
    // lower bound: w*qa >= m - (w-1), w*qb >= m - (w-1)  =>  w*r >= w*(m - (w-1))
    assert(w * r >= w * (m - (w - 1))) by (nonlinear_arith)
        requires r == qa * (w - 1) + qb, w * qa >= m - (w - 1), w * qb >= m - (w - 1), w >= 2;
    assert(r >= m - (w - 1)) by (nonlinear_arith) requires w * r >= w * (m - (w - 1)), w >= 2;
}

// smoothed_rtt after a sample lies within [min(srtt, adjusted) - 7 ns, max(srtt, adjusted)], and the adjusted sample
// within [min_rtt, latest_rtt]: "RTT estimates stay within the range of the samples observed"
proof fn c09_srtt_within_samples(old: Rtt, adj: int, new: Rtt)
    requires 0 <= old.srtt, 0 <= adj, 0 <= old.rttvar, rtt_update_estimates(old, adj, new), new.min <= adj, adj <= new.latest,
    ensures rtt_update_srtt_within_samples(old, adj, new),
{
    c09_weighted_average_within_inputs(old.srtt, adj, 8);
}

// loss_time_threshold is never below the granularity and at least 9/8 of both estimates (rounded down)
proof fn c09_loss_time_threshold_bounds(srtt: int, latest: int)
    requires 0 <= srtt, 0 <= latest,
    ensures
        rtt_loss_time_threshold_ns(srtt, latest) >= k_granularity_ns(),
        rtt_loss_time_threshold_ns(srtt, latest) >= rmax(srtt, latest),
{
    let m = rmax(srtt, latest);
    assert((9 * m) / 8 >= m) by (nonlinear_arith) requires m >= 0;
}
