//@ verus props=C06 tier=quick kind=L spec=sliding_window.rs timeout=300
// History lemmas for C06 (replay part): from the function contracts asserted by layer F on the real
// SlidingWindow::{check, insert_with_evicted_inner} (contracts/spec/sliding_window.rs, transliterated above) to
//   "a replayed genuine packet is processed at most once per packet number space"
// for every sequence of check / insert events of any length, in any order, with any packet numbers, and
//   "nothing inside the window that was never inserted is rejected".
// (That every received packet goes through check -> decrypt -> insert is glue, see DESIGN 5-C06.)

// ---- ghost state ---------------------------------------------------------------------------------
pub struct Win {
    pub has_edge: bool,
    pub edge: int,
    pub seen: Set<int>,           // abstraction of the bitmap + right edge (pointwise `member` of layer F)
}

pub struct Hist {
    pub w: Win,
    pub accepted: Set<int>,       // ghost: every packet number for which insert() ever returned Ok
}

pub open spec fn win_empty() -> Win { Win { has_edge: false, edge: 0, seen: Set::empty() } }

pub open spec fn win_inv(w: Win) -> bool {
    forall|q: int| 0 <= q ==> sw_inv_at(w.has_edge, w.edge, q, #[trigger] w.seen.contains(q))
}

pub open spec fn inv(g: Hist) -> bool {
    &&& win_inv(g.w)
    // inside the window the recorded set is exactly the set of packet numbers accepted so far
    &&& forall|q: int| 0 <= q && sw_in_window(g.w.has_edge, g.w.edge, q) ==> (#[trigger] g.w.seen.contains(q) <==> g.accepted.contains(q))
}

// ---- what layer F asserts for one call (quantified over the symbolic witness q) ------------------------
pub open spec fn check_contract(w: Win, pn: int, code: int) -> bool {
    sw_check_post(w.has_edge, w.edge, pn, w.seen.contains(pn), code)
}

pub open spec fn insert_contract(w: Win, pn: int, code: int, w2: Win) -> bool {
    &&& sw_insert_code_is_check(w.has_edge, w.edge, pn, w.seen.contains(pn), code)
    &&& sw_insert_edge_is_max(w.has_edge, w.edge, pn, code, w2.has_edge, w2.edge)
    &&& forall|q: int| 0 <= q ==> sw_insert_member_at(pn, code, w2.has_edge, w2.edge, q, w.seen.contains(q), #[trigger] w2.seen.contains(q))
    &&& win_inv(w2)
}

// ---- one step ---------------------------------------------------------------------------------------
proof fn step_new() -> (g: Hist)
    ensures inv(g), g.w == win_empty(), g.accepted =~= Set::<int>::empty(),
{
    Hist { w: win_empty(), accepted: Set::empty() }
}

proof fn step_check(g: Hist, pn: int, code: int)
    requires inv(g), 0 <= pn, check_contract(g.w, pn, code),
    ensures
        // the filter says Ok exactly for packet numbers inside the window that were never accepted
        code == sw_ok() <==> (sw_in_window(g.w.has_edge, g.w.edge, pn) && !g.accepted.contains(pn)),
        // and it never says Ok for one that was accepted before, wherever it lies
        g.accepted.contains(pn) ==> code != sw_ok(),
{
    assert(sw_inv_at(g.w.has_edge, g.w.edge, pn, g.w.seen.contains(pn)));
}

proof fn step_insert(g: Hist, pn: int, code: int, w2: Win) -> (h: Hist)
    requires inv(g), 0 <= pn, insert_contract(g.w, pn, code, w2),
    ensures
        inv(h),
        h.w == w2,
        // accepted at most once
        code == sw_ok() ==> !g.accepted.contains(pn) && h.accepted =~= g.accepted.insert(pn),
        code != sw_ok() ==> h.accepted =~= g.accepted,
        // nothing inside the window that was never inserted is rejected
        sw_in_window(g.w.has_edge, g.w.edge, pn) && !g.accepted.contains(pn) ==> code == sw_ok(),
        // a rejection is either a genuine duplicate or below the window
        code == sw_duplicate() ==> g.accepted.contains(pn),
        code == sw_too_old() ==> !sw_in_window(g.w.has_edge, g.w.edge, pn),
{
    let h = Hist { w: w2, accepted: if code == sw_ok() { g.accepted.insert(pn) } else { g.accepted } };
    assert(sw_inv_at(g.w.has_edge, g.w.edge, pn, g.w.seen.contains(pn)));
    assert forall|q: int| 0 <= q && sw_in_window(h.w.has_edge, h.w.edge, q) implies (#[trigger] h.w.seen.contains(q) <==> h.accepted.contains(q)) by {
        assert(sw_insert_member_at(pn, code, w2.has_edge, w2.edge, q, g.w.seen.contains(q), w2.seen.contains(q)));
        assert(sw_inv_at(g.w.has_edge, g.w.edge, q, g.w.seen.contains(q)));
        // the window only moves to the right: inside the new window => inside the old one
        assert(sw_in_window(g.w.has_edge, g.w.edge, q));
    }
    h
}

// ---- all histories -----------------------------------------------------------------------------------
pub struct Ev {
    pub is_insert: bool,          // insert(pn) or check(pn)
    pub pn: int,
    pub code: int,                // what the real function answered
    pub after: Win,               // abstraction of the window afterwards
}

pub open spec fn ev_ok(w: Win, e: Ev) -> bool {
    &&& 0 <= e.pn
    &&& if e.is_insert { insert_contract(w, e.pn, e.code, e.after) } else { check_contract(w, e.pn, e.code) && e.after == w }
}

pub open spec fn run_ok(w: Win, trace: Seq<Ev>) -> bool
    decreases trace.len(),
{
    if trace.len() == 0 { true } else { ev_ok(w, trace[0]) && run_ok(trace[0].after, trace.subrange(1, trace.len() as int)) }
}

// how often `pn` was accepted (insert returned Ok) in the history
pub open spec fn times_accepted(trace: Seq<Ev>, pn: int) -> int
    decreases trace.len(),
{
    if trace.len() == 0 { 0 } else {
        (if trace[0].is_insert && trace[0].pn == pn && trace[0].code == sw_ok() { 1int } else { 0int })
            + times_accepted(trace.subrange(1, trace.len() as int), pn)
    }
}

proof fn lemma_times_accepted_nonneg(trace: Seq<Ev>, pn: int)
    ensures times_accepted(trace, pn) >= 0,
    decreases trace.len(),
{
    if trace.len() > 0 { lemma_times_accepted_nonneg(trace.subrange(1, trace.len() as int), pn); }
}

proof fn lemma_at_most_once_from(g: Hist, trace: Seq<Ev>, pn: int)
    requires inv(g), run_ok(g.w, trace),
    ensures times_accepted(trace, pn) + (if g.accepted.contains(pn) { 1int } else { 0int }) <= 1,
    decreases trace.len(),
{
    if trace.len() > 0 {
        let e = trace[0];
        let rest = trace.subrange(1, trace.len() as int);
        if e.is_insert {
            let h = step_insert(g, e.pn, e.code, e.after);
            lemma_at_most_once_from(h, rest, pn);
        } else {
            lemma_at_most_once_from(g, rest, pn);
        }
    }
}

// C06: for any sequence of check/insert events on a fresh window, every packet number is accepted at most once
proof fn c06_accepted_at_most_once_for_all_histories(trace: Seq<Ev>, pn: int)
    requires run_ok(win_empty(), trace),
    ensures times_accepted(trace, pn) <= 1,
{
    let g = step_new();
    lemma_at_most_once_from(g, trace, pn);
}

// C06/C16: a packet number that was never accepted and is not below the window is not rejected (no false positives)
proof fn lemma_never_inserted_not_rejected_from(g: Hist, trace: Seq<Ev>, w_last: Win, pn: int, code: int, after: Win)
    requires
        inv(g), run_ok(g.w, trace), 0 <= pn,
        w_last == (if trace.len() == 0 { g.w } else { trace.last().after }),
        times_accepted(trace, pn) == 0, !g.accepted.contains(pn),
        insert_contract(w_last, pn, code, after),
        sw_in_window(w_last.has_edge, w_last.edge, pn),
    ensures code == sw_ok(),
    decreases trace.len(),
{
    if trace.len() == 0 {
        let h = step_insert(g, pn, code, after);
    } else {
        let e = trace[0];
        let rest = trace.subrange(1, trace.len() as int);
        if rest.len() > 0 { assert(rest.last() == trace.last()); }
        lemma_times_accepted_nonneg(rest, pn);
        if e.is_insert {
            let h = step_insert(g, e.pn, e.code, e.after);
            lemma_at_most_once_from(h, rest, pn);
            lemma_never_inserted_not_rejected_from(h, rest, w_last, pn, code, after);
        } else {
            lemma_never_inserted_not_rejected_from(g, rest, w_last, pn, code, after);
        }
    }
}

proof fn c06_never_inserted_in_window_is_accepted(trace: Seq<Ev>, pn: int, code: int, after: Win)
    requires
        run_ok(win_empty(), trace), 0 <= pn, times_accepted(trace, pn) == 0,
        insert_contract(if trace.len() == 0 { win_empty() } else { trace.last().after }, pn, code, after),
        sw_in_window((if trace.len() == 0 { win_empty() } else { trace.last().after }).has_edge,
                     (if trace.len() == 0 { win_empty() } else { trace.last().after }).edge, pn),
    ensures code == sw_ok(),
{
    let g = step_new();
    lemma_never_inserted_not_rejected_from(g, trace, if trace.len() == 0 { win_empty() } else { trace.last().after }, pn, code, after);
}
