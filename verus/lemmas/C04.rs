//@ verus props=C04 tier=quick kind=L spec=flow_out.rs,flow_in.rs timeout=300
// History lemmas for C04: from the function contracts asserted by layer F (contracts/spec/flow_in.rs,
// transliterated above) to "the credit an endpoint advertises never exceeds what its application has consumed
// plus the configured receive window, so no peer can make it buffer more than that window", for every sequence of
// {stream opened, data accepted/rejected, application read, reset, stop-sending, MAX_* transmitted, peer stream
// opened/closed, stream-credit timeout} of any length, in any order, for any number of streams; and "a rejected
// frame changes nothing" (an `Err` from a contracted check leaves the abstract state unchanged).

// ---- ghost state ---------------------------------------------------------------------------------------
pub struct RStream {
    pub f: Rsfc,          // abstraction of the stream's ReceiveStreamFlowController
    pub cur: Cur,         // abstraction of its reassembler cursors (start = bytes handed to the application)
    pub live: bool,       // the reassembler is in use (state Receiving); otherwise nothing is buffered
    pub wire: int,        // ghost: largest MAX_STREAM_DATA value ever put on the wire (initially the transport parameter)
}

pub struct RConn {
    pub c: Icfc,              // abstraction of the IncomingConnectionFlowController
    pub streams: Seq<RStream>,
    pub wire: int,            // ghost: largest MAX_DATA value ever put on the wire (initially the transport parameter)
}

pub open spec fn sum_seq(s: Seq<int>) -> int
    decreases s.len()
{
    if s.len() == 0 { 0 } else { sum_seq(s.drop_last()) + s.last() }
}

pub open spec fn acquired_of(s: Seq<RStream>) -> Seq<int> { Seq::new(s.len(), |i: int| s[i].f.acquired) }
pub open spec fn released_of(s: Seq<RStream>) -> Seq<int> { Seq::new(s.len(), |i: int| s[i].f.released) }
// upper bound of the bytes a stream can hold in its reassembler: they lie in [start, max_recv) (C16 view)
pub open spec fn buffer_bound(s: RStream) -> int { if s.live { s.cur.max_recv - s.cur.start } else { 0 } }
pub open spec fn bounds_of(s: Seq<RStream>) -> Seq<int> { Seq::new(s.len(), |i: int| buffer_bound(s[i])) }

pub open spec fn stream_inv(s: RStream) -> bool {
    &&& rsfc_inv(s.f)
    &&& s.f.window <= s.wire <= s.f.advertised
    &&& s.live ==> {
        &&& cur_inv(s.cur)
        &&& s.cur.start == s.f.released                       // every byte handed to the application was released
        &&& s.cur.max_recv <= s.f.acquired                    // every byte accepted was charged before
        &&& (s.cur.fin >= 0 ==> s.cur.fin <= s.f.acquired)    // RFC 9000 4.5: the final size is accounted for
    }
}

pub open spec fn inv(g: RConn) -> bool {
    &&& icfc_inv(g.c)
    &&& g.c.window <= g.wire <= g.c.advertised
    &&& sum_seq(acquired_of(g.streams)) == g.c.acquired
    &&& sum_seq(released_of(g.streams)) == g.c.consumed
    &&& forall|i: int| 0 <= i < g.streams.len() ==> #[trigger] stream_inv(g.streams[i])
}

// ---- auxiliary: sums -----------------------------------------------------------------------------------
proof fn lemma_sum_update(s: Seq<int>, i: int, n: int)
    requires 0 <= i < s.len(),
    ensures sum_seq(s.update(i, n)) == sum_seq(s) - s[i] + n,
    decreases s.len(),
{
    let u = s.update(i, n);
    if i == s.len() - 1 {
        assert(u.drop_last() =~= s.drop_last());
    } else {
        assert(u.drop_last() =~= s.drop_last().update(i, n));
        lemma_sum_update(s.drop_last(), i, n);
        assert(s.drop_last()[i] == s[i]);
    }
}

proof fn lemma_sum_push(s: Seq<int>, n: int)
    ensures sum_seq(s.push(n)) == sum_seq(s) + n,
{
    assert(s.push(n).drop_last() =~= s);
}

proof fn lemma_sum_le(a: Seq<int>, b: Seq<int>)
    requires a.len() == b.len(), forall|i: int| 0 <= i < a.len() ==> #[trigger] a[i] <= b[i],
    ensures sum_seq(a) <= sum_seq(b),
    decreases a.len(),
{
    if a.len() > 0 {
        lemma_sum_le(a.drop_last(), b.drop_last());
    }
}

proof fn lemma_sum_nonneg_elem(a: Seq<int>, i: int)
    requires 0 <= i < a.len(), forall|j: int| 0 <= j < a.len() ==> #[trigger] a[j] >= 0,
    ensures 0 <= a[i] <= sum_seq(a), sum_seq(a) >= 0,
    decreases a.len(),
{
    let d = a.drop_last();
    assert forall|j: int| 0 <= j < d.len() implies #[trigger] d[j] >= 0 by {
        assert(d[j] == a[j]);
        assert(a[j] >= 0);
    }
    assert(a[a.len() - 1] >= 0);
    assert(a[i] >= 0);
    if a.len() == 1 {
        assert(d.len() == 0);
        assert(sum_seq(d) == 0);
    } else {
        if i < a.len() - 1 {
            lemma_sum_nonneg_elem(d, i);
            assert(d[i] == a[i]);
        } else {
            lemma_sum_nonneg_elem(d, 0);
        }
    }
}

// replacing stream i: the projected sequences are updated point-wise
proof fn lemma_projections_update(s: Seq<RStream>, i: int, n: RStream)
    requires 0 <= i < s.len(),
    ensures
        acquired_of(s.update(i, n)) =~= acquired_of(s).update(i, n.f.acquired),
        released_of(s.update(i, n)) =~= released_of(s).update(i, n.f.released),
        bounds_of(s.update(i, n)) =~= bounds_of(s).update(i, buffer_bound(n)),
{
}

proof fn lemma_replace_stream(g: RConn, i: int, n: RStream, c_new: Icfc) -> (h: RConn)
    requires
        inv(g), 0 <= i < g.streams.len(), stream_inv(n), icfc_inv(c_new),
        c_new.acquired - g.c.acquired == n.f.acquired - g.streams[i].f.acquired,
        c_new.consumed - g.c.consumed == n.f.released - g.streams[i].f.released,
        c_new.window == g.c.window, c_new.advertised >= g.c.advertised,
    ensures inv(h), h == (RConn { c: c_new, streams: g.streams.update(i, n), wire: g.wire }),
{
    let h = RConn { c: c_new, streams: g.streams.update(i, n), wire: g.wire };
    lemma_projections_update(g.streams, i, n);
    lemma_sum_update(acquired_of(g.streams), i, n.f.acquired);
    lemma_sum_update(released_of(g.streams), i, n.f.released);
    assert forall|j: int| 0 <= j < h.streams.len() implies #[trigger] stream_inv(h.streams[j]) by {
        if j != i { assert(stream_inv(g.streams[j])); }
    }
    h
}

// ---- the property, as a consequence of the invariant -----------------------------------------------------
// the share a stream holds of the connection's credit: this is the builder fact `rsfc_share_of_connection`
// of contracts/kani/transport/rsfc.rs
proof fn c04_stream_is_share_of_connection(g: RConn, i: int)
    requires inv(g), 0 <= i < g.streams.len(),
    ensures rsfc_share_of_connection(g.streams[i].f, g.c),
{
    let a = acquired_of(g.streams);
    let r = released_of(g.streams);
    let d = Seq::new(g.streams.len(), |j: int| g.streams[j].f.acquired - g.streams[j].f.released);
    assert forall|j: int| 0 <= j < a.len() implies #[trigger] a[j] >= 0 by { assert(stream_inv(g.streams[j])); }
    assert forall|j: int| 0 <= j < r.len() implies #[trigger] r[j] >= 0 by { assert(stream_inv(g.streams[j])); }
    assert forall|j: int| 0 <= j < d.len() implies #[trigger] d[j] >= 0 by { assert(stream_inv(g.streams[j])); }
    lemma_sum_nonneg_elem(a, i);
    lemma_sum_nonneg_elem(r, i);
    lemma_sum_nonneg_elem(d, i);
    lemma_sum_diff(a, r, d);
}

proof fn lemma_sum_diff(a: Seq<int>, r: Seq<int>, d: Seq<int>)
    requires a.len() == r.len(), d.len() == a.len(), forall|j: int| 0 <= j < a.len() ==> #[trigger] d[j] == a[j] - r[j],
    ensures sum_seq(d) == sum_seq(a) - sum_seq(r),
    decreases a.len(),
{
    if a.len() > 0 {
        lemma_sum_diff(a.drop_last(), r.drop_last(), d.drop_last());
    }
}

proof fn c04_credit_and_buffering_bounded(g: RConn)
    requires inv(g),
    ensures
        // what is (or was ever) advertised for the connection <= consumed by the application + receive window
        g.wire <= g.c.advertised <= g.c.consumed + g.c.window,
        // per stream
        forall|i: int| 0 <= i < g.streams.len() ==>
            (#[trigger] g.streams[i]).wire <= g.streams[i].f.advertised <= g.streams[i].f.released + g.streams[i].f.window,
        // bytes a stream can hold <= acquired - released <= its window
        forall|i: int| 0 <= i < g.streams.len() ==>
            0 <= buffer_bound(#[trigger] g.streams[i]) <= g.streams[i].f.acquired - g.streams[i].f.released <= g.streams[i].f.window,
        // bytes the whole connection can hold <= acquired - consumed <= the connection window
        0 <= sum_seq(bounds_of(g.streams)) <= g.c.acquired - g.c.consumed <= g.c.window,
{
    let b = bounds_of(g.streams);
    let d = Seq::new(g.streams.len(), |j: int| g.streams[j].f.acquired - g.streams[j].f.released);
    let z = Seq::new(g.streams.len(), |j: int| 0int);
    assert forall|j: int| 0 <= j < g.streams.len() implies 0 <= #[trigger] b[j] <= d[j] by { assert(stream_inv(g.streams[j])); }
    assert forall|i: int| 0 <= i < g.streams.len() implies
        0 <= buffer_bound(#[trigger] g.streams[i]) <= g.streams[i].f.acquired - g.streams[i].f.released <= g.streams[i].f.window by {
        assert(stream_inv(g.streams[i]));
    }
    assert forall|i: int| 0 <= i < g.streams.len() implies
        (#[trigger] g.streams[i]).wire <= g.streams[i].f.advertised <= g.streams[i].f.released + g.streams[i].f.window by {
        assert(stream_inv(g.streams[i]));
    }
    lemma_sum_le(b, d);
    lemma_sum_le(z, b);
    lemma_sum_zero(z);
    lemma_sum_diff(acquired_of(g.streams), released_of(g.streams), d);
}

proof fn lemma_sum_zero(z: Seq<int>)
    requires forall|j: int| 0 <= j < z.len() ==> #[trigger] z[j] == 0,
    ensures sum_seq(z) == 0,
    decreases z.len(),
{
    if z.len() > 0 { lemma_sum_zero(z.drop_last()); }
}

// ---- every contracted operation preserves the invariant ---------------------------------------------------
// connection created: IncomingConnectionFlowController::new(w, w)  (harness vq_c04_icfc_shared_handle: C04/icfc.new/*)
proof fn step_initial(window: int) -> (g: RConn)
    requires 0 <= window <= u32_max(),
    ensures inv(g),
{
    let g = RConn { c: Icfc { advertised: window, acquired: 0, consumed: 0, window: window }, streams: Seq::empty(), wire: window };
    assert(acquired_of(g.streams) =~= Seq::<int>::empty());
    assert(released_of(g.streams) =~= Seq::<int>::empty());
    g
}

// stream created: ReceiveStreamFlowController::new(conn, w, w)  (harness vq_c04_rsfc_new: C04/rsfc.new/*)
proof fn step_open_stream(g: RConn, window: int) -> (h: RConn)
    requires inv(g), 0 <= window <= u32_max(),
    ensures inv(h), h.streams.len() == g.streams.len() + 1, h.c == g.c,
{
    let n = RStream { f: Rsfc { advertised: window, acquired: 0, released: 0, window: window }, cur: Cur { start: 0, max_recv: 0, fin: -1 }, live: true, wire: window };
    let h = RConn { streams: g.streams.push(n), ..g };
    assert(acquired_of(h.streams) =~= acquired_of(g.streams).push(0));
    assert(released_of(h.streams) =~= released_of(g.streams).push(0));
    lemma_sum_push(acquired_of(g.streams), 0);
    lemma_sum_push(released_of(g.streams), 0);
    assert forall|j: int| 0 <= j < h.streams.len() implies #[trigger] stream_inv(h.streams[j]) by {
        if j < g.streams.len() { assert(stream_inv(g.streams[j])); }
    }
    h
}

// ReceiveStreamFlowController::acquire_window_up_to(off) on stream i (STREAM data end / RESET_STREAM final size)
proof fn step_stream_acquire(g: RConn, i: int, off: int, f_new: Rsfc, c_new: Icfc, ok: bool, code: int) -> (h: RConn)
    requires inv(g), 0 <= i < g.streams.len(), 0 <= off <= varint_max(),
        rsfc_acquire_post(g.streams[i].f, off, f_new, g.c, c_new, ok, code),
    ensures inv(h),
        // a violation is answered with FLOW_CONTROL_ERROR and changes nothing
        !ok ==> h == g && code == code_flow_control_error(),
        // anything beyond the advertised stream or connection limit is a violation
        ok ==> off <= g.streams[i].f.advertised && h.c.acquired <= g.c.advertised,
        ok ==> off <= h.streams[i].f.acquired,
{
    let s = g.streams[i];
    assert(stream_inv(s));
    if ok {
        let n = RStream { f: f_new, ..s };
        c04_stream_is_share_of_connection(g, i);
        lemma_replace_stream(g, i, n, c_new)
    } else {
        assert(f_new == s.f && c_new == g.c);
        g
    }
}

// Cursors::handle_reader_fin for a STREAM frame [.., end) on stream i.  Call-site facts (receive_stream.rs:426-451,
// ReceiveStream::on_data): the flow controller was asked for `end` first unless the final size is already known,
// and write_at_fin announces exactly the end of the frame's data as final size.
proof fn step_data(g: RConn, i: int, end: int, rfin: int, cur_new: Cur, kind: int) -> (h: RConn)
    requires inv(g), 0 <= i < g.streams.len(), g.streams[i].live,
        cur_reader_wf(end, rfin), rfin == -1 || rfin == end,
        g.streams[i].cur.fin >= 0 || end <= g.streams[i].f.acquired,
        cur_fin_post(g.streams[i].cur, end, rfin, cur_new, kind),
    ensures inv(h), kind != 0 ==> h == g, h.c == g.c,
{
    let s = g.streams[i];
    assert(stream_inv(s));
    if kind == 0 {
        let n = RStream { cur: cur_new, ..s };
        lemma_replace_stream(g, i, n, g.c)
    } else {
        assert(cur_new == s.cur);
        g
    }
}

// the application reads n buffered bytes of stream i: Reassembler::pop advances `start` by n (C16) and
// ReceiveStreamFlowController::release_window(n) is called (receive_stream.rs:850-857)
proof fn step_app_read(g: RConn, i: int, n: int, f_new: Rsfc, c_new: Icfc) -> (h: RConn)
    requires inv(g), 0 <= i < g.streams.len(), g.streams[i].live, 0 <= n <= buffer_bound(g.streams[i]),
        rsfc_release_post(g.streams[i].f, n, f_new, g.c, c_new),
    ensures inv(h),
        // the preconditions the F harnesses assume for release_window are established by the history
        rsfc_release_pre(g.streams[i].f, n), icfc_release_pre(g.c, n),
        h.c.advertised >= g.c.advertised,
{
    let s = g.streams[i];
    assert(stream_inv(s));
    c04_stream_is_share_of_connection(g, i);
    let n_s = RStream { f: f_new, cur: Cur { start: s.cur.start + n, ..s.cur }, ..s };
    lemma_replace_stream(g, i, n_s, c_new)
}

// RESET_STREAM accepted / internal reset: the buffer is discarded and release_outstanding_window() is called
// (receive_stream.rs:664-680)
proof fn step_reset(g: RConn, i: int, f_new: Rsfc, c_new: Icfc) -> (h: RConn)
    requires inv(g), 0 <= i < g.streams.len(),
        rsfc_release_post(g.streams[i].f, rsfc_outstanding(g.streams[i].f), f_new, g.c, c_new),
    ensures inv(h), buffer_bound(h.streams[i]) == 0, h.streams[i].f.released == h.streams[i].f.acquired,
{
    let s = g.streams[i];
    assert(stream_inv(s));
    c04_stream_is_share_of_connection(g, i);
    let n_s = RStream { f: f_new, live: false, ..s };
    lemma_replace_stream(g, i, n_s, c_new)
}

// stop_sending / all data read: the reassembler is dropped, no credit moves
proof fn step_discard_buffer(g: RConn, i: int) -> (h: RConn)
    requires inv(g), 0 <= i < g.streams.len(),
    ensures inv(h), buffer_bound(h.streams[i]) == 0,
{
    let s = g.streams[i];
    assert(stream_inv(s));
    let n_s = RStream { live: false, ..s };
    lemma_replace_stream(g, i, n_s, g.c)
}

// MAX_DATA on the wire: IncomingConnectionFlowControllerImpl::on_transmit
proof fn step_transmit_max_data(g: RConn, wrote: bool, wire: int) -> (h: RConn)
    requires inv(g), icfc_transmit_wire_is_advertised(g.c, wrote, wire),
    ensures inv(h), wrote ==> wire <= g.c.consumed + g.c.window,
{
    if wrote { RConn { wire: imax(g.wire, wire), ..g } } else { g }
}

// MAX_STREAM_DATA on the wire for stream i
proof fn step_transmit_max_stream_data(g: RConn, i: int, wrote: bool, wire: int) -> (h: RConn)
    requires inv(g), 0 <= i < g.streams.len(), rsfc_transmit_wire_is_advertised(g.streams[i].f, wrote, wire),
    ensures inv(h), wrote ==> wire <= g.streams[i].f.released + g.streams[i].f.window,
{
    let s = g.streams[i];
    assert(stream_inv(s));
    if wrote {
        let n_s = RStream { wire: imax(s.wire, wire), ..s };
        lemma_replace_stream(g, i, n_s, g.c)
    } else {
        g
    }
}

// the value a MAX_* frame carries is the synchroniser's latest value, which only grows
proof fn step_window_sync(s: Ivs, v: int, s1: Ivs, s2: Ivs, wrote: bool, wire: int)
    requires ivs_inv(s), ivs_update_pre(s, v),
        ivs_update_latest_is_value(s, v, s1), ivs_update_monotone(s, v, s1), ivs_update_frame(s, v, s1),
        ivs_transmit_wire_value_is_latest(s1, s2, wrote, wire), ivs_transmit_latest_unchanged(s1, s2),
    ensures wrote ==> wire == v, s2.latest == v, s2.latest >= s.latest,
{
}

// ---- stream-count credit (RemoteInitiated) ------------------------------------------------------------------
pub struct RStreams { pub s: Ri, pub wire: int }   // wire: largest MAX_STREAMS value ever put on the wire
pub open spec fn inv_streams(g: RStreams) -> bool { ri_inv(g.s) && g.s.local_limit <= g.wire <= g.s.advertised }

proof fn c04_stream_credit_bounded(g: RStreams)
    requires inv_streams(g),
    ensures
        g.wire <= g.s.advertised <= g.s.closed + g.s.local_limit, g.s.advertised <= max_streams_max(),
        // peer-initiated streams open at the same time never exceed the configured limit
        g.s.opened - g.s.closed <= g.s.local_limit,
{
}

proof fn step_streams_initial(limit: int) -> (g: RStreams)
    requires 0 <= limit <= max_streams_max(),
    ensures inv_streams(g),
{
    RStreams { s: Ri { advertised: limit, opened: 0, closed: 0, local_limit: limit }, wire: limit }
}

// on_remote_open_stream(id): Err(STREAM_LIMIT_ERROR) exactly for stream ordinals at or beyond the advertised limit
proof fn step_remote_open_check(g: RStreams, index: int, n: Ri, ok: bool, code: int) -> (h: RStreams)
    requires inv_streams(g), 0 <= index,
        ri_remote_open_err_iff_at_or_over_limit(g.s, index, ok), ri_remote_open_err_code(ok, code), ri_remote_open_state_unchanged(g.s, n),
    ensures inv_streams(h), h == g, !ok ==> code == code_stream_limit_error() && index >= g.s.advertised,
        ok ==> index + 1 <= g.s.advertised,
{
    assert(n == g.s);
    g
}

// on_open_stream() for every stream up to an accepted ordinal
proof fn step_remote_open(g: RStreams, n: Ri) -> (h: RStreams)
    requires inv_streams(g), g.s.opened < g.s.advertised, ri_open_counts(g.s, n),
    ensures inv_streams(h),
{
    RStreams { s: n, ..g }
}

proof fn step_remote_close(g: RStreams, n: Ri) -> (h: RStreams)
    requires inv_streams(g), g.s.closed < g.s.opened, ri_close_counts(g.s, n),
    ensures inv_streams(h), h.s.advertised == g.s.advertised,
{
    RStreams { s: n, ..g }
}

// on_timeout() and the MAX_STREAMS frame written by on_transmit()
proof fn step_streams_timeout_transmit(g: RStreams, n: Ri, wrote: bool, wire: int) -> (h: RStreams)
    requires inv_streams(g), ri_timeout_post(g.s, n), ri_transmit_wire_is_advertised(n, wrote, wire),
    ensures inv_streams(h), wrote ==> wire <= n.closed + n.local_limit && wire <= max_streams_max(),
{
    RStreams { s: n, wire: if wrote { imax(g.wire, wire) } else { g.wire } }
}
