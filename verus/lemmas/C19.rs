//@ verus props=C19 tier=quick kind=L spec=dc_keys.rs timeout=300
// History lemmas for C19: from the one-step function contracts asserted by layer F
// (contracts/spec/dc_keys.rs, transliterated above; harnesses contracts/kani/dc/dc_sender.rs and
// dc_receiver.rs) to the property statement
//   * a receiver accepts a given key id at most once, for every sequence of ids of any length (any
//     reordering / replay), and accepts every not-yet-accepted id that is above, or less than 896 below,
//     the highest id accepted so far (the reserved maximum excepted);
//   * a sender never issues the same key id twice, for every interleaving of next_key_id and
//     update_for_stale_key calls of any length.
// Concurrency is not modelled: the receiver step runs under its Mutex and the sender steps are single atomic
// RMW operations, so every concurrent execution is equivalent to one of the sequences quantified over here
// given linearizability of Mutex / fetch_update / fetch_max (assumption A-atomics).

// =====================================================================================================
// Sender
// =====================================================================================================
pub struct SenderG {
    pub cur: int,            // abstraction of sender::State (contracts/spec/dc_keys.rs)
    pub issued: Set<int>,    // ghost history: every id ever returned by next_key_id
}

pub open spec fn inv_sender(g: SenderG) -> bool {
    &&& dcs_inv(g.cur)
    &&& forall|id: int| g.issued.contains(id) ==> 0 <= id < g.cur
}

proof fn step_sender_new() -> (g: SenderG)
    ensures inv_sender(g), g.issued =~= Set::empty(),
{
    SenderG { cur: 0, issued: Set::empty() }
}

// next_key_id() returned r: r was never issued before
proof fn step_sender_next_key_id(g: SenderG, new: int, r: int) -> (h: SenderG)
    requires inv_sender(g), dcs_next_pre(g.cur),
        dcs_next_returns_current(g.cur, new, r), dcs_next_increments_by_one(g.cur, new, r),
        dcs_next_issued_below_reserved_max(g.cur, new, r),
    ensures inv_sender(h), !g.issued.contains(r), h.issued == g.issued.insert(r), h.cur == new,
        r != key_id_max(),
{
    SenderG { cur: new, issued: g.issued.insert(r) }
}

// update_for_stale_key(m): nothing is issued, and nothing issued so far can be issued again
proof fn step_sender_update_for_stale_key(g: SenderG, m: int, new: int) -> (h: SenderG)
    requires inv_sender(g), 0 <= m <= key_id_max(), dcs_stale_is_max(g.cur, m, new),
    ensures inv_sender(h), h.issued == g.issued, h.cur == new, h.cur >= m,
{
    SenderG { cur: new, issued: g.issued }
}

// ---- the same for explicit call sequences of arbitrary length ------------------------------------------
// op >= 0 : update_for_stale_key(op);   op == -1 : next_key_id()
// st[i] is the counter before call i, ret[i] the id returned by call i (meaningful for next_key_id only)
pub open spec fn sender_trace(st: Seq<int>, ops: Seq<int>, ret: Seq<int>) -> bool {
    &&& st.len() == ops.len() + 1
    &&& ret.len() == ops.len()
    &&& dcs_inv(st[0])
    &&& forall|i: int| 0 <= i < ops.len() ==> -1 <= #[trigger] ops[i] <= key_id_max()
    &&& forall|i: int| 0 <= i < ops.len() ==> (
            if #[trigger] ops[i] == -1 {
                dcs_next_pre(st[i]) && dcs_next_returns_current(st[i], st[i + 1], ret[i])
                    && dcs_next_increments_by_one(st[i], st[i + 1], ret[i])
            } else {
                dcs_stale_is_max(st[i], ops[i], st[i + 1])
            })
}

proof fn lemma_sender_counter_monotone(st: Seq<int>, ops: Seq<int>, ret: Seq<int>, i: int, j: int)
    requires sender_trace(st, ops, ret), 0 <= i <= j <= ops.len(),
    ensures st[i] <= st[j],
    decreases j - i,
{
    if i < j {
        lemma_sender_counter_monotone(st, ops, ret, i, j - 1);
        let t = ops[j - 1];
        assert(st[j - 1] <= st[j]);
    }
}

// two different next_key_id calls of one history never return the same id; later calls return larger ids
proof fn c19_sender_never_issues_twice(st: Seq<int>, ops: Seq<int>, ret: Seq<int>, i: int, j: int)
    requires sender_trace(st, ops, ret), 0 <= i < j < ops.len(), ops[i] == -1, ops[j] == -1,
    ensures ret[i] < ret[j],
{
    lemma_sender_counter_monotone(st, ops, ret, i + 1, j);
    assert(ret[i] == st[i] && st[i + 1] == st[i] + 1);
    assert(ret[j] == st[j]);
}

// after a StaleKey notification with minimum m, every later id is at least m (the peer's window can take it)
proof fn c19_sender_restarts_at_or_above_stale_minimum(st: Seq<int>, ops: Seq<int>, ret: Seq<int>, i: int, j: int)
    requires sender_trace(st, ops, ret), 0 <= i < j < ops.len(), ops[i] >= 0, ops[j] == -1,
    ensures ret[j] >= ops[i],
{
    lemma_sender_counter_monotone(st, ops, ret, i + 1, j);
    assert(st[i + 1] >= ops[i]);
}

// =====================================================================================================
// Receiver
// =====================================================================================================
pub struct RxG {
    pub s: Rx,                 // abstraction (init, max_seen) of receiver::State
    pub seen: Set<int>,        // abstraction of the 896-bit window: ids whose bit exists and is set
    pub accepted: Set<int>,    // ghost history: every id for which post_authentication returned Ok
}

pub open spec fn inv_rx(g: RxG) -> bool {
    &&& forall|w: int| rx_inv_at(g.s, w, #[trigger] g.seen.contains(w))
    // the window is exactly the part of the history that is still in memory
    &&& forall|w: int| #[trigger] g.seen.contains(w) == (g.accepted.contains(w) && rx_in_window(g.s, w))
    &&& forall|w: int| #[trigger] g.accepted.contains(w) ==> !g.s.init && 0 <= w <= g.s.max_seen
}

// what layer F asserts for one call post_authentication(k) -> res, quantified over the witness id
pub open spec fn rx_step_contract(g: RxG, k: int, res: int, new_s: Rx, new_seen: Set<int>) -> bool {
    &&& 0 <= k <= key_id_max()
    &&& (res == rx_res_ok() || res == rx_res_already_exists() || res == rx_res_unknown())
    &&& rx_post_ok_iff(g.s, k, g.seen.contains(k), res)
    &&& rx_post_already_exists_iff_seen(g.s, k, g.seen.contains(k), res)
    &&& rx_post_unknown_only_outside_window_or_max(g.s, k, g.seen.contains(k), res)
    &&& rx_post_max_seen(g.s, k, res, new_s)
    &&& forall|w: int| rx_post_witness(g.s, k, res, new_s, w, g.seen.contains(w), #[trigger] new_seen.contains(w))
}

pub open spec fn rx_next(g: RxG, k: int, res: int, new_s: Rx, new_seen: Set<int>) -> RxG {
    RxG { s: new_s, seen: new_seen, accepted: if res == rx_res_ok() { g.accepted.insert(k) } else { g.accepted } }
}

proof fn step_rx_new() -> (g: RxG)
    ensures inv_rx(g), g.accepted =~= Set::empty(),
{
    RxG { s: Rx { init: true, max_seen: 0 }, seen: Set::empty(), accepted: Set::empty() }
}

proof fn step_rx_post_authentication(g: RxG, k: int, res: int, new_s: Rx, new_seen: Set<int>) -> (h: RxG)
    requires inv_rx(g), rx_step_contract(g, k, res, new_s, new_seen),
    ensures
        h == rx_next(g, k, res, new_s, new_seen),
        inv_rx(h),
        // accepted at most once
        res == rx_res_ok() ==> !g.accepted.contains(k),
        // a definite duplicate verdict is never wrong
        res == rx_res_already_exists() ==> g.accepted.contains(k),
        // every not-yet-accepted id above, or less than 896 below, the highest accepted id is accepted
        (k != key_id_max() && !g.accepted.contains(k) && rx_in_window(g.s, k)) ==> res == rx_res_ok(),
        // the reserved maximum is never accepted
        k == key_id_max() ==> res != rx_res_ok(),
        // history only grows
        g.accepted.subset_of(h.accepted),
{
    let h = rx_next(g, k, res, new_s, new_seen);
    assert(rx_inv_at(g.s, k, g.seen.contains(k)));
    assert(g.seen.contains(k) == (g.accepted.contains(k) && rx_in_window(g.s, k)));
    if g.accepted.contains(k) {
        assert(!g.s.init && 0 <= k <= g.s.max_seen);
    }
    if !g.s.init {
        assert(rx_inv_at(g.s, g.s.max_seen, g.seen.contains(g.s.max_seen)));
    }
    assert forall|w: int| rx_inv_at(h.s, w, #[trigger] h.seen.contains(w)) by {
        assert(rx_post_witness(g.s, k, res, new_s, w, g.seen.contains(w), new_seen.contains(w)));
        assert(rx_inv_at(g.s, w, g.seen.contains(w)));
    }
    assert forall|w: int| #[trigger] h.seen.contains(w) == (h.accepted.contains(w) && rx_in_window(h.s, w)) by {
        assert(rx_post_witness(g.s, k, res, new_s, w, g.seen.contains(w), new_seen.contains(w)));
        assert(g.seen.contains(w) == (g.accepted.contains(w) && rx_in_window(g.s, w)));
        if g.accepted.contains(w) {
            assert(!g.s.init && 0 <= w <= g.s.max_seen);
        }
    }
    assert forall|w: int| #[trigger] h.accepted.contains(w) implies !h.s.init && 0 <= w <= h.s.max_seen by {
        if g.accepted.contains(w) {
            assert(!g.s.init && 0 <= w <= g.s.max_seen);
        }
    }
    h
}

proof fn step_rx_minimum_unseen_key_id(g: RxG, r: int)
    requires inv_rx(g), rx_min_unseen(g.s, r),
    ensures
        // the id reported in StaleKey packets was never accepted, nor was anything above it, and it is a valid KeyId
        forall|w: int| w >= r ==> !g.accepted.contains(w),
        0 <= r <= key_id_max(),
        // a sender that restarts at or above r (c19_sender_restarts_at_or_above_stale_minimum) is inside the window
        forall|w: int| w >= r ==> rx_in_window(g.s, w),
{
    if !g.s.init {
        assert(rx_inv_at(g.s, g.s.max_seen, g.seen.contains(g.s.max_seen)));
    }
    assert forall|w: int| w >= r implies !g.accepted.contains(w) by {
        if g.accepted.contains(w) {
            assert(!g.s.init && 0 <= w <= g.s.max_seen);
        }
    }
}

// ---- the same for explicit packet sequences of arbitrary length (any reordering / replay) ---------------
// g[i] is the ghost state before packet i, ks[i] its key id, res[i] the verdict
pub open spec fn rx_trace(g: Seq<RxG>, ks: Seq<int>, res: Seq<int>) -> bool {
    &&& g.len() == ks.len() + 1
    &&& res.len() == ks.len()
    &&& inv_rx(g[0])
    &&& forall|i: int| 0 <= i < ks.len() ==>
            rx_step_contract(#[trigger] g[i], ks[i], res[i], g[i + 1].s, g[i + 1].seen)
    &&& forall|i: int| 0 <= i < ks.len() ==>
            #[trigger] g[i + 1] == rx_next(g[i], ks[i], res[i], g[i + 1].s, g[i + 1].seen)
}

proof fn lemma_rx_trace_inv(g: Seq<RxG>, ks: Seq<int>, res: Seq<int>, i: int)
    requires rx_trace(g, ks, res), 0 <= i <= ks.len(),
    ensures inv_rx(g[i]),
    decreases i,
{
    if i > 0 {
        lemma_rx_trace_inv(g, ks, res, i - 1);
        assert(rx_step_contract(g[i - 1], ks[i - 1], res[i - 1], g[i - 1 + 1].s, g[i - 1 + 1].seen));
        assert(g[i - 1 + 1] == rx_next(g[i - 1], ks[i - 1], res[i - 1], g[i - 1 + 1].s, g[i - 1 + 1].seen));
        let h = step_rx_post_authentication(g[i - 1], ks[i - 1], res[i - 1], g[i].s, g[i].seen);
        assert(h == g[i]);
    }
}

proof fn lemma_rx_trace_history_grows(g: Seq<RxG>, ks: Seq<int>, res: Seq<int>, i: int, j: int)
    requires rx_trace(g, ks, res), 0 <= i <= j <= ks.len(),
    ensures g[i].accepted.subset_of(g[j].accepted),
    decreases j - i,
{
    if i < j {
        lemma_rx_trace_history_grows(g, ks, res, i, j - 1);
        lemma_rx_trace_inv(g, ks, res, j - 1);
        assert(rx_step_contract(g[j - 1], ks[j - 1], res[j - 1], g[j - 1 + 1].s, g[j - 1 + 1].seen));
        assert(g[j - 1 + 1] == rx_next(g[j - 1], ks[j - 1], res[j - 1], g[j - 1 + 1].s, g[j - 1 + 1].seen));
        let h = step_rx_post_authentication(g[j - 1], ks[j - 1], res[j - 1], g[j].s, g[j].seen);
        assert(h == g[j]);
    }
}

// no key id is accepted twice in any packet sequence
proof fn c19_receiver_accepts_each_id_at_most_once(g: Seq<RxG>, ks: Seq<int>, res: Seq<int>, i: int, j: int)
    requires rx_trace(g, ks, res), 0 <= i < j < ks.len(), ks[i] == ks[j], res[i] == rx_res_ok(),
    ensures res[j] != rx_res_ok(),
{
    lemma_rx_trace_inv(g, ks, res, i);
    lemma_rx_trace_inv(g, ks, res, j);
    assert(rx_step_contract(g[i], ks[i], res[i], g[i + 1].s, g[i + 1].seen));
    assert(g[i + 1] == rx_next(g[i], ks[i], res[i], g[i + 1].s, g[i + 1].seen));
    assert(g[i + 1].accepted.contains(ks[i]));
    lemma_rx_trace_history_grows(g, ks, res, i + 1, j);
    assert(g[j].accepted.contains(ks[j]));
    assert(rx_step_contract(g[j], ks[j], res[j], g[j + 1].s, g[j + 1].seen));
    let h = step_rx_post_authentication(g[j], ks[j], res[j], g[j + 1].s, g[j + 1].seen);
}

// in any packet sequence starting from a fresh receiver, an id that was not accepted earlier and lies above,
// or less than 896 below, the highest id accepted so far is accepted (the reserved maximum excepted)
proof fn c19_receiver_accepts_every_unseen_id_in_window(g: Seq<RxG>, ks: Seq<int>, res: Seq<int>, j: int)
    requires rx_trace(g, ks, res), 0 <= j < ks.len(), ks[j] != key_id_max(),
        !g[j].accepted.contains(ks[j]),
        g[j].s.init || ks[j] > g[j].s.max_seen - 896,
    ensures res[j] == rx_res_ok(),
{
    lemma_rx_trace_inv(g, ks, res, j);
    assert(rx_step_contract(g[j], ks[j], res[j], g[j + 1].s, g[j + 1].seen));
    let h = step_rx_post_authentication(g[j], ks[j], res[j], g[j + 1].s, g[j + 1].seen);
}

// max_seen really is the highest id accepted so far (ties the window of the statement to the history)
proof fn c19_receiver_max_seen_is_highest_accepted(g: RxG)
    requires inv_rx(g), !g.s.init,
    ensures g.accepted.contains(g.s.max_seen), forall|w: int| g.accepted.contains(w) ==> w <= g.s.max_seen,
{
    assert(rx_inv_at(g.s, g.s.max_seen, g.seen.contains(g.s.max_seen)));
    assert(g.seen.contains(g.s.max_seen) == (g.accepted.contains(g.s.max_seen) && rx_in_window(g.s, g.s.max_seen)));
}
