//@ verus props=C15 tier=quick kind=L spec=keys.rs timeout=300
// History lemmas for C15: from the function contracts asserted by layer F on KeySet / limited::Key
// (contracts/spec/keys.rs, transliterated above; harnesses contracts/kani/core/c15_keyset.rs, c15_limited.rs)
// to the property statement, for every interleaving, of any length, of
//   {encrypt (ok / AEAD limit / writer error), decrypt ok on current / next / previous phase,
//    decrypt failure on either phase, timer expiry, timer poll without expiry}:
//   (1) no key material (identified by its generation) ever protects more packets than its confidentiality limit,
//   (2) `generation` is monotone and the generation used for encryption never goes back
//       (a packet with a higher packet number never gets an older key generation),
//   (3) the failure count never decreases and the integrity limit never changes, so once
//       failures >= integrity_limit every further failing decrypt reports the close error.
// Every step lemma assumes exactly the predicates layer F asserts for that operation -- the STRICT ones.  Two of
// them (ks_decrypt_ok_previous_phase_post, ks_encryption_key_not_older) fail on the unchanged tree (findings,
// see the harnesses); (1) and (2) are therefore properties of the contract, not of the unchanged code.

// ---- ghost state ---------------------------------------------------------------------------------
pub struct G {
    pub s: Ks,                 // abstraction of the KeySet
    pub limit: int,            // ghost: confidentiality limit of the negotiated AEAD (same for every generation)
    pub used: spec_fn(int) -> int,   // ghost: packets ever protected with the key material of generation g
    pub max_sent: int,         // ghost: highest generation ever used to protect a packet (-1: none yet)
}

pub open spec fn inv(g: G) -> bool {
    &&& ks_inv(g.s)
    &&& g.s.k0.limit == g.limit && g.s.k1.limit == g.limit
    &&& forall|x: int| 0 <= #[trigger] (g.used)(x) <= g.limit
    // the counters of the stored keys are the ghost usage of their generation
    &&& (g.used)(g.s.k0.gen) == g.s.k0.enc
    &&& (g.used)(g.s.k1.gen) == g.s.k1.enc
    // generations that are not derived yet were never used
    &&& forall|x: int| x > g.s.generation + 1 ==> #[trigger] (g.used)(x) == 0
    &&& g.s.timer_armed ==> (g.used)(g.s.generation + 1) == 0
    // sending: nothing newer than the next generation was used, and once the next generation was used the active
    // key keeps asking for the update (its counter only grows) until the rotation
    &&& -1 <= g.max_sent <= g.s.generation + 1
    &&& g.max_sent == g.s.generation + 1 ==> lkey_needs_update(ks_active(g.s), g.s.window) && !g.s.timer_armed
    &&& forall|x: int| x > g.max_sent ==> #[trigger] (g.used)(x) == 0
}

// ---- the property, as a consequence of the invariant ---------------------------------------------
proof fn c15_no_generation_exceeds_its_confidentiality_limit(g: G, x: int)
    requires inv(g),
    ensures
        (g.used)(x) <= g.limit,
        g.s.k0.enc <= g.s.k0.limit && g.s.k1.enc <= g.s.k1.limit,
{
}

// ---- initial state -----------------------------------------------------------------------------------
proof fn step_new(s: Ks, conf_limit: int, integrity_limit: int, window: int) -> (g: G)
    requires
        0 <= conf_limit <= u64_max(), 0 <= integrity_limit <= u64_max(), 0 <= window <= u64_max(),
        ks_new_post(s, conf_limit, integrity_limit, window),        // C15/keyset.new/*
    ensures inv(g), g.s == s, g.max_sent == -1,
{
    G { s: s, limit: conf_limit, used: |x: int| 0int, max_sent: -1 }
}

// ---- encrypt_packet ------------------------------------------------------------------------------------
// Ok: returns the generation the packet was protected with
proof fn step_encrypt_ok(g: G, n: Ks) -> (r: (G, int))
    requires
        inv(g),
        ks_encrypt_post(g.s, n, true),              // C15/keyset.encrypt_packet/counted_exactly_once_else_state_unchanged
        ks_encryption_key_not_older(g.s),           // C15/keyset.encryption_phase/never_selects_a_key_older_than_current (strict)
    ensures
        inv(r.0), r.0.s == n,
        r.1 == ks_key(g.s, ks_encryption_phase(g.s)).gen,
        // (2) never an older generation than any earlier packet
        r.1 >= g.max_sent,
        r.0.max_sent == r.1,
        // (1) the packet fits the limit of its key material
        (g.used)(r.1) < g.limit,
        (r.0.used)(r.1) == (g.used)(r.1) + 1,
        forall|x: int| x != r.1 ==> #[trigger] (r.0.used)(x) == (g.used)(x),
        r.0.s.generation == g.s.generation,
{
    let ph = ks_encryption_phase(g.s);
    let e = ks_key(g.s, ph).gen;
    let h = G { s: n, limit: g.limit, used: |x: int| if x == e { (g.used)(e) + 1 } else { (g.used)(x) }, max_sent: e };
    assert(ks_inv(n));
    assert forall|x: int| 0 <= #[trigger] (h.used)(x) <= h.limit by {
        assert(0 <= (g.used)(x) <= g.limit);
    }
    assert forall|x: int| x > h.s.generation + 1 implies #[trigger] (h.used)(x) == 0 by {
        assert((g.used)(x) == 0);
    }
    assert forall|x: int| x > h.max_sent implies #[trigger] (h.used)(x) == 0 by {
        assert((g.used)(x) == 0);
    }
    (h, e)
}

// Err(AeadLimitReached) or the writer failed: nothing encrypted, nothing counted
proof fn step_encrypt_err(g: G, n: Ks) -> (h: G)
    requires inv(g), ks_encrypt_post(g.s, n, false),
    ensures inv(h), h.s == n, h.used == g.used, h.max_sent == g.max_sent,
{
    G { s: n, ..g }
}

// the limit error is reported exactly when the selected key material is used up -- and then nothing is sent
proof fn c15_refuses_to_send_rather_than_exceed(g: G)
    requires inv(g), ks_encrypt_limit_reached(g.s), ks_encryption_key_not_older(g.s),
    ensures (g.used)(ks_key(g.s, ks_encryption_phase(g.s)).gen) == g.limit,
{
}

// ---- decrypt_packet --------------------------------------------------------------------------------------
proof fn step_decrypt_fail(g: G, pkt_phase: int, n: Ks) -> (h: G)
    requires
        inv(g), pkt_phase == 0 || pkt_phase == 1, g.s.failures < u64_max(),
        ks_decrypt_fail_post(g.s, pkt_phase, n),    // C15/keyset.decrypt_packet/failure_counted_once_keys_and_phase_untouched
    ensures
        inv(h), h.s == n, h.used == g.used, h.max_sent == g.max_sent,
        h.s.failures == g.s.failures + 1, h.s.integrity_limit == g.s.integrity_limit,
        h.s.generation == g.s.generation,
{
    G { s: n, ..g }
}

proof fn step_decrypt_ok_current_phase(g: G, n: Ks) -> (h: G)
    requires inv(g), ks_decrypt_ok_same_phase_post(g.s, n),
    ensures inv(h), h.s == n, h.used == g.used, h.max_sent == g.max_sent,
        h.s.failures == g.s.failures, h.s.integrity_limit == g.s.integrity_limit, h.s.generation == g.s.generation,
{
    G { s: n, ..g }
}

// the peer updated (or answered our update): rotation
proof fn step_decrypt_ok_next_phase(g: G, n: Ks) -> (h: G)
    requires
        inv(g), !g.s.timer_armed, g.s.generation < u16_max(),
        ks_decrypt_ok_next_phase_post(g.s, n),
    ensures
        inv(h), h.s == n, h.used == g.used, h.max_sent == g.max_sent,
        h.s.generation == g.s.generation + 1,           // (2) generation monotone
        ks_active(h.s).gen == ks_active(g.s).gen + 1,   // send keys advance by exactly one generation
        h.s.failures == g.s.failures, h.s.integrity_limit == g.s.integrity_limit,
{
    let h = G { s: n, ..g };
    assert(ks_active(n).gen == g.s.generation + 1);
    assert(ks_other(n).gen == g.s.generation);
    assert(n.phase == n.generation % 2);
    assert forall|x: int| x > h.s.generation + 1 implies #[trigger] (h.used)(x) == 0 by {
        assert((g.used)(x) == 0);
    }
    assert((g.used)(g.s.generation + 2) == 0);
    h
}

// a delayed packet from before the update, authenticated with the retained previous key: no effect on keys
proof fn step_decrypt_ok_previous_phase(g: G, n: Ks) -> (h: G)
    requires
        inv(g), g.s.timer_armed,
        ks_decrypt_ok_previous_phase_post(g.s, n),      // strict; fails on the unchanged tree (finding)
    ensures
        inv(h), h.s == n, h.used == g.used, h.max_sent == g.max_sent,
        h.s.generation == g.s.generation, ks_active(h.s).gen == ks_active(g.s).gen,
        h.s.failures == g.s.failures, h.s.integrity_limit == g.s.integrity_limit,
{
    G { s: n, ..g }
}

// ---- on_timeout ---------------------------------------------------------------------------------------------
proof fn step_timeout_fired(g: G, n: Ks) -> (h: G)
    requires
        inv(g), g.s.timer_armed,
        ks_timeout_fired_post(g.s, n, ks_active(g.s).limit),   // C15/keyset.on_timeout/derives_exactly_one_next_key_from_active
    ensures
        inv(h), h.s == n, h.used == g.used, h.max_sent == g.max_sent,
        h.s.generation == g.s.generation, h.s.failures == g.s.failures, h.s.integrity_limit == g.s.integrity_limit,
{
    let h = G { s: n, ..g };
    assert(ks_other(n).gen == g.s.generation + 1);
    assert(ks_other(n).enc == 0);
    assert((g.used)(g.s.generation + 1) == 0);
    h
}

proof fn step_timeout_idle(g: G, n: Ks) -> (h: G)
    requires inv(g), ks_same(g.s, n),
    ensures inv(h), h.s == n, h.used == g.used, h.max_sent == g.max_sent,
{
    G { s: n, ..g }
}

// ---- (3) integrity limit: failures never decrease, the limit never changes ------------------------------------
// Any of the operations above relates g and h by `no_forgetting`; the relation is transitive, so it holds between
// any two points of any history, and once the close condition holds it holds forever.
pub open spec fn no_forgetting(a: Ks, b: Ks) -> bool {
    b.failures >= a.failures && b.integrity_limit == a.integrity_limit && b.generation >= a.generation
}

proof fn c15_every_operation_keeps_counting(old: Ks, new: Ks, pkt_phase: int, ok: bool, conf: int)
    requires
        ks_encrypt_post(old, new, ok)
            || ks_decrypt_fail_post(old, pkt_phase, new)
            || ks_decrypt_ok_same_phase_post(old, new)
            || ks_decrypt_ok_next_phase_post(old, new)
            || ks_decrypt_ok_previous_phase_post(old, new)
            || ks_timeout_fired_post(old, new, conf)
            || ks_same(old, new),
    ensures no_forgetting(old, new),
{
}

proof fn c15_no_forgetting_transitive(a: Ks, b: Ks, c: Ks)
    requires no_forgetting(a, b), no_forgetting(b, c),
    ensures no_forgetting(a, c),
{
}

// once failures >= integrity_limit, every later failing decrypt is reported as AEAD_LIMIT_REACHED
// (layer F: Err(AEAD_LIMIT_REACHED) <=> ks_decrypt_fail_is_close(new))
proof fn c15_closed_stays_closed(at_limit: Ks, later: Ks, pkt_phase: int, after: Ks)
    requires
        ks_decrypt_fail_is_close(at_limit),
        no_forgetting(at_limit, later),
        ks_decrypt_fail_post(later, pkt_phase, after),
    ensures ks_decrypt_fail_is_close(after),
{
}

// the error is raised no later than the failure that reaches the limit: below the limit before, at it after
proof fn c15_close_error_at_the_limit(old: Ks, pkt_phase: int, new: Ks)
    requires ks_decrypt_fail_post(old, pkt_phase, new), old.failures + 1 >= old.integrity_limit,
    ensures ks_decrypt_fail_is_close(new),
{
}
