//@ verus props=C11 tier=quick kind=L spec=amplification.rs timeout=300
// History lemmas for C11 (anti-amplification credit of an unvalidated server path).
//
// Ghost state = `AmpHist` of contracts/spec/amplification.rs: the abstraction `Amp` of the real
// counter plus rx (bytes received from the address), tx (bytes sent to it), debt (bytes by which
// transmitted datagrams exceeded the allowance that remained when they were started -- the real
// counter saturates at 0 and forgets them) and maxd (largest datagram sent).
//
// The `step_*` lemmas require exactly the predicates that layer F asserts on the real functions
// (C11/path.on_bytes_received/*, C11/path.on_bytes_transmitted/*, C11/path.on_handshake_packet/validates,
// C11/path.on_path_response/match_validates, C11/path.other_mutators/*) and conclude `amp_hist_inv`.
//
// `stated_bound` is the property statement ("never starts sending a datagram once the bytes already
// sent have reached three times the bytes received").  It is EXPECTED TO FAIL: the contracts only give
// `allowance <= mult*rx - tx + debt` (DESIGN 6 item 3).  `stated_bound_outside_known` is its residual:
// it assumes that no transmitted datagram exceeded the remaining allowance (debt == 0) and then
// proves the stated bound, and `stated_total_outside_known` proves `tx < mult*rx + maxd` after the
// datagram has been sent.  The Kani history harness vq_c11_path_amp_history supplies the concrete
// history for the failure.

// ---- initial state: Path::new on a server (C11/path.new/*) ----------------------------------------
proof fn step_initial(s: Amp) -> (h: AmpHist)
    requires amp_inv(s), !s.validated, s.allowance == 0,
    ensures amp_hist_inv(h), h.rx == 0, h.tx == 0, h.debt == 0,
{
    amp_hist_init(s)
}

// ---- on_bytes_received(n) -----------------------------------------------------------------------
proof fn step_rx(h: AmpHist, n: int, new: Amp) -> (g: AmpHist)
    requires amp_hist_inv(h), 0 <= n <= 65535, amp_rx_post(h.s, n, new), amp_inv(new),
    ensures amp_hist_inv(g), g == amp_hist_rx(h, n, new), g.debt == h.debt, g.tx == h.tx, g.rx == h.rx + n,
{
    let g = amp_hist_rx(h, n, new);
    assert(h.s.mult * (h.rx + n) == h.s.mult * h.rx + h.s.mult * n) by (nonlinear_arith);
    assert(h.s.mult * n >= 0) by (nonlinear_arith) requires h.s.mult >= 0, n >= 0;
    g
}

// ---- on_bytes_transmitted(n), called only when a datagram was started (not at the limit) ------------
proof fn step_tx(h: AmpHist, n: int, new: Amp) -> (g: AmpHist)
    requires amp_hist_inv(h), 1 <= n <= 4294967295, amp_may_start(h), amp_tx_post(h.s, n, new), amp_inv(new),
    ensures amp_hist_inv(g), g == amp_hist_tx(h, n, new), g.rx == h.rx, g.tx == h.tx + n,
        h.debt <= g.debt, !h.s.validated ==> g.debt < h.debt + n,   // each overshoot forgets less than one datagram
{
    amp_hist_tx(h, n, new)
}

// ---- on_handshake_packet() / matching on_path_response(): the limit no longer applies -----------------
proof fn step_validated(h: AmpHist, new: Amp) -> (g: AmpHist)
    requires amp_hist_inv(h), amp_validated_post(h.s, new),
    ensures amp_hist_inv(g), g.s.validated, g == (AmpHist { s: new, rx: h.rx, tx: h.tx, debt: h.debt, maxd: h.maxd }),
{
    AmpHist { s: new, rx: h.rx, tx: h.tx, debt: h.debt, maxd: h.maxd }
}

// ---- every other mutator of Path (C11/path.other_mutators/validation_and_credit_unchanged) -----------
proof fn step_other(h: AmpHist, new: Amp) -> (g: AmpHist)
    requires amp_hist_inv(h), amp_unchanged(h.s, new),
    ensures amp_hist_inv(g), g == (AmpHist { s: new, rx: h.rx, tx: h.tx, debt: h.debt, maxd: h.maxd }),
{
    AmpHist { s: new, rx: h.rx, tx: h.tx, debt: h.debt, maxd: h.maxd }
}

// ---- what does follow from the contracts, for every history ------------------------------------------
// a datagram is only started while tx < mult*rx + (everything the counter has forgotten), and the
// server is never starved: as long as the u32 counter has not saturated at the top, the allowance is
// at least the true balance
proof fn weak_bound(h: AmpHist)
    requires amp_hist_inv(h), !h.s.validated,
    ensures
        amp_may_start(h) ==> amp_weak_start_bound(h),
        h.tx <= h.s.mult * h.rx + h.debt,
        h.s.mult * h.rx <= amp_u32_max() ==> h.s.allowance >= h.s.mult * h.rx - h.tx,
{
}

// total after k overshoots: each forgets less than one (largest) datagram
proof fn weak_total_bound(h: AmpHist, n: int, new: Amp)
    requires amp_hist_inv(h), !h.s.validated, 1 <= n <= 4294967295, amp_may_start(h), amp_tx_post(h.s, n, new), amp_inv(new),
    ensures ({ let g = amp_hist_tx(h, n, new); g.tx < g.s.mult * g.rx + h.debt + n }),
{
}

// ---- the property statement: EXPECTED TO FAIL (see the header) ------------------------------------
proof fn stated_bound(h: AmpHist)
    requires amp_hist_inv(h), amp_may_start(h),
    ensures amp_stated_start_bound(h),
{
}

// ---- residual: histories in which no transmitted datagram exceeded the remaining allowance ------------
proof fn stated_bound_outside_known(h: AmpHist)
    requires amp_hist_inv(h), amp_may_start(h), h.debt == 0,
    ensures amp_stated_start_bound(h),
{
}

// ... and then the total stays below mult*rx plus one datagram once that datagram has been sent (it may
// itself exceed the allowance: that is the one datagram the statement tolerates), and this persists
// over any further receipts and over further datagrams that do not start over the limit
proof fn stated_total_outside_known(h: AmpHist, n: int, new: Amp)
    requires amp_hist_inv(h), amp_may_start(h), h.debt == 0,
        1 <= n <= 4294967295, amp_tx_post(h.s, n, new), amp_inv(new),
    ensures amp_stated_total_bound(amp_hist_tx(h, n, new)),
{
}

proof fn stated_total_preserved_by_rx(h: AmpHist, n: int, new: Amp)
    requires amp_hist_inv(h), amp_stated_total_bound(h), 0 <= n <= 65535, amp_rx_post(h.s, n, new), amp_inv(new),
    ensures amp_stated_total_bound(amp_hist_rx(h, n, new)),
{
    assert(h.s.mult * (h.rx + n) == h.s.mult * h.rx + h.s.mult * n) by (nonlinear_arith);
    assert(h.s.mult * n >= 0) by (nonlinear_arith) requires h.s.mult >= 0, n >= 0;
}

// ---- all histories: a run is a sequence of events whose post-states satisfy the F contracts ------------
pub enum AmpEv { Rx(int, Amp), Tx(int, Amp), Validate(Amp), Other(Amp) }

pub open spec fn amp_ev_ok(h: AmpHist, e: AmpEv) -> bool {
    match e {
        AmpEv::Rx(n, new) => 0 <= n <= 65535 && amp_rx_post(h.s, n, new) && amp_inv(new),
        AmpEv::Tx(n, new) => 1 <= n <= 4294967295 && amp_may_start(h) && amp_tx_post(h.s, n, new) && amp_inv(new),
        AmpEv::Validate(new) => amp_validated_post(h.s, new),
        AmpEv::Other(new) => amp_unchanged(h.s, new),
    }
}

pub open spec fn amp_ev_apply(h: AmpHist, e: AmpEv) -> AmpHist {
    match e {
        AmpEv::Rx(n, new) => amp_hist_rx(h, n, new),
        AmpEv::Tx(n, new) => amp_hist_tx(h, n, new),
        AmpEv::Validate(new) => AmpHist { s: new, rx: h.rx, tx: h.tx, debt: h.debt, maxd: h.maxd },
        AmpEv::Other(new) => AmpHist { s: new, rx: h.rx, tx: h.tx, debt: h.debt, maxd: h.maxd },
    }
}

pub open spec fn amp_run_ok(h: AmpHist, evs: Seq<AmpEv>) -> bool
    decreases evs.len(),
{
    if evs.len() == 0 { true } else { amp_ev_ok(h, evs[0]) && amp_run_ok(amp_ev_apply(h, evs[0]), evs.subrange(1, evs.len() as int)) }
}

pub open spec fn amp_run(h: AmpHist, evs: Seq<AmpEv>) -> AmpHist
    decreases evs.len(),
{
    if evs.len() == 0 { h } else { amp_run(amp_ev_apply(h, evs[0]), evs.subrange(1, evs.len() as int)) }
}

// for every history of any length the invariant holds at the end, hence (weak_bound) every started
// datagram was started below mult*rx + debt
proof fn all_histories_keep_inv(h: AmpHist, evs: Seq<AmpEv>)
    requires amp_hist_inv(h), amp_run_ok(h, evs),
    ensures amp_hist_inv(amp_run(h, evs)),
    decreases evs.len(),
{
    if evs.len() > 0 {
        let e = evs[0];
        let g = amp_ev_apply(h, e);
        match e {
            AmpEv::Rx(n, new) => { let x = step_rx(h, n, new); assert(x == g); }
            AmpEv::Tx(n, new) => { let x = step_tx(h, n, new); assert(x == g); }
            AmpEv::Validate(new) => { let x = step_validated(h, new); assert(x == g); }
            AmpEv::Other(new) => { let x = step_other(h, new); assert(x == g); }
        }
        all_histories_keep_inv(g, evs.subrange(1, evs.len() as int));
    }
}
