//@ verus props=C12,C03,C04 tier=quick kind=L spec=stream_wiring.rs timeout=300
// History lemmas for the stream-manager glue (C12 "Stream IDs of each type are opened in increasing order and
// never reused", C03 "never opens or references a stream beyond the largest MAX_STREAMS limit received",
// C04 "more streams than allowed ... rejected"): from the one-step contracts asserted by layer F on the real
// AbstractStreamManager / stream::Controller (contracts/kani/transport/mgr_manager.rs, mgr_controller.rs; predicates
// of contracts/spec/stream_wiring.rs, transliterated above) to the statement over every history of
// {open, MAX_STREAMS, close} of any length and in any order, per stream class.

// ---- ghost state: one locally initiated stream class ----------------------------------------------------
pub struct Alloc {
    pub server: bool,            // role of the local endpoint
    pub uni: bool,               // direction of the class
    pub c: OpenClass,            // abstraction of the class counters (layer F: Controller::verif_view)
    pub next_id: int,            // abstraction of StreamManagerState::next_stream_ids for the class
    pub ids: Seq<int>,           // ghost: every id ever handed to the application, in order
    pub max_streams_seen: int,   // ghost: largest MAX_STREAMS / initial_max_streams received for the class
}

pub open spec fn inv(g: Alloc) -> bool {
    &&& open_class_inv(g.c)
    &&& g.ids.len() == g.c.opened
    &&& g.c.peer_limit <= g.max_streams_seen
    // the glue invariant layer F asserts after every manager operation ("C12/mgr.inv/next_id_is_nth_opened")
    &&& g.next_id == sid_nth(g.server, g.uni, g.c.opened)
    &&& forall|i: int| 0 <= i < g.ids.len() ==> #[trigger] g.ids[i] == sid_nth(g.server, g.uni, i)
}

// ---- steps: requires = exactly what layer F asserts for the operation ----------------------------------
proof fn step_initial(server: bool, uni: bool, initial_max_streams: int, local_limit: int) -> (g: Alloc)
    requires 0 <= initial_max_streams, 0 <= local_limit,
    ensures inv(g),
{
    // C03/ctl.new/* + C12/mgr.new/next_ids_are_first_of_class
    Alloc {
        server, uni,
        c: OpenClass { opened: 0, closed: 0, peer_limit: initial_max_streams, local_limit },
        next_id: sid_first(server, uni),
        ids: Seq::empty(),
        max_streams_seen: initial_max_streams,
    }
}

// poll_open_local_stream returned Ready(Ok(id))
proof fn step_open(g: Alloc, id: int, n: OpenClass, next_id: int) -> (h: Alloc)
    requires
        inv(g),
        open_allowed(g.c),                    // C03/mgr.open_local/ready_iff_class_has_capacity
        id == g.next_id,                      // C12/mgr.open_local/id_is_next_unused_of_class
        open_step(g.c, n),                    // C03/mgr.open_local/ready_counts_one_open_in_requested_class
        next_id == id + 4,                    // C12/mgr.open_local/next_id_advances_by_4
    ensures
        inv(h),
        h.ids == g.ids.push(id),
{
    let h = Alloc { c: n, next_id, ids: g.ids.push(id), ..g };
    assert forall|i: int| 0 <= i < h.ids.len() implies #[trigger] h.ids[i] == sid_nth(h.server, h.uni, i) by {
        if i < g.ids.len() {
            assert(h.ids[i] == g.ids[i]);
        }
    }
    h
}

// poll_open_local_stream returned Pending: nothing changes (C03/mgr.open_local/pending_changes_nothing)
proof fn step_open_pending(g: Alloc) -> (h: Alloc)
    requires inv(g),
    ensures inv(h), h.ids == g.ids,
{
    g
}

proof fn step_max_streams(g: Alloc, m: int, n: OpenClass) -> (h: Alloc)
    requires
        inv(g),
        0 <= m,
        max_streams_step(g.c, m, n),          // C03/ctl.on_max_streams/addressed_class_limit_is_max (+ frame)
    ensures
        inv(h),
        h.ids == g.ids,
{
    Alloc { c: n, max_streams_seen: if m > g.max_streams_seen { m } else { g.max_streams_seen }, ..g }
}

// a MAX_STREAMS frame for the OTHER direction: C03/ctl.on_max_streams/other_direction_untouched
proof fn step_max_streams_other_direction(g: Alloc) -> (h: Alloc)
    requires inv(g),
    ensures inv(h), h.c == g.c,
{
    g
}

proof fn step_close(g: Alloc, n: OpenClass) -> (h: Alloc)
    requires
        inv(g),
        g.c.closed < g.c.opened,
        n.closed == g.c.closed + 1 && n.opened == g.c.opened && n.peer_limit == g.c.peer_limit && n.local_limit == g.c.local_limit,
    ensures
        inv(h),
        h.ids == g.ids,
{
    Alloc { c: n, ..g }
}

// ---- the property --------------------------------------------------------------------------------------
proof fn c12_ids_increasing_never_reused_within_limit(g: Alloc)
    requires inv(g),
    ensures
        // strictly increasing in the order handed out => never reused
        forall|i: int, j: int| 0 <= i < j < g.ids.len() ==> #[trigger] g.ids[i] < #[trigger] g.ids[j],
        // of the requested class and local initiator (RFC 9000 2.1 low bits)
        forall|i: int| 0 <= i < g.ids.len() ==> sid_same_class(#[trigger] g.ids[i], sid_first(g.server, g.uni)),
        forall|i: int| 0 <= i < g.ids.len() ==> sid_initiator_is_server(#[trigger] g.ids[i]) == g.server,
        forall|i: int| 0 <= i < g.ids.len() ==> sid_is_uni(#[trigger] g.ids[i]) == g.uni,
        // C03: every id opened lies below the largest stream limit received (RFC 9000 4.6 / 19.11)
        forall|i: int| 0 <= i < g.ids.len() ==> sid_index(#[trigger] g.ids[i]) < g.max_streams_seen,
        // the next id is fresh
        forall|i: int| 0 <= i < g.ids.len() ==> #[trigger] g.ids[i] < g.next_id,
{
    assert forall|i: int| 0 <= i < g.ids.len() implies sid_index(#[trigger] g.ids[i]) < g.max_streams_seen by {
        assert(g.ids[i] == sid_nth(g.server, g.uni, i));
    }
}

// ---- peer-initiated class (C04) -------------------------------------------------------------------------
pub struct RemoteAlloc {
    pub c: OpenClass,            // peer_limit = the cumulative limit WE advertised
    pub max_advertised: int,     // ghost: largest limit ever advertised
}

pub open spec fn rinv(g: RemoteAlloc) -> bool {
    &&& 0 <= g.c.closed <= g.c.opened <= g.c.peer_limit
    &&& g.c.peer_limit <= g.max_advertised
}

// a frame naming peer-initiated stream `id`
proof fn step_remote_frame(g: RemoteAlloc, id: int, rejected: bool, n: OpenClass) -> (h: RemoteAlloc)
    requires
        rinv(g),
        0 <= id,
        rejected == remote_open_exceeds_limit(id, g.c.peer_limit),      // C04/mgr.remote_frame/err_iff_index_ge_advertised_limit
        rejected ==> n == g.c,                                           // C04/mgr.remote_frame/err_leaves_state_unchanged
        !rejected ==> (n.opened == remote_opened_after(g.c.opened, id)   // C04/mgr.remote_frame/ok_opens_all_lower_streams
            && n.closed == g.c.closed && n.peer_limit == g.c.peer_limit && n.local_limit == g.c.local_limit),
    ensures
        rinv(h),
        // no stream is ever open whose index is not below a limit we advertised
        !rejected ==> sid_index(id) < h.max_advertised,
{
    RemoteAlloc { c: n, ..g }
}
