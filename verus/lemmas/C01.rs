//@ verus props=C01 tier=quick kind=L spec=reassembly.rs timeout=300
// History lemmas for C01 (receiver side): from the function contracts of the reassembly buffer asserted by
// layer F (contracts/kani/core/c16_reassembler.rs, predicates of contracts/spec/reassembly.rs transliterated
// above) to "the bytes handed to the application are a prefix of the stream the sender wrote, and a clean end
// means the whole stream", for every sequence of consistent frames (any order, any multiplicity, any overlap),
// pops with any watermark and skips.
//
// The integer part of every contract (cursors: start / max_recv / final size; acceptance conditions) is the
// transliterated text of the spec file.  Byte contents cannot be written in the i128 sub-language; the content
// part of the contracts is stated here over `Map<int, u8>` / `Seq<u8>` and is the universally quantified form
// of the witness obligations of layer F ("for the symbolic offset w: recv'(w) == ...").

// ---- abstract state -------------------------------------------------------------------------------------------
pub struct Rv {
    pub recv: Map<int, u8>, // buffered bytes by stream offset; only offsets >= c.start are kept
    pub c: CurV,            // cursors (start, max_recv, fin) as projected by layer F; fin == -1: unknown
}

// a STREAM frame (off, data, fin) is consistent with the stream S the sender wrote
// (C12 sender contract + C05 codec round trip + AEAD: only such frames reach the receiver)
pub open spec fn consistent(s: Seq<u8>, off: int, data: Seq<u8>, fin: bool) -> bool {
    &&& 0 <= off
    &&& off + data.len() <= s.len()
    &&& forall|i: int| 0 <= i < data.len() ==> #[trigger] data[i] == s[off + i]
    &&& (fin ==> off + data.len() == s.len())
}

// ---- contracts of the operations (what layer F asserts) -----------------------------------------------------------
// Reassembler::write_at / write_at_fin (off, data, fin) -> ok
pub open spec fn write_rejected(old: Rv, off: int, len: int, fin: bool) -> bool {
    write_out_of_range(off, len) || write_contradicts_fin(old.c, off, len, fin)
}

pub open spec fn write_post(old: Rv, off: int, data: Seq<u8>, fin: bool, new: Rv, ok: bool) -> bool {
    let len = data.len() as int;
    &&& ok == !write_rejected(old, off, len, fin)
    &&& if ok {
        &&& write_cursors_post(old.c, off, len, fin, new.c)
        &&& forall|o: int| #[trigger] new.recv.dom().contains(o) <==> (old.recv.dom().contains(o) || (off <= o < off + len && o >= old.c.start))
        &&& forall|o: int| #[trigger] new.recv.dom().contains(o) && old.recv.dom().contains(o) ==> new.recv[o] == old.recv[o]
        &&& forall|o: int| #[trigger] new.recv.dom().contains(o) && !old.recv.dom().contains(o) ==> new.recv[o] == data[o - off]
    } else {
        new == old // a rejected write leaves (recv, start, final, max_recv) unchanged
    }
}

// Reassembler::pop_watermarked(w) -> chunk
pub open spec fn pop_post(old: Rv, watermark: int, new: Rv, chunk: Option<Seq<u8>>) -> bool {
    match chunk {
        None => new == old && (!old.recv.dom().contains(old.c.start) || watermark == 0),
        Some(c) => {
            &&& 1 <= c.len() <= watermark
            &&& pop_cursors_post(old.c, c.len() as int, new.c)
            &&& forall|i: int| 0 <= i < c.len() ==> old.recv.dom().contains(old.c.start + i) && #[trigger] c[i] == old.recv[old.c.start + i]
            &&& forall|o: int| #[trigger] new.recv.dom().contains(o) <==> (old.recv.dom().contains(o) && o >= new.c.start)
            &&& forall|o: int| #[trigger] new.recv.dom().contains(o) ==> new.recv[o] == old.recv[o]
        },
    }
}

// Reassembler::skip(n) -> ok   (the application obtained the next n bytes without going through the buffer)
pub open spec fn skip_post(old: Rv, n: int, new: Rv, ok: bool) -> bool {
    &&& ok == !(skip_out_of_range(old.c, n) || skip_contradicts_fin(old.c, n))
    &&& if ok {
        &&& skip_cursors_post(old.c, n, new.c)
        &&& forall|o: int| #[trigger] new.recv.dom().contains(o) <==> (old.recv.dom().contains(o) && o >= new.c.start)
        &&& forall|o: int| #[trigger] new.recv.dom().contains(o) ==> new.recv[o] == old.recv[o]
    } else {
        new == old
    }
}

// ---- the invariant --------------------------------------------------------------------------------------------
// S: the byte sequence the sending application wrote before finishing (ghost); delivered: what the receiving
// application has been handed so far (ghost history variable)
pub open spec fn inv(s: Seq<u8>, r: Rv, delivered: Seq<u8>) -> bool {
    &&& cur_inv(r.c)
    &&& r.c.start <= s.len()
    &&& r.c.max_recv <= s.len()
    &&& delivered == s.subrange(0, r.c.start)
    &&& forall|o: int| #[trigger] r.recv.dom().contains(o) ==> r.c.start <= o < s.len() && r.recv[o] == s[o]
    &&& forall|o: int| #[trigger] r.recv.dom().contains(o) ==> o < r.c.max_recv
    &&& (cur_fin_known(r.c) ==> r.c.fin == s.len())
}

pub open spec fn init() -> Rv {
    Rv { recv: Map::empty(), c: CurV { start: 0, max_recv: 0, fin: -1 } }
}

proof fn init_establishes_inv(s: Seq<u8>)
    ensures inv(s, init(), Seq::<u8>::empty()),
{
    assert(s.subrange(0, 0) =~= Seq::<u8>::empty());
}

// ---- steps ------------------------------------------------------------------------------------------------------
// any consistent frame, at any time, any number of times, in any order
proof fn write_preserves_I(s: Seq<u8>, old: Rv, delivered: Seq<u8>, off: int, data: Seq<u8>, fin: bool, new: Rv, ok: bool)
    requires
        inv(s, old, delivered),
        consistent(s, off, data, fin),
        write_post(old, off, data, fin, new, ok),
    ensures
        inv(s, new, delivered),
{
    if ok {
        assert forall|o: int| #[trigger] new.recv.dom().contains(o) implies new.c.start <= o < s.len() && new.recv[o] == s[o] by {
            if !old.recv.dom().contains(o) {
                let i = o - off;
                assert(data[i] == s[off + i]);
            }
        }
    }
}

// a consistent frame is never rejected (as long as the stream itself respects the 2^62-1 limit): the receiver
// raises FINAL_SIZE_ERROR / out-of-range only for frames no correct sender produces
proof fn consistent_write_is_accepted(s: Seq<u8>, old: Rv, delivered: Seq<u8>, off: int, data: Seq<u8>, fin: bool)
    requires
        inv(s, old, delivered),
        consistent(s, off, data, fin),
        s.len() <= ra_varint_max(),
    ensures
        !write_rejected(old, off, data.len() as int, fin),
{
}

proof fn pop_preserves_I(s: Seq<u8>, old: Rv, delivered: Seq<u8>, watermark: int, new: Rv, chunk: Option<Seq<u8>>)
    requires
        inv(s, old, delivered),
        pop_post(old, watermark, new, chunk),
    ensures
        inv(s, new, if chunk.is_some() { delivered + chunk.unwrap() } else { delivered }),
{
    if let Some(c) = chunk {
        let d2 = delivered + c;
        assert(old.c.start + c.len() <= s.len()) by {
            let last = c.len() - 1;
            assert(c[last] == old.recv[old.c.start + last]);
            assert(old.recv.dom().contains(old.c.start + last));
        }
        assert(d2 =~= s.subrange(0, new.c.start)) by {
            assert forall|i: int| 0 <= i < d2.len() implies #[trigger] d2[i] == s.subrange(0, new.c.start)[i] by {
                if i >= delivered.len() {
                    let j = i - delivered.len();
                    assert(c[j] == old.recv[old.c.start + j]);
                }
            }
        }
        // max_recv >= new start: the popped bytes were in the buffer, hence below max_recv ... this is part of
        // cur_inv(new.c) and follows from the Reassembler invariant asserted by layer F (start <= max_recv)
        assert(new.c.start <= new.c.max_recv) by {
            let last = c.len() - 1;
            assert(c[last] == old.recv[old.c.start + last]);
            assert(old.recv.dom().contains(old.c.start + last));
        }
    }
}

// skip(n): the application was handed the next n stream bytes directly (copy avoidance for in-order packets)
proof fn skip_preserves_I(s: Seq<u8>, old: Rv, delivered: Seq<u8>, n: int, new: Rv, ok: bool)
    requires
        inv(s, old, delivered),
        0 <= n,
        old.c.start + n <= s.len(),
        skip_post(old, n, new, ok),
    ensures
        inv(s, new, if ok { delivered + s.subrange(old.c.start, old.c.start + n) } else { delivered }),
{
    if ok {
        let d2 = delivered + s.subrange(old.c.start, old.c.start + n);
        assert(d2 =~= s.subrange(0, new.c.start));
    }
}

// ---- the property -------------------------------------------------------------------------------------------------
// what the application has read is always a prefix of what the sender wrote: nothing lost, duplicated, displaced
// or altered
proof fn delivered_is_prefix(s: Seq<u8>, r: Rv, delivered: Seq<u8>)
    requires inv(s, r, delivered),
    ensures
        delivered.len() <= s.len(),
        forall|i: int| 0 <= i < delivered.len() ==> delivered[i] == s[i],
{
}

// Reassembler::is_reading_complete() == (final_size() == Some(start)): a clean end means the whole stream
proof fn clean_end_means_complete(s: Seq<u8>, r: Rv, delivered: Seq<u8>)
    requires
        inv(s, r, delivered),
        cur_fin_known(r.c),
        r.c.fin == r.c.start,
    ensures
        delivered == s,
{
    assert(s.subrange(0, s.len() as int) =~= s);
}

// ---- all histories ---------------------------------------------------------------------------------------------------
// an event of the receive side together with the abstract state it produced (as observed by layer F)
pub enum Ev {
    Write { off: int, data: Seq<u8>, fin: bool, ok: bool },
    Pop { watermark: int, chunk: Option<Seq<u8>> },
    Skip { n: int, ok: bool },
}

pub open spec fn step_ok(s: Seq<u8>, old: Rv, e: Ev, new: Rv) -> bool {
    match e {
        Ev::Write { off, data, fin, ok } => consistent(s, off, data, fin) && write_post(old, off, data, fin, new, ok),
        Ev::Pop { watermark, chunk } => pop_post(old, watermark, new, chunk),
        Ev::Skip { n, ok } => 0 <= n && old.c.start + n <= s.len() && skip_post(old, n, new, ok),
    }
}

pub open spec fn deliver(s: Seq<u8>, old: Rv, e: Ev, delivered: Seq<u8>) -> Seq<u8> {
    match e {
        Ev::Write { off, data, fin, ok } => delivered,
        Ev::Pop { watermark, chunk } => if chunk.is_some() { delivered + chunk.unwrap() } else { delivered },
        Ev::Skip { n, ok } => if ok { delivered + s.subrange(old.c.start, old.c.start + n) } else { delivered },
    }
}

// a run: states.len() == events.len() + 1, states[0] == init, every step satisfies its contract
pub open spec fn run_ok(s: Seq<u8>, events: Seq<Ev>, states: Seq<Rv>) -> bool {
    &&& states.len() == events.len() + 1
    &&& states[0] == init()
    &&& forall|k: int| 0 <= k < events.len() ==> #[trigger] step_ok(s, states[k], events[k], states[k + 1])
}

pub open spec fn delivered_after(s: Seq<u8>, events: Seq<Ev>, states: Seq<Rv>, k: int) -> Seq<u8>
    decreases k,
{
    if k <= 0 { Seq::<u8>::empty() } else { deliver(s, states[k - 1], events[k - 1], delivered_after(s, events, states, k - 1)) }
}

// for every fault sequence / schedule (= every sequence of consistent frames, pops and skips of any length):
// the invariant holds after every prefix of the run, hence the delivered bytes are always a prefix of S
proof fn all_histories_keep_I(s: Seq<u8>, events: Seq<Ev>, states: Seq<Rv>, k: int)
    requires
        run_ok(s, events, states),
        0 <= k <= events.len(),
    ensures
        inv(s, states[k], delivered_after(s, events, states, k)),
    decreases k,
{
    if k == 0 {
        init_establishes_inv(s);
    } else {
        all_histories_keep_I(s, events, states, k - 1);
        let d = delivered_after(s, events, states, k - 1);
        let old = states[k - 1];
        let new = states[k];
        assert(step_ok(s, states[k - 1], events[k - 1], states[k - 1 + 1]));
        match events[k - 1] {
            Ev::Write { off, data, fin, ok } => { write_preserves_I(s, old, d, off, data, fin, new, ok); },
            Ev::Pop { watermark, chunk } => { pop_preserves_I(s, old, d, watermark, new, chunk); },
            Ev::Skip { n, ok } => { skip_preserves_I(s, old, d, n, new, ok); },
        }
    }
}
