//@ verus props=C13 tier=quick kind=L spec=conn_ids.rs timeout=300
// History lemmas for C13: from the per-call contracts of LocalIdRegistry / PeerIdRegistry asserted by layer F
// (contracts/spec/conn_ids.rs, transliterated above) to the property statement, for every sequence of
// {new, set limit, interest+register, retire (RETIRE_CONNECTION_ID), timeout (expire), transmit, ack, loss,
//  handshake confirmed} on the issuing side and {NEW_CONNECTION_ID received, transmit, ack, loss} on the
// receiving side, of any length and in any order.
//
// What is NOT derivable from the registries' contracts and therefore stated as a *caller obligation* (`requires`
// of the step, with the production call site in the comment) rather than proved:
//   * a registered id/token is different from every id/token issued EARLIER and already removed (the registry
//     only remembers what is currently registered; uniqueness over the whole history is the id generator's);
//   * active < limit at register_connection_id (debug assertion; connection_impl.rs:988-1010);
//   * retirement times monotone in issue order (needed only for "Retire Prior To <= Sequence Number" in every
//     NEW_CONNECTION_ID frame; expiration = now + Generator::lifetime()).

//
// STATUS OF THE LAYER-F PREMISES (see contracts/STRENGTH-c13.md): the `requires` of step_new, step_set_limit,
// lemma_interest_allows_k_registrations, step_register and of step_statuses via lemma_{retire,ack,loss,rotate}_post_is_step
// are predicates asserted by discharged harnesses on the real LocalIdRegistry (contracts/kani/transport/lidr.rs, K=1).
// The premises taken from on_timeout (lemma_timeout_post_is_step, step_timeout_retire_keeps_discipline) and from on_transmit
// (lemma_transmit_post_is_step, c13_frame_*) are per-entry predicates that layer X verifies on the real loop bodies
// (verus/extract/c13_local_id_registry_x.rs: on_timeout_loop_body, on_transmit_loop_body; the loop headers are a declared
// drop).  step_remove (unregister_expired_ids) and the PeerIdRegistry premises (step_peer_*) are still contracts of harnesses
// that could NOT be discharged (probes/kani_injected_c13_*.rs): for those the lemmas show what the contract would give.

// ================================================================================================
// issuing side
// ================================================================================================
pub struct Local {
    pub s: Lidr,                 // abstraction of the counters
    pub ids: Seq<LidEntry>,      // abstraction of registered_ids, in registry order
    pub issued: Seq<int>,        // ghost: sequence numbers of all ids ever registered, in issue order
    pub peer_limit: int,         // ghost: the peer's active_connection_id_limit (>= 2, RFC 9000 18.2); 0 = not yet known
}

pub open spec fn count(s: Seq<LidEntry>) -> int
    decreases s.len()
{
    if s.len() == 0 { 0 } else { count(s.drop_last()) + lid_count1(s.last()) }
}

// the abstraction function of the harnesses (lidr.rs `view`) computes len and active from the entries
pub open spec fn wf(g: Local) -> bool {
    g.s.len == g.ids.len() && g.s.active == count(g.ids)
}

pub open spec fn inv(g: Local) -> bool {
    &&& wf(g)
    &&& lidr_inv(g.s)
    &&& forall|i: int| 0 <= i < g.ids.len() ==> #[trigger] lid_entry_inv(g.s, g.ids[i])
    &&& forall|i: int, j: int| 0 <= i < j < g.ids.len() ==> #[trigger] lid_pair_inv(g.ids[i], g.ids[j])
    // consecutive sequence numbers over the whole history
    &&& g.issued.len() == g.s.next_seq
    &&& forall|k: int| 0 <= k < g.issued.len() ==> #[trigger] g.issued[k] == k
    // until the peer's transport parameters are known only the handshake id exists (limit 1)
    &&& (g.peer_limit == 0 ==> g.s.limit == 1)
    &&& (g.peer_limit != 0 ==> 2 <= g.peer_limit && g.s.limit <= g.peer_limit)
}

// the conditional "retire-prior-to discipline" (see spec file)
pub open spec fn discipline(g: Local) -> bool {
    &&& forall|i: int| 0 <= i < g.ids.len() ==> #[trigger] lid_entry_rpt_inv(g.s, g.ids[i])
    &&& forall|i: int, j: int| 0 <= i < j < g.ids.len() ==> #[trigger] lid_pair_monotone(g.ids[i], g.ids[j])
}

// ---- auxiliary facts about count ------------------------------------------------------------------
proof fn lemma_count_push(s: Seq<LidEntry>, e: LidEntry)
    ensures count(s.push(e)) == count(s) + lid_count1(e),
{
    assert(s.push(e).drop_last() =~= s);
}

proof fn lemma_count_bounds(s: Seq<LidEntry>)
    ensures 0 <= count(s) <= s.len(),
    decreases s.len(),
{
    if s.len() > 0 {
        lemma_count_bounds(s.drop_last());
    }
}

// pointwise non-increasing counted-ness => count does not increase; pointwise equal => equal
proof fn lemma_count_pointwise(a: Seq<LidEntry>, b: Seq<LidEntry>)
    requires a.len() == b.len(), forall|i: int| 0 <= i < a.len() ==> lid_count1(#[trigger] b[i]) <= lid_count1(a[i]),
    ensures count(b) <= count(a),
    decreases a.len(),
{
    if a.len() > 0 {
        lemma_count_pointwise(a.drop_last(), b.drop_last());
    }
}

proof fn lemma_count_pointwise_eq(a: Seq<LidEntry>, b: Seq<LidEntry>)
    requires a.len() == b.len(), forall|i: int| 0 <= i < a.len() ==> lid_count1(#[trigger] b[i]) == lid_count1(a[i]),
    ensures count(b) == count(a),
    decreases a.len(),
{
    if a.len() > 0 {
        lemma_count_pointwise_eq(a.drop_last(), b.drop_last());
    }
}

proof fn lemma_count_remove(s: Seq<LidEntry>, i: int)
    requires 0 <= i < s.len(),
    ensures count(s.remove(i)) == count(s) - lid_count1(s[i]),
    decreases s.len(),
{
    if i == s.len() - 1 {
        assert(s.remove(i) =~= s.drop_last());
    } else {
        assert(s.remove(i).drop_last() =~= s.drop_last().remove(i));
        assert(s.remove(i).last() == s.last());
        lemma_count_remove(s.drop_last(), i);
        assert(s.drop_last()[i] == s[i]);
    }
}

// ---- the property, as a consequence of the invariant ------------------------------------------------
proof fn c13_issuing_side_holds(g: Local)
    requires inv(g),
    ensures
        // never more unretired ids issued than the peer's active_connection_id_limit (RFC 9000 5.1.1)
        g.peer_limit != 0 ==> count(g.ids) <= g.peer_limit,
        count(g.ids) <= 3,
        // consecutive sequence numbers: the k-th id ever issued carries sequence number k
        forall|k: int| 0 <= k < g.issued.len() ==> #[trigger] g.issued[k] == k,
        // registered ids carry pairwise distinct sequence numbers, ids, and (unless forgotten) tokens
        forall|i: int, j: int| 0 <= i < j < g.ids.len() ==> (#[trigger] g.ids[i]).seq != (#[trigger] g.ids[j]).seq,
        forall|i: int, j: int| 0 <= i < j < g.ids.len() ==> !lid_same_id(#[trigger] g.ids[i], #[trigger] g.ids[j]),
        forall|i: int, j: int| 0 <= i < j < g.ids.len() ==>
            (!lid_same_token(#[trigger] g.ids[i], #[trigger] g.ids[j]) || lid_token_zeroed(g.ids[i])),
        // every registered id was issued
        forall|i: int| 0 <= i < g.ids.len() ==> 0 <= (#[trigger] g.ids[i]).seq < g.issued.len(),
        // never asks to retire ids it has not issued
        g.s.retire_prior_to <= g.issued.len(),
{
    assert forall|i: int, j: int| 0 <= i < j < g.ids.len() implies (#[trigger] g.ids[i]).seq != (#[trigger] g.ids[j]).seq by {
        assert(lid_pair_inv(g.ids[i], g.ids[j]));
    }
    assert forall|i: int, j: int| 0 <= i < j < g.ids.len() implies !lid_same_id(#[trigger] g.ids[i], #[trigger] g.ids[j]) by {
        assert(lid_pair_inv(g.ids[i], g.ids[j]));
    }
    assert forall|i: int, j: int| 0 <= i < j < g.ids.len() implies
        (!lid_same_token(#[trigger] g.ids[i], #[trigger] g.ids[j]) || lid_token_zeroed(g.ids[i])) by {
        assert(lid_pair_inv(g.ids[i], g.ids[j]));
    }
    assert forall|i: int| 0 <= i < g.ids.len() implies 0 <= (#[trigger] g.ids[i]).seq < g.issued.len() by {
        assert(lid_entry_inv(g.s, g.ids[i]));
    }
}

// every NEW_CONNECTION_ID frame written by on_transmit (contract: ncid_frame_is_entry for an entry that wanted
// transmission, ncid_frame_rpt_is_registry) obeys RFC 9000 19.15 "Retire Prior To <= Sequence Number"
proof fn c13_frame_never_retires_beyond_itself(g: Local, i: int, f: NcidFrame)
    requires inv(g), discipline(g), 0 <= i < g.ids.len(), lid_wants_transmit(g.ids[i]),
        ncid_frame_is_entry(f, g.ids[i]), ncid_frame_rpt_is_registry(f, g.s),
    ensures ncid_frame_rpt_le_seq(f), ncid_frame_rpt_le_issued(f, g.s),
{
    assert(lid_entry_rpt_inv(g.s, g.ids[i]));
}

// without the caller obligation only the weaker statement holds
proof fn c13_frame_only_retires_issued_ids(g: Local, f: NcidFrame)
    requires inv(g), ncid_frame_rpt_is_registry(f, g.s),
    ensures ncid_frame_rpt_le_issued(f, g.s),
{
}

// ---- every contracted operation preserves the invariant -----------------------------------------
proof fn step_new(s: Lidr, e: LidEntry) -> (g: Local)
    requires lidr_new_post(s, e), lid_entry_inv(s, e),
    ensures inv(g), discipline(g),
{
    let ids = Seq::<LidEntry>::empty().push(e);
    lemma_count_push(Seq::<LidEntry>::empty(), e);
    let g = Local { s: s, ids: ids, issued: Seq::<int>::empty().push(0int), peer_limit: 0 };
    g
}

// set_active_connection_id_limit(l): session_context.rs:423, once, with the peer's validated transport parameter
proof fn step_set_limit(g: Local, l: int, s_new: Lidr) -> (h: Local)
    requires inv(g), 2 <= l, lidr_set_limit_post(g.s, l, s_new),
        g.s.active <= imin2(l, 3),     // call site: limit is still 1, hence active <= 1
    ensures inv(h), h.peer_limit == l, discipline(g) ==> discipline(h),
{
    let h = Local { s: s_new, peer_limit: l, ..g };
    assert forall|i: int| 0 <= i < h.ids.len() implies #[trigger] lid_entry_inv(h.s, h.ids[i]) by {
        assert(lid_entry_inv(g.s, g.ids[i]));
    }
    if discipline(g) {
        assert forall|i: int| 0 <= i < h.ids.len() implies #[trigger] lid_entry_rpt_inv(h.s, h.ids[i]) by {
            assert(lid_entry_rpt_inv(g.s, g.ids[i]));
        }
    }
    h
}

// connection_id_interest() = New(k): registering k ids one after the other never violates the precondition
// of register_connection_id (the loop in connection_impl.rs:992-1008)
proof fn lemma_interest_allows_k_registrations(s: Lidr, k: int, done: int)
    requires lidr_inv(s), lidr_interest_exact(s, k), 0 <= done < k,
    ensures lidr_interest_within_limit(s, k), s.active + done < s.limit,
{
}

// register_connection_id(..) == Ok
proof fn step_register(g: Local, e: LidEntry, s_new: Lidr) -> (h: Local)
    requires inv(g),
        lidr_register_ok_counters(g.s, s_new), lidr_register_ok_entry(g.s, e),
        forall|i: int| 0 <= i < g.ids.len() ==> #[trigger] lidr_register_ok_fresh(g.ids[i], e),
        4 <= e.id_len <= 20, e.retire_at >= -1,
        // caller obligations
        g.s.active < g.s.limit, g.s.next_seq < u32_max(),
    ensures inv(h), h.ids == g.ids.push(e), h.issued == g.issued.push(g.s.next_seq),
        // with monotone retirement times the discipline is preserved as well
        (discipline(g) && (forall|i: int| 0 <= i < g.ids.len() ==> #[trigger] lid_pair_monotone(g.ids[i], e))) ==> discipline(h),
{
    lemma_count_push(g.ids, e);
    let h = Local { s: s_new, ids: g.ids.push(e), issued: g.issued.push(g.s.next_seq), ..g };
    assert forall|i: int| 0 <= i < h.ids.len() implies #[trigger] lid_entry_inv(h.s, h.ids[i]) by {
        if i < g.ids.len() { assert(lid_entry_inv(g.s, g.ids[i])); }
    }
    assert forall|i: int, j: int| 0 <= i < j < h.ids.len() implies #[trigger] lid_pair_inv(h.ids[i], h.ids[j]) by {
        if j < g.ids.len() { assert(lid_pair_inv(g.ids[i], g.ids[j])); } else { assert(lidr_register_ok_fresh(g.ids[i], e)); }
    }
    assert forall|k: int| 0 <= k < h.issued.len() implies #[trigger] h.issued[k] == k by {
        if k < g.issued.len() { assert(g.issued[k] == k); }
    }
    if discipline(g) && (forall|i: int| 0 <= i < g.ids.len() ==> #[trigger] lid_pair_monotone(g.ids[i], e)) {
        assert forall|i: int| 0 <= i < h.ids.len() implies #[trigger] lid_entry_rpt_inv(h.s, h.ids[i]) by {
            if i < g.ids.len() { assert(lid_entry_rpt_inv(g.s, g.ids[i])); }
        }
        assert forall|i: int, j: int| 0 <= i < j < h.ids.len() implies #[trigger] lid_pair_monotone(h.ids[i], h.ids[j]) by {
            if j < g.ids.len() { assert(lid_pair_monotone(g.ids[i], g.ids[j])); } else { assert(lid_pair_monotone(g.ids[i], e)); }
        }
    }
    h
}

// A step that only changes statuses (and possibly zeroes a token): what on_retire_connection_id, on_transmit,
// on_packet_ack, on_packet_loss and on_handshake_confirmed have in common.
pub open spec fn entry_step_ok(old: LidEntry, new: LidEntry) -> bool {
    new.seq == old.seq && lid_same_id(old, new) && (lid_same_token(old, new) || lid_token_zeroed(new))
        && new.retire_at == old.retire_at && 0 <= new.status <= 5 && lid_count1(new) <= lid_count1(old)
        && (new.seq != 0 || new.status >= lst_active())
}

proof fn lemma_retire_post_is_step(old: LidEntry, seq: int, new: LidEntry)
    requires lid_retire_entry_post(old, seq, new), 0 <= old.status <= 5, old.seq != 0 || old.status >= lst_active(),
    ensures entry_step_ok(old, new),
{
}
proof fn lemma_transmit_post_is_step(old: LidEntry, written: bool, new: LidEntry)
    requires lid_transmit_entry_post(old, written, new), 0 <= old.status <= 5, old.seq != 0 || old.status >= lst_active(), written ==> lid_wants_transmit(old),
    ensures entry_step_ok(old, new), lid_count1(new) == lid_count1(old),
{
}
proof fn lemma_ack_post_is_step(old: LidEntry, acked: bool, new: LidEntry)
    requires lid_ack_entry_post(old, acked, new), 0 <= old.status <= 5, old.seq != 0 || old.status >= lst_active(),
    ensures entry_step_ok(old, new), lid_count1(new) == lid_count1(old),
{
}
proof fn lemma_loss_post_is_step(old: LidEntry, lost: bool, new: LidEntry)
    requires lid_loss_entry_post(old, lost, new), 0 <= old.status <= 5, old.seq != 0 || old.status >= lst_active(),
    ensures entry_step_ok(old, new), lid_count1(new) == lid_count1(old),
{
}
proof fn lemma_rotate_post_is_step(old: LidEntry, rotate: bool, new: LidEntry)
    requires lid_rotate_entry_post(old, rotate, new), 0 <= old.status <= 5, old.seq != 0 || old.status >= lst_active(),
    ensures entry_step_ok(old, new),
{
}
proof fn lemma_timeout_post_is_step(old: LidEntry, ready: bool, new: LidEntry)
    requires lid_timeout_entry_post(old, ready, new), 0 <= old.status <= 5, old.seq != 0 || old.status >= lst_active(),
    ensures entry_step_ok(old, new),
{
}

// statuses change, retire_prior_to may grow up to next_seq
proof fn step_statuses(g: Local, ids_new: Seq<LidEntry>, s_new: Lidr) -> (h: Local)
    requires inv(g), ids_new.len() == g.ids.len(),
        forall|i: int| 0 <= i < g.ids.len() ==> entry_step_ok(g.ids[i], #[trigger] ids_new[i]),
        s_new.next_seq == g.s.next_seq, s_new.limit == g.s.limit, s_new.len == g.s.len,
        g.s.retire_prior_to <= s_new.retire_prior_to <= s_new.next_seq,
        s_new.active == count(ids_new),      // definition of the abstraction
    ensures inv(h), h.ids == ids_new, h.s == s_new, count(h.ids) <= count(g.ids),
{
    lemma_count_pointwise(g.ids, ids_new);
    lemma_count_bounds(ids_new);
    let h = Local { s: s_new, ids: ids_new, ..g };
    assert forall|i: int| 0 <= i < h.ids.len() implies #[trigger] lid_entry_inv(h.s, h.ids[i]) by {
        assert(lid_entry_inv(g.s, g.ids[i]));
        assert(entry_step_ok(g.ids[i], ids_new[i]));
    }
    assert forall|i: int, j: int| 0 <= i < j < h.ids.len() implies #[trigger] lid_pair_inv(h.ids[i], h.ids[j]) by {
        assert(lid_pair_inv(g.ids[i], g.ids[j]));
        assert(entry_step_ok(g.ids[i], ids_new[i]));
        assert(entry_step_ok(g.ids[j], ids_new[j]));
    }
    h
}

// the same step keeps the discipline if retire_prior_to does not move (retire, transmit, ack, loss)
proof fn step_statuses_keeps_discipline(g: Local, ids_new: Seq<LidEntry>, s_new: Lidr)
    requires inv(g), discipline(g), ids_new.len() == g.ids.len(),
        forall|i: int| 0 <= i < g.ids.len() ==> entry_step_ok(g.ids[i], #[trigger] ids_new[i]),
        s_new.retire_prior_to == g.s.retire_prior_to,
    ensures discipline(Local { s: s_new, ids: ids_new, ..g }),
{
    let h = Local { s: s_new, ids: ids_new, ..g };
    assert forall|i: int| 0 <= i < h.ids.len() implies #[trigger] lid_entry_rpt_inv(h.s, h.ids[i]) by {
        assert(lid_entry_rpt_inv(g.s, g.ids[i]));
        assert(entry_step_ok(g.ids[i], ids_new[i]));
    }
    assert forall|i: int, j: int| 0 <= i < j < h.ids.len() implies #[trigger] lid_pair_monotone(h.ids[i], h.ids[j]) by {
        assert(lid_pair_monotone(g.ids[i], g.ids[j]));
        assert(entry_step_ok(g.ids[i], ids_new[i]));
        assert(entry_step_ok(g.ids[j], ids_new[j]));
    }
}

// on_handshake_confirmed with rotation: the handshake id (sequence number 0) is retired, retire_prior_to >= 1
proof fn step_rotate_keeps_discipline(g: Local, ids_new: Seq<LidEntry>, s_new: Lidr, retired: bool)
    requires inv(g), discipline(g), ids_new.len() == g.ids.len(),
        forall|i: int| 0 <= i < g.ids.len() ==> lid_rotate_entry_post(g.ids[i], true, #[trigger] ids_new[i]),
        lidr_rotate_counters(g.s, s_new, retired),
        retired == (exists|i: int| 0 <= i < g.ids.len() && lid_rotate_target(#[trigger] g.ids[i])),
    ensures discipline(Local { s: s_new, ids: ids_new, ..g }),
{
    let h = Local { s: s_new, ids: ids_new, ..g };
    assert forall|i: int| 0 <= i < h.ids.len() implies #[trigger] lid_entry_rpt_inv(h.s, h.ids[i]) by {
        assert(lid_entry_rpt_inv(g.s, g.ids[i]));
        assert(lid_rotate_entry_post(g.ids[i], true, ids_new[i]));
        assert(lid_entry_inv(g.s, g.ids[i]));
    }
    assert forall|i: int, j: int| 0 <= i < j < h.ids.len() implies #[trigger] lid_pair_monotone(h.ids[i], h.ids[j]) by {
        assert(lid_pair_monotone(g.ids[i], g.ids[j]));
        assert(lid_rotate_entry_post(g.ids[i], true, ids_new[i]));
        assert(lid_rotate_entry_post(g.ids[j], true, ids_new[j]));
    }
}

// on_timeout, first half: ids whose retirement time has elapsed are retired and retire_prior_to moves past them.
// `elapsed(t)` is "retirement time t has elapsed at `now`" -- any predicate that is monotone in t.
pub open spec fn elapsed(t: int, now: int) -> bool { 0 <= t < now + 1000 }
pub open spec fn ready(e: LidEntry, now: int) -> bool { lid_counts(e) && elapsed(e.retire_at, now) }

proof fn step_timeout_retire_keeps_discipline(g: Local, now: int, ids_new: Seq<LidEntry>, s_new: Lidr, c: int)
    requires inv(g), discipline(g), ids_new.len() == g.ids.len(),
        forall|i: int| 0 <= i < g.ids.len() ==> lid_timeout_entry_post(g.ids[i], ready(g.ids[i], now), #[trigger] ids_new[i]),
        // c = max over the entries of lid_timeout_rpt_of
        forall|i: int| 0 <= i < g.ids.len() ==> c >= lid_timeout_rpt_of(#[trigger] g.ids[i], ready(g.ids[i], now)),
        c == 0 || (exists|i: int| 0 <= i < g.ids.len() && c == lid_timeout_rpt_of(#[trigger] g.ids[i], ready(g.ids[i], now))),
        s_new.retire_prior_to == imax2(g.s.retire_prior_to, c),
    ensures discipline(Local { s: s_new, ids: ids_new, ..g }), s_new.retire_prior_to <= g.s.next_seq,
{
    let h = Local { s: s_new, ids: ids_new, ..g };
    if c != 0 {
        let w = choose|i: int| 0 <= i < g.ids.len() && c == lid_timeout_rpt_of(#[trigger] g.ids[i], ready(g.ids[i], now));
        assert(lid_entry_inv(g.s, g.ids[w]));
        assert(ready(g.ids[w], now));
        assert forall|i: int| 0 <= i < h.ids.len() implies #[trigger] lid_entry_rpt_inv(h.s, h.ids[i]) by {
            assert(lid_entry_rpt_inv(g.s, g.ids[i]));
            assert(lid_timeout_entry_post(g.ids[i], ready(g.ids[i], now), ids_new[i]));
            if lid_counts(ids_new[i]) && ids_new[i].seq < c {
                // i is counted, not ready, and issued before w: contradiction with monotone retirement times
                assert(lid_timeout_entry_post(g.ids[w], ready(g.ids[w], now), ids_new[w]));
                assert(i != w);
                assert(!ready(g.ids[i], now));
                if i < w {
                    assert(lid_pair_inv(g.ids[i], g.ids[w]));
                    assert(lid_pair_monotone(g.ids[i], g.ids[w]));
                } else {
                    assert(lid_pair_inv(g.ids[w], g.ids[i]));
                }
                assert(false);
            }
        }
    } else {
        assert forall|i: int| 0 <= i < h.ids.len() implies #[trigger] lid_entry_rpt_inv(h.s, h.ids[i]) by {
            assert(lid_entry_rpt_inv(g.s, g.ids[i]));
            assert(lid_timeout_entry_post(g.ids[i], ready(g.ids[i], now), ids_new[i]));
        }
    }
    assert forall|i: int, j: int| 0 <= i < j < h.ids.len() implies #[trigger] lid_pair_monotone(h.ids[i], h.ids[j]) by {
        assert(lid_pair_monotone(g.ids[i], g.ids[j]));
        assert(lid_timeout_entry_post(g.ids[i], ready(g.ids[i], now), ids_new[i]));
        assert(lid_timeout_entry_post(g.ids[j], ready(g.ids[j], now), ids_new[j]));
    }
}

// on_timeout, second half (and Drop): a retired id whose removal time has passed leaves the registry
proof fn step_remove(g: Local, i: int, s_new: Lidr) -> (h: Local)
    requires inv(g), 0 <= i < g.ids.len(), !lid_counts(g.ids[i]),
        s_new == (Lidr { len: g.s.len - 1, ..g.s }),
    ensures inv(h), h.ids == g.ids.remove(i), count(h.ids) == count(g.ids), discipline(g) ==> discipline(h),
{
    lemma_count_remove(g.ids, i);
    lemma_count_bounds(g.ids.remove(i));
    let h = Local { s: s_new, ids: g.ids.remove(i), ..g };
    assert forall|k: int| 0 <= k < h.ids.len() implies #[trigger] lid_entry_inv(h.s, h.ids[k]) by {
        if k < i { assert(lid_entry_inv(g.s, g.ids[k])); } else { assert(lid_entry_inv(g.s, g.ids[k + 1])); }
    }
    assert forall|a: int, b: int| 0 <= a < b < h.ids.len() implies #[trigger] lid_pair_inv(h.ids[a], h.ids[b]) by {
        let a0 = if a < i { a } else { a + 1 };
        let b0 = if b < i { b } else { b + 1 };
        assert(lid_pair_inv(g.ids[a0], g.ids[b0]));
    }
    if discipline(g) {
        assert forall|k: int| 0 <= k < h.ids.len() implies #[trigger] lid_entry_rpt_inv(h.s, h.ids[k]) by {
            if k < i { assert(lid_entry_rpt_inv(g.s, g.ids[k])); } else { assert(lid_entry_rpt_inv(g.s, g.ids[k + 1])); }
        }
        assert forall|a: int, b: int| 0 <= a < b < h.ids.len() implies #[trigger] lid_pair_monotone(h.ids[a], h.ids[b]) by {
            let a0 = if a < i { a } else { a + 1 };
            let b0 = if b < i { b } else { b + 1 };
            assert(lid_pair_monotone(g.ids[a0], g.ids[b0]));
        }
    }
    h
}

// ================================================================================================
// receiving side
// ================================================================================================
pub struct Peer {
    pub s: Pidr,
    pub ids: Seq<PidEntry>,          // abstraction of registered_ids
    pub received: Seq<PidEntry>,     // ghost: the handshake id and every NEW_CONNECTION_ID frame accepted so far
}

pub open spec fn pcount(s: Seq<PidEntry>) -> int
    decreases s.len()
{
    if s.len() == 0 { 0 } else { pcount(s.drop_last()) + pid_count1(s.last()) }
}

pub open spec fn issued_by_peer(g: Peer, e: PidEntry) -> bool {
    exists|k: int| 0 <= k < g.received.len() && (#[trigger] g.received[k]).seq == e.seq && pid_same_id(g.received[k], e)
}

pub open spec fn pinv(g: Peer) -> bool {
    &&& g.s.len == g.ids.len() && g.s.active == pcount(g.ids)
    &&& pidr_inv(g.s)
    &&& forall|i: int| 0 <= i < g.ids.len() ==> #[trigger] pid_entry_inv(g.s, g.ids[i])
    &&& forall|i: int, j: int| 0 <= i < j < g.ids.len() ==> #[trigger] pid_pair_inv(g.ids[i], g.ids[j])
    // it only holds (and therefore only retires) ids the peer actually issued
    &&& forall|i: int| 0 <= i < g.ids.len() ==> #[trigger] issued_by_peer(g, g.ids[i])
}

proof fn c13_receiving_side_holds(g: Peer)
    requires pinv(g),
    ensures
        // never more active peer ids than the advertised active_connection_id_limit (RFC 9000 5.1.1)
        pcount(g.ids) <= pid_active_limit(),
        // a RETIRE_CONNECTION_ID frame carries the sequence number of a registered entry: an id the peer issued
        forall|i: int| 0 <= i < g.ids.len() ==> #[trigger] issued_by_peer(g, g.ids[i]),
        // ids below the largest Retire Prior To received are not used any more (RFC 9000 5.1.2)
        forall|i: int| 0 <= i < g.ids.len() ==> ((#[trigger] g.ids[i]).seq >= g.s.retire_prior_to || !pid_is_active(g.ids[i])),
{
    assert forall|i: int| 0 <= i < g.ids.len() implies ((#[trigger] g.ids[i]).seq >= g.s.retire_prior_to || !pid_is_active(g.ids[i])) by {
        assert(pid_entry_inv(g.s, g.ids[i]));
    }
}

proof fn lemma_pcount_push(s: Seq<PidEntry>, e: PidEntry)
    ensures pcount(s.push(e)) == pcount(s) + pid_count1(e),
{
    assert(s.push(e).drop_last() =~= s);
}

// register_initial_connection_id
proof fn step_peer_initial(e: PidEntry) -> (g: Peer)
    requires e.seq == 0, !e.has_tok, 0 <= e.id_len <= 20,
        e.status == pst_in_use() || e.status == pst_in_use_pending_new_connection_id(),
    ensures pinv(g),
{
    let ids = Seq::<PidEntry>::empty().push(e);
    lemma_pcount_push(Seq::<PidEntry>::empty(), e);
    let g = Peer { s: Pidr { retire_prior_to: 0, len: 1, active: 1 }, ids: ids, received: ids };
    assert(g.received[0].seq == e.seq && pid_same_id(g.received[0], e));
    assert(issued_by_peer(g, g.ids[0]));
    g
}

// on_new_connection_id(..) == Ok for a frame that is not a repetition: the new entry `e` is appended
proof fn step_peer_new_connection_id(g: Peer, n: PidEntry, frame_rpt: int, rotate_now: bool, ids_upd: Seq<PidEntry>, e: PidEntry, s_new: Pidr) -> (h: Peer)
    requires pinv(g), 0 <= n.seq <= u32_max(), 0 <= n.id_len <= 20, 0 <= frame_rpt <= u32_max(),
        // Ok is returned only if the frame conflicts with no registered entry ...
        forall|i: int| 0 <= i < g.ids.len() ==> !pid_frame_conflicts_with(#[trigger] g.ids[i], n),
        // ... and it is not a repetition of one
        forall|i: int| 0 <= i < g.ids.len() ==> !pid_frame_duplicate_of(#[trigger] g.ids[i], n),
        pidr_ncid_rpt(g.s, frame_rpt, s_new),
        ids_upd.len() == g.ids.len(),
        forall|i: int| 0 <= i < g.ids.len() ==> pid_ncid_entry_post(g.ids[i], s_new.retire_prior_to, rotate_now, #[trigger] ids_upd[i]),
        pid_ncid_new_entry(n, s_new.retire_prior_to, e), e.id_len == n.id_len,
        // Ok is returned only if the limits hold afterwards (else CONNECTION_ID_LIMIT_ERROR)
        s_new.len == g.s.len + 1, s_new.active == pcount(ids_upd.push(e)),
        s_new.active <= pid_active_limit(), s_new.len - s_new.active <= pid_retired_limit(),
    ensures pinv(h), h.ids == ids_upd.push(e),
{
    let ids = ids_upd.push(e);
    let h = Peer { s: s_new, ids: ids, received: g.received.push(n) };
    lemma_pcount_nonneg(ids);
    assert forall|i: int| 0 <= i < h.ids.len() implies #[trigger] pid_entry_inv(h.s, h.ids[i]) by {
        if i < g.ids.len() {
            assert(pid_entry_inv(g.s, g.ids[i]));
            assert(pid_ncid_entry_post(g.ids[i], s_new.retire_prior_to, rotate_now, ids_upd[i]));
        }
    }
    assert forall|i: int, j: int| 0 <= i < j < h.ids.len() implies #[trigger] pid_pair_inv(h.ids[i], h.ids[j]) by {
        assert(pid_ncid_entry_post(g.ids[i], s_new.retire_prior_to, rotate_now, ids_upd[i]));
        if j < g.ids.len() {
            assert(pid_pair_inv(g.ids[i], g.ids[j]));
            assert(pid_ncid_entry_post(g.ids[j], s_new.retire_prior_to, rotate_now, ids_upd[j]));
        } else {
            assert(!pid_frame_conflicts_with(g.ids[i], n));
            assert(!pid_frame_duplicate_of(g.ids[i], n));
        }
    }
    assert forall|i: int| 0 <= i < h.ids.len() implies #[trigger] issued_by_peer(h, h.ids[i]) by {
        if i < g.ids.len() {
            assert(issued_by_peer(g, g.ids[i]));
            let k = choose|k: int| 0 <= k < g.received.len() && (#[trigger] g.received[k]).seq == g.ids[i].seq && pid_same_id(g.received[k], g.ids[i]);
            assert(pid_ncid_entry_post(g.ids[i], s_new.retire_prior_to, rotate_now, ids_upd[i]));
            assert(h.received[k] == g.received[k]);
            assert(h.received[k].seq == h.ids[i].seq && pid_same_id(h.received[k], h.ids[i]));
        } else {
            let k = g.received.len() as int;
            assert(h.received[k] == n);
            assert(h.received[k].seq == h.ids[i].seq && pid_same_id(h.received[k], h.ids[i]));
        }
    }
    h
}

proof fn lemma_pcount_nonneg(s: Seq<PidEntry>)
    ensures 0 <= pcount(s) <= s.len(),
    decreases s.len(),
{
    if s.len() > 0 {
        lemma_pcount_nonneg(s.drop_last());
    }
}
