//@ verus props=C12 tier=quick kind=L spec=stream_send.rs,stream_id.rs timeout=300
// History lemmas for C12: from the function contracts of layer F to "what an endpoint sends on a stream
// is self-consistent", for every sequence of {push, finish, reset, transmit, ack, loss} of any length.
//
// Ghost state per stream:
//   s      abstraction of the DataSender (contracts/spec/stream_send.rs)
//   bytes  every byte the application ever pushed, in order (never shrinks; the real buffer releases
//          acknowledged prefixes and is cleared by a reset, the ghost keeps them)
//   wire   offset -> Some(byte) for every stream byte that was ever put into a STREAM frame, else None
//   sent_end  largest end offset of any STREAM frame so far
//   fin    Some(final size) once a frame with the FIN bit / a RESET_STREAM has announced it
//
// Where the requirements of a step come from (all layer F obligation names):
//   step_push      C12/data_sender.push/*            (snd_push_post; snd_push_pre is the caller's obligation)
//   step_finish    C12/data_sender.finish/*          (snd_finish_post)
//   step_transmit  C12/data_sender.on_transmit/*     (snd_chunk_ok, snd_fin_frame_ok, snd_transmit_post)
//                  C12/buffer.view/bytes_eq_stream   (the bytes of a view are the pushed bytes at those offsets)
//   step_ack_loss  C12/data_sender.on_packet_ack/*, on_packet_loss/*  (snd_ack_loss_post)
//   step_reset     C12/data_sender.stop_sending/*    (snd_stop_post) + the final size SendStream::init_reset
//                  announces = acquired connection window >= highest sent end (C03/L/c03_limits_hold);
//                  SendStream itself is tier 2 and enters here as a stated hypothesis.

pub struct Stream {
    pub s: Snd,
    pub bytes: Seq<int>,
    pub wire: spec_fn(int) -> Option<int>,
    pub sent_end: int,
    pub fin: Option<int>,
}

pub open spec fn inv(g: Stream) -> bool {
    &&& snd_inv(g.s)
    &&& 0 <= g.sent_end
    // while data can still be sent the abstraction's total is the number of bytes pushed
    &&& (g.s.st <= 1 ==> g.s.total == g.bytes.len())
    &&& g.sent_end <= g.bytes.len()
    // everything on the wire is a pushed byte at its own offset  (=> retransmissions are identical)
    &&& forall|o: int| #[trigger] (g.wire)(o).is_some() ==> 0 <= o < g.sent_end && (g.wire)(o).unwrap() == g.bytes[o]
    // an announced final size is never smaller than what was sent, and nothing was sent at/after it
    &&& (g.fin.is_some() ==> g.sent_end <= g.fin.unwrap())
    // FIN announced by a STREAM frame: no more pushes possible, final size = bytes pushed
    &&& (g.fin.is_some() && g.s.st <= 2 ==> g.s.st >= 1 && g.fin.unwrap() == g.bytes.len())
    // Sending: nothing announced yet
    &&& (g.s.st == 0 ==> g.fin.is_none())
}

pub open spec fn initial() -> Stream {
    Stream { s: Snd { st: 0, total: 0 }, bytes: Seq::empty(), wire: |o: int| None::<int>, sent_end: 0, fin: None }
}

proof fn step_initial() -> (g: Stream)
    ensures inv(g),
{
    initial()
}

// ---- push(data) -------------------------------------------------------------------------------
proof fn step_push(g: Stream, data: Seq<int>, new: Snd) -> (h: Stream)
    requires inv(g), data.len() > 0, snd_push_pre(g.s), snd_push_post(g.s, data.len() as int, new), snd_inv(new),
    ensures inv(h), h.bytes == g.bytes + data, h.wire == g.wire, h.fin == g.fin, h.sent_end == g.sent_end,
        // bytes already pushed keep their offsets: what was sent stays consistent
        forall|o: int| 0 <= o < g.bytes.len() ==> h.bytes[o] == g.bytes[o],
{
    let h = Stream { s: new, bytes: g.bytes + data, ..g };
    assert forall|o: int| #[trigger] (h.wire)(o).is_some() implies 0 <= o < h.sent_end && (h.wire)(o).unwrap() == h.bytes[o] by {
        assert((g.wire)(o).is_some());
    }
    h
}

// ---- finish() ---------------------------------------------------------------------------------
proof fn step_finish(g: Stream, new: Snd) -> (h: Stream)
    requires inv(g), snd_finish_post(g.s, new), snd_inv(new),
    ensures inv(h), h.bytes == g.bytes, h.wire == g.wire, h.fin == g.fin,
        // after finish() the precondition of push can never hold again: the final size is frozen
        !snd_push_pre(h.s),
{
    Stream { s: new, ..g }
}

// ---- on_transmit: one data chunk [off, off+len) with the bytes `data`, FIN bit `fin` ------------------
proof fn step_transmit_chunk(g: Stream, off: int, data: Seq<int>, fin: bool, new: Snd) -> (h: Stream)
    requires inv(g), snd_chunk_ok(g.s, off, data.len() as int, fin), snd_transmit_post(g.s, new), snd_inv(new),
        // C12/buffer.view/bytes_eq_stream: the view's bytes are the pushed bytes at those offsets
        forall|i: int| 0 <= i < data.len() ==> data[i] == g.bytes[off + i],
    ensures inv(h),
        // nothing at or beyond an already announced final size
        g.fin.is_some() ==> off + data.len() <= g.fin.unwrap(),
        // a byte that was on the wire before is re-sent unchanged
        forall|i: int| 0 <= i < data.len() && #[trigger] (g.wire)(off + i).is_some() ==> (g.wire)(off + i).unwrap() == data[i],
        // the announced final size never changes
        g.fin.is_some() ==> h.fin == g.fin,
        fin ==> h.fin == Some(off + data.len()),
{
    let end = off + data.len();
    let wire = |o: int| if off <= o < end { Some(data[o - off]) } else { (g.wire)(o) };
    let h = Stream {
        s: new,
        wire: wire,
        sent_end: if end > g.sent_end { end } else { g.sent_end },
        fin: if fin { Some(end) } else { g.fin },
        ..g
    };
    assert forall|o: int| #[trigger] (h.wire)(o).is_some() implies 0 <= o < h.sent_end && (h.wire)(o).unwrap() == h.bytes[o] by {
        if off <= o < end {
            assert(data[o - off] == g.bytes[off + (o - off)]);
        } else {
            assert((g.wire)(o).is_some());
        }
    }
    h
}

// ---- on_transmit: a FIN-only STREAM frame at `off` ------------------------------------------------------
proof fn step_transmit_fin(g: Stream, off: int, new: Snd) -> (h: Stream)
    requires inv(g), snd_fin_frame_ok(g.s, off), snd_transmit_post(g.s, new), snd_inv(new),
    ensures inv(h), h.fin == Some(off), g.fin.is_some() ==> h.fin == g.fin, off >= g.sent_end, h.wire == g.wire,
{
    Stream { s: new, fin: Some(off), ..g }
}

// ---- on_packet_ack / on_packet_loss ---------------------------------------------------------------------
proof fn step_ack_loss(g: Stream, new: Snd) -> (h: Stream)
    requires inv(g), snd_ack_loss_post(g.s, new), snd_inv(new),
    ensures inv(h), h.fin == g.fin, h.wire == g.wire, h.bytes == g.bytes,
{
    Stream { s: new, ..g }
}

// ---- reset: stop_sending + RESET_STREAM(final_size) ---------------------------------------------------------
// hypothesis from SendStream::init_reset (tier 2): it is a no-op once a reset was sent or the stream is
// Finished, and the final size it announces is the stream's acquired connection window, which is
// >= the highest sent end (C03) and -- if a FIN was already sent -- ... see `reset_after_fin_final_size` below
proof fn step_reset(g: Stream, final_size: int, new: Snd) -> (h: Stream)
    requires inv(g), g.s.st <= 1, snd_stop_post(g.s, new), snd_inv(new),
        final_size >= g.sent_end,
        g.fin.is_some() ==> final_size == g.fin.unwrap(),
    ensures inv(h), h.s.st == 3, h.fin == Some(final_size), g.fin.is_some() ==> h.fin == g.fin,
        final_size >= h.sent_end, h.wire == g.wire,
{
    Stream { s: new, fin: Some(final_size), ..g }
}

// after the reset no STREAM frame can follow: neither chunk nor FIN frame is permitted by the contracts
proof fn no_stream_frame_after_reset(g: Stream, off: int, len: int, fin: bool)
    requires inv(g), g.s.st == 3,
    ensures !snd_chunk_ok(g.s, off, len, fin), !snd_fin_frame_ok(g.s, off),
{
}

// Finished: everything including the FIN was acknowledged; nothing further is written either
proof fn no_stream_frame_after_finished(g: Stream, off: int, len: int, fin: bool)
    requires inv(g), g.s.st == 2,
    ensures !snd_chunk_ok(g.s, off, len, fin), !snd_fin_frame_ok(g.s, off),
{
}

// ---- the property, as a consequence of the invariant --------------------------------------------------------
proof fn c12_stream_consistent(g: Stream)
    requires inv(g),
    ensures
        // every byte ever sent for an offset is the byte the application wrote there
        forall|o: int| #[trigger] (g.wire)(o).is_some() ==> (g.wire)(o).unwrap() == g.bytes[o],
        // nothing was sent at or beyond the announced final size, which is >= everything sent
        g.fin.is_some() ==> (forall|o: int| #[trigger] (g.wire)(o).is_some() ==> o < g.fin.unwrap()),
        g.fin.is_some() ==> g.fin.unwrap() >= g.sent_end,
{
    assert forall|o: int| #[trigger] (g.wire)(o).is_some() implies (g.wire)(o).unwrap() == g.bytes[o] by {}
    if g.fin.is_some() {
        assert forall|o: int| #[trigger] (g.wire)(o).is_some() implies o < g.fin.unwrap() by {}
    }
}

// ---- stream ids: opened in increasing order per type, never reused ----------------------------------------------
// ghost: the ids of one type opened so far (in order) and the id the manager will use next
// (stream/manager.rs:305: `next_stream_ids[type] = stream_id.next_of_type()` -- glue, hypothesis of step_open)
pub struct Ids { pub opened: Seq<int>, pub next: Option<int>, pub ty: int }

pub open spec fn ids_inv(g: Ids) -> bool {
    &&& 0 <= g.ty < 4
    &&& forall|i: int| 0 <= i < g.opened.len() ==> sid_valid(#[trigger] g.opened[i]) && sid_type_bits(g.opened[i]) == g.ty
    &&& forall|i: int, j: int| 0 <= i < j < g.opened.len() ==> #[trigger] g.opened[i] < #[trigger] g.opened[j]
    &&& (g.next.is_some() ==> sid_valid(g.next.unwrap()) && sid_type_bits(g.next.unwrap()) == g.ty)
    &&& (g.next.is_some() ==> forall|i: int| 0 <= i < g.opened.len() ==> #[trigger] g.opened[i] < g.next.unwrap())
}

proof fn ids_initial(client: bool, bidi: bool, first: int) -> (g: Ids)
    requires sid_initial_post(client, bidi, first),
    ensures ids_inv(g), g.opened.len() == 0, g.next == Some(first),
{
    Ids { opened: Seq::empty(), next: Some(first), ty: sid_type_of(client, bidi) }
}

// opening a stream uses `next` and stores next_of_type(next) (contract: sid_next_post)
proof fn ids_open(g: Ids, some: bool, r: int) -> (h: Ids)
    requires ids_inv(g), g.next.is_some(), sid_next_post(g.next.unwrap(), some, r),
    ensures ids_inv(h), h.opened == g.opened.push(g.next.unwrap()),
        // the new id is larger than every id of that type opened before => never reused
        forall|i: int| 0 <= i < g.opened.len() ==> g.opened[i] < g.next.unwrap(),
        !some ==> h.next.is_none(),
{
    let id = g.next.unwrap();
    let h = Ids { opened: g.opened.push(id), next: if some { Some(r) } else { None }, ty: g.ty };
    if some {
        assert(r == id + 4);
        assert((id + 4) % 4 == id % 4) by (nonlinear_arith) requires id >= 0;
    }
    assert forall|i: int, j: int| 0 <= i < j < h.opened.len() implies #[trigger] h.opened[i] < #[trigger] h.opened[j] by {
        if j == g.opened.len() { assert(g.opened[i] < id); }
    }
    h
}

proof fn ids_never_reused(g: Ids, i: int, j: int)
    requires ids_inv(g), 0 <= i < g.opened.len(), 0 <= j < g.opened.len(), i != j,
    ensures g.opened[i] != g.opened[j],
{
    if i < j { assert(g.opened[i] < g.opened[j]); } else { assert(g.opened[j] < g.opened[i]); }
}
