//@ verus props=C08 tier=quick kind=L spec=packet_number.rs,ack_ranges.rs timeout=300
// History lemmas for C08: from the function contracts asserted by layer F (contracts/spec/packet_number.rs,
// contracts/spec/ack_ranges.rs, transliterated above) to
//   (1) "every ACK frame an endpoint sends acknowledges only packet numbers it has actually received and
//        successfully processed in that packet-number space"  -- for all arrival orders, duplicates, losses;
//   (2) "packet numbers on the wire strictly increase within a space";
//   (3) "the peer, knowing only the largest number acknowledged so far, reconstructs exactly the number sent".
// (Prompt acknowledgement -- the timer part of the statement -- is a per-call obligation of layer F, not a history fact.)
//
// STATUS of the layer-F side: parts (2) and (3) use exactly the predicates discharged by
// contracts/kani/transport/c08_tx_packet_numbers.rs and contracts/kani/core/c08_packet_number.rs.  Part (1) is stated over
// the ack_ranges.rs predicates (am_processed_subset_at, am_ack_only_removes_at, am_frame_is_ranges_at), for which NO
// registered Kani harness exists: the AckManager / ack::Ranges harnesses (probes/kani_injected_c08_ack_manager.rs,
// probes/kani_injected_c08_ack_ranges.rs) time out in CBMC.  Part (1) is therefore a conditional result: "if the three
// operations satisfy these one-step contracts, every ACK names only processed packets, for every history".

// =====================================================================================================
// (1) ACK ranges are a subset of the processed packet numbers
// =====================================================================================================
pub struct Rx {
    pub ranges: Set<int>,         // abstraction of AckManager.ack_ranges (pointwise `member` of layer F)
    pub processed: Set<int>,      // ghost: every packet number ever handed to on_processed_packet
}

pub open spec fn rx_inv(g: Rx) -> bool { g.ranges.subset_of(g.processed) }

// what layer F asserts for the three operations, quantified over the symbolic witness q
pub open spec fn processed_contract(old_r: Set<int>, pn: int, new_r: Set<int>) -> bool {
    forall|q: int| 0 <= q ==> am_processed_subset_at(pn, q, old_r.contains(q), #[trigger] new_r.contains(q))
}
pub open spec fn ack_of_ack_contract(old_r: Set<int>, new_r: Set<int>) -> bool {
    forall|q: int| 0 <= q ==> am_ack_only_removes_at(q, old_r.contains(q), #[trigger] new_r.contains(q))
}
pub open spec fn transmit_contract(old_r: Set<int>, new_r: Set<int>, frame: Set<int>) -> bool {
    &&& forall|q: int| 0 <= q ==> am_frame_is_ranges_at(q, old_r.contains(q), #[trigger] frame.contains(q))
    &&& forall|q: int| 0 <= q ==> am_transmit_ranges_unchanged_at(q, old_r.contains(q), #[trigger] new_r.contains(q))
}
// packet numbers are non-negative: the sets only ever contain such numbers
pub open spec fn nonneg(s: Set<int>) -> bool { forall|q: int| #[trigger] s.contains(q) ==> 0 <= q }

proof fn step_rx_new() -> (g: Rx)
    ensures rx_inv(g), nonneg(g.ranges), g.processed =~= Set::<int>::empty(),
{
    Rx { ranges: Set::empty(), processed: Set::empty() }
}

proof fn step_processed_packet(g: Rx, pn: int, new_r: Set<int>) -> (h: Rx)
    requires rx_inv(g), nonneg(g.ranges), nonneg(new_r), 0 <= pn, processed_contract(g.ranges, pn, new_r),
    ensures rx_inv(h), h.ranges == new_r, h.processed =~= g.processed.insert(pn),
{
    let h = Rx { ranges: new_r, processed: g.processed.insert(pn) };
    assert forall|q: int| #[trigger] new_r.contains(q) implies h.processed.contains(q) by {
        assert(am_processed_subset_at(pn, q, g.ranges.contains(q), new_r.contains(q)));
    }
    h
}

proof fn step_ack_of_ack(g: Rx, new_r: Set<int>) -> (h: Rx)
    requires rx_inv(g), nonneg(new_r), ack_of_ack_contract(g.ranges, new_r),
    ensures rx_inv(h), h.ranges == new_r, h.processed == g.processed,
{
    let h = Rx { ranges: new_r, processed: g.processed };
    assert forall|q: int| #[trigger] new_r.contains(q) implies h.processed.contains(q) by {
        assert(am_ack_only_removes_at(q, g.ranges.contains(q), new_r.contains(q)));
    }
    h
}

proof fn step_transmit_ack(g: Rx, new_r: Set<int>, frame: Set<int>) -> (h: Rx)
    requires rx_inv(g), nonneg(new_r), nonneg(frame), transmit_contract(g.ranges, new_r, frame),
    ensures rx_inv(h), h.ranges == new_r, h.processed == g.processed,
        // the property: the ACK frame names only processed packets
        frame.subset_of(g.processed),
{
    let h = Rx { ranges: new_r, processed: g.processed };
    assert forall|q: int| #[trigger] new_r.contains(q) implies h.processed.contains(q) by {
        assert(am_transmit_ranges_unchanged_at(q, g.ranges.contains(q), new_r.contains(q)));
    }
    assert forall|q: int| #[trigger] frame.contains(q) implies g.processed.contains(q) by {
        assert(am_frame_is_ranges_at(q, g.ranges.contains(q), frame.contains(q)));
    }
    h
}

// ---- all histories ---------------------------------------------------------------------------------
pub enum RxOp { Processed(int), AckOfAck, Transmit(Set<int>) }   // Transmit carries the frame that was written
pub struct RxEv { pub op: RxOp, pub after: Set<int> }

pub open spec fn rx_ev_ok(r: Set<int>, e: RxEv) -> bool {
    &&& nonneg(e.after)
    &&& match e.op {
        RxOp::Processed(pn) => 0 <= pn && processed_contract(r, pn, e.after),
        RxOp::AckOfAck => ack_of_ack_contract(r, e.after),
        RxOp::Transmit(frame) => nonneg(frame) && transmit_contract(r, e.after, frame),
    }
}
pub open spec fn rx_run_ok(r: Set<int>, trace: Seq<RxEv>) -> bool
    decreases trace.len(),
{
    if trace.len() == 0 { true } else { rx_ev_ok(r, trace[0]) && rx_run_ok(trace[0].after, trace.subrange(1, trace.len() as int)) }
}
// all packet numbers processed in trace[0..k)
pub open spec fn rx_processed_upto(trace: Seq<RxEv>, k: int) -> Set<int>
    decreases k,
{
    if k <= 0 { Set::empty() } else {
        match trace[k - 1].op {
            RxOp::Processed(pn) => rx_processed_upto(trace, k - 1).insert(pn),
            _ => rx_processed_upto(trace, k - 1),
        }
    }
}

proof fn lemma_rx_prefix(trace: Seq<RxEv>, k: int) -> (g: Rx)
    requires rx_run_ok(Set::empty(), trace), 0 <= k <= trace.len(),
    ensures rx_inv(g), nonneg(g.ranges), g.processed =~= rx_processed_upto(trace, k),
        g.ranges == (if k == 0 { Set::<int>::empty() } else { trace[k - 1].after }),
        k < trace.len() ==> rx_ev_ok(g.ranges, trace[k]),
    decreases k,
{
    lemma_run_ok_at(Set::empty(), trace, k);
    if k == 0 {
        step_rx_new()
    } else {
        let g = lemma_rx_prefix(trace, k - 1);
        let e = trace[k - 1];
        match e.op {
            RxOp::Processed(pn) => step_processed_packet(g, pn, e.after),
            RxOp::AckOfAck => step_ack_of_ack(g, e.after),
            RxOp::Transmit(frame) => step_transmit_ack(g, e.after, frame),
        }
    }
}

// unfolding rx_run_ok at position k
proof fn lemma_run_ok_at(r: Set<int>, trace: Seq<RxEv>, k: int)
    requires rx_run_ok(r, trace), 0 <= k <= trace.len(),
    ensures k < trace.len() ==> rx_ev_ok(if k == 0 { r } else { trace[k - 1].after }, trace[k]),
    decreases trace.len(),
{
    if k < trace.len() && k > 0 {
        let rest = trace.subrange(1, trace.len() as int);
        lemma_run_ok_at(trace[0].after, rest, k - 1);
        assert(rest[k - 1] == trace[k]);
        if k - 1 > 0 { assert(rest[k - 2] == trace[k - 1]); }
    }
}

// C08 (1): in every history -- any arrival order, gaps, duplicates, losses of ACKs -- each ACK frame written names only
// packet numbers that were processed before it
proof fn c08_every_ack_names_only_processed_packets(trace: Seq<RxEv>, k: int, frame: Set<int>)
    requires rx_run_ok(Set::empty(), trace), 0 <= k < trace.len(), trace[k].op == RxOp::Transmit(frame),
    ensures frame.subset_of(rx_processed_upto(trace, k)),
{
    let g = lemma_rx_prefix(trace, k);
    let h = step_transmit_ack(g, trace[k].after, frame);
}

// =====================================================================================================
// (2) packet numbers on the wire strictly increase within a space
// =====================================================================================================
pub struct Tx { pub s: TxPn, pub wire: Seq<int> }      // ghost: the packet numbers put on the wire, in order

pub open spec fn tx_inv(g: Tx) -> bool {
    &&& txpn_inv(g.s)
    &&& forall|i: int, j: int| 0 <= i < j < g.wire.len() ==> g.wire[i] < g.wire[j]
    &&& forall|i: int| 0 <= i < g.wire.len() ==> 0 <= #[trigger] g.wire[i] < g.s.next
}

proof fn step_tx_new() -> (g: Tx)
    ensures tx_inv(g),
{
    Tx { s: TxPn { next: 0, acked: 0, has_skip: false, skip: 0 }, wire: Seq::empty() }
}

// pn >= next is the call-site fact of on_transmit (the space passes next() or next() advanced by skipped numbers)
proof fn step_tx_on_transmit(g: Tx, pn: int, s2: TxPn) -> (h: Tx)
    requires tx_inv(g), g.s.next <= pn < pn_max(),
        txpn_on_transmit_next_is_pn_plus_one(g.s, pn, s2), txpn_on_transmit_strictly_increasing(g.s, pn, s2),
        txpn_on_transmit_frame(g.s, pn, s2),
    ensures tx_inv(h), h.wire == g.wire.push(pn), h.s.next > g.s.next,
        // never reused: the new number differs from every earlier one
        forall|i: int| 0 <= i < g.wire.len() ==> g.wire[i] < pn,
{
    Tx { s: s2, wire: g.wire.push(pn) }
}

proof fn step_tx_on_packet_ack(g: Tx, lo: int, hi: int, lowest_tracking: int, ok: bool, s2: TxPn) -> (h: Tx)
    requires tx_inv(g), 0 <= lo <= hi,
        txpn_on_ack_ok_iff_only_sent(g.s, lo, hi, ok), txpn_on_ack_largest_is_max(g.s, hi, ok, s2),
        txpn_on_ack_largest_below_next(g.s, ok, s2), txpn_on_ack_next_unchanged(g.s, s2),
        txpn_on_ack_skip(g.s, ok, lowest_tracking, s2),
    ensures tx_inv(h), h.wire == g.wire,
        // the truncation basis only moves forward and, once an ACK was accepted, names a number below next
        h.s.acked >= g.s.acked, ok ==> h.s.acked < h.s.next,
        // an ACK naming a number that was never put on the wire because it is >= next is refused
        hi >= g.s.next ==> !ok,
{
    Tx { s: s2, wire: g.wire }
}

// =====================================================================================================
// (3) truncation / reconstruction
// =====================================================================================================
// RFC 9000 A.3 is correct: whenever pn lies in the window around the receiver's largest, decoding the low bits gives pn
proof fn c08_rfc_a3_reconstructs_inside_window(pn: int, r: int, bits: int)
    requires 0 <= pn <= pn_max(), 0 <= r <= pn_max(), pn_bits_valid(bits), pn_in_decode_window(pn, r, bits),
    ensures pn_decode_rfc(r, pn % pn_win(bits), bits) == pn,
{
    let win = pn_win(bits);
    let e = r + 1;
    let t = pn % win;
    let cand = pn_decode_candidate(r, t, bits);
    // cand and pn agree modulo win and both lie within one window of e
    assert(cand == e - e % win + t);
    assert(pn == (pn / win) * win + t) by { lemma_div_mod(pn, win); }
    assert(e == (e / win) * win + e % win) by { lemma_div_mod(e, win); }
    let a = pn / win;
    let b = e / win;
    assert(cand == b * win + t);
    // |pn - e| <= hwin  ==>  a - b in {-1, 0, 1}
    assert(-1 <= a - b <= 1) by {
        lemma_mul_bounds(a, b, win, t, e % win, pn, e);
    }
    if a == b {
    } else if a == b + 1 {
        assert(pn == cand + win) by { lemma_mul_dist(a, b, win); }
    } else {
        assert(pn == cand - win) by { lemma_mul_dist(a, b, win); }
    }
}

proof fn lemma_div_mod(x: int, d: int)
    requires 0 <= x, d > 0,
    ensures x == (x / d) * d + x % d, 0 <= x % d < d,
{
    assert(x == d * (x / d) + x % d) by (nonlinear_arith) requires d > 0;
    assert(0 <= x % d < d) by (nonlinear_arith) requires d > 0;
    assert((x / d) * d == d * (x / d)) by (nonlinear_arith);
}

proof fn lemma_mul_dist(a: int, b: int, w: int)
    ensures (b + 1) * w == b * w + w, (b - 1) * w == b * w - w,
{
    assert((b + 1) * w == b * w + w) by (nonlinear_arith);
    assert((b - 1) * w == b * w - w) by (nonlinear_arith);
}

proof fn lemma_mul_bounds(a: int, b: int, w: int, t: int, m: int, pn: int, e: int)
    requires w > 0, 0 <= t < w, 0 <= m < w, pn == a * w + t, e == b * w + m, pn > e - w / 2 - 1, pn <= e + w / 2, w / 2 + w / 2 == w || w / 2 + w / 2 == w - 1,
    ensures -1 <= a - b <= 1,
{
    assert(-1 <= a - b <= 1) by (nonlinear_arith)
        requires w > 0, 0 <= t < w, 0 <= m < w, pn == a * w + t, e == b * w + m, pn > e - w, pn < e + w;
}

// the coupling with the sender's state: the sender truncates against the largest number it has seen acknowledged (la);
// the receiver, which must have processed la for it to be acknowledged, holds some largest r with la <= r; if the packet is
// the newest one the receiver sees (r < pn) the wire bits decode to pn -- consequence of truncate's contract + RFC A.3 alone
proof fn c08_peer_reconstructs_from_largest_acked(pn: int, la: int, r: int, bits: int)
    requires 0 <= la <= r, r < pn <= pn_max(),
        pn_truncate_representable(pn, la),
        pn_truncate_window_more_than_twice_distance(pn, la, bits),
    ensures pn_decode_rfc(r, pn % pn_win(bits), bits) == pn,
{
    assert(pn_in_decode_window(pn, r, bits));
    c08_rfc_a3_reconstructs_inside_window(pn, r, bits);
}
