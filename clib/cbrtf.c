// nondeterministic model of libm cbrtf: only sign/finite-ness is assumed
float __VERIFIER_nondet_float(void);
float cbrtf(float x) {
  float r = __VERIFIER_nondet_float();
  __CPROVER_assume(!(r != r));
  if (x >= 0.0f) __CPROVER_assume(r >= 0.0f && r <= x + 1.0f);
  else __CPROVER_assume(r <= 0.0f && r >= x - 1.0f);
  return r;
}
