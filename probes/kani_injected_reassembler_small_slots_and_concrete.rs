use super::*;

fn small_alloc(_offset: u64) -> usize { 8 }

const N: usize = 12;

/// real Reassembler + real Slot, allocation size scaled down to 8 bytes
#[kani::proof]
#[kani::unwind(6)]
#[kani::stub(Reassembler::allocation_size, small_alloc)]
fn reassembler_small_slots_two_writes() {
    let stream: [u8; N] = kani::any();
    let mut r = Reassembler::new();
    let mut mask: u16 = 0;
    let mut w = 0;
    while w < 2 {
        let off: usize = kani::any();
        let len: usize = kani::any();
        kani::assume(off < N && len >= 1 && len <= 3 && off + len <= N);
        let res = r.write_at(VarInt::new(off as u64).unwrap(), &stream[off..off + len]);
        assert!(res.is_ok(), "C16/reassembler.write/ok");
        if len >= 1 { mask |= 1 << off; }
        if len >= 2 { mask |= 1 << (off + 1); }
        if len >= 3 { mask |= 1 << (off + 2); }
        w += 1;
    }
    // contiguous prefix length by model
    let k = (!mask).trailing_zeros() as usize;
    assert!(r.len() == k, "C16/reassembler.len/contiguous_prefix");
    let mut got = 0;
    let mut rounds = 0;
    while rounds < 3 {
        if let Some(chunk) = r.pop() {
            let cl = chunk.len();
            assert!(got + cl <= k, "C16/reassembler.pop/within_prefix");
            if cl >= 1 { assert!(chunk[0] == stream[got], "C16/reassembler.pop/bytes_eq_stream"); }
            if cl >= 2 { assert!(chunk[cl - 1] == stream[got + cl - 1], "C16/reassembler.pop/bytes_eq_stream"); }
            got += cl;
        }
        rounds += 1;
    }
    assert!(got == k, "C16/reassembler.pop/all_of_prefix");
    assert!(r.consumed_len() == k as u64, "C16/reassembler.consumed_len");
}

/// concrete control (offsets/lengths), symbolic contents, REAL allocation sizes
#[kani::proof]
#[kani::unwind(6)]
fn reassembler_concrete_scenario() {
    let stream: [u8; N] = kani::any();
    let mut r = Reassembler::new();
    // out of order: [5,8) then [0,3) then [3,5)
    assert!(r.write_at(VarInt::from_u8(5), &stream[5..8]).is_ok());
    assert!(r.len() == 0, "C16/reassembler.len/contiguous_prefix");
    assert!(r.write_at(VarInt::from_u8(0), &stream[0..3]).is_ok());
    assert!(r.len() == 3, "C16/reassembler.len/contiguous_prefix");
    assert!(r.write_at(VarInt::from_u8(3), &stream[3..5]).is_ok());
    assert!(r.len() == 8, "C16/reassembler.len/contiguous_prefix");
    let chunk = r.pop().unwrap();
    assert!(chunk.len() == 8, "C16/reassembler.pop/all_of_prefix");
    let i: usize = kani::any();
    kani::assume(i < 8);
    assert!(chunk[i] == stream[i], "C16/reassembler.pop/bytes_eq_stream");
    assert!(r.consumed_len() == 8, "C16/reassembler.consumed_len");
}
