//@ inject crate=core src=quic/s2n-quic-core/src/interval_set/mod.rs
// OUTCOME: helper for kani_injected_c08_ack_ranges.rs (see there); not registered.
// Builder / observer helper for harnesses that live in other modules (contracts/kani/core/c08_ack_ranges.rs,
// contracts/kani/transport/c08_ack_manager.rs): `IntervalSet::intervals` is private to this module
// (AUTHORING "A field private to another module").  No harness in this file; nothing here is called by production code.
use super::*;

impl<T: Copy> IntervalSet<T> {
    /// appends the stored interval [start, end] without any check (state builder)
    pub(crate) fn verif_push_back(&mut self, start: T, end: T) {
        self.intervals.push_back(Interval { start, end });
    }

    /// the i-th stored interval (observer for the abstraction function)
    pub(crate) fn verif_get(&self, i: usize) -> Option<(T, T)> {
        match self.intervals.get(i) {
            Some(x) => Some((x.start, x.end)),
            None => None,
        }
    }
}
