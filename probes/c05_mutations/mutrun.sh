#!/bin/bash
# usage: mutrun.sh <patchname> <tier> <harness,list>
set -u
export VERIF_REPO=/root/w/c05/repo VERIF_JOBS=3 VERIF_SCRATCH=/var/tmp/aws_s2n_quic_verif_c05
cd /root/w/c05/repo && git checkout -- . && git apply /root/w/c05/tmp/mut/$1.patch || exit 9
cd /root/w/c05/verif
bin/check C05 --tier $2 --only $3 --no-replay > /root/w/c05/tmp/mut/$1.out 2>&1
echo "exit=$?" >> /root/w/c05/tmp/mut/$1.out
cd /root/w/c05/repo && git checkout -- .
grep -E "VIOLATION|UNDECIDED|exit=|obligations," /root/w/c05/tmp/mut/$1.out | cut -c1-400
