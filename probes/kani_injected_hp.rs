use super::*;
use crate::{crypto::payload::{EncryptedPayload, ProtectedPayload}, packet::number::{PacketNumberLen, PacketNumberSpace}};
use s2n_codec::DecoderBufferMut;

/// RFC 9001 5.4.1: remove(apply(p)) == p on the first byte and the packet number bytes,
/// only the low 4 (long) / 5 (short) bits of the first byte are masked, nothing else changes.
#[kani::proof]
#[kani::unwind(14)]
fn header_protection_roundtrip() {
    const H: usize = 3;            // header bytes before the packet number
    let mask: HeaderProtectionMask = kani::any();
    let orig: [u8; 12] = kani::any();
    let space = PacketNumberSpace::ApplicationData;
    // the packet number length is encoded in the two low bits of the first byte
    let pn_len = PacketNumberLen::from_packet_tag(orig[0], space);
    let mut buf = orig;
    {
        let payload = EncryptedPayload::new(H, pn_len, &mut buf);
        let _ = apply_header_protection(mask, payload);
    }
    // only masked bits of byte 0 may differ
    let m0 = if orig[0] & 0x80 == 0x80 { 0x0f } else { 0x1f };
    assert!((buf[0] ^ orig[0]) & !m0 == 0, "C06/header_protection.apply/only_masked_bits_of_first_byte");
    let n = pn_len.bytesize();
    let mut i = 0;
    while i < 12 {
        if i >= 1 && (i < H || i >= H + n) { assert!(buf[i] == orig[i], "C06/header_protection.apply/frame"); }
        if i >= H && i < H + n { assert!(buf[i] == orig[i] ^ mask[1 + i - H], "C06/header_protection.apply/pn_xor_mask"); }
        i += 1;
    }
    let res = remove_header_protection(space, mask, ProtectedPayload::new(H, &mut buf));
    assert!(res.is_ok(), "C06/header_protection.remove/ok");
    let (tpn, _enc) = res.unwrap();
    assert!(tpn.len() == pn_len, "C06/header_protection.remove/pn_len_recovered");
    let mut j = 0;
    while j < 12 { assert!(buf[j] == orig[j], "C06/header_protection.roundtrip/identity"); j += 1; }
}
