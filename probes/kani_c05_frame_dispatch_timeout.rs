// C05 frame tag-dispatch / totality harnesses through `FrameMut` that did NOT finish (CBMC timeout 1500 s each on the
// shared machine, load 30-60 on 16 cores; vq_c05_frame_dispatch_multi_byte_types reached 11.7 GB):
//   vq_c05_frame_decode_total (arbitrary input <= 24 bytes, then <= 16 bytes, any first byte; removed)
//   vq_c05_frame_dispatch_single_byte_types / vq_c05_frame_dispatch_multi_byte_types (below)
// Reason: CBMC follows every arm of the 23-way tag dispatch (the first byte is never a constant once the slice length
// is symbolic), including the ACK-range and PADDING loops, and the `Frame` enum (~100 bytes) is copied through four
// `Result` layers per arm.  What IS discharged instead: every frame decoder separately, invoked the way its dispatch
// arm invokes it (c05_frames_*.rs), and `ProtectedPacket::decode` totality (c05_total.rs).  NOT discharged: that
// `decode_frame` maps each first byte to the arm RFC 9000 Table 3 prescribes.
// To try again: append to contracts/kani/core/c05_total.rs (uses rfc_frame_kind / real_frame_kind there).

/// One decode through `FrameMut` with a literal first byte on a buffer of literal length (24 bytes: every frame
/// type can succeed, NEW_CONNECTION_ID needs 21): with both literal, symbolic execution follows only the arm of the
/// tag dispatch that this first byte selects (see c05_frames_fixed.rs `run_decoder` for why that matters).
fn dispatch_one(first: u8) {
    let mut bytes: [u8; 24] = kani::any();
    bytes[0] = first;
    let r = DecoderBufferMut::new(&mut bytes[..]).decode::<FrameMut>();
    if let Ok((frame, rest)) = &r {
        // a frame occupies at least its type byte: the caller's `while !payload.is_empty()` loop terminates
        assert!(rest.len() < 24, "C05/frame.tot/ok_consumes_at_least_one_byte");
        let kind = real_frame_kind(frame);
        // 12.4 Table 3: the frame type selects the frame
        assert!(kind != 0 && kind != 100 && kind == rfc_frame_kind(first), "C05/frame.tot/variant_follows_rfc_type_table");
    }
    // 12.4: "An endpoint MUST treat the receipt of a frame of unknown type as a connection error"
    assert!(rfc_frame_kind(first) != 0 || r.is_err(), "C05/frame.tot/unknown_single_byte_type_rejected");
}

//@ harness props=C05 tier=thorough level=bounded timeout=1500 bound="every first byte 0x00..=0x3f (all single-byte frame types, defined or not) followed by 23 arbitrary bytes"
//@ fn FrameDecoder::decode_frame
//@ fn Frame::decode_mut
#[kani::proof]
#[kani::unwind(27)]
fn vq_c05_frame_dispatch_single_byte_types() {
    let pick: u8 = kani::any();
    kani::assume(pick < 64);
    // 64 calls with a literal first byte each
    unroll!(64, t, {
        if pick as usize == t {
            dispatch_one(t as u8);
        }
    });
    kani::cover!(pick == 0x00, "reach:padding");
    kani::cover!(pick == 0x03, "reach:ack_ecn");
    kani::cover!(pick == 0x1e, "reach:handshake_done");
    kani::cover!(pick == 0x1f, "reach:first_undefined_type");
    kani::cover!(pick == 0x31, "reach:datagram");
    kani::cover!(pick == 0x3f, "reach:last_single_byte_type");
    kani::cover!(true, "reach:end");
}

//@ harness props=C05 tier=thorough level=bounded timeout=1500 bound="every first byte 0x40..=0xff (multi-byte frame types) followed by 7 arbitrary bytes"
//@ fn FrameDecoder::decode_frame
//@ fn FrameDecoder::handle_extension_frame
//@ fn Frame::decode_mut
#[kani::proof]
#[kani::unwind(11)]
fn vq_c05_frame_dispatch_multi_byte_types() {
    let mut bytes: [u8; 8] = kani::any();
    kani::assume(bytes[0] >= 0x40);
    let first = bytes[0];
    let r = DecoderBufferMut::new(&mut bytes[..]).decode::<FrameMut>();
    if let Ok((frame, rest)) = &r {
        assert!(rest.len() < 8, "C05/frame.tot/ok_consumes_at_least_one_byte");
        // RFC 9000 defines no frame type above 0x3f (RFC 9221: 0x30/0x31); what this implementation accepts behind a
        // multi-byte type are its own private extension frames only
        assert!(real_frame_kind(frame) == 100, "C05/frame.tot/extension_frames_only_behind_multi_byte_types");
        assert!(first >= 0x80, "C05/frame.tot/extension_types_need_at_least_the_four_byte_form");
    }
    kani::cover!(matches!(&r, Ok((Frame::MtuProbingComplete(_), _))), "reach:extension_frame");
    kani::cover!(r.is_err() && first >= 0xc0, "reach:rejected_eight_byte_type");
    kani::cover!(true, "reach:end");
}

