#[cfg(kani)]
mod verif_kani {
    use super::*;

    #[kani::proof]
    fn multiplicative_decrease_floor() {
        let mds: u16 = kani::any();
        kani::assume(mds >= 1200 && mds <= 9000);
        let mut cubic = Cubic::new(mds);
        let w_last_max: f32 = kani::any();
        kani::assume(w_last_max >= 0.0 && w_last_max <= 1.0e9);
        cubic.w_last_max = w_last_max;
        let cwnd: f32 = kani::any();
        kani::assume(cwnd >= cubic.minimum_window() && cwnd <= 4.0e9);
        let r = cubic.multiplicative_decrease(cwnd);
        assert!(r >= cubic.minimum_window());
        assert!(r <= cwnd);
    }
}
