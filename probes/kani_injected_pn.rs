use super::*;

#[kani::proof]
fn pn_truncate_expands_for_all_receiver_largest() {
    let space = PacketNumberSpace::ApplicationData;
    let max = crate::varint::MAX_VARINT_VALUE;
    let pn: u64 = kani::any();
    let la: u64 = kani::any();
    let r: u64 = kani::any();
    kani::assume(pn <= max && la <= max && r <= max);
    let pn_ = space.new_packet_number(VarInt::new(pn).unwrap());
    let la_ = space.new_packet_number(VarInt::new(la).unwrap());
    let r_ = space.new_packet_number(VarInt::new(r).unwrap());
    match pn_.truncate(la_) {
        None => {
            // only when not representable: pn < la or 2*(pn-la) >= 2^32
            assert!(pn < la || 2 * (pn as u128 - la as u128) > 0xffff_ffff, "C08/pn.truncate/none_only_if_unrepresentable");
        }
        Some(t) => {
            let win: u64 = 1u64 << t.bitsize();
            let hwin = win / 2;
            assert!(2 * (pn - la) < win, "C08/pn.truncate/window_more_than_twice_distance");
            // receiver may hold any largest r with la <= r and pn within (r+1-hwin, r+1+hwin]
            if r >= la && pn + hwin > r + 1 && pn <= r + 1 + hwin {
                assert!(t.expand(r_).as_u64() == pn, "C08/pn.truncate/expands_for_all_receiver_largest");
            }
            kani::cover!(r > pn, "reach:reordered");
            kani::cover!(pn == max, "reach:max");
        }
    }
}
