// appended as child of crate::frame
use super::*;
use crate::varint::VarInt;
use s2n_codec::{DecoderBufferMut, EncoderBuffer, Encoder, EncoderValue};

fn spec_varint(buf: &mut [u8; 32], at: usize, x: u64) -> usize {
    if x <= 63 { buf[at] = x as u8; 1 }
    else if x <= 16383 { buf[at] = 0x40 | (x >> 8) as u8; buf[at + 1] = x as u8; 2 }
    else if x <= 1073741823 { buf[at] = 0x80 | (x >> 24) as u8; buf[at+1] = (x >> 16) as u8; buf[at+2] = (x >> 8) as u8; buf[at+3] = x as u8; 4 }
    else { let mut i = 0; while i < 8 { buf[at + i] = (x >> (56 - 8 * i)) as u8; i += 1; } buf[at] |= 0xC0; 8 }
}

/// RFC 9000 19.10: MAX_STREAM_DATA { Type (i) = 0x11, Stream ID (i), Maximum Stream Data (i) }
/// RFC 9000 19.4:  RESET_STREAM    { Type (i) = 0x04, Stream ID (i), Application Protocol Error Code (i), Final Size (i) }
#[kani::proof]
#[kani::unwind(27)]
fn frame_max_stream_data_and_reset_stream_vs_rfc() {
    let max = crate::varint::MAX_VARINT_VALUE;
    let a: u64 = kani::any(); let b: u64 = kani::any(); let c: u64 = kani::any();
    kani::assume(a <= max && b <= max && c <= max);
    let which: bool = kani::any();
    let mut spec = [0u8; 32];
    let mut n = 1;
    if which {
        spec[0] = 0x11;
        n += spec_varint(&mut spec, n, a);
        n += spec_varint(&mut spec, n, b);
    } else {
        spec[0] = 0x04;
        n += spec_varint(&mut spec, n, a);
        n += spec_varint(&mut spec, n, b);
        n += spec_varint(&mut spec, n, c);
    }
    let va = VarInt::new(a).unwrap(); let vb = VarInt::new(b).unwrap(); let vc = VarInt::new(c).unwrap();
    let mut out = [0u8; 32];
    let used = {
        let mut e = EncoderBuffer::new(&mut out);
        if which {
            let f = MaxStreamData { stream_id: va, maximum_stream_data: vb };
            assert!(f.encoding_size() == n, "C05/max_stream_data.enc/len_announced");
            e.encode(&f);
        } else {
            let f = ResetStream { stream_id: va, application_error_code: vb, final_size: vc };
            assert!(f.encoding_size() == n, "C05/reset_stream.enc/len_announced");
            e.encode(&f);
        }
        e.len()
    };
    assert!(used == n, "C05/frame.enc/len");
    let mut i = 0;
    while i < 25 { if i < n { assert!(out[i] == spec[i], "C05/frame.enc/bytes_eq_spec"); } i += 1; }
    // decode the SPEC bytes with the real decoder
    let (frame, rest) = DecoderBufferMut::new(&mut spec[..n]).decode::<FrameMut>().unwrap();
    assert!(rest.is_empty(), "C05/frame.dec/consumes_all");
    match frame {
        Frame::MaxStreamData(f) => assert!(which && f.stream_id == va && f.maximum_stream_data == vb, "C05/max_stream_data.dec/value"),
        Frame::ResetStream(f) => assert!(!which && f.stream_id == va && f.application_error_code == vb && f.final_size == vc, "C05/reset_stream.dec/value"),
        _ => assert!(false, "C05/frame.dec/right_variant"),
    }
}
