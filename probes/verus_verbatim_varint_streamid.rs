use vstd::prelude::*;
verus! {

pub const MAX_VARINT_VALUE: u64 = 4_611_686_018_427_387_903;

#[derive(Clone, Copy)]
pub struct VarIntError;

#[derive(Clone, Copy)]
pub struct VarInt(pub u64);

impl VarInt {
    pub open spec fn wf(self) -> bool { self.0 <= MAX_VARINT_VALUE }

    #[inline(always)]
    pub fn new(v: u64) -> (r: Result<Self, VarIntError>)
        ensures v <= MAX_VARINT_VALUE ==> r is Ok && r->Ok_0.0 == v, v > MAX_VARINT_VALUE ==> r is Err
    {
        if v > MAX_VARINT_VALUE {
            return Err(VarIntError);
        }
        Ok(Self(v))
    }

    #[inline]
    pub fn checked_add(self, value: Self) -> (r: Option<Self>)
        ensures (self.0 + value.0 <= MAX_VARINT_VALUE) ==> r == Some(VarInt((self.0 + value.0) as u64)),
    {
        Self::new(self.0.checked_add(value.0)?).ok()
    }

    #[inline]
    #[must_use]
    pub fn saturating_sub(self, value: Self) -> (r: Self)
        ensures r.0 == if self.0 >= value.0 { self.0 - value.0 } else { 0 }
    {
        Self(self.0.saturating_sub(value.0))
    }
}

pub fn nth(initial: u64, n: u64) -> (r: Option<VarInt>)
    requires initial < 4
    ensures n * 4 + initial <= MAX_VARINT_VALUE ==> r == Some(VarInt((n*4+initial) as u64))
{
    let id = VarInt::new(n.checked_mul(4)?.checked_add(initial)?).ok()?;
    Some(id)
}

}
fn main() {}
