use super::*;

struct Gen(u8);
impl random::Generator for Gen {
    fn public_random_fill(&mut self, dest: &mut [u8]) { let mut i = 0; while i < dest.len() { dest[i] = self.0; i += 1; } }
    fn private_random_fill(&mut self, dest: &mut [u8]) { let mut i = 0; while i < dest.len() { dest[i] = self.0; i += 1; } }
}

#[kani::proof]
#[kani::unwind(66)]
fn stateless_reset_encode_smaller_than_trigger() {
    let token = stateless_reset::Token::from([0xAB; 16]);
    let trigger: usize = kani::any();
    let tag_len: usize = kani::any();
    kani::assume(tag_len <= 32);
    let mut buf = [0u8; 64];
    let blen: usize = kani::any();
    kani::assume(blen <= 64);
    let mut g = Gen(kani::any());
    let r = encode_packet(token, tag_len, trigger, &mut g, &mut buf[..blen]);
    let min_len = min_indistinguishable_packet_len(tag_len);
    let max_len = core::cmp::min(trigger.saturating_sub(1), blen);
    match r {
        Some(n) => {
            assert!(n < trigger, "C11/stateless_reset.encode/smaller_than_trigger");
            assert!(n <= blen && n >= min_len, "C11/stateless_reset.encode/len_in_range");
            assert!(buf[0] & 0xC0 == 0x40, "C11/stateless_reset.encode/short_header_bits");
            assert!(buf[n - 1] == 0xAB && buf[n - 16] == 0xAB, "C11/stateless_reset.encode/token_at_end");
        }
        None => assert!(max_len < min_len, "C11/stateless_reset.encode/none_only_if_impossible"),
    }
}
