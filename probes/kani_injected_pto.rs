use super::*;

#[kani::proof]
fn rtt_pto_period_formula() {
    let srtt_us: u32 = kani::any();
    let var_us: u32 = kani::any();
    let mad_ms: u16 = kani::any();
    let backoff: u32 = kani::any();
    kani::assume(srtt_us >= 1 && srtt_us <= 4_000_000 && var_us <= 4_000_000 && mad_ms < 16384 && backoff >= 1 && backoff <= 1 << 16);
    let mut e = RttEstimator::new(Duration::from_micros(srtt_us as u64));
    e.rttvar = Duration::from_micros(var_us as u64);
    e.max_ack_delay = Duration::from_millis(mad_ms as u64);
    let app: bool = kani::any();
    let space = if app { PacketNumberSpace::ApplicationData } else { PacketNumberSpace::Handshake };
    let p = e.pto_period(backoff, space).as_micros();
    let base = srtt_us as u128 + core::cmp::max(4 * var_us as u128, 1000) + if app { mad_ms as u128 * 1000 } else { 0 };
    assert!(p == core::cmp::max(base * backoff as u128, 1000), "C09/rtt.pto_period/formula");
    assert!(p >= 1000, "C09/rtt.pto_period/at_least_granularity");
    if backoff <= 1 << 15 {
        let p2 = e.pto_period(2 * backoff, space).as_micros();
        assert!(p2 == 2 * p, "C09/rtt.pto_period/doubles_with_backoff");
    }
}
