use super::*;
use crate::packet::number::PacketNumberSpace;

/// model: right edge e (if any) and a symbolic witness q; seen(q) defined from the bitmap
fn model_seen(w: &SlidingWindow, q: u64) -> Option<bool> {
    // None = outside knowledge (too old)
    let e = match w.right_edge { Some(e) => e.as_u64(), None => return Some(false) };
    if q > e { return Some(false); }
    if q == e { return Some(true); }
    let d = e - q;
    if d > 128 { return None; }
    Some((w.window >> (d - 1)) & 1 == 1)
}

#[kani::proof]
fn sliding_window_insert_inner_vs_model() {
    let space = PacketNumberSpace::ApplicationData;
    let max = crate::varint::MAX_VARINT_VALUE;
    let has_edge: bool = kani::any();
    let e: u64 = kani::any();
    let bits: u128 = kani::any();
    kani::assume(e <= max);
    // bits older than packet number 0 cannot be set in a reachable state
    if e < 128 { kani::assume(bits >> e == 0); }
    let mut w = SlidingWindow { window: if has_edge { bits } else { 0 }, right_edge: if has_edge { Some(space.new_packet_number(VarInt::new(e).unwrap())) } else { None } };
    let pn: u64 = kani::any();
    let q: u64 = kani::any();
    kani::assume(pn <= max && q <= max);
    let before_pn = model_seen(&w, pn);
    let before_q = model_seen(&w, q);
    let chk = w.check(space.new_packet_number(VarInt::new(pn).unwrap()));
    match before_pn {
        Some(false) => assert!(chk.is_ok(), "C16/sliding_window.check/ok_iff_unseen_in_window"),
        Some(true) => assert!(chk == Err(SlidingWindowError::Duplicate), "C16/sliding_window.check/duplicate_iff_seen"),
        None => assert!(chk == Err(SlidingWindowError::TooOld), "C16/sliding_window.check/too_old_outside_window"),
    }
    let res = w.insert_with_evicted_inner(space.new_packet_number(VarInt::new(pn).unwrap()));
    assert!(res.is_ok() == chk.is_ok(), "C16/sliding_window.insert/ok_iff_check_ok");
    let after_q = model_seen(&w, q);
    if res.is_ok() {
        if q == pn { assert!(after_q == Some(true), "C16/sliding_window.insert/adds_pn"); }
        else if let (Some(b), Some(a)) = (before_q, after_q) { assert!(a == b, "C16/sliding_window.insert/others_unchanged"); }
        // never "forget" into unseen: anything seen before is seen or too old afterwards
        if before_q == Some(true) { assert!(after_q != Some(false), "C16/sliding_window.insert/no_resurrection"); }
    } else {
        assert!(after_q == before_q, "C16/sliding_window.insert/error_leaves_unchanged");
    }
}
