#[cfg(kani)]
mod verif_kani {
    use super::*;

    /// arbitrary well-formed set with <= 2 intervals over u8
    fn any_set2() -> IntervalSet<u8> {
        let mut set = IntervalSet::new();
        let n: u8 = 2;
        let s0: u8 = kani::any();
        let e0: u8 = kani::any();
        let s1: u8 = kani::any();
        let e1: u8 = kani::any();
        kani::assume(s0 <= e0 && s1 <= e1 && e0 < u8::MAX - 1 && s1 > e0 + 1);
        if n >= 1 { set.intervals.push_back(Interval { start: s0, end: e0 }); }
        if n >= 2 { set.intervals.push_back(Interval { start: s1, end: e1 }); }
        set
    }

    fn member(set: &IntervalSet<u8>, v: u8) -> bool {
        let mut i = 0;
        let mut r = false;
        while i < set.intervals.len() {
            let iv = set.intervals[i];
            if iv.start <= v && v <= iv.end { r = true; }
            i += 1;
        }
        r
    }

    #[kani::proof]
    #[kani::unwind(4)]
    #[kani::solver(kissat)]
    fn insert_one_step() {
        let mut set = any_set2();
        let v: u8 = kani::any();
        let before = member(&set, v);
        let a: u8 = kani::any();
        let b: u8 = kani::any();
        kani::assume(a <= b);
        let res = set.insert(a..=b);
        assert!(res.is_ok());
        assert!(member(&set, v) == (before || (a <= v && v <= b)));
        assert!(set.intervals.len() <= 3);
    }
}
